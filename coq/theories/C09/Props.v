(* C09 — property theorems only. *)
From Coq Require Import QArith Qround List Bool Lia.
Import ListNotations.
From AF Require Import C09.Model.
Open Scope Q_scope.

Lemma qmin_le a b : qmin a b <= a /\ qmin a b <= b.
Proof.
  unfold qmin. destruct (Qle_bool a b) eqn:E; [apply Qle_bool_iff in E; split; [apply Qle_refl|exact E]|].
  split; [|apply Qle_refl]. destruct (Qlt_le_dec b a) as [H|H]; [apply Qlt_le_weak, H|apply Qle_bool_iff in H; congruence].
Qed.
Lemma qmin_is a b : qmin a b == a \/ qmin a b == b.
Proof. unfold qmin. destruct (Qle_bool a b); [left|right]; reflexivity. Qed.
Lemma qmax_ge a b : a <= qmax a b /\ b <= qmax a b.
Proof.
  unfold qmax. destruct (Qle_bool a b) eqn:E; [apply Qle_bool_iff in E; split; [exact E|apply Qle_refl]|].
  split; [apply Qle_refl|]. destruct (Qlt_le_dec b a) as [H|H]; [apply Qlt_le_weak, H|apply Qle_bool_iff in H; congruence].
Qed.
Lemma qmax_is a b : qmax a b == a \/ qmax a b == b.
Proof. unfold qmax. destruct (Qle_bool a b); [right|left]; reflexivity. Qed.

(* the table: with sound leaf answers, every non-UNKNOWN verdict holds at every point of the box *)
Theorem C09_table_sound : forall point (inbox : point -> Prop) lt gt f,
  lt_sound point inbox lt f -> gt_sound point inbox gt f -> holds point inbox (table lt gt) f.
Proof.
  intros point inbox lt gt f Hl Hg. destruct lt, gt; cbn; auto.
  intros p Hp. apply Qle_antisym; [apply Hg|apply Hl]; auto.
Qed.
Print Assumptions C09_table_sound.

(* Min / Max: any / all preserve soundness *)
Theorem C09_min_max_sound : forall point (inbox : point -> Prop) f g lf lg gf gg,
  lt_sound point inbox lf f -> lt_sound point inbox lg g -> gt_sound point inbox gf f -> gt_sound point inbox gg g ->
  lt_sound point inbox (lt_min [lf; lg]) (fun p => qmin (f p) (g p)) /\ gt_sound point inbox (gt_min [gf; gg]) (fun p => qmin (f p) (g p))
  /\ lt_sound point inbox (lt_max [lf; lg]) (fun p => qmax (f p) (g p)) /\ gt_sound point inbox (gt_max [gf; gg]) (fun p => qmax (f p) (g p)).
Proof.
  intros point inbox f g lf lg gf gg Hlf Hlg Hgf Hgg. unfold lt_sound, gt_sound, lt_min, gt_min, lt_max, gt_max in *. cbn.
  repeat split; intros E p Hp.
  - destruct lf, lg; try discriminate. destruct (qmin_is (f p) (g p)) as [->| ->]; auto.
  - destruct (qmin_le (f p) (g p)) as [A B]. destruct gf; [destruct gg; [discriminate|]; eapply Qle_trans; [exact B|auto]|eapply Qle_trans; [exact A|auto]].
  - destruct (qmax_ge (f p) (g p)) as [A B]. destruct lf; [destruct lg; [discriminate|]; eapply Qle_trans; [|exact B]; auto|eapply Qle_trans; [|exact A]; auto].
  - destruct gf, gg; try discriminate. destruct (qmax_is (f p) (g p)) as [->| ->]; auto.
Qed.
Print Assumptions C09_min_max_sound.

(* __or__: each operand implies the combination *)
Theorem C09_or_sound : forall point (inbox : point -> Prop) a b f,
  (holds point inbox a f -> holds point inbox (vor a b) f) /\ (holds point inbox b f -> holds point inbox (vor a b) f).
Proof.
  intros point inbox a b f. split; destruct a, b; cbn; auto; intros H p Hp; rewrite (H p Hp); apply Qle_refl.
Qed.
Print Assumptions C09_or_sound.

(* UNKNOWN is always allowed *)
Theorem C09_unknown_allowed : forall point (inbox : point -> Prop) f, holds point inbox Unknown f.
Proof. intros. exact I. Qed.
Print Assumptions C09_unknown_allowed.

(* ---- the three unsound steps of the unchanged code, by witness *)
(* ceiling erasure: f(x) = ceil(x/2) - x/2 - 1/4 on x in [1,3]; the erased formula -1/4 is "always <= 0", f(1) = +1/4 *)
Definition qceil (q : Q) : Q := inject_Z (- Qfloor (- q)).
Definition f_ceil (x : Z) : Q := qceil (inject_Z x / 2) - inject_Z x / 2 - (1 # 4).
Definition f_erased (x : Z) : Q := inject_Z x / 2 - inject_Z x / 2 - (1 # 4).
Theorem C09_ceiling_erasure_refuted :
  (forall x, (1 <= x <= 3)%Z -> f_erased x <= 0) /\ ~ (f_ceil 1 <= 0).
Proof.
  split.
  - intros x _. unfold f_erased. setoid_replace (inject_Z x / 2 - inject_Z x / 2 - (1 # 4)) with (- (1 # 4)) by ring. discriminate.
  - vm_compute. intro H. apply H. reflexivity.
Qed.
Print Assumptions C09_ceiling_erasure_refuted.

(* one substitution for all Heaviside terms: f = H(a) - H(b); both substitutions give 0 ("always = 0"), but H(a)=1, H(b)=0 gives 1 *)
Theorem C09_heaviside_refuted : let f (ha hb : Q) := ha - hb in
  f 1 1 == 0 /\ f 0 0 == 0 /\ ~ (f 1 0 == 0).
Proof. cbn. repeat split; try ring. vm_compute. discriminate. Qed.
Print Assumptions C09_heaviside_refuted.

(* corner plugging: sound when the formula keeps one sign on the box; each TERM keeping its sign is not enough:
   (5 - x) + (-x) on [1,3]: both terms keep their sign, the value at the lower corner is 3 > 0, at x = 3 it is -1 *)
Theorem C09_corner_needs_sign_constant_formula :
  (forall point (inbox : point -> Prop) (f : point -> Q) lo,
     inbox lo -> 0 < f lo -> ((forall p, inbox p -> 0 <= f p) \/ (forall p, inbox p -> f p <= 0)) -> forall p, inbox p -> 0 <= f p)
  /\ (let t1 (x : Z) := 5 - inject_Z x in let t2 (x : Z) := - inject_Z x in
      (forall x, (1 <= x <= 3)%Z -> 0 <= t1 x /\ t2 x <= 0) /\ 0 < t1 1%Z + t2 1%Z /\ t1 3%Z + t2 3%Z < 0).
Proof.
  split.
  - intros point inbox f lo Hlo Hpos [H|H] p Hp; [auto|]. exfalso. specialize (H lo Hlo). apply (Qlt_irrefl 0). eapply Qlt_le_trans; eassumption.
  - cbn. split; [|split; vm_compute; reflexivity]. intros x Hx.
    assert (E : (x = 1 \/ x = 2 \/ x = 3)%Z) by lia. destruct E as [->|[->| ->]]; split; vm_compute; intro H; discriminate H.
Qed.
Print Assumptions C09_corner_needs_sign_constant_formula.

(* the leaf oracle is part of the trusted base for a reason (finding F15): with the answers sympy 1.14 really gives for
   f(s0, s1) = -11/2 + 12/(s0*s1) on [4,5] x [4,7] - "cannot be negative", "may be positive" - the table returns AlwaysGeq,
   which is false at (4, 4) *)
Theorem C09_unsound_leaf_refuted :
  let f (p : Z * Z) := - (11 # 2) + 12 / (inject_Z (fst p) * inject_Z (snd p)) in
  let inbox (p : Z * Z) := (4 <= fst p <= 5 /\ 4 <= snd p <= 7)%Z in
  table false true = AlwaysGeq /\ inbox (4, 4)%Z /\ ~ holds (Z * Z) inbox (table false true) f.
Proof.
  cbn zeta. split; [reflexivity|]. split; [cbn; lia|]. cbn [table holds]. intro H. specialize (H (4, 4)%Z). cbn [fst snd] in H.
  assert (4 <= 4 <= 5 /\ 4 <= 4 <= 7)%Z as I by lia. specialize (H I). vm_compute in H. apply H. reflexivity.
Qed.
Print Assumptions C09_unsound_leaf_refuted.
