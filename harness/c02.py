"""C02 — the returned Pareto front is complete and contains no dominated mapping."""
import json
import math
import os
from fractions import Fraction

import common
import gen_mini as G
import mini_space as S
import mapper_ref as R
import c01
from common import coq_Z, coq_list

TRUSTED = c01.TRUSTED[:3] + [
    "front theory: AF.Lib.Front (front_complete / front_minimal / front_nodup) over integer vectors; the harness scales the exact rational objective vectors of the enumerated mapspace "
    "by a common denominator before handing them to the Coq front (an order isomorphism)",
    "RESOURCE_USAGE variant: one usage coordinate per finite memory (bits reserved as accelforge computes them / size)",
]


def dominates(a, b, tol=0.0):
    return all(x <= y + tol * max(1, abs(y)) for x, y in zip(a, b)) and any(x < y - tol * max(1, abs(y)) for x, y in zip(a, b))


def pfront(vecs):
    vs = sorted(set(vecs))
    return [v for v in vs if not any(dominates(w, v) for w in vs)]


OBJ = {"ENERGY": lambda e, l: e, "LATENCY": lambda e, l: l, "ENERGY_DELAY_PRODUCT": lambda e, l: e * l}


def vec_of_row(row, spec, with_usage, objs=("ENERGY", "LATENCY")):
    v = [OBJ[o](row["Total<SEP>energy"], row["Total<SEP>latency"]) for o in objs]
    if with_usage:
        for l, L in enumerate(spec["levels"]):
            if L["size"] is not None:
                us = [x for c, x in row.items() if c.startswith(f"reservation<SEP>{L['name']}<SEP>")]
                v.append(max(us) if us else 0.0)
    return tuple(v)


def ref_vectors(spec, ref, with_usage, objs=("ENERGY", "LATENCY")):
    out = []
    for m, e, l in ref:
        v = [OBJ[o](e, l) for o in objs]
        if with_usage:
            bits = S.usage_code(spec, m)
            for lv, L in enumerate(spec["levels"]):
                if L["size"] is not None:
                    v.append(Fraction(bits.get(lv, 0), L["size"]))
        out.append((tuple(v), m))
    return out


def run(ck):
    af, evaluate_mapping = R.load()
    ck.prove()
    rng = ck.rng("specs")
    d = common.BUILD / "run" / f"c02-{os.getpid()}"
    d.mkdir(parents=True, exist_ok=True)
    exprs, keys = [], []
    dist = {"front_sizes": [], "returned_rows": [], "with_usage": 0, "metric_sets": {}}
    for i in range(ck.n(16, 120)):
        spec, space = R.gen_search_spec(rng, max_space=ck.n(3000, 20000))
        ref = R.reference(spec, space)
        if not ref:
            continue
        with_usage = i % 3 == 2 and any(L["size"] is not None for L in spec["levels"])
        dist["with_usage"] += with_usage
        objs = ("ENERGY", "LATENCY")
        if i % 4 == 3 and not with_usage:
            objs = ("ENERGY_DELAY_PRODUCT", "ENERGY") if i % 8 == 3 else ("ENERGY_DELAY_PRODUCT", "LATENCY")
        dist["metric_sets"]["|".join(objs)] = dist["metric_sets"].get("|".join(objs), 0) + 1
        metrics = list(objs) + (["RESOURCE_USAGE"] if with_usage else [])
        res = R.run_mapper(af, spec, d, metrics)
        rv = ref_vectors(spec, ref, with_usage, objs)
        fr = pfront([v for v, _ in rv])
        dist["front_sizes"].append(len(fr))
        ck.case(json.dumps([spec, metrics], sort_keys=True, default=str), nontrivial=len(fr) >= 2,
                sample={"bounds": spec["bounds"], "metrics": metrics, "reference_front": [[float(x) for x in v] for v in fr][:6]})
        if res["error"] is not None:
            ck.failing_input({"spec": spec, "metrics": metrics, "mapper_error": res["error"], "arch_yaml": S.arch_yaml(spec), "workload_yaml": G.workload_yaml(spec)},
                             what=f"the mapper raised ({res['error'][:80]}) although valid mappings exist")
            continue
        got = [vec_of_row(r, spec, with_usage, objs) for r in res["rows"]]
        dist["returned_rows"].append(len(got))
        bad = []
        for a_i, a in enumerate(got):
            for b_i, b in enumerate(got):
                if a_i != b_i and dominates(b, a, 1e-6):
                    bad.append(f"returned mapping {a_i} {a} is strictly dominated by returned mapping {b_i} {b}")
                if a_i < b_i and all(R.close(x, y, 1e-7) for x, y in zip(a, b)):
                    bad.append(f"returned mappings {a_i} and {b_i} have identical objective vectors {a}")
        lost = None
        for v in fr:
            if not any(all(g <= float(x) * (1 + 1e-5) + 1e-9 for g, x in zip(gv, v)) for gv in got):
                lost = v
                break
        if lost is not None:
            m_lost = [m for v, m in rv if v == lost][0]
            conf = c01.confirm_with_model(af, evaluate_mapping, spec, m_lost, d)
            bad.append(f"valid mapping with objectives {[float(x) for x in lost]} is not weakly dominated by any returned mapping (real evaluation of that mapping: {conf})")
        for gv in got:
            if not any(all(float(x) <= g * (1 + 1e-5) + 1e-9 for g, x in zip(gv, v)) for v in fr):
                bad.append(f"returned objective vector {gv} is below the front of the whole mapspace (invalid mapping or mis-reported metric)")
        if bad:
            ck.failing_input({"spec": spec, "metrics": metrics, "returned": got, "reference_front": [[float(x) for x in v] for v in fr], "problems": bad[:5],
                              "lost_mapping": G.mapping_yaml(spec, m_lost) if lost is not None else None, "arch_yaml": S.arch_yaml(spec), "workload_yaml": G.workload_yaml(spec)},
                             what="Pareto front: " + bad[0][:200])
        # Coq front on the scaled vectors of the enumerated space
        den = 1
        for v, _ in rv:
            for x in v:
                den = den * x.denominator // math.gcd(den, x.denominator)
        ints = sorted({tuple(int(x * den) for x in v) for v, _ in rv})
        if len(ints) <= 400:
            exprs.append(f"front {coq_list(ints, lambda v: coq_list(v, coq_Z))}")
            keys.append((spec, sorted(tuple(int(x * den) for x in v) for v in fr)))
    vals = common.run_coq_eval("C02", ["AF.Lib.Pareto", "AF.Lib.Front"], exprs, chunk=4, preamble="Open Scope Z_scope.")
    mism = [{"coq": str(v)[:300], "twin": str(k)[:300]} for (spec, k), v in zip(keys, vals) if sorted(tuple(x) for x in v) != k]
    ck.count("coq_front_vs_twin_compared", len(keys))
    ck.count("coq_front_vs_twin_mismatches", len(mism))
    if mism and not ck.violations:
        ck.unexplained("broken-correspondence", {"mismatches": mism[:2]}, what="Coq front and python front disagree")
    dist["front_sizes"] = {"max": max(dist["front_sizes"] or [0]), "mean": sum(dist["front_sizes"]) / max(1, len(dist["front_sizes"]))}
    dist["returned_rows"] = {"max": max(dist["returned_rows"] or [0]), "mean": sum(dist["returned_rows"]) / max(1, len(dist["returned_rows"]))}
    return ck.finish(
        rule="random single-Einsum specs as in C01; map_workload_to_arch with ENERGY|LATENCY (every third case also RESOURCE_USAGE; every fourth ENERGY_DELAY_PRODUCT with ENERGY or with LATENCY); returned objective vectors checked for "
             "mutual non-dominance, distinctness, and completeness against the Pareto front of the exhaustively enumerated mapspace; non-trivial = the reference front has >= 2 points",
        trusted=TRUSTED,
        extra={"input_distribution": dist,
               "source_fingerprint": [common.fingerprint("accelforge/mapper/FFM/_join_pmappings/pmapping_dataframe.py", ["PmappingDataframe"]),
                                      common.fingerprint("accelforge/mapper/FFM/_pareto_df/pareto.py", ["makepareto"])]})


def replay(ck, data):
    print("replay: re-run ./check C02 with the recorded seed (the failing spec is in the replay file)")
    return 0
