"""C09 — symbolic sign and monotonicity verdicts hold at every point of the box."""
import itertools
import json
import signal
from fractions import Fraction

import common

TRUSTED = [
    "Coq (C09/Model.v): the verdict combinators as coded - the (may-be-negative, may-be-positive) table of geq_leq_zero, the Min/Max any/all rules and ComparisonResult.__or__ - "
    "proved sound pointwise whenever the two leaf oracles are sound; refuted witnesses for the three unsound steps of the unchanged code (ceiling erasure, one substitution for all "
    "Heaviside terms, corner plugging when the formula changes sign)",
    "sympy (function_range, relational evaluation under assumptions, diff, expand) is an oracle: the end-to-end verdict of the real geq_leq_zero / diff_geq_leq_zero is compared with "
    "brute-force evaluation at every integer point of the box",
    "derivative verdicts are read as finite differences between neighbouring integer points of the box",
]


class Timeout(Exception):
    pass


def _alarm(signum, frame):
    raise Timeout()


def gen_formula(rng, sp, syms, allow_ceil=True, allow_heav=True, allow_minmax=True):
    """formulas of the kinds the cost model emits"""
    def mono():
        c = sp.Integer(rng.choice([1, 1, 2, 3, 4, 6, 12]))
        t = c
        for s in rng.sample(syms, rng.randint(1, min(2, len(syms)))):
            t = t * s if rng.random() < 0.5 else t / s
        return t

    def atom():
        r = rng.random()
        if allow_ceil and r < 0.25:
            s = rng.choice(syms)
            return rng.choice([sp.ceiling(sp.Integer(rng.choice([5, 7, 12])) / s), s * sp.ceiling(sp.Integer(rng.choice([6, 8, 9])) / s),
                               sp.ceiling(s / rng.choice([2, 3]))])
        if allow_minmax and r < 0.40:
            return rng.choice([sp.Max, sp.Min])(mono(), mono() if rng.random() < 0.5 else sp.Integer(rng.randint(1, 6)))
        if allow_heav and r < 0.50:
            a, b = rng.choice(syms), sp.Integer(rng.randint(1, 5))
            return sp.Heaviside(a - b - sp.Rational(1, 2)) * mono()
        return mono()
    if allow_minmax and rng.random() < 0.12:
        # a Min / Max at the top whose arguments may have different signs on the box
        def lin():
            t = mono() - sp.Rational(rng.randint(0, 9), rng.choice([1, 2]))
            return t if rng.random() < 0.6 else -t
        return rng.choice([sp.Max, sp.Min])(lin(), lin() if rng.random() < 0.8 else sp.Integer(rng.randint(-3, 3)))
    n = rng.randint(1, 3)
    f = 0
    for _ in range(n):
        f = f + rng.choice([1, 1, 1, -1]) * atom()
    if rng.random() < 0.3:
        f = f - sp.Rational(rng.randint(0, 12), rng.choice([1, 2, 4]))
    return f


def brute(sp, f, bounds):
    """values at every integer point: list of (point, value)"""
    syms = [s for s, _, _ in bounds]
    out = []
    for pt in itertools.product(*[range(lo, hi + 1) for _, lo, hi in bounds]):
        v = f.xreplace({s_: sp.Integer(x_) for s_, x_ in zip(syms, pt)})     # structural: sympy's assumption-driven simplification during subs is itself unsound (F15)
        v = sp.nsimplify(v) if not v.is_Rational else v
        out.append((pt, Fraction(int(v.p), int(v.q)) if v.is_Rational else Fraction(float(v)).limit_denominator(10 ** 9)))
    return out


def verdict_ok(verdict, values):
    name = verdict.name
    if name == "UNKNOWN":
        return None
    for pt, v in values:
        if (name == "ALWAYS_GEQ_THAN_ZERO" and v < 0) or (name == "ALWAYS_LEQ_THAN_ZERO" and v > 0) or (name == "ALWAYS_EQUAL_TO_ZERO" and v != 0):
            return pt, v
    return None


def erase(sp, f):
    return f.replace(lambda e: e.is_Function and e.func == sp.ceiling, lambda e: e.args[0])


def run(ck):
    common.setup_impl_path()
    import sympy as sp
    from accelforge.mapper.FFM._make_pmappings.make_pmappings_from_templates import make_tile_shapes as M
    ck.prove()
    rng = ck.rng("formulas")
    signal.signal(signal.SIGALRM, _alarm)
    traced = []
    orig_cmp = M._compare_to_zero

    def tracer(g, *a, **k):
        if len(traced) < 200:
            traced.append(g)
        return orig_cmp(g, *a, **k)
    M._compare_to_zero = tracer
    dist = {"verdicts": {}, "with_ceiling": 0, "with_heaviside": 0, "with_minmax": 0, "timeouts": 0, "diff_cases": 0, "exceptions": 0}
    x0, x1 = M.makesymbol("s0"), M.makesymbol("s1")
    corpus = [  # minimised past failures, run first
        (sp.ceiling(x0 / 2) - x0 / 2 - sp.Rational(1, 4), ((x0, 1, 3),)),
        (-x0 + 3 * sp.ceiling(x0 / 3) - 1, ((x0, 1, 3),)),
        (2 * sp.Heaviside(x0 - sp.Rational(5, 2)) - 2 * sp.Heaviside(x1 - sp.Rational(3, 2)), ((x0, 1, 4), (x1, 1, 4))),
        (-sp.Rational(11, 2) + 12 / (x0 * x1), ((x0, 4, 5), (x1, 4, 7))),
        (sp.Min(x0 * x1 - x1 + 1, x0 * x1, evaluate=False) - x0 * x1 + 1, ((x0, 1, 4), (x1, 1, 4))),
    ]
    for i in range(-len(corpus), ck.n(250, 6000)):
        nsym = rng.randint(1, 3)
        syms = [M.makesymbol(f"s{k}") for k in range(nsym)]
        bounds = []
        for s in syms:
            lo = rng.randint(1, 4)
            bounds.append((s, lo, lo + rng.randint(0, 4)))
        bounds = tuple(bounds)
        mode = "diff" if i % 4 == 3 else "sign"
        f = gen_formula(rng, sp, syms, allow_ceil=(mode == "sign"), allow_heav=(mode == "sign"))
        if i < 0:
            f, bounds = corpus[i + len(corpus)]
            syms, mode = [b[0] for b in bounds], "sign"
        elif mode == "sign" and rng.random() < 0.12:
            # rounding slack against a small margin: the family on which ceiling erasure matters
            s_ = rng.choice(syms)
            q_ = rng.choice([2, 3, 4])
            f = rng.choice([1, -1]) * (sp.ceiling(s_ / q_) - s_ / q_) + rng.choice([-1, 1]) * sp.Rational(1, rng.choice([4, 8])) + (0 if rng.random() < 0.6 else gen_formula(rng, sp, syms, False, False, False) * 0)
        if not getattr(f, "free_symbols", None):
            continue
        has_ceil, has_heav = f.has(sp.ceiling), f.has(sp.Heaviside)
        dist["with_ceiling"] += has_ceil
        dist["with_heaviside"] += has_heav
        dist["with_minmax"] += f.has(sp.Max) or f.has(sp.Min)
        tdz = mode == "sign" and rng.random() < 0.2
        del traced[:]
        try:
            signal.alarm(60)
            if mode == "sign":
                values = brute(sp, f, bounds)
                if tdz and (any(v < 0 for _, v in values) and any(v > 0 for _, v in values)):
                    tdz = False       # precondition of the shortcut: the formula keeps one sign on the box
                verdict = M.geq_leq_zero(f, bounds, terms_do_not_cross_zero=tdz)
            else:
                s = rng.choice([x for x in syms if x in f.free_symbols])
                dist["diff_cases"] += 1
                verdict = M.diff_geq_leq_zero(f, s, bounds)
                # finite differences along s between neighbouring integer points
                idx = [x for x, _, _ in bounds].index(s)
                vals = dict(brute(sp, f, bounds))
                values = []
                for pt, v in vals.items():
                    nxt = tuple(p + 1 if k == idx else p for k, p in enumerate(pt))
                    if nxt in vals:
                        values.append((pt, vals[nxt] - v))
            signal.alarm(0)
        except Timeout:
            dist["timeouts"] += 1
            continue
        except Exception as ex:  # noqa
            signal.alarm(0)
            dist["exceptions"] += 1
            continue
        finally:
            signal.alarm(0)
        dist["verdicts"][verdict.name] = dist["verdicts"].get(verdict.name, 0) + 1
        ck.case((str(f), str(bounds), mode, tdz), nontrivial=verdict.name != "UNKNOWN",
                sample={"formula": str(f), "box": [(str(s), lo, hi) for s, lo, hi in bounds], "mode": mode, "verdict": verdict.name} if verdict.name != "UNKNOWN" else None)
        bad = verdict_ok(verdict, values)
        if bad is None:
            continue
        pt, v = bad
        payload = {"formula": str(f), "box": [(str(s), lo, hi) for s, lo, hi in bounds], "mode": mode, "terms_do_not_cross_zero": tdz, "verdict": verdict.name,
                   "counterexample_point": list(pt), "value_there": str(v)}
        finding = None
        # F16 attribution: evaluating the formula's Min / Max with accelforge's patched sympy connectivity test (`f.doit()`, the first thing the
        # comparator does) changes its value at some point of the box
        try:
            if mode == "sign" and (f.has(sp.Max) or f.has(sp.Min)):
                fd = f.doit()
                syms_ = [b_[0] for b_ in bounds]
                for pt_, v_ in values:
                    w_ = fd.xreplace({a_: sp.Integer(c_) for a_, c_ in zip(syms_, pt_)})
                    if w_.is_Rational and Fraction(int(w_.p), int(w_.q)) != v_:
                        finding = "F16"
                        payload["formula_after_doit"] = str(fd)
                        break
        except Exception:  # noqa
            pass
        # F15 attribution: for some expression the comparator handed to sympy's relational evaluation (`g >= 0` / `g <= 0` under the symbols'
        # assumptions, at any depth of its recursion) sympy returned a definite truth value that a point of the box contradicts
        try:
            bmap = {str(b_[0]): (b_[1], b_[2]) for b_ in bounds}
            for g in (traced[:60] if finding is None else []):
                if getattr(g, "has", None) and g.has(sp.ceiling):
                    g = erase(sp, g)          # what the comparator really hands to sympy: the formula with its ceilings erased
                fs_ = sorted(getattr(g, "free_symbols", ()), key=str)
                if not fs_ or any(str(x) not in bmap for x in fs_) or g.has(sp.ceiling) or g.has(sp.Heaviside):
                    continue
                pts = list(itertools.product(*[range(bmap[str(x)][0], bmap[str(x)][1] + 1) for x in fs_]))
                if len(pts) > 400:
                    continue
                vals_g = [g.xreplace({a_: sp.Integer(b_) for a_, b_ in zip(fs_, pt_)}) for pt_ in pts]
                for rel, holds in ((g >= 0, lambda x: x >= 0), (g <= 0, lambda x: x <= 0)):
                    if rel == sp.true and not all(bool(holds(v_)) for v_ in vals_g) or rel == sp.false and any(bool(holds(v_)) for v_ in vals_g):
                        finding = "F15"
                        payload["sympy_relational_decided_wrongly_for"] = str(g)
                if finding:
                    break
        except Exception:  # noqa
            pass
        if finding is None and has_ceil and mode == "sign":
            # F5 attribution: the verdict is the (correct) verdict of the ceiling-erased formula
            fe = erase(sp, f)
            try:
                ve = M.geq_leq_zero(fe, bounds, terms_do_not_cross_zero=False)
                if ve == verdict and verdict_ok(ve, brute(sp, fe, bounds)) is None:
                    finding = "F5"
            except Exception:  # noqa
                pass
        if finding is None and has_heav and mode == "sign" and len({a for a in f.atoms(sp.Heaviside)}) >= 2:
            finding = "F13"
        if finding is None and mode == "diff":
            # differentiating Max / Min produces Heaviside terms; F13 applies to the derivative expression
            try:
                g = M.diff(sp.expand(f), s)
                payload["derivative"] = str(g)
                if len({a for a in g.atoms(sp.Heaviside)}) >= 2:
                    finding = "F13"
            except Exception:  # noqa
                pass
        ck.failing_input(payload, finding_id=finding,
                         what=f"verdict {verdict.name} for {'d/d' + str(s) + ' of ' if mode == 'diff' else ''}{f} on {payload['box']} fails at {list(pt)} (value {v})")
    M._compare_to_zero = orig_cmp
    return ck.finish(
        rule="random formulas of the kinds the cost model emits (sums of monomials in 1-3 positive integer symbols and their reciprocals, ceilings of quotients, Max / Min, Heaviside-gated terms, "
             "constants) on integer boxes with bounds <= 8: the real geq_leq_zero (a fifth with the corner shortcut, only where its precondition holds) and diff_geq_leq_zero (ceiling-free) "
             "against evaluation / finite differences at every integer point; non-trivial = the verdict is not UNKNOWN",
        trusted=TRUSTED,
        extra={"input_distribution": dist,
               "source_fingerprint": [common.fingerprint("accelforge/mapper/FFM/_make_pmappings/make_pmappings_from_templates/make_tile_shapes.py",
                                                         ["_compare_to_zero", "geq_leq_zero", "diff_geq_leq_zero", "partition_heaviside", "ComparisonResult"])]})


def replay(ck, data):
    print("replay: the failing formula, box and point are in the replay file; re-run ./check C09 with the recorded seed")
    return 0
