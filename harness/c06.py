"""C06 — reported memory usage equals the execution-time peak occupancy (single-Einsum mappings)."""
import itertools
import json
import os
from fractions import Fraction

import common
import gen_mini as G
from common import coq_Z, coq_list, coq_nat

TRUSTED = [
    "modelled: insert_reservation_nodes / ReservationAnalysisTracker (lowering of a non-first holder's reservation through the directly following run of relevant loops), "
    "analyze_reservation (tile x bits per value), run_model's per-memory sum, InvalidMappingError on over-subscription - single Einsum, temporal loops",
    "reference semantics: tile-granular liveness with streaming (C06/Model.v lower_ref); the harness validates this closed form on every case against an explicit trace: "
    "every use of every element of every holder visit is recorded and the peak number of elements between first and last use is computed by brute force",
    "PARTIAL: fused multi-Einsum mappings (the joiner's reservation algebra: free_to_loop_index, merge_next, adjust_reservations) and persistent tensors x n_instances are not modelled; see DESIGN C06",
]


def trace_peak(spec, m, pos):
    """brute force: peak number of live elements (first use .. last use) of the holder at index pos over any of its visits"""
    _, lvl, t = m[pos]
    T = spec["tensors"][t]
    rel = [v for v, r in enumerate(T["rel"]) if r]
    # shape/origin at the holder
    shape = list(spec["bounds"])
    for n in m[:pos]:
        if n[0] == "loop":
            shape[n[1]] = n[2]
    below = m[pos + 1:]
    uses = {}
    clock = [0]

    def use(elems):
        clock[0] += 1
        for e in elems:
            if e not in uses:
                uses[e] = [clock[0], clock[0]]
            else:
                uses[e][1] = clock[0]

    def box(origin, shp):
        return list(itertools.product(*[range(origin[v], origin[v] + shp[v]) for v in rel]))

    def ex(i, origin, shp):
        if i == len(below):
            use(box(origin, shp))          # compute reads/writes its operand (extent 1 in every fully tiled variable)
            return
        n = below[i]
        if n[0] == "sto":
            if n[2] == t:
                use(box(origin, shp))      # the child holder is filled from (written back to) this holder: one use of the child's tile
                return
            ex(i + 1, origin, shp)
            return
        _, v, tile = n
        for j in range(shp[v] // tile):
            o2, s2 = list(origin), list(shp)
            o2[v] = origin[v] + j * tile
            s2[v] = tile
            ex(i + 1, o2, s2)
    ex(0, [0] * len(shape), shape)   # one visit is representative: all visits are translates of each other
    events = sorted(uses.values())
    peak = 0
    for tm in range(1, clock[0] + 1):
        peak = max(peak, sum(1 for a, b in events if a <= tm <= b))
    return peak


def ref_resv(spec, m, code):
    """(pos, lvl, t, values): closed-form reservation; code=True: as accelforge codes it, False: streaming liveness"""
    out, seen = [], set()
    shape = list(spec["bounds"])
    for i, n in enumerate(m):
        if n[0] == "loop":
            shape[n[1]] = n[2]
            continue
        _, lvl, t = n
        T = spec["tensors"][t]
        sh = list(shape)
        if t in seen:
            for nn in m[i + 1:]:
                if nn[0] == "loop":
                    if T["rel"][nn[1]]:
                        sh[nn[1]] = nn[2]
                    else:
                        break
                elif code or nn[2] == t:
                    break
        seen.add(t)
        occ = 1
        for v, r in enumerate(T["rel"]):
            if r:
                occ *= sh[v]
        out.append((i, lvl, t, occ))
    return out


def all_clean(spec, m):
    seen = set()
    for i, n in enumerate(m):
        if n[0] != "sto":
            continue
        if n[2] not in seen:       # a tensor's first holder is never lowered
            seen.add(n[2])
            continue
        T = spec["tensors"][n[2]]
        for nn in m[i + 1:]:
            if nn[0] == "loop":
                if not T["rel"][nn[1]]:
                    break
            else:
                if nn[2] != n[2]:
                    return False
                break
    return True


def load():
    common.setup_impl_path()
    import accelforge as af
    from accelforge.model.main import evaluate_mapping
    af.set_n_parallel_jobs(1)
    return af, evaluate_mapping


def run_impl(af, evaluate_mapping, spec, m, d):
    (d / "a.yaml").write_text(G.arch_yaml(spec))
    (d / "w.yaml").write_text(G.workload_yaml(spec))
    (d / "m.yaml").write_text(G.mapping_yaml(spec, m))
    s = af.Spec.from_yaml(str(d / "a.yaml"), str(d / "w.yaml"), str(d / "m.yaml"))
    try:
        r = evaluate_mapping(s)
    except Exception as ex:  # noqa
        if type(ex).__name__ == "InvalidMappingError":
            return "INVALID"
        raise
    out = {c: float(r.data[c].iloc[0]) for c in r.columns if "usage<SEP>memory" in c}
    out["resource_usage"] = {str(k): float(v) for k, v in r.resource_usage().items()}
    return out


def run(ck):
    af, evaluate_mapping = load()
    ck.prove()
    rng = ck.rng("mappings")
    d = common.BUILD / "run" / f"c06-{os.getpid()}"
    d.mkdir(parents=True, exist_ok=True)
    exprs, keys = [], []
    dist = {"oversubscribed": 0, "not_clean(adjacent holders)": 0, "lowered_holders": 0, "trace_validated_holders": 0}
    for i in range(ck.n(120, 3000)):
        spec = G.gen_spec(rng, bounds_pool=(2, 3, 4, 6), fancy=False)
        for T in spec["tensors"]:
            T["bpv"] = rng.choice([8, 8, 4, 16])
        m = G.gen_mapping(rng, spec, allow_unit_loops=False)
        bpv = lambda l, t: spec["levels"][l]["bpv"].get(spec["tensors"][t]["name"], spec["tensors"][t]["bpv"])  # noqa
        for l in range(1, len(spec["levels"])):
            if rng.random() < 0.3:
                spec["levels"][l]["bpv"][spec["tensors"][rng.randrange(len(spec["tensors"]))]["name"]] = rng.choice([4, 8, 16])
        code, ref = ref_resv(spec, m, True), ref_resv(spec, m, False)
        # sizes: mostly comfortable, sometimes just enough, sometimes too small
        for l in range(1, len(spec["levels"])):
            need = sum(v * bpv(l, t) for _, ll, t, v in code if ll == l)
            r = rng.random()
            spec["levels"][l]["size"] = None if r < 0.2 else max(1, need * 4) if r < 0.6 else max(1, need) if r < 0.8 else max(1, need - rng.randint(1, max(1, need // 2)))
        # validate the closed-form reference against the explicit use trace
        for (pos, l, t, v) in ref:
            if any(x[2] == t for x in ref if x[0] < pos):    # non-first holders; a tensor's first holder is its home and holds the whole tile
                pk = trace_peak(spec, m, pos)
                dist["trace_validated_holders"] += 1
                if pk != v:
                    raise RuntimeError(f"reference closed form {v} != trace peak {pk} for holder {pos} of {m}")
        clean = all_clean(spec, m)
        dist["not_clean(adjacent holders)"] += not clean
        unl = {x[0]: x[3] for x in ref_unlowered(spec, m)}
        dist["lowered_holders"] += sum(1 for (p, l, t, v) in code if v < unl[p])
        key = json.dumps([spec, m], sort_keys=True, default=str)
        ck.case(key, nontrivial=any(n[0] == "sto" and n[1] > 0 for n in m), sample={"mapping": G.mapping_yaml(spec, m)})
        try:
            got = run_impl(af, evaluate_mapping, spec, m, d)
        except Exception as ex:  # noqa
            ck.failing_input({"spec": spec, "mapping": m, "error": f"{type(ex).__name__}: {str(ex)[:300]}"}, what="evaluate_mapping raised unexpectedly")
            continue
        sizes = [L["size"] for L in spec["levels"]]
        over_ref = [l for l in range(len(sizes)) if sizes[l] is not None and sum(v * bpv(l, t) for _, ll, t, v in ref if ll == l) > sizes[l]]
        over_code = [l for l in range(len(sizes)) if sizes[l] is not None and sum(v * bpv(l, t) for _, ll, t, v in code if ll == l) > sizes[l]]
        dist["oversubscribed"] += bool(over_code)
        bad = []
        if got == "INVALID":
            if not over_ref:
                bad.append("mapping rejected as over-subscribed although the execution-time peak fits every memory")
        else:
            if over_ref:
                bad.append(f"peak occupancy exceeds the size of level(s) {over_ref} but the mapping was accepted")
            for l in range(1, len(sizes)):
                if sizes[l] is None:
                    continue
                name = spec["levels"][l]["name"]
                exp = Fraction(sum(v * bpv(l, t) for _, ll, t, v in ref if ll == l), sizes[l])
                g = got["resource_usage"].get(name)
                if g is None:
                    if exp != 0:
                        bad.append(f"no usage reported for {name}, peak occupancy is {float(exp)}")
                elif abs(g - float(exp)) > 1e-9 * max(1, float(exp)):
                    bad.append(f"usage of {name}: reported {g}, execution-time peak occupancy / size = {float(exp)}")
        if bad:
            ck.failing_input({"spec": spec, "mapping": m, "mapping_yaml": G.mapping_yaml(spec, m), "arch_yaml": G.arch_yaml(spec), "workload_yaml": G.workload_yaml(spec),
                              "problems": bad, "adjacent_holders": not clean},
                             finding_id="F9" if not clean else None, what="memory usage: " + bad[0])
        # model side
        ts = coq_list([f"(mkT {coq_list([str(b).lower() for b in T['rel']])} {str(T['out']).lower()})" for T in spec["tensors"]])
        nl, nt = len(sizes), len(spec["tensors"])
        bp = "(fun l t => nth t (nth l " + coq_list([coq_list([bpv(l, t) for t in range(nt)], coq_Z) for l in range(nl)]) + " []) 0)"
        sz = coq_list(["None" if s is None else f"(Some {coq_Z(s)})" for s in sizes])
        exprs.append(f"(let ts := {ts} in let m := {G.coq_mapping(m)} in let s := {coq_list(spec['bounds'], coq_Z)} in let bp := {bp} in "
                     f"(map (usage_code ts bp m s) (seq 0 {nl}), map (usage_ref ts bp m s) (seq 0 {nl}), accepted ts bp {sz} m s, all_clean ts m))")
        keys.append((spec, m, got, code, ref, clean, bpv))
    vals = common.run_coq_eval("C06", ["AF.Lib.MiniForge", "AF.C06.Model"], exprs, chunk=40, preamble="Open Scope Z_scope.")
    mism = []
    for (spec, m, got, code, ref, clean, bpv), v in zip(keys, vals):
        uc, ur, acc, cl = v
        sizes = [L["size"] for L in spec["levels"]]
        probs = []
        if bool(cl) != clean:
            probs.append("all_clean differs between model and harness")
        if list(ur) != [sum(vv * bpv(l, t) for _, ll, t, vv in ref if ll == l) for l in range(len(sizes))]:
            probs.append("usage_ref differs between model and harness reference")
        if (got == "INVALID") == bool(acc):
            probs.append(f"accepted: model {acc}, impl {'rejected' if got == 'INVALID' else 'accepted'}")
        if got != "INVALID":
            for l in range(1, len(sizes)):
                if sizes[l] is None:
                    continue
                g = got["resource_usage"].get(spec["levels"][l]["name"], 0.0)
                if abs(g - uc[l] / sizes[l]) > 1e-9 * max(1, g):
                    probs.append(f"level {l}: impl usage {g}, model (as coded) {uc[l]}/{sizes[l]}")
        if probs:
            mism.append({"mapping_yaml": G.mapping_yaml(spec, m), "problems": probs})
    ck.count("model_vs_impl_compared", len(keys))
    ck.count("model_vs_impl_mismatches", len(mism))
    if mism and not ck.violations:
        ck.unexplained("broken-correspondence", {"mismatches": mism[:3]}, what="C06 model (reservation placement as coded) != evaluate_mapping")
    return ck.finish(
        rule="random single-Einsum specs and concrete mappings (gen_mini), per-level bits-per-value overrides, memory sizes drawn comfortable / exactly enough / too small; "
             "resource_usage() per memory and acceptance compared with the execution-time peak occupancy (closed form validated on every holder against an explicit first-use/last-use trace) "
             "and with the Coq model of the reservation placement; non-trivial = some holder below level 0",
        trusted=TRUSTED,
        extra={"input_distribution": dist,
               "source_fingerprint": [common.fingerprint("accelforge/model/_looptree/reuse/symbolic/_symbolic.py", ["insert_reservation_nodes", "ReservationAnalysisTracker", "analyze_reservation"]),
                                      common.fingerprint("accelforge/model/run_model.py", ["run_model"])]})


def ref_unlowered(spec, m):
    out = []
    shape = list(spec["bounds"])
    for i, n in enumerate(m):
        if n[0] == "loop":
            shape[n[1]] = n[2]
            continue
        occ = 1
        for v, r in enumerate(spec["tensors"][n[2]]["rel"]):
            if r:
                occ *= shape[v]
        out.append((i, n[1], n[2], occ))
    return out


def replay(ck, data):
    af, evaluate_mapping = load()
    d = common.BUILD / "run" / f"c06-{os.getpid()}"
    d.mkdir(parents=True, exist_ok=True)
    spec, m = data["spec"], [tuple(x) for x in data["mapping"]]
    got = run_impl(af, evaluate_mapping, spec, m, d)
    ref = ref_resv(spec, m, False)
    bpv = lambda l, t: spec["levels"][l]["bpv"].get(spec["tensors"][t]["name"], spec["tensors"][t]["bpv"])  # noqa
    sizes = [L["size"] for L in spec["levels"]]
    ok = True
    if got != "INVALID":
        for l in range(1, len(sizes)):
            if sizes[l] is None:
                continue
            exp = sum(v * bpv(l, t) for _, ll, t, v in ref if ll == l) / sizes[l]
            if abs(got["resource_usage"].get(spec["levels"][l]["name"], 0.0) - exp) > 1e-9:
                ok = False
    if not ok:
        print("VIOLATION property=C06 replay=<replayed>")
        return 1
    print("replay: property holds on this input now")
    return 0
