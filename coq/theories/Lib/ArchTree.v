(* Architecture trees: leaves (Memory / Toll / Container / Compute, each with a name and a
   spatial fanout), plain hierarchies and forks.  Shared by C25 and C26. *)
From AF Require Import Base.Tactics.
Open Scope Z_scope.

Inductive kind := KMem | KToll | KCont | KComp.
Record leaf := mkleaf { lk : kind; ln : nat; lf : Z }.

Inductive anode := ALeaf (l : leaf) | AHier (fork : bool) (sub : forest)
with forest := FNil | FCons (a : anode) (f : forest).

Scheme anode_mind := Induction for anode Sort Prop
  with forest_mind := Induction for forest Sort Prop.

Definition is_comp (l : leaf) : bool := match lk l with KComp => true | _ => false end.

(* ArchNode.find(name) succeeds somewhere below *)
Fixpoint containsF (c : nat) (f : forest) : bool :=
  match f with
  | FNil => false
  | FCons a f' =>
      (match a with ALeaf l => Nat.eqb (ln l) c | AHier _ sub => containsF c sub end) || containsF c f'
  end.

(* all leaves in document order *)
Fixpoint leavesF (f : forest) : list leaf :=
  match f with
  | FNil => []
  | FCons a f' => (match a with ALeaf l => [l] | AHier _ sub => leavesF sub end) ++ leavesF f'
  end.

(* leaves in document order after removing every Fork that does not contain [c] *)
Fixpoint pleaves (c : nat) (f : forest) : list leaf :=
  match f with
  | FNil => []
  | FCons a f' =>
      (match a with
       | ALeaf l => [l]
       | AHier fork sub => if fork && negb (containsF c sub) then [] else pleaves c sub
       end) ++ pleaves c f'
  end.

Definition zprodl (l : list Z) : Z := fold_right Z.mul 1 l.

Lemma zprodl_app a b : zprodl (a ++ b) = zprodl a * zprodl b.
Proof. unfold zprodl. induction a as [|x a IH]; cbn [app fold_right]; [ring|]. rewrite IH. ring. Qed.

Lemma containsF_leaves c f : containsF c f = existsb (fun l => Nat.eqb (ln l) c) (leavesF f).
Proof.
  revert f. apply (forest_mind
    (fun a => match a with ALeaf _ => True | AHier _ sub => containsF c sub = existsb (fun l => Nat.eqb (ln l) c) (leavesF sub) end)
    (fun f => containsF c f = existsb (fun l => Nat.eqb (ln l) c) (leavesF f))); simpl; auto.
  intros a Ha f IH. rewrite existsb_app, IH. destruct a as [l|fk sub]; simpl; [rewrite orb_false_r; reflexivity|].
  rewrite Ha. reflexivity.
Qed.
