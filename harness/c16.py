"""C16 — tolerance settings stay within their documented optimality bound."""
import json
import os

import common
import gen_mini as G
import mini_space as S
import mapper_ref as R
import c01
import c03

TRUSTED = c01.TRUSTED[:3] + [
    "Coq: C16_never_below, C16_objective_bound, C16_no_compounding state what a (1+t)-covering pruning guarantees; that accelforge's rounding-based pruning sites satisfy the premise "
    "is checked end to end: the best returned objective is compared with the exhaustively enumerated exact optimum",
    "validity of every mapping returned under resource_usage_tolerance > 0 is decided by the verified checker's twin (C03 clauses) and by the real evaluate_mapping",
]


def run(ck):
    af, evaluate_mapping = R.load()
    ck.prove()
    rng = ck.rng("specs")
    d = common.BUILD / "run" / f"c16-{os.getpid()}"
    d.mkdir(parents=True, exist_ok=True)
    dist = {"runs": 0, "suboptimal_within_bound": 0, "capacity_bound_specs": 0, "max_ratio": 1.0}
    settings = [(0.01, 0.0), (0.1, 0.0), (0.5, 0.0), (0.1, 0.1), (0.5, 0.5), (0.0, 0.01), (0.0, 0.5), (0.01, 0.1)]
    for i in range(ck.n(8, 60)):
        spec, space = R.gen_search_spec(rng, max_space=ck.n(2500, 15000))
        for L in spec["levels"][1:]:
            if L["size"] is None and rng.random() < 0.6:
                L["size"] = rng.choice([16, 32, 64])
        forced = []
        if i % 4 != 0:
            # tolerance-critical size: every energy-optimal mapping of the unconstrained spec needs between S and (1 + rt) x S bits of the first buffer
            saved = spec["levels"][1]["size"]
            spec["levels"][1]["size"] = None
            unc = R.reference(spec)
            spec["levels"][1]["size"] = saved
            if unc:
                eu = [(float(x[1]), S.usage_code(spec, x[0]).get(1, 0)) for x in unc]
                opt_at = lambda cap: min((e for e, u in eu if u <= cap), default=None)  # noqa
                cands = []
                for rt_c in (0.1, 0.5):
                    for u in sorted({u for _, u in eu if u > 0}):
                        s_c = -(-int(u * 1000) // int((1 + rt_c) * 1000))
                        if s_c < u and opt_at(s_c) is not None and opt_at(int((1 + rt_c) * s_c)) < opt_at(s_c):
                            cands.append((rt_c, s_c))
                if cands:
                    rt_c, s_c = rng.choice(cands)
                    spec["levels"][1]["size"] = s_c
                    forced = [(0.0, rt_c)]
                    dist["tolerance_critical_specs"] = dist.get("tolerance_critical_specs", 0) + 1
        ref = R.reference(spec)
        if not ref:
            continue
        dist["capacity_bound_specs"] += len(ref) < len(S.enumerate_space(spec))
        for (ot, rt) in forced + (settings if not ck.quick() else rng.sample(settings, 3 if forced else 4)):
            for metric, col in c01.METRICS[:2]:
                res = R.run_mapper(af, spec, d, [metric], extra={"objective_tolerance": ot, "resource_usage_tolerance": rt})
                dist["runs"] += 1
                opt = float(min(c01.ref_value(metric, e, l) for _, e, l in ref))
                ck.case(json.dumps([spec, ot, rt, metric], sort_keys=True, default=str), nontrivial=True,
                        sample={"objective_tolerance": ot, "resource_usage_tolerance": rt, "metric": metric, "exact_optimum": opt, "returned": res["error"] or R.best(res["rows"], col)})
                if res["error"] is not None:
                    ck.failing_input({"spec": spec, "objective_tolerance": ot, "resource_usage_tolerance": rt, "metric": metric, "error": res["error"],
                                      "arch_yaml": S.arch_yaml(spec), "workload_yaml": G.workload_yaml(spec)}, what=f"with tolerances ({ot}, {rt}) the mapper raised although valid mappings exist: {res['error'][:80]}")
                    continue
                got = R.best(res["rows"], col)
                if got < opt * (1 - 1e-5) - 1e-9:
                    ck.failing_input({"spec": spec, "objective_tolerance": ot, "resource_usage_tolerance": rt, "metric": metric, "returned": got, "exact_optimum": opt,
                                      "mapping": res["rows"][0].get("mapping"), "arch_yaml": S.arch_yaml(spec), "workload_yaml": G.workload_yaml(spec)},
                                     what=f"best returned {metric} {got} is below the exact optimum {opt}")
                elif got > opt * (1 + ot) * (1 + 1e-5) + 1e-9:
                    ck.failing_input({"spec": spec, "objective_tolerance": ot, "resource_usage_tolerance": rt, "metric": metric, "returned": got, "exact_optimum": opt, "bound": opt * (1 + ot),
                                      "arch_yaml": S.arch_yaml(spec), "workload_yaml": G.workload_yaml(spec)},
                                     what=f"objective_tolerance {ot}: best returned {metric} {got} exceeds (1+t) x optimum = {opt * (1 + ot)}")
                else:
                    dist["suboptimal_within_bound"] += got > opt * (1 + 1e-6)
                    dist["max_ratio"] = max(dist["max_ratio"], got / opt if opt else 1.0)
                for j, row in enumerate(res["rows"]):
                    m = row.get("mapping_nodes")
                    why = "could not be read back" if m is None else c03.clauses(spec, m)
                    if why is None:
                        real = c01.confirm_with_model(af, evaluate_mapping, spec, m, d)
                        if isinstance(real, str):
                            why = "the real evaluate_mapping rejects it: " + real
                    if why:
                        ck.failing_input({"spec": spec, "objective_tolerance": ot, "resource_usage_tolerance": rt, "metric": metric, "row": j, "mapping": row.get("mapping"), "clause": why,
                                          "arch_yaml": S.arch_yaml(spec), "workload_yaml": G.workload_yaml(spec)},
                                         what=f"with resource_usage_tolerance {rt} a returned mapping is invalid: {why}")
    return ck.finish(
        rule="random single-Einsum specs (most with finite buffers) x (objective_tolerance, resource_usage_tolerance) settings x {ENERGY, LATENCY} on the real mapper; "
             "oracle: exact optimum <= best returned <= (1+t) x exact optimum (exact optimum from the exhaustive reference), every returned mapping valid; non-trivial = every run",
        trusted=TRUSTED,
        extra={"input_distribution": dist,
               "source_fingerprint": [common.fingerprint("accelforge/mapper/FFM/_pareto_df/pareto.py", ["makepareto", "multi_round", "logscale_to_tolerance"]),
                                      common.fingerprint("accelforge/mapper/FFM/_join_pmappings/join_pmappings.py", ["join_pmappings"])]})


def replay(ck, data):
    print("replay: re-run ./check C16 with the recorded seed (the failing spec and settings are in the replay file)")
    return 0
