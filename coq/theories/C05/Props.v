(* C05 — property theorems only. *)
From Coq Require Import ZArith QArith List Bool Lia.
Import ListNotations.
From AF Require Import Lib.MiniForge C05.Proofs.
Open Scope Z_scope.

(* Per tensor, per level, reads and writes: the analytical recursion of the code (multiply by iteration counts,
   skipped-first parts only through relevant loops, parent/child bookkeeping of analyze_storage) equals the counts
   obtained by really iterating every loop, refetching on every enclosing-loop advance, writing outputs back on
   leaving, and eliding the fetch / accumulation read of values never written - for every chain of loops and
   holders (any depth, any iteration counts >= 1, any skip flags), inputs and outputs. *)
Theorem C05_reads_writes : forall out skipc c lvl, wf c -> exec_counts out skipc c lvl = model_counts out skipc c lvl.
Proof. intros. apply exec_counts_model_counts. assumption. Qed.
Print Assumptions C05_reads_writes.

(* the same at every intermediate point of the nest, with any holder above and any freshness state *)
Theorem C05_invariant : forall out skipc c, wf c -> forall parent fresh lvl w,
  count lvl w (exec out skipc c parent fresh)
  = (ppT parent (fst (model out skipc c (isS parent))) lvl w + apT (snd (model out skipc c (isS parent))) lvl w)
    - (if fresh then ppS parent (fst (model out skipc c (isS parent))) lvl w + apS (snd (model out skipc c (isS parent))) lvl w else 0).
Proof. exact exec_model. Qed.
Print Assumptions C05_invariant.

(* closed form: loops above a sub-nest multiply its totals by the product of ALL their iteration counts and its
   skipped-first parts by the product over the loops RELEVANT to the tensor *)
Theorem C05_closed_form : forall out skipc Ls c hp,
  model out skipc (loops_items Ls ++ c) hp
  = (scale_up (prod_all Ls) (prod_rel Ls) (fst (model out skipc c hp)),
     map (scale_acts (prod_all Ls) (prod_rel Ls)) (snd (model out skipc c hp))).
Proof. exact model_loops. Qed.
Print Assumptions C05_closed_form.

(* "never written": a holder visit finds its tile never visited before (so none of its values written) exactly when
   every enclosing loop that is irrelevant to the tensor is in its first iteration - the flag the execution carries *)
Theorem C05_fresh_iff_unwritten : forall a : visit,
  (fresh_of a = true -> forall b, same_tile b a -> ~ lexlt b a) /\ (fresh_of a = false -> exists b, same_tile b a /\ lexlt b a).
Proof. intro a. split; [apply fresh_no_earlier|apply not_fresh_earlier]. Qed.
Print Assumptions C05_fresh_iff_unwritten.

(* whole mapping: every valid mapping (tiles positive, dividing, not larger than the enclosing extent) has equal
   per-tensor counts, actions, per-level latency, total latency (max over components) and energy
   (sum of count x per-action energy + leak power x latency) under the model and under execution *)
Theorem C05_energy_latency : forall sp m, valid_loops m (s_bounds sp) = true ->
  (forall t lvl, tcounts exec_counts sp m t lvl = tcounts model_counts sp m t lvl)
  /\ (forall lvl t, actions exec_counts sp m lvl t = actions model_counts sp m lvl t)
  /\ (forall lvl, level_latency exec_counts sp m lvl = level_latency model_counts sp m lvl)
  /\ latency exec_counts sp m = latency model_counts sp m
  /\ energy exec_counts sp m = energy model_counts sp m.
Proof.
  intros sp m H. split; [intros; apply tcounts_eq, H|]. split; [intros; apply actions_eq, H|].
  split; [intros; apply level_latency_eq, H|]. split; [apply latency_eq, H|apply energy_eq, H].
Qed.
Print Assumptions C05_energy_latency.

(* the latency is the maximum over components, the energy splits as stated *)
Theorem C05_energy_split : forall counts sp m,
  energy counts sp m = (dyn_energy counts sp m + leak_energy counts sp m)%Q
  /\ latency counts sp m = fold_right Qmax (compute_latency sp) (map (level_latency counts sp m) (lids sp)).
Proof. intros. split; reflexivity. Qed.
Print Assumptions C05_energy_split.
