(* non-vacuity: the hypotheses of the C10 theorems are met by concrete, non-trivial inputs *)
From AF Require Import Base.Tactics Base.SortedSet C10.Model C10.Proofs.
Open Scope Z_scope.

Example ex_factorize : factorize 36 = [1; 2; 3; 4; 6; 9; 12; 18; 36].
Proof. vm_compute. reflexivity. Qed.
Example ex_perfect : factor_sizes 24 false 2 = [2; 4; 6; 8; 12; 24].
Proof. vm_compute. reflexivity. Qed.
Example ex_imperfect : factor_sizes 10 true 2 = [2; 4; 5; 10].
Proof. vm_compute. reflexivity. Qed.
Example ex_count : count_fact 12 [false; true; false] = 28 /\ valid_chain 12 [false; true; false] [3; 3].
Proof. split; [vm_compute; reflexivity|]. simpl. repeat split; try lia. exists 4; lia. Qed.
