(* C15 — property theorems only. *)
From Coq Require Import List Arith Lia.
Import ListNotations.
From AF Require Import C15.Model C15.Proofs.

(* For every list of sub-tables (any sizes, empty ones anywhere) and every multiset of
   selected global ids, decompression returns, for each selected id, exactly the payload
   of the row that compression gave that id — and never fails. *)
Theorem C15_roundtrip : forall (A : Type) (Ts : list (list A)) (ids : list nat),
  (forall i, In i ids -> i < length (concat Ts)) ->
  decompress (build Ts) ids = Some (map (fun i => nth_error (concat Ts) i) ids) /\
  (forall i, In i ids -> nth_error (concat Ts) i <> None).
Proof. intros A. exact roundtrip. Qed.
Print Assumptions C15_roundtrip.
