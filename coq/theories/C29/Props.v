(* C29 — property theorems only. *)
From Coq Require Import List Arith Bool Lia.
Import ListNotations.
From AF Require Import C22.Model C29.Model C29.Proofs.

(* the merged rename list resolves a name with priority: Einsum's own renames, then the top-level
   entry under the Einsum's name, then the top-level default entry *)
Theorem C29_resolve : forall n local top_e top_default,
  lookup_ren n (merged local top_e top_default) = first_defined n local top_e top_default.
Proof. exact merged_priority. Qed.
Print Assumptions C29_resolve.

Theorem C29_value : forall w e local top_e top_default n s,
  resolve w e local top_e top_default n = Val s ->
  exists r, first_defined n local top_e top_default = Some r /\ eval_rename w e r = Some s.
Proof. exact resolve_spec. Qed.
Print Assumptions C29_value.

(* an expected_count that does not match is rejected *)
Theorem C29_expected_count : forall w e local top_e top_default r k,
  In r (merged local top_e top_default) -> cnt r = Some k ->
  length (dedup (inst (impl_eval (env_of w e []) (src r)))) <> k ->
  forall n, resolve w e local top_e top_default n = Bad.
Proof. exact count_mismatch_rejected. Qed.
Print Assumptions C29_expected_count.

(* the unrepaired lookup consulted only the default entry: with default {r0: Inputs} and a
   per-Einsum entry {r0: Outputs} the name resolved to the default (finding F4) *)
Theorem C29_unrepaired_refuted :
  let dflt := [mkren 0 (SName NInputs) None] in let mine := [mkren 0 (SName NOutputs) None] in
  lookup_ren 0 (append_missing [] (append_missing [] dflt)) = Some (mkren 0 (SName NInputs) None) /\
  lookup_ren 0 (merged [] mine dflt) = Some (mkren 0 (SName NOutputs) None).
Proof. vm_compute. split; reflexivity. Qed.
Print Assumptions C29_unrepaired_refuted.
