"""Entry point: ./check Cxx --tier quick|thorough [--replay FILE]"""
import argparse
import importlib
import json
import os
import sys
import traceback
from pathlib import Path

sys.path.insert(0, str(Path(__file__).resolve().parent))
import common  # noqa: E402


def main():
    ap = argparse.ArgumentParser()
    ap.add_argument("pid")
    ap.add_argument("--tier", default=os.environ.get("VERIF_TIER", "quick"), choices=["quick", "thorough"])
    ap.add_argument("--replay")
    a = ap.parse_args()
    seed = int(os.environ.get("VERIF_SEED", "0") or 0)
    ck = common.Check(a.pid, a.tier, seed)
    mod = importlib.import_module(a.pid.lower())
    try:
        if a.replay:
            data = json.loads(Path(a.replay).read_text())
            rc = mod.replay(ck, data)
        else:
            rc = mod.run(ck)
    except Exception:
        # a crash of the machinery is not a verdict about the property: report loudly, exit 2
        traceback.print_exc()
        print(f"CHECK-ERROR property={a.pid} (machinery failure, no verdict)")
        sys.exit(2)
    sys.exit(rc)


if __name__ == "__main__":
    main()
