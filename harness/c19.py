"""C19 — optimal costs scale with the architecture's cost parameters."""
import copy
import json
import os
from fractions import Fraction

import common
import gen_mini as G
import mini_space as S
import mapper_ref as R
import c01

TRUSTED = c01.TRUSTED[:3] + [
    "Coq: the energy clause (C19_energy_of_every_mapping, C19_space_unchanged, C19_energy_scale_partial) and the throughput clause (C19_latency_of_every_mapping, C19_throughput_scale). The n_instances clause is checked on the real mapper only",
    "scale factors include 1e-18, 2^-20 ... 2^40 and 1e20 so that values cross the float32 range and the 1e30 / 1e308 sentinels used inside the mapper",
]
KS = [Fraction(1, 10 ** 18), Fraction(1, 2 ** 20), Fraction(1, 8), Fraction(3), Fraction(15, 2), Fraction(2 ** 10), Fraction(2 ** 40), Fraction(10 ** 20)]


def scaled(spec, k, what):
    s = copy.deepcopy(spec)
    if what == "energy":
        for L in s["levels"]:
            L["re"], L["we"], L["leak"] = float(L["re"] * k), float(L["we"] * k), float(L["leak"] * k)
        s["compute"]["e"], s["compute"]["leak"] = float(s["compute"]["e"] * k), float(s["compute"]["leak"] * k)
    else:
        for L in s["levels"]:
            for f in ("rthr", "wthr"):
                if L[f] is not None:
                    L[f] = float(L[f] * k)
        s["compute"]["thr"] = float(s["compute"]["thr"] * k)
    return s


def workload_with_instances(spec, n_w, n_e):
    y = G.workload_yaml(spec)
    y = y.replace("workload:\n", f"workload:\n  n_instances: {n_w}\n", 1)
    return y.replace("  - name: E\n", f"  - name: E\n    n_instances: {n_e}\n", 1)


def run(ck):
    af, evaluate_mapping = R.load()
    from accelforge.mapper.FFM.main import map_workload_to_arch
    ck.prove()
    rng = ck.rng("specs")
    d = common.BUILD / "run" / f"c19-{os.getpid()}"
    d.mkdir(parents=True, exist_ok=True)
    dist = {"energy_pairs": 0, "throughput_pairs": 0, "instance_pairs": 0}
    tol = 2e-4   # results pass through float32
    for i in range(ck.n(4, 50)):
        spec, space = R.gen_search_spec(rng, max_space=ck.n(2500, 15000))
        if not R.reference(spec, space):
            continue
        base = {m: R.run_mapper(af, spec, d, [m]) for m in ("ENERGY", "LATENCY")}
        if base["ENERGY"]["error"] or base["LATENCY"]["error"]:
            ck.failing_input({"spec": spec, "errors": [base["ENERGY"]["error"], base["LATENCY"]["error"]]}, what="the mapper raised on the unscaled spec although valid mappings exist")
            continue
        e0, l0 = R.best(base["ENERGY"]["rows"], "Total<SEP>energy"), R.best(base["LATENCY"]["rows"], "Total<SEP>latency")
        for k in (KS if not ck.quick() else [KS[0]] + rng.sample(KS[1:], 2)):
            for what, metric, col, expect in (("energy", "ENERGY", "Total<SEP>energy", e0 * float(k)), ("throughput", "LATENCY", "Total<SEP>latency", l0 / float(k))):
                if what == "energy" and e0 == 0:
                    continue
                s2 = scaled(spec, k, what)
                res = R.run_mapper(af, s2, d, [metric])
                dist[what + "_pairs"] += 1
                ck.case(json.dumps([spec, str(k), what], sort_keys=True, default=str), nontrivial=True, sample={"k": str(k), "scaled": what, "base": e0 if what == "energy" else l0,
                                                                                                              "result": res["error"] or R.best(res["rows"], col)})
                if res["error"] is not None:
                    ck.failing_input({"spec": spec, "k": str(k), "scaled": what, "error": res["error"], "arch_yaml": S.arch_yaml(s2), "workload_yaml": G.workload_yaml(s2)},
                                     what=f"scaling every {what} by {float(k)} made the mapper fail: {res['error'][:100]}")
                    continue
                got = R.best(res["rows"], col)
                if abs(got - expect) > tol * max(abs(expect), 1e-300):
                    ck.failing_input({"spec": spec, "k": str(k), "scaled": what, "base_optimum": e0 if what == "energy" else l0, "scaled_optimum": got, "expected": expect,
                                      "arch_yaml": S.arch_yaml(s2), "workload_yaml": G.workload_yaml(s2)},
                                     what=f"optimal {metric.lower()} does not scale: every {what} x {float(k)} gives {got}, expected {expect}")
                # the other objective of the scaled spec must be unchanged when evaluated alone
                other = R.run_mapper(af, s2, d, ["LATENCY" if what == "energy" else "ENERGY"])
                ocol, oval = ("Total<SEP>latency", l0) if what == "energy" else ("Total<SEP>energy", None)
                if oval is not None and other["error"] is None and abs(R.best(other["rows"], ocol) - oval) > tol * max(abs(oval), 1e-300):
                    ck.failing_input({"spec": spec, "k": str(k), "scaled": what, "latency_before": oval, "latency_after": R.best(other["rows"], ocol)},
                                     what="scaling the energies changed the optimal latency")
        # n_instances: summable totals scale, validity unchanged
        for n_w, n_e in ((3, 1), (1, 5), (2, 3)):
            (d / "a.yaml").write_text(S.arch_yaml(spec))
            (d / "w.yaml").write_text(workload_with_instances(spec, n_w, n_e))
            dist["instance_pairs"] += 1
            try:
                s = af.Spec.from_yaml(str(d / "a.yaml"), str(d / "w.yaml"))
                s.mapper.metrics = af.Metrics.ENERGY
                r = map_workload_to_arch(s)
                got_e, got_l = float(r.energy()), float(r.latency())
            except Exception as ex:  # noqa
                ck.failing_input({"spec": spec, "n_instances": [n_w, n_e], "error": f"{type(ex).__name__}: {str(ex)[:200]}"}, what="n_instances > 1 made a feasible spec fail (validity must not change)")
                continue
            ck.case(json.dumps([spec, n_w, n_e], sort_keys=True, default=str), nontrivial=True, sample={"n_instances": [n_w, n_e], "energy": got_e, "base": e0})
            if abs(got_e - e0 * n_w * n_e) > tol * max(1, abs(e0 * n_w * n_e)):
                ck.failing_input({"spec": spec, "n_instances_workload": n_w, "n_instances_einsum": n_e, "base_energy": e0, "energy": got_e, "expected": e0 * n_w * n_e},
                                 what=f"optimal energy with n_instances {n_w} x {n_e} is {got_e}, expected {e0 * n_w * n_e}")
    return ck.finish(
        rule="random single-Einsum specs; every per-action energy and leak x k, every throughput x k, for k in {1e-18, 2^-20, 1/8, 3, 7.5, 2^10, 2^40, 1e20}; workload / Einsum n_instances in {3x1, 1x5, 2x3}; "
             "oracle: optimal energy x k, optimal latency / k, energy x n_instances, no change of feasibility; non-trivial = every pair",
        trusted=TRUSTED,
        extra={"input_distribution": dist,
               "source_fingerprint": [common.fingerprint("accelforge/model/run_model.py", ["run_model"]), common.fingerprint("accelforge/mapper/FFM/main.py", ["map_workload_to_arch"])]})


def replay(ck, data):
    print("replay: re-run ./check C19 with the recorded seed (the failing spec and factor are in the replay file)")
    return 0
