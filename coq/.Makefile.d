theories/Base/ListAux.vo theories/Base/ListAux.glob theories/Base/ListAux.v.beautified theories/Base/ListAux.required_vo: theories/Base/ListAux.v 
theories/Base/ListAux.vio: theories/Base/ListAux.v 
theories/Base/ListAux.vos theories/Base/ListAux.vok theories/Base/ListAux.required_vos: theories/Base/ListAux.v 
theories/Base/SortedSet.vo theories/Base/SortedSet.glob theories/Base/SortedSet.v.beautified theories/Base/SortedSet.required_vo: theories/Base/SortedSet.v theories/Base/Tactics.vo
theories/Base/SortedSet.vio: theories/Base/SortedSet.v theories/Base/Tactics.vio
theories/Base/SortedSet.vos theories/Base/SortedSet.vok theories/Base/SortedSet.required_vos: theories/Base/SortedSet.v theories/Base/Tactics.vos
theories/Base/Tactics.vo theories/Base/Tactics.glob theories/Base/Tactics.v.beautified theories/Base/Tactics.required_vo: theories/Base/Tactics.v 
theories/Base/Tactics.vio: theories/Base/Tactics.v 
theories/Base/Tactics.vos theories/Base/Tactics.vok theories/Base/Tactics.required_vos: theories/Base/Tactics.v 
theories/C10/Examples.vo theories/C10/Examples.glob theories/C10/Examples.v.beautified theories/C10/Examples.required_vo: theories/C10/Examples.v theories/Base/Tactics.vo theories/Base/SortedSet.vo theories/C10/Model.vo theories/C10/Proofs.vo
theories/C10/Examples.vio: theories/C10/Examples.v theories/Base/Tactics.vio theories/Base/SortedSet.vio theories/C10/Model.vio theories/C10/Proofs.vio
theories/C10/Examples.vos theories/C10/Examples.vok theories/C10/Examples.required_vos: theories/C10/Examples.v theories/Base/Tactics.vos theories/Base/SortedSet.vos theories/C10/Model.vos theories/C10/Proofs.vos
theories/C10/Model.vo theories/C10/Model.glob theories/C10/Model.v.beautified theories/C10/Model.required_vo: theories/C10/Model.v theories/Base/Tactics.vo theories/Base/SortedSet.vo
theories/C10/Model.vio: theories/C10/Model.v theories/Base/Tactics.vio theories/Base/SortedSet.vio
theories/C10/Model.vos theories/C10/Model.vok theories/C10/Model.required_vos: theories/C10/Model.v theories/Base/Tactics.vos theories/Base/SortedSet.vos
theories/C10/Proofs.vo theories/C10/Proofs.glob theories/C10/Proofs.v.beautified theories/C10/Proofs.required_vo: theories/C10/Proofs.v theories/Base/Tactics.vo theories/Base/ListAux.vo theories/Base/SortedSet.vo theories/C10/Model.vo
theories/C10/Proofs.vio: theories/C10/Proofs.v theories/Base/Tactics.vio theories/Base/ListAux.vio theories/Base/SortedSet.vio theories/C10/Model.vio
theories/C10/Proofs.vos theories/C10/Proofs.vok theories/C10/Proofs.required_vos: theories/C10/Proofs.v theories/Base/Tactics.vos theories/Base/ListAux.vos theories/Base/SortedSet.vos theories/C10/Model.vos
theories/C10/Props.vo theories/C10/Props.glob theories/C10/Props.v.beautified theories/C10/Props.required_vo: theories/C10/Props.v theories/Base/Tactics.vo theories/Base/SortedSet.vo theories/C10/Model.vo theories/C10/Proofs.vo
theories/C10/Props.vio: theories/C10/Props.v theories/Base/Tactics.vio theories/Base/SortedSet.vio theories/C10/Model.vio theories/C10/Proofs.vio
theories/C10/Props.vos theories/C10/Props.vok theories/C10/Props.required_vos: theories/C10/Props.v theories/Base/Tactics.vos theories/Base/SortedSet.vos theories/C10/Model.vos theories/C10/Proofs.vos
theories/C11/Examples.vo theories/C11/Examples.glob theories/C11/Examples.v.beautified theories/C11/Examples.required_vo: theories/C11/Examples.v theories/Base/Tactics.vo theories/Lib/Pareto.vo theories/C11/Model.vo
theories/C11/Examples.vio: theories/C11/Examples.v theories/Base/Tactics.vio theories/Lib/Pareto.vio theories/C11/Model.vio
theories/C11/Examples.vos theories/C11/Examples.vok theories/C11/Examples.required_vos: theories/C11/Examples.v theories/Base/Tactics.vos theories/Lib/Pareto.vos theories/C11/Model.vos
theories/C11/Model.vo theories/C11/Model.glob theories/C11/Model.v.beautified theories/C11/Model.required_vo: theories/C11/Model.v theories/Base/Tactics.vo theories/Lib/Pareto.vo
theories/C11/Model.vio: theories/C11/Model.v theories/Base/Tactics.vio theories/Lib/Pareto.vio
theories/C11/Model.vos theories/C11/Model.vok theories/C11/Model.required_vos: theories/C11/Model.v theories/Base/Tactics.vos theories/Lib/Pareto.vos
theories/C11/ProofsLow.vo theories/C11/ProofsLow.glob theories/C11/ProofsLow.v.beautified theories/C11/ProofsLow.required_vo: theories/C11/ProofsLow.v theories/Base/Tactics.vo theories/Base/ListAux.vo theories/Lib/Pareto.vo theories/C11/Model.vo theories/C11/ProofsSfs.vo
theories/C11/ProofsLow.vio: theories/C11/ProofsLow.v theories/Base/Tactics.vio theories/Base/ListAux.vio theories/Lib/Pareto.vio theories/C11/Model.vio theories/C11/ProofsSfs.vio
theories/C11/ProofsLow.vos theories/C11/ProofsLow.vok theories/C11/ProofsLow.required_vos: theories/C11/ProofsLow.v theories/Base/Tactics.vos theories/Base/ListAux.vos theories/Lib/Pareto.vos theories/C11/Model.vos theories/C11/ProofsSfs.vos
theories/C11/ProofsSfs.vo theories/C11/ProofsSfs.glob theories/C11/ProofsSfs.v.beautified theories/C11/ProofsSfs.required_vo: theories/C11/ProofsSfs.v theories/Base/Tactics.vo theories/Base/ListAux.vo theories/Lib/Pareto.vo theories/C11/Model.vo
theories/C11/ProofsSfs.vio: theories/C11/ProofsSfs.v theories/Base/Tactics.vio theories/Base/ListAux.vio theories/Lib/Pareto.vio theories/C11/Model.vio
theories/C11/ProofsSfs.vos theories/C11/ProofsSfs.vok theories/C11/ProofsSfs.required_vos: theories/C11/ProofsSfs.v theories/Base/Tactics.vos theories/Base/ListAux.vos theories/Lib/Pareto.vos theories/C11/Model.vos
theories/C11/ProofsTop.vo theories/C11/ProofsTop.glob theories/C11/ProofsTop.v.beautified theories/C11/ProofsTop.required_vo: theories/C11/ProofsTop.v theories/Base/Tactics.vo theories/Base/ListAux.vo theories/Lib/Pareto.vo theories/C11/Model.vo theories/C11/ProofsSfs.vo theories/C11/ProofsLow.vo
theories/C11/ProofsTop.vio: theories/C11/ProofsTop.v theories/Base/Tactics.vio theories/Base/ListAux.vio theories/Lib/Pareto.vio theories/C11/Model.vio theories/C11/ProofsSfs.vio theories/C11/ProofsLow.vio
theories/C11/ProofsTop.vos theories/C11/ProofsTop.vok theories/C11/ProofsTop.required_vos: theories/C11/ProofsTop.v theories/Base/Tactics.vos theories/Base/ListAux.vos theories/Lib/Pareto.vos theories/C11/Model.vos theories/C11/ProofsSfs.vos theories/C11/ProofsLow.vos
theories/C11/Props.vo theories/C11/Props.glob theories/C11/Props.v.beautified theories/C11/Props.required_vo: theories/C11/Props.v theories/Base/Tactics.vo theories/Lib/Pareto.vo theories/C11/Model.vo theories/C11/ProofsSfs.vo theories/C11/ProofsLow.vo theories/C11/ProofsTop.vo
theories/C11/Props.vio: theories/C11/Props.v theories/Base/Tactics.vio theories/Lib/Pareto.vio theories/C11/Model.vio theories/C11/ProofsSfs.vio theories/C11/ProofsLow.vio theories/C11/ProofsTop.vio
theories/C11/Props.vos theories/C11/Props.vok theories/C11/Props.required_vos: theories/C11/Props.v theories/Base/Tactics.vos theories/Lib/Pareto.vos theories/C11/Model.vos theories/C11/ProofsSfs.vos theories/C11/ProofsLow.vos theories/C11/ProofsTop.vos
theories/C15/Examples.vo theories/C15/Examples.glob theories/C15/Examples.v.beautified theories/C15/Examples.required_vo: theories/C15/Examples.v theories/C15/Model.vo
theories/C15/Examples.vio: theories/C15/Examples.v theories/C15/Model.vio
theories/C15/Examples.vos theories/C15/Examples.vok theories/C15/Examples.required_vos: theories/C15/Examples.v theories/C15/Model.vos
theories/C15/Model.vo theories/C15/Model.glob theories/C15/Model.v.beautified theories/C15/Model.required_vo: theories/C15/Model.v 
theories/C15/Model.vio: theories/C15/Model.v 
theories/C15/Model.vos theories/C15/Model.vok theories/C15/Model.required_vos: theories/C15/Model.v 
theories/C15/Proofs.vo theories/C15/Proofs.glob theories/C15/Proofs.v.beautified theories/C15/Proofs.required_vo: theories/C15/Proofs.v theories/C15/Model.vo
theories/C15/Proofs.vio: theories/C15/Proofs.v theories/C15/Model.vio
theories/C15/Proofs.vos theories/C15/Proofs.vok theories/C15/Proofs.required_vos: theories/C15/Proofs.v theories/C15/Model.vos
theories/C15/Props.vo theories/C15/Props.glob theories/C15/Props.v.beautified theories/C15/Props.required_vo: theories/C15/Props.v theories/C15/Model.vo theories/C15/Proofs.vo
theories/C15/Props.vio: theories/C15/Props.v theories/C15/Model.vio theories/C15/Proofs.vio
theories/C15/Props.vos theories/C15/Props.vok theories/C15/Props.required_vos: theories/C15/Props.v theories/C15/Model.vos theories/C15/Proofs.vos
theories/C21/Examples.vo theories/C21/Examples.glob theories/C21/Examples.v.beautified theories/C21/Examples.required_vo: theories/C21/Examples.v theories/Base/Tactics.vo theories/C21/Model.vo
theories/C21/Examples.vio: theories/C21/Examples.v theories/Base/Tactics.vio theories/C21/Model.vio
theories/C21/Examples.vos theories/C21/Examples.vok theories/C21/Examples.required_vos: theories/C21/Examples.v theories/Base/Tactics.vos theories/C21/Model.vos
theories/C21/Model.vo theories/C21/Model.glob theories/C21/Model.v.beautified theories/C21/Model.required_vo: theories/C21/Model.v theories/Base/Tactics.vo
theories/C21/Model.vio: theories/C21/Model.v theories/Base/Tactics.vio
theories/C21/Model.vos theories/C21/Model.vok theories/C21/Model.required_vos: theories/C21/Model.v theories/Base/Tactics.vos
theories/C21/Proofs.vo theories/C21/Proofs.glob theories/C21/Proofs.v.beautified theories/C21/Proofs.required_vo: theories/C21/Proofs.v theories/Base/Tactics.vo theories/C21/Model.vo
theories/C21/Proofs.vio: theories/C21/Proofs.v theories/Base/Tactics.vio theories/C21/Model.vio
theories/C21/Proofs.vos theories/C21/Proofs.vok theories/C21/Proofs.required_vos: theories/C21/Proofs.v theories/Base/Tactics.vos theories/C21/Model.vos
theories/C21/Props.vo theories/C21/Props.glob theories/C21/Props.v.beautified theories/C21/Props.required_vo: theories/C21/Props.v theories/Base/Tactics.vo theories/C21/Model.vo theories/C21/Proofs.vo
theories/C21/Props.vio: theories/C21/Props.v theories/Base/Tactics.vio theories/C21/Model.vio theories/C21/Proofs.vio
theories/C21/Props.vos theories/C21/Props.vok theories/C21/Props.required_vos: theories/C21/Props.v theories/Base/Tactics.vos theories/C21/Model.vos theories/C21/Proofs.vos
theories/C22/Model.vo theories/C22/Model.glob theories/C22/Model.v.beautified theories/C22/Model.required_vo: theories/C22/Model.v 
theories/C22/Model.vio: theories/C22/Model.v 
theories/C22/Model.vos theories/C22/Model.vok theories/C22/Model.required_vos: theories/C22/Model.v 
theories/C22/Proofs.vo theories/C22/Proofs.glob theories/C22/Proofs.v.beautified theories/C22/Proofs.required_vo: theories/C22/Proofs.v theories/C22/Model.vo
theories/C22/Proofs.vio: theories/C22/Proofs.v theories/C22/Model.vio
theories/C22/Proofs.vos theories/C22/Proofs.vok theories/C22/Proofs.required_vos: theories/C22/Proofs.v theories/C22/Model.vos
theories/C22/Props.vo theories/C22/Props.glob theories/C22/Props.v.beautified theories/C22/Props.required_vo: theories/C22/Props.v theories/C22/Model.vo theories/C22/Proofs.vo
theories/C22/Props.vio: theories/C22/Props.v theories/C22/Model.vio theories/C22/Proofs.vio
theories/C22/Props.vos theories/C22/Props.vok theories/C22/Props.required_vos: theories/C22/Props.v theories/C22/Model.vos theories/C22/Proofs.vos
theories/C23/Model.vo theories/C23/Model.glob theories/C23/Model.v.beautified theories/C23/Model.required_vo: theories/C23/Model.v 
theories/C23/Model.vio: theories/C23/Model.v 
theories/C23/Model.vos theories/C23/Model.vok theories/C23/Model.required_vos: theories/C23/Model.v 
theories/C25/Examples.vo theories/C25/Examples.glob theories/C25/Examples.v.beautified theories/C25/Examples.required_vo: theories/C25/Examples.v theories/Base/Tactics.vo theories/Lib/ArchTree.vo theories/C25/Model.vo
theories/C25/Examples.vio: theories/C25/Examples.v theories/Base/Tactics.vio theories/Lib/ArchTree.vio theories/C25/Model.vio
theories/C25/Examples.vos theories/C25/Examples.vok theories/C25/Examples.required_vos: theories/C25/Examples.v theories/Base/Tactics.vos theories/Lib/ArchTree.vos theories/C25/Model.vos
theories/C25/Model.vo theories/C25/Model.glob theories/C25/Model.v.beautified theories/C25/Model.required_vo: theories/C25/Model.v theories/Base/Tactics.vo theories/Lib/ArchTree.vo
theories/C25/Model.vio: theories/C25/Model.v theories/Base/Tactics.vio theories/Lib/ArchTree.vio
theories/C25/Model.vos theories/C25/Model.vok theories/C25/Model.required_vos: theories/C25/Model.v theories/Base/Tactics.vos theories/Lib/ArchTree.vos
theories/C25/Proofs.vo theories/C25/Proofs.glob theories/C25/Proofs.v.beautified theories/C25/Proofs.required_vo: theories/C25/Proofs.v theories/Base/Tactics.vo theories/Lib/ArchTree.vo theories/C25/Model.vo
theories/C25/Proofs.vio: theories/C25/Proofs.v theories/Base/Tactics.vio theories/Lib/ArchTree.vio theories/C25/Model.vio
theories/C25/Proofs.vos theories/C25/Proofs.vok theories/C25/Proofs.required_vos: theories/C25/Proofs.v theories/Base/Tactics.vos theories/Lib/ArchTree.vos theories/C25/Model.vos
theories/C25/Props.vo theories/C25/Props.glob theories/C25/Props.v.beautified theories/C25/Props.required_vo: theories/C25/Props.v theories/Base/Tactics.vo theories/Lib/ArchTree.vo theories/C25/Model.vo theories/C25/Proofs.vo
theories/C25/Props.vio: theories/C25/Props.v theories/Base/Tactics.vio theories/Lib/ArchTree.vio theories/C25/Model.vio theories/C25/Proofs.vio
theories/C25/Props.vos theories/C25/Props.vok theories/C25/Props.required_vos: theories/C25/Props.v theories/Base/Tactics.vos theories/Lib/ArchTree.vos theories/C25/Model.vos theories/C25/Proofs.vos
theories/C26/Model.vo theories/C26/Model.glob theories/C26/Model.v.beautified theories/C26/Model.required_vo: theories/C26/Model.v theories/Base/Tactics.vo theories/Lib/ArchTree.vo
theories/C26/Model.vio: theories/C26/Model.v theories/Base/Tactics.vio theories/Lib/ArchTree.vio
theories/C26/Model.vos theories/C26/Model.vok theories/C26/Model.required_vos: theories/C26/Model.v theories/Base/Tactics.vos theories/Lib/ArchTree.vos
theories/C26/Proofs.vo theories/C26/Proofs.glob theories/C26/Proofs.v.beautified theories/C26/Proofs.required_vo: theories/C26/Proofs.v theories/Base/Tactics.vo theories/Base/ListAux.vo theories/Lib/ArchTree.vo theories/C26/Model.vo
theories/C26/Proofs.vio: theories/C26/Proofs.v theories/Base/Tactics.vio theories/Base/ListAux.vio theories/Lib/ArchTree.vio theories/C26/Model.vio
theories/C26/Proofs.vos theories/C26/Proofs.vok theories/C26/Proofs.required_vos: theories/C26/Proofs.v theories/Base/Tactics.vos theories/Base/ListAux.vos theories/Lib/ArchTree.vos theories/C26/Model.vos
theories/C26/Props.vo theories/C26/Props.glob theories/C26/Props.v.beautified theories/C26/Props.required_vo: theories/C26/Props.v theories/Base/Tactics.vo theories/Lib/ArchTree.vo theories/C26/Model.vo theories/C26/Proofs.vo
theories/C26/Props.vio: theories/C26/Props.v theories/Base/Tactics.vio theories/Lib/ArchTree.vio theories/C26/Model.vio theories/C26/Proofs.vio
theories/C26/Props.vos theories/C26/Props.vok theories/C26/Props.required_vos: theories/C26/Props.v theories/Base/Tactics.vos theories/Lib/ArchTree.vos theories/C26/Model.vos theories/C26/Proofs.vos
theories/C27/Model.vo theories/C27/Model.glob theories/C27/Model.v.beautified theories/C27/Model.required_vo: theories/C27/Model.v 
theories/C27/Model.vio: theories/C27/Model.v 
theories/C27/Model.vos theories/C27/Model.vok theories/C27/Model.required_vos: theories/C27/Model.v 
theories/C27/Proofs.vo theories/C27/Proofs.glob theories/C27/Proofs.v.beautified theories/C27/Proofs.required_vo: theories/C27/Proofs.v theories/C27/Model.vo
theories/C27/Proofs.vio: theories/C27/Proofs.v theories/C27/Model.vio
theories/C27/Proofs.vos theories/C27/Proofs.vok theories/C27/Proofs.required_vos: theories/C27/Proofs.v theories/C27/Model.vos
theories/C27/Props.vo theories/C27/Props.glob theories/C27/Props.v.beautified theories/C27/Props.required_vo: theories/C27/Props.v theories/C27/Model.vo theories/C27/Proofs.vo
theories/C27/Props.vio: theories/C27/Props.v theories/C27/Model.vio theories/C27/Proofs.vio
theories/C27/Props.vos theories/C27/Props.vok theories/C27/Props.required_vos: theories/C27/Props.v theories/C27/Model.vos theories/C27/Proofs.vos
theories/C29/Model.vo theories/C29/Model.glob theories/C29/Model.v.beautified theories/C29/Model.required_vo: theories/C29/Model.v theories/C22/Model.vo
theories/C29/Model.vio: theories/C29/Model.v theories/C22/Model.vio
theories/C29/Model.vos theories/C29/Model.vok theories/C29/Model.required_vos: theories/C29/Model.v theories/C22/Model.vos
theories/C29/Proofs.vo theories/C29/Proofs.glob theories/C29/Proofs.v.beautified theories/C29/Proofs.required_vo: theories/C29/Proofs.v theories/C22/Model.vo theories/C29/Model.vo
theories/C29/Proofs.vio: theories/C29/Proofs.v theories/C22/Model.vio theories/C29/Model.vio
theories/C29/Proofs.vos theories/C29/Proofs.vok theories/C29/Proofs.required_vos: theories/C29/Proofs.v theories/C22/Model.vos theories/C29/Model.vos
theories/C29/Props.vo theories/C29/Props.glob theories/C29/Props.v.beautified theories/C29/Props.required_vo: theories/C29/Props.v theories/C22/Model.vo theories/C29/Model.vo theories/C29/Proofs.vo
theories/C29/Props.vio: theories/C29/Props.v theories/C22/Model.vio theories/C29/Model.vio theories/C29/Proofs.vio
theories/C29/Props.vos theories/C29/Props.vok theories/C29/Props.required_vos: theories/C29/Props.v theories/C22/Model.vos theories/C29/Model.vos theories/C29/Proofs.vos
theories/C30/Model.vo theories/C30/Model.glob theories/C30/Model.v.beautified theories/C30/Model.required_vo: theories/C30/Model.v 
theories/C30/Model.vio: theories/C30/Model.v 
theories/C30/Model.vos theories/C30/Model.vok theories/C30/Model.required_vos: theories/C30/Model.v 
theories/C30/Proofs.vo theories/C30/Proofs.glob theories/C30/Proofs.v.beautified theories/C30/Proofs.required_vo: theories/C30/Proofs.v theories/C30/Model.vo
theories/C30/Proofs.vio: theories/C30/Proofs.v theories/C30/Model.vio
theories/C30/Proofs.vos theories/C30/Proofs.vok theories/C30/Proofs.required_vos: theories/C30/Proofs.v theories/C30/Model.vos
theories/C30/Props.vo theories/C30/Props.glob theories/C30/Props.v.beautified theories/C30/Props.required_vo: theories/C30/Props.v theories/C30/Model.vo theories/C30/Proofs.vo
theories/C30/Props.vio: theories/C30/Props.v theories/C30/Model.vio theories/C30/Proofs.vio
theories/C30/Props.vos theories/C30/Props.vok theories/C30/Props.required_vos: theories/C30/Props.v theories/C30/Model.vos theories/C30/Proofs.vos
theories/C32/Model.vo theories/C32/Model.glob theories/C32/Model.v.beautified theories/C32/Model.required_vo: theories/C32/Model.v 
theories/C32/Model.vio: theories/C32/Model.v 
theories/C32/Model.vos theories/C32/Model.vok theories/C32/Model.required_vos: theories/C32/Model.v 
theories/C32/Proofs.vo theories/C32/Proofs.glob theories/C32/Proofs.v.beautified theories/C32/Proofs.required_vo: theories/C32/Proofs.v theories/C32/Model.vo
theories/C32/Proofs.vio: theories/C32/Proofs.v theories/C32/Model.vio
theories/C32/Proofs.vos theories/C32/Proofs.vok theories/C32/Proofs.required_vos: theories/C32/Proofs.v theories/C32/Model.vos
theories/C32/Props.vo theories/C32/Props.glob theories/C32/Props.v.beautified theories/C32/Props.required_vo: theories/C32/Props.v theories/C32/Model.vo theories/C32/Proofs.vo
theories/C32/Props.vio: theories/C32/Props.v theories/C32/Model.vio theories/C32/Proofs.vio
theories/C32/Props.vos theories/C32/Props.vok theories/C32/Props.required_vos: theories/C32/Props.v theories/C32/Model.vos theories/C32/Proofs.vos
theories/Lib/ArchTree.vo theories/Lib/ArchTree.glob theories/Lib/ArchTree.v.beautified theories/Lib/ArchTree.required_vo: theories/Lib/ArchTree.v theories/Base/Tactics.vo
theories/Lib/ArchTree.vio: theories/Lib/ArchTree.v theories/Base/Tactics.vio
theories/Lib/ArchTree.vos theories/Lib/ArchTree.vok theories/Lib/ArchTree.required_vos: theories/Lib/ArchTree.v theories/Base/Tactics.vos
theories/Lib/Pareto.vo theories/Lib/Pareto.glob theories/Lib/Pareto.v.beautified theories/Lib/Pareto.required_vo: theories/Lib/Pareto.v theories/Base/Tactics.vo
theories/Lib/Pareto.vio: theories/Lib/Pareto.v theories/Base/Tactics.vio
theories/Lib/Pareto.vos theories/Lib/Pareto.vok theories/Lib/Pareto.required_vos: theories/Lib/Pareto.v theories/Base/Tactics.vos
