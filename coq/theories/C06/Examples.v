From Coq Require Import ZArith List Bool.
Import ListNotations.
From AF Require Import Lib.MiniForge C05.Proofs C06.Model C06.Props.
Open Scope Z_scope.
(* hypotheses of C06_single / C06_never_under_reports are satisfiable by a mapping with holders below loops *)
Definition ex_m := [Sto 0 0; Sto 0 1; Sto 0 2; Loop 0 2; Sto 1 0; Loop 2 1; Sto 1 1; Loop 0 1; Sto 1 2; Loop 1 3; Loop 1 1].
Example ex_clean : all_clean w_ts ex_m = true /\ valid_loops ex_m [4; 6; 2] = true. Proof. vm_compute. split; reflexivity. Qed.
(* GLB: A 2x6 (n below is irrelevant), B 6x1, C 1x1 *)
Example ex_usage : usage_code w_ts (fun _ _ => 1) ex_m [4; 6; 2] 1 = 19. Proof. vm_compute. reflexivity. Qed.
