(* C06 model — memory usage of a single-Einsum mapping.
   Code: insert_reservation_nodes (ReservationAnalysisTracker: a non-first holder's reservation is lowered through the
   run of loops relevant to its tensor that directly follows the holder; ANY holder node, an irrelevant loop or the
   compute ends the run; a tensor's first holder is not lowered), analyze_reservation (tile at that position x bits per
   value), run_model (sum per memory / size; InvalidMappingError when the sum exceeds the size).
   Reference: execution-time peak of the live tiles, tile-granular with streaming: under a loop relevant to the tensor
   each iteration's sub-tile is used in that iteration only, so the holder needs one sub-tile at a time; under an
   irrelevant loop the whole current tile is reused by every iteration and stays live; holders of OTHER tensors are not
   events of this tensor's life. *)
From Coq Require Import ZArith QArith List Bool Lia.
Import ListNotations.
Require Import AF.Lib.MiniForge.
Open Scope Z_scope.

Section Resv.
  Variable tensors : list tensor.
  Definition tn (t : nat) := nth t tensors (mkT [] false).

  (* shape at the reservation, as coded *)
  Fixpoint lower_code (t : nat) (rest : list node) (s : shape) : shape :=
    match rest with
    | Loop rv tile :: rest' => if nth rv (t_rel (tn t)) false then lower_code t rest' (set_nth rv tile s) else s
    | _ => s
    end.
  (* shape of the live sub-tile in execution *)
  Fixpoint lower_ref (t : nat) (rest : list node) (s : shape) : shape :=
    match rest with
    | Loop rv tile :: rest' => if nth rv (t_rel (tn t)) false then lower_ref t rest' (set_nth rv tile s) else s
    | Sto _ t' :: rest' => if Nat.eqb t' t then s else lower_ref t rest' s
    | [] => s
    end.

  (* (level, tensor, reserved values) for every holder, in mapping order *)
  Fixpoint resv (lower : nat -> list node -> shape -> shape) (seen : list nat) (m : list node) (s : shape) : list (nat * nat * Z) :=
    match m with
    | [] => []
    | Loop rv tile :: rest => resv lower seen rest (set_nth rv tile s)
    | Sto lvl t :: rest =>
        let sh := if existsb (Nat.eqb t) seen then lower t rest s else s in
        (lvl, t, occupancy (t_rel (tn t)) sh) :: resv lower (t :: seen) rest s
    end.

  (* the run of relevant loops after a holder is not cut short by another tensor's holder *)
  Fixpoint clean (t : nat) (rest : list node) : bool :=
    match rest with
    | Loop rv _ :: rest' => if nth rv (t_rel (tn t)) false then clean t rest' else true
    | Sto _ t' :: _ => Nat.eqb t' t
    | [] => true
    end.
  (* (a tensor's first holder is never lowered, so only later holders matter) *)
  Fixpoint all_clean_from (seen : list nat) (m : list node) : bool :=
    match m with
    | [] => true
    | Loop _ _ :: rest => all_clean_from seen rest
    | Sto _ t :: rest => (negb (existsb (Nat.eqb t) seen) || clean t rest) && all_clean_from (t :: seen) rest
    end.
  Definition all_clean (m : list node) : bool := all_clean_from [] m.
End Resv.

(* bits reserved in a level: sum over its holders of values x bits per value *)
Definition bits_in (bpv : nat -> nat -> Z) (lvl : nat) (r : list (nat * nat * Z)) : Z :=
  fold_right (fun x acc => let '(l, t, v) := x in if Nat.eqb l lvl then acc + v * bpv l t else acc) 0 r.

Definition usage_code tensors bpv m s lvl := bits_in bpv lvl (resv tensors (lower_code tensors) [] m s).
Definition usage_ref tensors bpv m s lvl := bits_in bpv lvl (resv tensors (lower_ref tensors) [] m s).
(* evaluate_mapping: Invalid when some finite memory is over-subscribed *)
Definition accepted (tensors : list tensor) (bpv : nat -> nat -> Z) (sizes : list (option Z)) (m : list node) (s : shape) : bool :=
  forallb (fun lvl => match nth lvl sizes None with None => true | Some sz => usage_code tensors bpv m s lvl <=? sz end) (seq 0 (length sizes)).
