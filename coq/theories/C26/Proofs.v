From AF Require Import Base.Tactics Base.ListAux Lib.ArchTree C26.Model.
Open Scope Z_scope.

Definition noncomp (L : list leaf) : list leaf := filter (fun l => negb (is_comp l)) L.

(* leaves on the main path of a forest: not inside forks *)
Fixpoint mainF (f : forest) : list leaf :=
  match f with
  | FNil => []
  | FCons a f' =>
      (match a with ALeaf l => [l] | AHier fork sub => if fork then [] else mainF sub end) ++ mainF f'
  end.

Lemma iterF_parents f : forall P, snd (iterF P f) = P ++ map lf (noncomp (mainF f)).
Proof.
  apply (forest_mind
    (fun a => match a with ALeaf _ => True | AHier _ sub => forall P, snd (iterF P sub) = P ++ map lf (noncomp (mainF sub)) end)
    (fun f => forall P, snd (iterF P f) = P ++ map lf (noncomp (mainF f)))); simpl; auto.
  - intros P. rewrite app_nil_r. reflexivity.
  - intros a Ha f' IH P. destruct a as [l|fork sub]; simpl.
    + specialize (IH (if is_comp l then P else P ++ [lf l])).
      destruct (iterF (if is_comp l then P else P ++ [lf l]) f') as [r P2]. simpl in *. rewrite IH.
      destruct (is_comp l); simpl; [reflexivity|]. rewrite <- app_assoc. reflexivity.
    + specialize (Ha P). destruct (iterF P sub) as [r1 P1]. simpl in Ha.
      specialize (IH (if fork then P else P1)). destruct (iterF (if fork then P else P1) f') as [r2 P2]. simpl in *.
      rewrite IH. unfold noncomp. destruct fork; simpl; [reflexivity|].
      rewrite Ha, filter_app, map_app, app_assoc. reflexivity.
Qed.

Lemma iterF_leaves f : forall P, map fst (fst (iterF P f)) = leavesF f.
Proof.
  apply (forest_mind
    (fun a => match a with ALeaf _ => True | AHier _ sub => forall P, map fst (fst (iterF P sub)) = leavesF sub end)
    (fun f => forall P, map fst (fst (iterF P f)) = leavesF f)); simpl; auto.
  intros a Ha f' IH P. destruct a as [l|fork sub]; simpl.
  - specialize (IH (if is_comp l then P else P ++ [lf l])).
    destruct (iterF (if is_comp l then P else P ++ [lf l]) f') as [r P2]. simpl in *. rewrite IH. reflexivity.
  - specialize (Ha P). destruct (iterF P sub) as [r1 P1]. simpl in Ha.
    specialize (IH (if fork then P else P1)). destruct (iterF (if fork then P else P1) f') as [r2 P2]. simpl in *.
    rewrite map_app, Ha, IH. reflexivity.
Qed.

(* [before] on the pruned leaf sequence, split at a hierarchy boundary *)
Lemma before_app_in x L1 L2 : existsb (fun l => Nat.eqb (ln l) x) L1 = true -> before x (L1 ++ L2) = before x L1.
Proof.
  induction L1 as [|l L1 IH]; simpl; [discriminate|].
  destruct (Nat.eqb (ln l) x); [reflexivity|]. simpl. intros H. rewrite IH by exact H. reflexivity.
Qed.

Lemma before_app_out x L1 L2 : existsb (fun l => Nat.eqb (ln l) x) L1 = false -> before x (L1 ++ L2) = L1 ++ before x L2.
Proof.
  induction L1 as [|l L1 IH]; simpl; [reflexivity|].
  destruct (Nat.eqb (ln l) x); [discriminate|]. simpl. intros H. rewrite IH by exact H. reflexivity.
Qed.

(* a forest that does not contain x: its pruned leaves are its main-path leaves *)
Lemma pleaves_absent x f : containsF x f = false -> pleaves x f = mainF f.
Proof.
  apply (forest_mind
    (fun a => match a with ALeaf _ => True | AHier _ sub => containsF x sub = false -> pleaves x sub = mainF sub end)
    (fun f => containsF x f = false -> pleaves x f = mainF f)); simpl; auto.
  intros a Ha f' IH H. apply orb_false_iff in H. destruct H as [H1 H2]. rewrite (IH H2).
  destruct a as [l|fork sub]; [reflexivity|]. rewrite H1. destruct fork; simpl; [reflexivity|]. rewrite (Ha H1). reflexivity.
Qed.

Lemma pleaves_sub_leaves x f : forall l, In l (pleaves x f) -> In l (leavesF f).
Proof.
  apply (forest_mind
    (fun a => match a with ALeaf _ => True | AHier _ sub => forall l, In l (pleaves x sub) -> In l (leavesF sub) end)
    (fun f => forall l, In l (pleaves x f) -> In l (leavesF f))); simpl; auto.
  intros a Ha f' IH l Hl. apply in_app_or in Hl. apply in_or_app. destruct Hl as [Hl|Hl]; [left|right; apply IH, Hl].
  destruct a as [l0|fork sub]; [exact Hl|]. destruct (fork && negb (containsF x sub)); [destruct Hl|apply Ha, Hl].
Qed.

Lemma mainF_sub_leaves f : forall l, In l (mainF f) -> In l (leavesF f).
Proof.
  apply (forest_mind
    (fun a => match a with ALeaf _ => True | AHier _ sub => forall l, In l (mainF sub) -> In l (leavesF sub) end)
    (fun f => forall l, In l (mainF f) -> In l (leavesF f))); simpl; auto.
  intros a Ha f' IH l Hl. apply in_app_or in Hl. apply in_or_app. destruct Hl as [Hl|Hl]; [left|right; apply IH, Hl].
  destruct a as [l0|fork sub]; [exact Hl|]. destruct fork; [destruct Hl|apply Ha, Hl].
Qed.

Lemma existsb_name_false x (L : list leaf) : (forall l, In l L -> ln l <> x) -> existsb (fun l => Nat.eqb (ln l) x) L = false.
Proof.
  induction L as [|l L IH]; simpl; intros H; [reflexivity|].
  destruct (Nat.eqb_spec (ln l) x) as [E|E]; [exfalso; apply (H l); auto|]. simpl. apply IH. intros; apply H; auto.
Qed.

Lemma pleaves_has x f : containsF x f = true -> existsb (fun l => Nat.eqb (ln l) x) (pleaves x f) = true.
Proof.
  apply (forest_mind
    (fun a => match a with ALeaf _ => True | AHier _ sub => containsF x sub = true -> existsb (fun l => Nat.eqb (ln l) x) (pleaves x sub) = true end)
    (fun f => containsF x f = true -> existsb (fun l => Nat.eqb (ln l) x) (pleaves x f) = true)); simpl; auto.
  intros a Ha f' IH H. rewrite existsb_app. apply orb_true_iff in H. destruct H as [H|H]; [|rewrite (IH H); apply orb_true_r].
  destruct a as [l0|fork sub]; simpl in *.
  - rewrite H. reflexivity.
  - rewrite H, andb_false_r, (Ha H). reflexivity.
Qed.

Lemma noncomp_app A B : noncomp (A ++ B) = noncomp A ++ noncomp B.
Proof. apply filter_app. Qed.

(* main statement, generalised over the incoming parent list *)
Lemma iterF_spec f : forall P l g,
  NoDup (map ln (leavesF f)) -> In (l, g) (fst (iterF P f)) ->
  g = lf l * zprodl P * zprodl (map lf (noncomp (before (ln l) (pleaves (ln l) f)))).
Proof.
  apply (forest_mind
    (fun a => match a with ALeaf _ => True | AHier _ sub => forall P l g,
        NoDup (map ln (leavesF sub)) -> In (l, g) (fst (iterF P sub)) ->
        g = lf l * zprodl P * zprodl (map lf (noncomp (before (ln l) (pleaves (ln l) sub)))) end)
    (fun f => forall P l g,
        NoDup (map ln (leavesF f)) -> In (l, g) (fst (iterF P f)) ->
        g = lf l * zprodl P * zprodl (map lf (noncomp (before (ln l) (pleaves (ln l) f)))))); simpl; auto.
  - intros P l g _ [].
  - intros a Ha f' IH P l g Hnd Hin. destruct a as [l0|fork sub]; simpl in *.
    + (* a leaf *)
      pose proof (iterF_leaves f' (if is_comp l0 then P else P ++ [lf l0])) as Hlv.
      pose proof (IH (if is_comp l0 then P else P ++ [lf l0]) l g) as Hg.
      destruct (iterF (if is_comp l0 then P else P ++ [lf l0]) f') as [r P2] eqn:Eit. simpl in *.
      inversion Hnd as [|? ? Hn0 Hnd']; subst.
      destruct Hin as [Hin|Hin].
      * inversion Hin; subst. rewrite Nat.eqb_refl. simpl. ring.
      * assert (Hl : In l (leavesF f')) by (rewrite <- Hlv; apply in_map_iff; exists (l, g); tauto).
        assert (Hne : ln l0 <> ln l) by (intro E; apply Hn0; rewrite E; apply in_map, Hl).
        destruct (Nat.eqb_spec (ln l0) (ln l)); [contradiction|].
        rewrite (Hg Hnd' Hin). unfold noncomp. cbn [filter].
        destruct (is_comp l0); cbn [negb map]; [reflexivity|].
        rewrite zprodl_app. unfold zprodl. cbn [fold_right]. ring.
    + (* a hierarchy or a fork *)
      rewrite map_app in Hnd. apply NoDup_app_inv in Hnd. destruct Hnd as [Hnd1 [Hnd2 Hdisj]].
      pose proof (iterF_leaves sub P) as Hlv1. pose proof (iterF_parents sub P) as Hp1.
      pose proof (Ha P l g Hnd1) as Hg1.
      destruct (iterF P sub) as [r1 P1] eqn:E1. simpl in *.
      pose proof (iterF_leaves f' (if fork then P else P1)) as Hlv2.
      pose proof (IH (if fork then P else P1) l g Hnd2) as Hg2.
      destruct (iterF (if fork then P else P1) f') as [r2 P2] eqn:E2. simpl in *.
      apply in_app_or in Hin. destruct Hin as [Hin|Hin].
      * (* the leaf is inside: what follows the hierarchy is irrelevant *)
        assert (Hl : In l (leavesF sub)) by (rewrite <- Hlv1; apply in_map_iff; exists (l, g); tauto).
        assert (Hc : containsF (ln l) sub = true).
        { rewrite containsF_leaves. apply existsb_exists. exists l. split; [exact Hl|apply Nat.eqb_refl]. }
        rewrite Hc, andb_false_r. rewrite before_app_in by (apply pleaves_has, Hc). apply Hg1, Hin.
      * (* the leaf comes after it *)
        assert (Hl : In l (leavesF f')) by (rewrite <- Hlv2; apply in_map_iff; exists (l, g); tauto).
        assert (Hnot : forall l1, In l1 (leavesF sub) -> ln l1 <> ln l).
        { intros l1 H1 E. apply (Hdisj (ln l)); [rewrite <- E; apply in_map, H1|apply in_map, Hl]. }
        assert (Hc : containsF (ln l) sub = false) by (rewrite containsF_leaves; apply existsb_name_false, Hnot).
        rewrite Hc, andb_true_r. rewrite (Hg2 Hin).
        destruct fork; cbn [negb app].
        -- reflexivity.
        -- rewrite (pleaves_absent _ _ Hc).
           rewrite before_app_out by (apply existsb_name_false; intros l1 H1; apply Hnot, mainF_sub_leaves, H1).
           rewrite noncomp_app, map_app, zprodl_app, Hp1, zprodl_app. ring.
Qed.

Theorem totals_correct f l g :
  NoDup (map ln (leavesF f)) -> In (l, g) (impl_totals f) -> g = spec_instances l f.
Proof.
  intros Hnd Hin. unfold impl_totals in Hin. rewrite (iterF_spec f [] l g Hnd Hin).
  unfold spec_instances, ancestors, noncomp, zprodl. simpl. ring.
Qed.

Theorem totals_complete f : map fst (impl_totals f) = leavesF f.
Proof. apply iterF_leaves. Qed.
