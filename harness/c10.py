"""C10 — tile-shape candidates and mapspace counts (DESIGN.md section 6, C10)."""
import itertools
import math

import common
from common import coq_Z, coq_bool, coq_list

TRUSTED = [
    "math.ceil(n**0.5) is modelled by the exact Z.sqrt_up; float exactness is exercised (not proved) on the enumerated range",
    "coarseness = 1 only (the property's quantifier); round(n/inner)*inner is modelled as exact",
    "functions modelled: make_tile_shapes._factorize, get_possible_factor_sizes, _mathfuncs._divisors, _count_factorizations",
]


def impl():
    common.setup_impl_path()
    from accelforge.mapper.FFM._make_pmappings.make_pmappings_from_templates import make_tile_shapes as mts
    from accelforge.util import _mathfuncs as mf
    return mts, mf


def divisors(n):
    return [d for d in range(1, n + 1) if n % d == 0]


def oracle_perfect(outer, inner):
    return [t for t in range(1, outer + 1) if t % inner == 0 and outer % t == 0]


def cdiv(a, b):
    return -(-a // b)


def oracle_imperfect_ok(outer, inner, got):
    """property: every achievable tile count's smallest shape is present; nothing exceeds outer."""
    if any(t > outer or t < 1 for t in got):
        return "candidate outside 1..outer"
    s = set(got)
    for m in range(inner, outer + 1, inner):
        k = cdiv(outer, m)
        smallest = next(t for t in range(1, outer + 1) if cdiv(outer, t) == k)
        if smallest not in s:
            return f"tile count {k} (from shape {m}): smallest shape {smallest} missing"
    return None


def brute_chains(n, pattern):
    if len(pattern) <= 1:
        return 1
    tot = 0
    if pattern[0]:
        for s in range(1, n + 1):
            tot += brute_chains(cdiv(n, s), pattern[1:])
    else:
        for d in range(1, n + 1):
            if n % d == 0:
                tot += brute_chains(n // d, pattern[1:])
    return tot


def brute_count_perfect(n, L):
    """independent characterisation: ordered tuples (f1..f_{L-1}) of positive ints whose product divides n"""
    if L <= 1:
        return 1
    cnt = 0
    ds = divisors(n)
    for tup in itertools.product(ds, repeat=L - 1):
        if n % math.prod(tup) == 0:
            cnt += 1
    return cnt


def call(ck, f, *a):
    try:
        r = f(*a)
        return [int(x) for x in r] if hasattr(r, "__iter__") else int(r)
    except Exception as e:  # an exception on a legal input is itself a failure of the property
        return f"EXC:{type(e).__name__}:{e}"


def run(ck):
    mts, mf = impl()
    ck.prove()
    N = ck.n(600, 4000)
    rng = ck.rng("pairs")

    # ---------------- factorize: exhaustive over 1..N
    ns = list(range(1, N + 1))
    got_f = {}
    for n in ns:
        got_f[n] = call(ck, mts._factorize, n)
        ck.case(("factorize", n), nontrivial=n > 1)
        if got_f[n] != divisors(n):
            ck.failing_input({"function": "_factorize", "n": n, "impl": got_f[n], "expected": divisors(n)},
                             what=f"_factorize({n}) is not the divisor set")
    # ---------------- factor sizes
    pairs = []
    for outer in range(1, N + 1):
        for inner in divisors(outer):
            pairs.append((outer, inner))
    extra = []
    for _ in range(ck.n(300, 3000)):  # inner does not divide outer: correspondence only
        o = rng.randint(2, N)
        i = rng.randint(2, o)
        if o % i:
            extra.append((o, i))
    got_p, got_i = {}, {}
    mts.get_possible_factor_sizes.cache_clear()
    for (o, i) in pairs + extra:
        got_p[(o, i)] = call(ck, mts.get_possible_factor_sizes, o, False, i)
        got_i[(o, i)] = call(ck, mts.get_possible_factor_sizes, o, True, i)
    for (o, i) in pairs:
        ck.case(("sizes", o, i), nontrivial=o > i)
        exp = oracle_perfect(o, i)
        if got_p[(o, i)] != exp:
            ck.failing_input({"function": "get_possible_factor_sizes", "outer": o, "inner": i, "imperfect": False,
                              "impl": got_p[(o, i)], "expected": exp}, what="perfect candidates differ from {multiples of inner dividing outer}")
        g = got_i[(o, i)]
        why = "raised" if isinstance(g, str) else oracle_imperfect_ok(o, i, g) if (o <= 400 or rng.random() < 0.05) else None
        if why:
            ck.failing_input({"function": "get_possible_factor_sizes", "outer": o, "inner": i, "imperfect": True,
                              "impl": g, "why": why}, what="imperfect candidates: " + why)
    ck.samples.append({"outer": 24, "inner": 2, "perfect": got_p.get((24, 2)), "imperfect": got_i.get((24, 2))})

    # ---------------- counter
    NC = ck.n(20, 64)
    pats = [p for L in range(0, 5) for p in itertools.product([False, True], repeat=L)]
    got_c = {}
    for n in range(1, NC + 1):
        for p in pats:
            got_c[(n, p)] = call(ck, mf._count_factorizations, n, p)
            ck.case(("count", n, p), nontrivial=len(p) > 1 and n > 1)
            if n <= 24 or sum(p) <= 1:
                exp = brute_chains(n, p)
                if got_c[(n, p)] != exp:
                    ck.failing_input({"function": "_count_factorizations", "n": n, "pattern": p, "impl": got_c[(n, p)], "expected": exp},
                                     what="count differs from brute-force chain enumeration")
            if not any(p) and got_c[(n, p)] != brute_count_perfect(n, len(p)):
                ck.failing_input({"function": "_count_factorizations", "n": n, "pattern": p, "impl": got_c[(n, p)],
                                  "expected": brute_count_perfect(n, len(p))}, what="all-perfect count differs from #tuples with product dividing n")
    ck.samples.append({"n": 12, "pattern": [False, True, False], "count": got_c.get((12, (False, True, False)))})

    # ---------------- model side (Coq, vm_compute) and diff
    exprs = []
    step = 200
    for k in range(0, len(ns), step):
        exprs.append("map factorize " + coq_list(ns[k:k + step], coq_Z))
    allp = pairs + extra
    pstep = 400
    for k in range(0, len(allp), pstep):
        lit = coq_list(allp[k:k + pstep], lambda p: f"({coq_Z(p[0])}, {coq_Z(p[1])})")
        exprs.append(f"map (fun p => (factor_sizes (fst p) false (snd p), factor_sizes (fst p) true (snd p))) {lit}")
    ckeys = list(got_c)
    cstep = 300
    for k in range(0, len(ckeys), cstep):
        lit = coq_list(ckeys[k:k + cstep], lambda q: f"({coq_Z(q[0])}, {coq_list(q[1], coq_bool)})")
        exprs.append(f"map (fun q => count_fact (fst q) (snd q)) {lit}")
    vals = common.run_coq_eval("C10", ["AF.C10.Model"], exprs, chunk=4)
    vi = iter(vals)
    mism = []
    for k in range(0, len(ns), step):
        for n, m in zip(ns[k:k + step], next(vi)):
            if m != got_f[n]:
                mism.append({"function": "_factorize", "n": n, "impl": got_f[n], "model": m})
    for k in range(0, len(allp), pstep):
        for pr, m in zip(allp[k:k + pstep], next(vi)):
            if list(m[0]) != got_p[pr] or list(m[1]) != got_i[pr]:
                mism.append({"function": "get_possible_factor_sizes", "outer": pr[0], "inner": pr[1],
                             "impl": [got_p[pr], got_i[pr]], "model": [m[0], m[1]]})
    for k in range(0, len(ckeys), cstep):
        for q, m in zip(ckeys[k:k + cstep], next(vi)):
            if m != got_c[q]:
                mism.append({"function": "_count_factorizations", "n": q[0], "pattern": q[1], "impl": got_c[q], "model": m})
    ck.count("model_vs_impl_compared", len(ns) + len(allp) * 2 + len(ckeys))
    ck.count("model_vs_impl_mismatches", len(mism))
    if mism and not ck.violations:
        ck.unexplained("broken-correspondence", {"mismatches": mism[:5], "n_mismatches": len(mism)},
                       what="Coq model and implementation disagree; oracle found no property failure")
    return ck.finish(
        rule=f"exhaustive: _factorize for every n<= {N}; get_possible_factor_sizes for every outer<= {N}, every inner|outer, both modes "
             f"(+{len(extra)} sampled non-dividing pairs, model-vs-code only); _count_factorizations for n<= {NC}, all 31 patterns of length<=4. "
             "non-trivial = outer>inner / n>1 with pattern length>1",
        trusted=TRUSTED, exhaustive=True,
        extra={"source_fingerprint": [common.fingerprint("accelforge/mapper/FFM/_make_pmappings/make_pmappings_from_templates/make_tile_shapes.py",
                                                         ["_factorize", "get_possible_factor_sizes"]),
                                      common.fingerprint("accelforge/util/_mathfuncs.py", ["_count_factorizations", "_divisors"])]})


def replay(ck, data):
    mts, mf = impl()
    fn = data.get("function")
    bad = False
    if fn == "_factorize":
        bad = call(ck, mts._factorize, data["n"]) != divisors(data["n"])
    elif fn == "get_possible_factor_sizes":
        o, i = data["outer"], data["inner"]
        g = call(ck, mts.get_possible_factor_sizes, o, data["imperfect"], i)
        bad = (isinstance(g, str) or oracle_imperfect_ok(o, i, g) is not None) if data["imperfect"] else g != oracle_perfect(o, i)
    elif fn == "_count_factorizations":
        bad = call(ck, mf._count_factorizations, data["n"], tuple(data["pattern"])) != brute_chains(data["n"], tuple(data["pattern"]))
    if bad:
        print(f"VIOLATION property=C10 replay={data.get('_path', '<replayed>')}")
        return 1
    print("replay: property holds on this input now")
    return 0
