"""Top-level job functions for C32 (must be importable by worker processes)."""
import time


def job(i, payload, sleep_ms):
    if sleep_ms:
        time.sleep(sleep_ms / 1000.0)
    return (i, payload)
