From Coq Require Import QArith List Bool.
Import ListNotations.
From AF Require Import C27.Model.

Lemma step_q_idem fl q : step_q fl (step_q fl q) = step_q fl q.
Proof.
  unfold step_q. destruct (fl (qk q)) eqn:E, (fin q) eqn:F; simpl; rewrite ?E, ?F; simpl; try reflexivity.
Qed.

(* once final, a quantity never changes again, whatever the later calls ask for *)
Lemma step_q_final fl q : fin q = true -> step_q fl q = q.
Proof. unfold step_q. intros ->. rewrite andb_false_r. reflexivity. Qed.

Lemma step_q_fin_mono fl q : fin q = true -> fin (step_q fl q) = true.
Proof. intros H. rewrite step_q_final; assumption. Qed.

Lemma run_q hist : forall q,
  fold_left (fun s fl => step_q fl s) hist q =
  if fin q then q
  else if existsb (fun fl => fl (qk q)) hist then mkq (qk q) (cur q * factor q) (factor q) true else q.
Proof.
  induction hist as [|fl hist IH]; intros q; simpl.
  - destruct (fin q); reflexivity.
  - rewrite IH. unfold step_q. destruct (fin q) eqn:F; simpl.
    + rewrite andb_false_r. rewrite F. reflexivity.
    + rewrite andb_true_r. destruct (fl (qk q)) eqn:E; simpl; [reflexivity|]. rewrite F. reflexivity.
Qed.

Lemma run_map hist : forall qs, run hist qs = map (fun q => fold_left (fun s fl => step_q fl s) hist q) qs.
Proof.
  unfold run. induction hist as [|fl hist IH]; intros qs; simpl.
  - rewrite map_id. reflexivity.
  - rewrite IH, map_map. reflexivity.
Qed.

Theorem history_value hist c :
  run hist (quantities c) =
  map (fun q => if existsb (fun fl => fl (qk q)) hist then mkq (qk q) (cur q * factor q) (factor q) true else q)
      (quantities c).
Proof.
  rewrite run_map. apply map_ext_in. intros q Hq. rewrite run_q.
  assert (fin q = false) as ->; [|reflexivity].
  unfold quantities in Hq. destruct Hq as [<-|[<-|Hq]]; try reflexivity.
  apply in_flat_map in Hq. destruct Hq as [a [_ [<-|[<-|[]]]]]; reflexivity.
Qed.

Theorem recompute_idempotent fl hist qs :
  map (step_q fl) (map (step_q fl) (run hist qs)) = map (step_q fl) (run hist qs).
Proof. rewrite map_map. apply map_ext. intros q. apply step_q_idem. Qed.
