"""C05 — model action counts, energy and latency match explicit LoopTree execution."""
import json
import os
from fractions import Fraction

import common
import gen_mini as G

TRUSTED = [
    "modelled (AF.Lib.MiniForge): analyze_storage / analyze_temporal / analyze_compute, BuffetStats.repeat_temporal, gather_actions, compute_energy_from_actions, "
    "component_latency with the default total_latency expression, _get_values_per_action — for one Einsum, temporal loops, Memory levels, dense one-variable-per-rank projections, perfect factorisation",
    "the execution semantics iterates every loop; 'an output value was never written' is the statement 'every enclosing loop irrelevant to the tensor is in its first iteration' "
    "(C05_fresh_counts); spatial loops, Tolls, imperfect factorisation, copy Einsums and distributed buffers are outside this model",
    "values->actions scale factors are computed by the harness with the documented precedence (gen_mini.q_scale) and handed to the model as exact rationals; the precedence itself is checked against the code by the correspondence",
    "YAML/jinja loading, pydantic validation, sympy/symengine evaluation of the formulas: correspondence only",
]


def load():
    common.setup_impl_path()
    import accelforge as af
    from accelforge.model.main import evaluate_mapping
    af.set_n_parallel_jobs(1)
    return af, evaluate_mapping


def run_impl(af, evaluate_mapping, spec, m, d):
    (d / "a.yaml").write_text(G.arch_yaml(spec))
    (d / "w.yaml").write_text(G.workload_yaml(spec))
    (d / "m.yaml").write_text(G.mapping_yaml(spec, m))
    s = af.Spec.from_yaml(str(d / "a.yaml"), str(d / "w.yaml"), str(d / "m.yaml"))
    r = evaluate_mapping(s)
    out = {}
    for c in r.columns:
        if "mapping" in c:
            continue
        out[c] = float(r.data[c].iloc[0])
    return out


def expected_columns(spec, m):
    """the property's right-hand side from brute-force execution (python oracle): column name -> exact Fraction"""
    cnt = G.py_model(spec, m)
    nt, nl = len(spec["tensors"]), len(spec["levels"])
    exp = {}
    ncomp = 1
    for b in spec["bounds"]:
        ncomp *= b
    lat = {}
    energy = Fraction(0)
    for l in range(nl):
        L = spec["levels"][l]
        ra = wa = Fraction(0)
        for t in range(nt):
            if (l, t) not in cnt:
                continue
            r, w = cnt[(l, t)]
            ar, aw = r * G.q_scale(spec, l, t, "read"), w * G.q_scale(spec, l, t, "write")
            name = spec["tensors"][t]["name"]
            exp[f"E<SEP>action<SEP>{L['name']}<SEP>{name}<SEP>read"] = ar
            exp[f"E<SEP>action<SEP>{L['name']}<SEP>{name}<SEP>write"] = aw
            ra += ar
            wa += aw
            energy += ar * L["re"] + aw * L["we"]
        lat[l] = (ra / L["rthr"] if L["rthr"] else 0) + (wa / L["wthr"] if L["wthr"] else 0)
        if any((l, t) in cnt for t in range(nt)):   # unused components get no latency column
            exp[f"E<SEP>latency<SEP>{L['name']}"] = lat[l]
    c = spec["compute"]
    exp["E<SEP>action<SEP>MAC<SEP>None<SEP>compute"] = Fraction(ncomp)
    exp["E<SEP>latency<SEP>MAC"] = Fraction(ncomp, c["thr"])
    total_lat = max([Fraction(ncomp, c["thr"])] + list(lat.values()))
    exp["Total<SEP>latency"] = total_lat
    energy += ncomp * c["e"]
    leak = (sum(L["leak"] for L in spec["levels"]) + c["leak"]) * total_lat
    exp["Total<SEP>energy"] = energy + leak
    exp["Total<SEP>leak_energy"] = leak
    exp["Total<SEP>dynamic_energy"] = energy
    return exp


def close(x, q):
    q = float(q)
    return abs(x - q) <= 1e-6 * max(1.0, abs(q))


def coq_case(spec, m, with_exec):
    sp, mm = G.coq_spec(spec), G.coq_mapping(m)
    nt, nl = len(spec["tensors"]), len(spec["levels"])
    q = lambda e: f"(let q := Qred ({e}) in (Qnum q, Z.pos (Qden q)))"  # noqa
    pairs = [(l, t) for l in range(nl) for t in range(nt)]
    cm = "[" + "; ".join(f"tcounts model_counts sp mp {t}%nat {l}%nat" for l, t in pairs) + "]"
    ce = "[" + "; ".join(f"tcounts exec_counts sp mp {t}%nat {l}%nat" for l, t in pairs) + "]" if with_exec else "[]"
    lat = "[" + "; ".join(q(f"level_latency model_counts sp mp {l}%nat") for l in range(nl)) + "]"
    return (f"(let sp := {sp} in let mp := {mm} in ({cm}, {ce}, {lat}, {q('latency model_counts sp mp')}, {q('energy model_counts sp mp')}))")


def run(ck):
    af, evaluate_mapping = load()
    ck.prove()
    rng = ck.rng("mappings")
    d = common.BUILD / "run" / f"c05-{os.getpid()}"
    d.mkdir(parents=True, exist_ok=True)
    exprs, keys = [], []
    dist = {"levels": {}, "holders_below_loops": 0, "outputs_held_low": 0, "unit_loops": 0, "non_default_scale": 0, "no_skip_levels": 0, "exec_in_coq": 0}
    for i in range(ck.n(120, 3000)):
        tiny = i % 3 == 0
        spec = G.gen_spec(rng, bounds_pool=(2, 3, 4) if tiny else (2, 3, 4, 6, 8))
        m = G.gen_mapping(rng, spec)
        dist["levels"][len(spec["levels"])] = dist["levels"].get(len(spec["levels"]), 0) + 1
        seen_loop = False
        for n in m:
            if n[0] == "loop":
                seen_loop = True
            elif seen_loop:
                dist["holders_below_loops"] += 1
                if spec["tensors"][n[2]]["out"]:
                    dist["outputs_held_low"] += 1
        dist["no_skip_levels"] += sum(1 for L in spec["levels"] if not L["skip"]) + (0 if spec["compute"]["skip"] else 1)
        dist["non_default_scale"] += sum(1 for l in range(len(spec["levels"])) for t in range(len(spec["tensors"])) if G.q_scale(spec, l, t, "read") != 1)
        key = json.dumps([spec, m], sort_keys=True, default=str)
        nontriv = any(n[0] == "sto" and n[1] > 0 for n in m)
        ck.case(key, nontrivial=nontriv, sample={"bounds": spec["bounds"], "mapping": G.mapping_yaml(spec, m)} if nontriv else None)
        try:
            got = run_impl(af, evaluate_mapping, spec, m, d)
        except Exception as ex:  # noqa
            ck.failing_input({"spec": spec, "mapping": m, "error": f"{type(ex).__name__}: {str(ex)[:300]}"}, what="evaluate_mapping raised on a well-formed mapping")
            continue
        exp = expected_columns(spec, m)
        bad = [f"{c}: model reports {got.get(c)}, loop-nest execution gives {float(v)}" for c, v in exp.items() if c not in got or not close(got[c], v)]
        # every action column the code reports must be accounted for by the execution
        bad += [f"{c}: model reports {v}, execution has no such traffic" for c, v in got.items() if "<SEP>action<SEP>" in c and c not in exp and abs(v) > 1e-9]
        if bad:
            ck.failing_input({"spec": spec, "mapping": m, "arch_yaml": G.arch_yaml(spec), "workload_yaml": G.workload_yaml(spec), "mapping_yaml": G.mapping_yaml(spec, m),
                              "problems": bad[:8]}, what="evaluate_mapping differs from loop-nest execution: " + bad[0])
        with_exec = tiny
        dist["exec_in_coq"] += with_exec
        exprs.append(coq_case(spec, m, with_exec))
        keys.append((spec, m, got))
    vals = common.run_coq_eval("C05", ["AF.Lib.MiniForge"], exprs, chunk=30, preamble="From Coq Require Import QArith.\nOpen Scope Z_scope.")
    mism = []
    for (spec, m, got), v in zip(keys, vals):
        cm, ce, lat, tl, en = v
        nt, nl = len(spec["tensors"]), len(spec["levels"])
        pairs = [(l, t) for l in range(nl) for t in range(nt)]
        if ce and [tuple(x) for x in ce] != [tuple(x) for x in cm]:
            mism.append({"what": "Coq exec_counts != model_counts (contradicts the theorem!)", "mapping": m})
        probs = []
        for (l, t), (r, w) in zip(pairs, cm):
            L, name = spec["levels"][l]["name"], spec["tensors"][t]["name"]
            for act, val in (("read", r), ("write", w)):
                col = f"E<SEP>action<SEP>{L}<SEP>{name}<SEP>{act}"
                q = val * G.q_scale(spec, l, t, act)
                if col in got:
                    if not close(got[col], q):
                        probs.append(f"{col}: impl {got[col]} model {float(q)}")
                elif q != 0:
                    probs.append(f"{col}: impl has no column, model {float(q)}")
        for l, (a, b) in enumerate(lat):
            col = f"E<SEP>latency<SEP>{spec['levels'][l]['name']}"
            if col in got and not close(got[col], Fraction(a, b)):
                probs.append(f"{col}: impl {got[col]} model {a}/{b}")
        if not close(got["Total<SEP>latency"], Fraction(*tl)):
            probs.append(f"Total latency: impl {got['Total<SEP>latency']} model {tl}")
        if not close(got["Total<SEP>energy"], Fraction(*en)):
            probs.append(f"Total energy: impl {got['Total<SEP>energy']} model {en}")
        if probs:
            mism.append({"mapping_yaml": G.mapping_yaml(spec, m), "arch_yaml": G.arch_yaml(spec), "workload_yaml": G.workload_yaml(spec), "problems": probs[:6]})
    ck.count("model_vs_impl_compared", len(keys))
    ck.count("model_vs_impl_mismatches", len(mism))
    if mism and not ck.violations:
        ck.unexplained("broken-correspondence", {"mismatches": mism[:3]}, what="MiniForge model != evaluate_mapping")
    return ck.finish(
        rule="random single-Einsum specs (2-3 rank variables, bounds 2-8, 2-3 tensors incl. matmul, 2-3 memory levels with random energies, throughputs, leak, "
             "skip_initial_output_write flags, bits_per_value / bits_per_action / values_per_action overrides at action and component level) and random concrete mappings "
             "(random divisor chains, loop interleavings, holders at random depths); every action count, per-level latency, total latency and total energy of evaluate_mapping "
             "compared with brute-force loop-nest execution and with the Coq model (a third of the cases also run the Coq execution semantics); non-trivial = some holder below level 0",
        trusted=TRUSTED,
        extra={"input_distribution": dist,
               "source_fingerprint": [common.fingerprint("accelforge/model/_looptree/reuse/symbolic/_symbolic.py", ["analyze_storage", "analyze_temporal", "analyze_compute"]),
                                      common.fingerprint("accelforge/model/_looptree/reuse/symbolic/_stats.py", ["BuffetStats"]),
                                      common.fingerprint("accelforge/model/_looptree/energy.py", ["gather_actions", "compute_energy_from_actions"]),
                                      common.fingerprint("accelforge/model/_looptree/latency/memory.py", ["component_latency"])]})


def replay(ck, data):
    af, evaluate_mapping = load()
    d = common.BUILD / "run" / f"c05-{os.getpid()}"
    d.mkdir(parents=True, exist_ok=True)
    spec, m = data["spec"], [tuple(x) for x in data["mapping"]]
    got = run_impl(af, evaluate_mapping, spec, m, d)
    exp = expected_columns(spec, m)
    if any(c not in got or not close(got[c], v) for c, v in exp.items()):
        print("VIOLATION property=C05 replay=<replayed>")
        return 1
    print("replay: property holds on this input now")
    return 0
