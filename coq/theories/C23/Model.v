(* C23 model — workload.py:_parse_einsum_string / _parse_projection on ASCII strings.
   A string is a list of character codes. *)
From Coq Require Import List Arith Bool Lia.
Import ListNotations.

Notation str := (list nat) (only parsing).

Definition is_ws (c : nat) : bool := Nat.eqb c 32 || (Nat.leb 9 c && Nat.leb c 13).
Definition is_lower (c : nat) : bool := Nat.leb 97 c && Nat.leb c 122.
Definition is_upper (c : nat) : bool := Nat.leb 65 c && Nat.leb c 90.
Definition is_digit (c : nat) : bool := Nat.leb 48 c && Nat.leb c 57.
Definition is_alpha (c : nat) : bool := is_lower c || is_upper c.
Definition is_word (c : nat) : bool := is_alpha c || is_digit c || Nat.eqb c 95.
Definition to_upper (c : nat) : nat := if is_lower c then c - 32 else c.

Definition LBR := 91. Definition RBR := 93. Definition EQ := 61. Definition COMMA := 44. Definition COLON := 58.

Fixpoint str_eqb (a b : str) : bool :=
  match a, b with [], [] => true | x :: a', y :: b' => Nat.eqb x y && str_eqb a' b' | _, _ => false end.

(* all whitespace is removed first *)
Definition strip_ws (s : str) : str := filter (fun c => negb (is_ws c)) s.

Definition count_char (c : nat) (s : str) : nat := length (filter (Nat.eqb c) s).

(* maximal run of characters satisfying p *)
Fixpoint span (p : nat -> bool) (s : str) : str * str :=
  match s with
  | [] => ([], [])
  | c :: t => if p c then let '(a, b) := span p t in (c :: a, b) else ([], s)
  end.

(* the tensor pattern  identifier [ anything-but-closing-bracket ]  anchored at the head of s *)
Definition match_tensor (s : str) : option (str * str * str) :=
  match s with
  | c :: _ =>
      if is_alpha c || Nat.eqb c 95 then
        let '(name, r1) := span is_word s in
        match r1 with
        | b :: r2 =>
            if Nat.eqb b LBR then
              let '(proj, r3) := span (fun x => negb (Nat.eqb x RBR)) r2 in
              match r3 with
              | _ :: rest => Some (name, proj, rest)         (* r3 starts with ']' *)
              | [] => None
              end
            else None
        | [] => None
        end
      else None
  | [] => None
  end.

(* re.findall: leftmost, non-overlapping *)
Fixpoint findall (fuel : nat) (s : str) : list (str * str) :=
  match fuel with
  | O => []
  | S fuel' =>
      match s with
      | [] => []
      | _ :: t =>
          match match_tensor s with
          | Some (name, proj, rest) => (name, proj) :: findall fuel' rest
          | None => findall fuel' t
          end
      end
  end.

(* str.split(sep) *)
Fixpoint split_on (sep : nat) (s : str) : list str :=
  match s with
  | [] => [[]]
  | c :: t =>
      if Nat.eqb c sep then [] :: split_on sep t
      else match split_on sep t with
           | p :: ps => (c :: p) :: ps
           | [] => [[c]]
           end
  end.

Definition OPERATORS : list str :=
  [[69;81]; [78;69]; [76;84]; [71;84]; [76;69]; [71;69]; [78;71]; [78;76]; [65;78;68]; [79;82]].

(* re.fullmatch(_ISL_REGEX, k): a letter followed by word characters, not an operator word
   (the #$@ alternatives can never satisfy the leading \b) *)
Definition isl_ident (k : str) : bool :=
  match k with
  | c :: t => is_alpha c && forallb is_word t && negb (existsb (str_eqb k) OPERATORS)
  | [] => false
  end.

Fixpoint dict_has (k : str) (d : list (str * str)) : bool :=
  match d with [] => false | (k', _) :: t => str_eqb k k' || dict_has k t end.
Fixpoint dict_set (k v : str) (d : list (str * str)) : list (str * str) :=
  match d with
  | [] => [(k, v)]
  | (k', v') :: t => if str_eqb k k' then (k, v) :: t else (k', v') :: dict_set k v t
  end.

Definition parse_part (d : list (str * str)) (part : str) : option (list (str * str)) :=
  if existsb (Nat.eqb COLON) part then
    match split_on COLON part with
    | [k; v] =>
        if isl_ident k && negb (match k with c :: _ => is_lower c | [] => false end) && negb (dict_has k d)
        then Some (d ++ [(k, v)]) else None
    | _ => None
    end
  else
    match part with
    | [] => None
    | c :: _ =>
        if is_upper c then None
        else if isl_ident (map to_upper part) && negb (dict_has (map to_upper part) d)
             then Some (d ++ [(map to_upper part, part)]) else None
    end.

Definition parse_projection (p : str) : option (list (str * str)) :=
  match p with
  | [] => None                                          (* Projection cannot be empty *)
  | _ => fold_left (fun acc part => match acc with Some d => parse_part d part | None => None end)
                   (split_on COMMA p) (Some [])
  end.

Record taccess := mkta { ta_name : str; ta_proj : list (str * str); ta_out : bool }.

Fixpoint parse_all (l : list (str * str)) (out : bool) : option (list taccess) :=
  match l with
  | [] => Some []
  | (n, p) :: t =>
      match parse_projection p, parse_all t out with
      | Some d, Some r => Some (mkta n d out :: r)
      | _, _ => None
      end
  end.

Definition parse_einsum (s0 : str) : option (str * list taccess) :=
  let s := strip_ws s0 in
  if negb (Nat.eqb (count_char EQ s) 1) then None
  else
    match match_tensor s with
    | Some (oname, oproj, r) =>
        match r with
        | e :: rhs =>
            if Nat.eqb e EQ then
              match rhs with
              | [] => None                                (* (.+) *)
              | _ =>
                  match findall (length rhs) rhs with
                  | [] => None                            (* No input tensors *)
                  | ins =>
                      match parse_all ins false, parse_projection oproj with
                      | Some ai, Some dout => Some (oname, ai ++ [mkta oname dout true])
                      | _, _ => None
                      end
                  end
              end
            else None
        | [] => None
        end
    | None => None
    end.
