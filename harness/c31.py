"""C31 — Toll components pass data through without storing it."""
import json
import os
from fractions import Fraction

import common
import gen_mini as G
import c05

TRUSTED = [
    "modelled (C31/Model.v tmodel): analyze_toll = analyze_storage with propagate_child_results, count_upward/downward_movement from the per-tensor direction, count_writes = False, "
    "max_occupancy := 0; Memory levels as in C05 (AF.Lib.MiniForge)",
    "the execution oracle (gen_mini.py_model) forwards every fetch and write-back through the Tolls on the way and counts one Toll read per value crossing in the configured direction",
    "third clause (a Toll is never the outermost holder of a tensor shared between Einsums in a returned mapping): checked on real mapper results over Toll architectures; "
    "the mapper's template generation itself is not modelled in Coq here (see C03)",
]


def toll_arch_yaml(directions, keep_main):
    return f"""arch:
  nodes:
  - !Memory
    name: main_memory
    size: inf
    leak_power: 0
    area: 0
    tensors: {{keep: {keep_main}, may_keep: All}}
    actions:
    - {{name: read, energy: 10, throughput: inf}}
    - {{name: write, energy: 10, throughput: inf}}
  - !Toll
    name: Toll
    direction: {directions}
    leak_power: 0
    area: 0
    tensors: {{keep: All}}
    actions:
    - {{name: read, energy: 100, throughput: inf}}
  - !Memory
    name: LocalBuffer
    size: inf
    leak_power: 0
    area: 0
    tensors: {{keep: All}}
    actions:
    - {{name: read, energy: 1, throughput: inf}}
    - {{name: write, energy: 1, throughput: inf}}
  - !Compute
    name: mac
    leak_power: 0
    area: 0
    actions:
    - {{name: compute, energy: 1, throughput: 1}}
"""


WL2 = """workload:
  rank_sizes: {{M: {M}, K: {K}, N: {N}, P: {P}}}
  bits_per_value: {{All: 8}}
  einsums:
  - "T1[m, n] = T0[m, k] * W0[k, n]"
  - "T2[m, p] = T1[m, n] * W1[n, p]"
"""


def mapper_clause(ck, af, rng, n, d):
    """real mapper runs on a Toll architecture: in every returned mapping no Toll is the outermost holder of a shared tensor,
       Tolls have no usage / reservation and no write action"""
    from accelforge.mapper.FFM.main import map_workload_to_arch
    for k in range(n):
        dirs = rng.choice(["up_and_down", "up", "down"])
        keep = rng.choice(["All", "~Intermediates"])
        dims = {x: rng.choice([2, 4]) for x in "MKNP"}
        (d / "ta.yaml").write_text(toll_arch_yaml(dirs, keep))
        (d / "tw.yaml").write_text(WL2.format(**dims))
        try:
            spec = af.Spec.from_yaml(str(d / "ta.yaml"), str(d / "tw.yaml"))
            spec.mapper.metrics = af.Metrics.ENERGY | af.Metrics.LATENCY if k % 2 else af.Metrics.ENERGY
            res = map_workload_to_arch(spec)
        except Exception as ex:  # noqa
            ck.failing_input({"arch": toll_arch_yaml(dirs, keep), "workload": WL2.format(**dims), "error": f"{type(ex).__name__}: {str(ex)[:300]}"},
                             what="mapper raised on a Toll architecture")
            continue
        ck.case(("mapper", dirs, keep, json.dumps(dims)), nontrivial=True, sample={"toll_direction": dirs, "keep_main": keep, "dims": dims, "n_returned": len(res)})
        ck.count("mapper_runs_on_toll_arch")
        bad = []
        for i in range(len(res)):
            mp = res.mapping(i)
            first = {}
            from accelforge.frontend.mapping import TensorHolder, Toll as MToll

            def walk(nodes):
                for nd in nodes:
                    if isinstance(nd, TensorHolder):
                        for t in nd.tensors:
                            first.setdefault(str(t), nd)
                    for attr in ("nodes",):
                        if hasattr(nd, attr) and getattr(nd, attr):
                            walk(getattr(nd, attr))
            walk(mp.nodes)
            if isinstance(first.get("T1"), MToll):
                bad.append(f"returned mapping {i}: Toll is the outermost holder of the shared tensor T1")
        for c in res.columns:
            sp = c.split("<SEP>")
            if "Toll" in sp and ("reservation" in sp or "usage" in sp) and float(res.data[c].max()) != 0:
                bad.append(f"column {c} reports occupancy for the Toll")
            if "Toll" in sp and sp[-1] == "write" and "action" in sp and float(res.data[c].max()) != 0:
                bad.append(f"column {c} reports write actions for the Toll")
        if bad:
            ck.failing_input({"arch": toll_arch_yaml(dirs, keep), "workload": WL2.format(**dims), "problems": bad[:5]}, what="Toll clause violated by a mapper result: " + bad[0])


def run(ck):
    af, evaluate_mapping = c05.load()
    ck.prove()
    rng = ck.rng("mappings")
    d = common.BUILD / "run" / f"c31-{os.getpid()}"
    d.mkdir(parents=True, exist_ok=True)
    mapper_clause(ck, af, ck.rng("mapper"), ck.n(3, 30), d)
    exprs, keys = [], []
    dist = {"toll_holders": 0, "dir": {"up": 0, "down": 0, "up_and_down": 0}, "toll_above_output_holder": 0}
    for i in range(ck.n(100, 2500)):
        spec = G.add_toll(rng, G.gen_spec(rng, bounds_pool=(2, 3, 4, 6)))
        m = G.gen_mapping(rng, spec)
        tl = [l for l, L in enumerate(spec["levels"]) if L.get("toll")][0]
        th = [n for n in m if n[0] == "sto" and n[1] == tl]
        dist["toll_holders"] += len(th)
        for n in th:
            dist["dir"][spec["levels"][tl]["dir"][spec["tensors"][n[2]]["name"]]] += 1
        key = json.dumps([spec, m], sort_keys=True, default=str)
        ck.case(key, nontrivial=bool(th), sample={"mapping": G.mapping_yaml(spec, m), "directions": spec["levels"][tl]["dir"]} if th else None)
        try:
            got = c05.run_impl(af, evaluate_mapping, spec, m, d)
        except Exception as ex:  # noqa
            ck.failing_input({"spec": spec, "mapping": m, "error": f"{type(ex).__name__}: {str(ex)[:300]}"}, what="evaluate_mapping raised on a mapping with a Toll")
            continue
        exp = c05.expected_columns(spec, m)
        bad = [f"{c}: model reports {got.get(c)}, execution gives {float(v)}" for c, v in exp.items()
               if (c not in got and v != 0 and "latency" not in c) or (c in got and not c05.close(got[c], v))]
        tname = spec["levels"][tl]["name"]
        for c, v in got.items():
            sp = c.split("<SEP>")
            if tname in sp and sp[-1] == "write" and "action" in sp and abs(v) > 1e-12:
                bad.append(f"{c} = {v}: a Toll reports write actions")
            if tname in sp and ("usage" in sp or "reservation" in sp) and abs(v) > 1e-12:
                bad.append(f"{c} = {v}: a Toll reports occupancy")
            if "<SEP>action<SEP>" in c and c not in exp and abs(v) > 1e-9:
                bad.append(f"{c} = {v}: no such traffic in the execution")
        if bad:
            ck.failing_input({"spec": spec, "mapping": m, "arch_yaml": G.arch_yaml(spec), "workload_yaml": G.workload_yaml(spec), "mapping_yaml": G.mapping_yaml(spec, m),
                              "problems": bad[:8]}, what="Toll accounting differs from execution: " + bad[0])
        nt, nl = len(spec["tensors"]), len(spec["levels"])
        ts = [f"(mkT {common.coq_list([str(b).lower() for b in T['rel']])} {str(T['out']).lower()})" for T in spec["tensors"]]
        skipf = "(fun l => nth l " + common.coq_list([str(bool(L["skip"])).lower() for L in spec["levels"]]) + " true)"
        cells = "; ".join(f"tcounts_toll {skipf} {G.coq_tollf(spec)} {str(spec['tensors'][t]['out']).lower()} {str(spec['compute']['skip']).lower()} {t}%nat {ts[t]} mp bs {l}%nat"
                          for l in range(nl) for t in range(nt))
        exprs.append(f"(let mp := {G.coq_mapping(m)} in let bs := {common.coq_list(spec['bounds'], common.coq_Z)} in [{cells}])")
        keys.append((spec, m, got))
    vals = common.run_coq_eval("C31", ["AF.Lib.MiniForge", "AF.C31.Model"], exprs, chunk=30, preamble="Open Scope Z_scope.")
    mism = []
    for (spec, m, got), v in zip(keys, vals):
        nt, nl = len(spec["tensors"]), len(spec["levels"])
        pairs = [(l, t) for l in range(nl) for t in range(nt)]
        probs = []
        for (l, t), (r, w) in zip(pairs, v):
            L, name = spec["levels"][l]["name"], spec["tensors"][t]["name"]
            for act, val in (("read", r), ("write", w)):
                col = f"E<SEP>action<SEP>{L}<SEP>{name}<SEP>{act}"
                q = val * G.q_scale(spec, l, t, act)
                if col in got:
                    if not c05.close(got[col], q):
                        probs.append(f"{col}: impl {got[col]} model {float(q)}")
                elif q != 0:
                    probs.append(f"{col}: impl has no column, model {float(q)}")
        if probs:
            mism.append({"mapping_yaml": G.mapping_yaml(spec, m), "arch_yaml": G.arch_yaml(spec), "problems": probs[:6]})
    ck.count("model_vs_impl_compared", len(keys))
    ck.count("model_vs_impl_mismatches", len(mism))
    if mism and not ck.violations:
        ck.unexplained("broken-correspondence", {"mismatches": mism[:3]}, what="C31 model != evaluate_mapping")
    return ck.finish(
        rule="random single-Einsum specs with one Toll level inserted below level 0 (per-tensor direction up / down / up_and_down, random energy, throughput, bits_per_action) and random "
             "concrete mappings with Toll holder nodes; every action column, latency and energy compared with the forwarding execution and with the Coq model; no Toll write action, no Toll occupancy; "
             "plus real mapper runs on a two-Einsum Toll architecture (outermost-holder clause); non-trivial = the mapping has a Toll holder / a mapper run",
        trusted=TRUSTED,
        extra={"input_distribution": dist,
               "source_fingerprint": [common.fingerprint("accelforge/model/_looptree/reuse/symbolic/_symbolic.py", ["analyze_toll", "analyze_storage"]),
                                      common.fingerprint("accelforge/model/run_model.py", ["run_model"])]})


def replay(ck, data):
    af, evaluate_mapping = c05.load()
    d = common.BUILD / "run" / f"c31-{os.getpid()}"
    d.mkdir(parents=True, exist_ok=True)
    if "spec" not in data:
        print("replay: mapper-run replays are re-run by ./check C31")
        return 0
    spec, m = data["spec"], [tuple(x) for x in data["mapping"]]
    got = c05.run_impl(af, evaluate_mapping, spec, m, d)
    exp = c05.expected_columns(spec, m)
    if any((c in got and not c05.close(got[c], v)) or (c not in got and v != 0 and "latency" not in c) for c, v in exp.items()):
        print("VIOLATION property=C31 replay=<replayed>")
        return 1
    print("replay: property holds on this input now")
    return 0
