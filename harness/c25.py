"""C25 — architecture flattening yields exactly the root-to-compute path."""
import json

import common
import gen_arch

TRUSTED = [
    "modelled: Hierarchical._flatten over Memory/Toll/Container/Compute leaves, nested Hierarchical and Fork nodes; Array and Network nodes are outside the model",
    "Spec._get_flattened_architecture's duplicate-name check and pydantic construction are exercised by the correspondence only",
]


def py_spec_path(t, c):
    """oracle: document-order leaves of the tree pruned of forks not containing c, cut at c, other computes dropped"""
    def contains(nodes):
        return any((n[0] == "leaf" and n[2] == c) or (n[0] == "hier" and contains(n[2])) for n in nodes)

    def pleaves(nodes):
        out = []
        for n in nodes:
            if n[0] == "leaf":
                out.append(n)
            elif not (n[1] and not contains(n[2])):
                out += pleaves(n[2])
        return out
    res = []
    for l in pleaves(t):
        if l[1] == "KComp" and l[2] == c:
            return res + [l[2]]
        if l[1] != "KComp":
            res.append(l[2])
    return None


def impl_flatten(af, t, c):
    arch = gen_arch.to_arch(t, af)
    spec = af["Spec"](arch=arch, workload=gen_arch.simple_workload(af))
    ev = spec._spec_eval_expressions(einsum_name="Matmul")
    try:
        fl = ev._get_flattened_architecture(f"N{c}")
        return [int(n.name[1:]) for n in fl]
    except Exception as e:  # noqa
        return f"EXC:{type(e).__name__}"


def run(ck):
    af = gen_arch.load()
    ck.prove()
    rng = ck.rng("trees")
    exprs, keys = [], []
    for _ in range(ck.n(400, 8000)):
        t = gen_arch.random_tree(rng)
        lv = gen_arch.leaves(t)
        comps = [l[2] for l in lv if l[1] == "KComp"]
        targets = comps + ([max(l[2] for l in lv) + 1] if rng.random() < 0.2 else [])  # sometimes a missing compute
        depth_has_fork = "True" in json.dumps(t) or "true" in json.dumps(t)
        for c in targets:
            got = impl_flatten(af, t, c)
            exp = py_spec_path(t, c)
            ck.case((json.dumps(t), c), nontrivial=exp is not None and len(exp) > 1 and depth_has_fork,
                    sample={"tree": t, "compute": c, "flattened": got})
            ok = (got == exp) if exp is not None else (isinstance(got, str))
            if not ok:
                ck.failing_input({"tree": t, "compute": c, "impl": got, "expected": exp},
                                 what="flattened architecture differs from the root-to-compute path")
            exprs.append(f"(let r := flattenF {c}%nat {gen_arch.to_coq(t)} in (map ln (fst r), snd r))")
            keys.append((t, c, got))
    B = 20
    vals = [v for b in common.run_coq_eval("C25", ["AF.Lib.ArchTree", "AF.C25.Model"],
                                           ["[" + "; ".join(exprs[k:k + B]) + "]" for k in range(0, len(exprs), B)], chunk=10) for v in b]
    mism = []
    for (t, c, got), m in zip(keys, vals):
        model = list(m[0]) if m[1] else "EXC"
        g = got if not isinstance(got, str) else "EXC"
        if model != g:
            mism.append({"tree": t, "compute": c, "impl": got, "model": m})
    ck.count("model_vs_impl_compared", len(keys))
    ck.count("model_vs_impl_mismatches", len(mism))
    if mism and not ck.violations:
        ck.unexplained("broken-correspondence", {"mismatches": mism[:3]}, what="model flatten != implementation flatten")
    return ck.finish(
        rule="random trees (<=14 leaves, depth<=4, forks nested in forks, computes anywhere, 1+ computes) built as Arch objects; "
             "every compute (and sometimes a missing name) flattened through Spec._get_flattened_architecture; non-trivial = path longer than 1 in a tree with a fork",
        trusted=TRUSTED,
        extra={"source_fingerprint": [common.fingerprint("accelforge/frontend/arch/structure.py", ["Hierarchical", "Fork"]),
                                      common.fingerprint("accelforge/frontend/spec.py", ["Spec"])]})


def replay(ck, data):
    af = gen_arch.load()
    def tup(n):
        return ("leaf", n[1], n[2], n[3]) if n[0] == "leaf" else ("hier", n[1], [tup(x) for x in n[2]])
    t = [tup(n) for n in data["tree"]]
    got, exp = impl_flatten(af, t, data["compute"]), py_spec_path(t, data["compute"])
    if (got != exp) if exp is not None else not isinstance(got, str):
        print("VIOLATION property=C25 replay=<replayed>")
        return 1
    print("replay: property holds on this input now")
    return 0
