(* C12 — property theorems only. *)
From AF Require Import Base.Tactics Lib.Pareto C11.Model C12.Model C12.Proofs.
Open Scope Z_scope.

(* zero tolerance: pruning with constant columns skipped (what the code does) keeps exactly the rows of the declarative mask over
   ALL objective and reservation columns (minimised) with fused-loop tile-shape columns required equal:
   row i is kept iff no row with identical fused-loop tile shapes strictly dominates it and it is not a repetition of an earlier row *)
Theorem C12_zero_tol_exact : forall cs rows, (forall r, In r rows -> length r = length cs) ->
  makepareto_model cs rows = pareto_spec cs rows.
Proof. exact makepareto_is_spec. Qed.
Print Assumptions C12_zero_tol_exact.

(* constant columns never change the result: deleting ANY set of columns on which all rows agree leaves the mask unchanged *)
Theorem C12_const_cols : forall gs km rows, length gs = length km ->
  (forall a b, In a rows -> In b rows -> agree km a b) ->
  spec_mask (sel km gs) (map (sel km) rows) = spec_mask gs rows.
Proof. intros gs km rows Hl H. apply spec_mask_sel; assumption. Qed.
Print Assumptions C12_const_cols.

(* every column name falls in exactly one class; n_iterations columns and all per-Einsum / tensor / mapping columns are ignored *)
Theorem C12_classify : forall c,
  (classify c = CObj <-> exists r, c = T_TOTAL :: r)
  /\ (classify c = CResv <-> exists a b d, c = [T_RESERVATION; a; b; d])
  /\ (classify c = CFused <-> exists r, c = T_FUSED :: r /\ hd_error r <> Some T_NITER).
Proof.
  intro c. unfold classify, T_TOTAL, T_RESERVATION, T_FUSED, T_NITER. destruct c as [|t rest].
  - repeat split; try discriminate; intros [? H]; try discriminate; destruct H as [? H]; try discriminate; destruct H; discriminate.
  - destruct t as [|[|[|t]]]; cbn [Nat.eqb].
    + repeat split; try discriminate; eauto; intros [? H]; try discriminate; destruct H as [? H]; try discriminate; destruct H; discriminate.
    + repeat split; try (destruct (Nat.eqb (length rest) 3); discriminate); try (intros [? H]; discriminate).
      * intro H. destruct rest as [|a [|b [|d [|? ?]]]]; cbn in H; try discriminate. eauto.
      * intros [a [b [d H]]]. inversion H. reflexivity.
      * intros [? [H _]]. discriminate.
    + repeat split; try (destruct rest as [|n ?]; [discriminate|destruct (Nat.eqb n 3); discriminate]); try (intros [? H]; try discriminate; destruct H as [? [? H]]; discriminate).
      * intro H. exists rest. split; [reflexivity|]. destruct rest as [|n r]; [discriminate|]. cbn. intro E. inversion E; subst. discriminate.
      * intros [r [E Hn]]. inversion E; subst. destruct r as [|n r]; [reflexivity|]. destruct (Nat.eqb n 3) eqn:N; [|reflexivity]. apply Nat.eqb_eq in N. subst. exfalso. apply Hn. reflexivity.
    + repeat split; try discriminate; intros [? H]; try discriminate; destruct H as [? H]; try discriminate; destruct H; discriminate.
Qed.
Print Assumptions C12_classify.

(* with a tolerance the pruning runs on rounded values; if rounding is order-faithful up to the factor (1+t) - rnd x <= rnd y implies
   x <= (1+t) y - then whatever weakly dominates a row in the rounded table is within (1+t) of it in the original table *)
Theorem C12_tol_bound : forall (rnd : Z -> Z) (num den : Z), 0 < den ->
  (forall x y, rnd x <= rnd y -> den * x <= num * y) ->
  forall k r, vle (map rnd k) (map rnd r) = true -> Forall2 (fun a b => den * a <= num * b) k r.
Proof.
  intros rnd num den Hd Hr k. induction k as [|a k IH]; intros [|b r] H; cbn in H; try discriminate; constructor.
  - apply andb_true_iff in H. destruct H as [H _]. apply Hr. lia.
  - apply IH. apply andb_true_iff in H. apply H.
Qed.
Print Assumptions C12_tol_bound.
