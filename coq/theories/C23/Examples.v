From Coq Require Import List Arith Bool.
Import ListNotations.
From AF Require Import C23.Model C23.Proofs.
(* "Out[m, N: 2*a+b] = A[m,k] * B [K:k, n]"  — hypotheses of C23_roundtrip are satisfiable and the parse is as expected *)
Definition exE : einsum :=
  mkE ([79;117;116], [Short [109]; Keyed [78] [50;42;97;43;98]])
      [([], ([65], [Short [109]; Short [107]])); ([42], ([66], [Keyed [75] [107]; Short [110]]))] [].
Example ex_ok : einsum_ok exE = true. Proof. vm_compute. reflexivity. Qed.
Example ex_parse : parse_einsum ([79;117;116;32;91;109;44;32;78;58;50;42;97;43;98;93;32;61;32;65;91;109;44;107;93;32;42;32;66;32;91;75;58;107;44;32;110;93]) = Some (norm exE).
Proof. vm_compute. reflexivity. Qed.
(* duplicate rank in shorthand is rejected: "A[m,m]" *)
Example ex_dup : parse_projection [109;44;109] = None. Proof. vm_compute. reflexivity. Qed.
