(* C21 — property theorems only. *)
From AF Require Import Base.Tactics C21.Model C21.Proofs.
Open Scope Z_scope.

(* the evaluation order is a permutation of the fields in which every field comes after the
   other fields of the object that its expression mentions *)
Theorem C21_order_topological : forall d o, NoDup (names d) -> field_order d = Some o ->
  Permutation o d /\ topo_from d [] o.
Proof. intros d o Hnd H. exact (order_loop_sound d _ _ _ _ Hnd H). Qed.
Print Assumptions C21_order_topological.

(* "Circular dependency" is raised exactly when no such order exists (any cycle through >= 2 fields) *)
Theorem C21_cycle_iff : forall d, NoDup (names d) ->
  (field_order d = None <-> ~ exists o, Permutation o d /\ topo_from d [] o).
Proof. exact cycle_iff. Qed.
Print Assumptions C21_cycle_iff.

(* every field receives the value its expression denotes over the other fields' values (which
   shadow the enclosing scope) and the enclosing scope; names outside the object are untouched *)
Theorem C21_value_and_scoping : forall outer d st, NoDup (names d) -> eval_object outer d = OK st ->
  (forall x e, In (x, e) d -> exists v, lookup x st = Some v /\ Ev outer d x e v) /\
  (forall y, ~ In y (names d) -> lookup y st = lookup y outer).
Proof. exact eval_object_sound. Qed.
Print Assumptions C21_value_and_scoping.

(* the denotation is unique, hence independent of the key order in which the object is written *)
Theorem C21_denotation_unique : forall outer d, NoDup (names d) ->
  forall x e v v', Ev outer d x e v -> Ev outer d x e v' -> v = v'.
Proof. intros outer d Hnd x e v v' H H'. exact (Ev_deterministic outer d Hnd x e v H v' H'). Qed.
Print Assumptions C21_denotation_unique.

Theorem C21_key_order_irrelevant : forall outer d d' st st', NoDup (names d) -> Permutation d d' ->
  eval_object outer d = OK st -> eval_object outer d' = OK st' -> forall x, lookup x st = lookup x st'.
Proof. exact key_order_irrelevant. Qed.
Print Assumptions C21_key_order_irrelevant.
