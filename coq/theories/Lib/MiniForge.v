(* MiniForge — a formal mini-accelforge for ONE Einsum mapped with temporal loops onto a memory hierarchy.
   Syntax of specs and mappings, the analytical model as accelforge computes it (analyze_storage /
   analyze_temporal / analyze_compute of model/_looptree/reuse/symbolic/_symbolic.py, BuffetStats.repeat_temporal,
   energy.py, latency/memory.py), and an execution semantics that really iterates every loop.
   Class: dense projections with one rank variable per rank (relevance rows), perfect factorisation,
   no spatial loops, Memory levels only (Toll: see C31). *)
From Coq Require Import ZArith QArith List Bool Lia.
Import ListNotations.
Open Scope Z_scope.

(* ------------------------------------------------------------------ syntax *)
Record tensor := mkT { t_rel : list bool;      (* relevance per rank variable *)
                       t_out : bool }.
Inductive node := Sto (lvl t : nat) | Loop (rv : nat) (tile : Z).
(* a mapping is a list of nodes; the Compute node is implicit at the end *)

Definition shape := list Z.
Fixpoint set_nth (i : nat) (v : Z) (s : shape) : shape :=
  match s, i with
  | [], _ => []
  | _ :: t, O => v :: t
  | x :: t, S j => x :: set_nth j v t
  end.

(* compute_dense_tile_occupancy for a relevance row: product of the current extents of the relevant variables *)
Fixpoint occupancy (rel : list bool) (s : shape) : Z :=
  match rel, s with
  | r :: rel', x :: s' => (if r then x else 1) * occupancy rel' s'
  | _, _ => 1
  end.

(* ------------------------------------------------------------------ one tensor's view of the mapping *)
Inductive item := ILoop (n : Z) (rel : bool) | IHold (lvl : nat) (skip : bool) (tile : Z).

(* skipf lvl = the level's skip_initial_output_write flag *)
Fixpoint chain_of (skipf : nat -> bool) (t : nat) (tn : tensor) (nodes : list node) (s : shape) : list item :=
  match nodes with
  | [] => []
  | Loop rv tile :: rest =>
      ILoop (nth rv s 1 / tile) (nth rv (t_rel tn) false) :: chain_of skipf t tn rest (set_nth rv tile s)
  | Sto lvl t' :: rest =>
      if Nat.eqb t' t then IHold lvl (skipf lvl) (occupancy (t_rel tn) s) :: chain_of skipf t tn rest s
      else chain_of skipf t tn rest s
  end.

(* ------------------------------------------------------------------ the analytical model, recursion as in the code *)
(* what a buffet reports to the holder above it *)
Record up := mkUp { uR : Z;   (* total_reads_to_parent *)
                    uW : Z;   (* total_writes_to_parent *)
                    uS : Z }. (* total_skipped_first_reads_to_parent *)
(* per-holder action totals (in values): reads, skipped-first reads, writes, skipped-first writes *)
Record acts := mkA { a_lvl : nat; a_r : Z; a_rs : Z; a_w : Z; a_ws : Z }.

Definition rep_up (n : Z) (rel : bool) (u : up) : up :=
  mkUp (n * uR u) (n * uW u) (if rel then n * uS u else uS u).
Definition rep_acts (n : Z) (rel : bool) (a : acts) : acts :=
  mkA (a_lvl a) (n * a_r a) (if rel then n * a_rs a else a_rs a) (n * a_w a) (if rel then n * a_ws a else a_ws a).

Section OneTensor.
  Variable out : bool.     (* the tensor is an output of the Einsum *)
  Variable skipc : bool.   (* the Compute component's skip_initial_output_write *)

  (* hp: some holder of this tensor is above (has_parent_tensor_holder) *)
  Fixpoint model (c : list item) (hp : bool) : up * list acts :=
    match c with
    | [] => (mkUp 1 (if out then 1 else 0) (if out && skipc then 1 else 0), [])
    | ILoop n rel :: rest =>
        let '(u, l) := model rest hp in (rep_up n rel u, map (rep_acts n rel) l)
    | IHold lvl skip tile :: rest =>
        let '(ch, l) := model rest true in
        let own := if hp then mkUp tile (if out then tile else 0) (if out && skip then tile else 0)
                   else mkUp 0 0 0 in
        (own, mkA lvl (uW own + uR ch) (if skip then uS ch else 0) (uR own + uW ch) (uS own) :: l)
    end.

  (* net totals reported for a level: (reads, writes) *)
  Definition net (l : list acts) (lvl : nat) : Z * Z :=
    fold_right (fun a rw => if Nat.eqb (a_lvl a) lvl then (fst rw + (a_r a - a_rs a), snd rw + (a_w a - a_ws a)) else rw) (0, 0) l.
  Definition model_counts (c : list item) (lvl : nat) : Z * Z := net (snd (model c false)) lvl.

  (* ---------------------------------------------------------------- execution: every loop iterates *)
  (* an event: (level, is_write, number of values) *)
  Definition event := (nat * bool * Z)%type.

  (* fresh: no element of the current tile has been written yet = every loop above that is irrelevant to the
     tensor is in its first iteration (C05_fresh_iff_unwritten relates this to an explicit written set) *)
  Fixpoint iter (n : nat) (f : nat -> list event) : list event :=
    match n with O => [] | S k => iter k f ++ f k end.

  Fixpoint exec (c : list item) (parent : option (nat * bool)) (fresh : bool) : list event :=
    match c with
    | [] =>
        match parent with
        | None => []
        | Some (pl, pskip) =>
            (* the operand is read from the innermost holder — except the accumulation read of a never-written
               output value; the result is written back *)
            [(pl, false, if out && skipc && pskip && fresh then 0 else 1)] ++ (if out then [(pl, true, 1)] else [])
        end
    | ILoop n rel :: rest =>
        iter (Z.to_nat n) (fun j => exec rest parent (fresh && (rel || Nat.eqb j 0)))
    | IHold lvl skip tile :: rest =>
        (* entering: fetch the tile from the holder above (zero-initialise instead when nothing was written yet) *)
        (match parent with
         | None => []
         | Some (pl, pskip) => [(pl, false, if out && skip && pskip && fresh then 0 else tile);
                                (lvl, true, if out && skip && fresh then 0 else tile)]
         end)
        ++ exec rest (Some (lvl, skip)) fresh
        (* leaving: an output tile is written back to the holder above *)
        ++ (match parent with
            | None => []
            | Some (pl, _) => if out then [(lvl, false, tile); (pl, true, tile)] else []
            end)
    end.

  Definition count (lvl : nat) (w : bool) (evs : list event) : Z :=
    fold_right (fun e acc => let '(l, iw, v) := e in if Nat.eqb l lvl && Bool.eqb iw w then acc + v else acc) 0 evs.
  Definition exec_counts (c : list item) (lvl : nat) : Z * Z :=
    let evs := exec c None true in (count lvl false evs, count lvl true evs).
End OneTensor.

(* ------------------------------------------------------------------ whole mapping: actions, energy, latency *)
Record level := mkL { l_skip : bool;
                      l_re : Q; l_we : Q;                 (* energy per read / write action *)
                      l_rthr : option Q; l_wthr : option Q;  (* throughput, None = inf *)
                      l_leak : Q;
                      l_rscale : list Q; l_wscale : list Q   (* per tensor: actions per value = 1 / values_per_action *)
                    }.
Record spec := mkS { s_bounds : shape; s_tensors : list tensor; s_levels : list level;
                     c_skip : bool; c_e : Q; c_thr : option Q; c_leak : Q }.

Definition dflt_level := mkL true 0 0 None None 0 [] [].
Definition skipf_of (sp : spec) (lvl : nat) : bool := l_skip (nth lvl (s_levels sp) dflt_level).

Definition n_computes (sp : spec) : Z := fold_right Z.mul 1 (s_bounds sp).

Section Eval.
  (* the per-tensor counting function: the model's or the execution's *)
  Variable counts : bool -> bool -> list item -> nat -> Z * Z.
  Variable sp : spec.
  Variable m : list node.

  Definition tcounts (t : nat) (lvl : nat) : Z * Z :=
    let tn := nth t (s_tensors sp) (mkT [] false) in
    counts (t_out tn) (c_skip sp) (chain_of (skipf_of sp) t tn m (s_bounds sp)) lvl.

  Definition inv_thr (o : option Q) : Q := match o with None => 0 | Some q => / q end.
  Open Scope Q_scope.
  (* per (level, tensor): read actions, write actions *)
  Definition actions (lvl t : nat) : Q * Q :=
    let L := nth lvl (s_levels sp) dflt_level in
    let '(r, w) := tcounts t lvl in
    (inject_Z r * nth t (l_rscale L) 1, inject_Z w * nth t (l_wscale L) 1).
  Definition tids := seq 0 (length (s_tensors sp)).
  Definition lids := seq 0 (length (s_levels sp)).
  Definition sumQ (l : list Q) : Q := fold_right Qplus 0 l.
  Definition level_latency (lvl : nat) : Q :=
    let L := nth lvl (s_levels sp) dflt_level in
    sumQ (map (fun t => fst (actions lvl t)) tids) * inv_thr (l_rthr L)
    + sumQ (map (fun t => snd (actions lvl t)) tids) * inv_thr (l_wthr L).
  Definition compute_latency : Q := inject_Z (n_computes sp) * inv_thr (c_thr sp).
  Definition Qmax (a b : Q) : Q := if Qle_bool a b then b else a.
  Definition latency : Q := fold_right Qmax compute_latency (map level_latency lids).
  Definition dyn_energy : Q :=
    sumQ (map (fun lvl => let L := nth lvl (s_levels sp) dflt_level in
                          sumQ (map (fun t => fst (actions lvl t) * l_re L + snd (actions lvl t) * l_we L) tids)) lids)
    + inject_Z (n_computes sp) * c_e sp.
  Definition leak_energy : Q := (sumQ (map (fun lvl => l_leak (nth lvl (s_levels sp) dflt_level)) lids) + c_leak sp) * latency.
  Definition energy : Q := dyn_energy + leak_energy.
End Eval.
