"""C14 — the staged join (dirty rounds, thresholds, lookahead, untracked memories, reservation combining) returns the front of one exact join."""
import contextlib
import io
import json
import os

import common
import join_ref as JR

TRUSTED = [
    "Coq (Lib/Join.v, C14/Props.v): over an abstract join algebra (rows = compatibility key + vector, any compatibility function, any monotone combination, any downward-closed capacity test, "
    "any number of tables) - optimality-threshold row filtering on an achievable solution keeps the objective front; a relaxed (resource-tolerance) join whose result is valid has exactly the "
    "valid front, and the validity check / retry is necessary (witness); a capacity test that is never decisive may be skipped; per-group Pareto pruning between steps keeps the front (C13)",
    "that the real staged join instantiates these hypotheses (thresholds come from achievable solutions, untracked memories are never decisive, lookahead only drops keys that cannot be "
    "completed, combined reservations are equivalent) is NOT proved: it is what the correspondence run tests on real pmapping tables",
    "reference side: pmapping tables made with RESOURCE_USAGE in the metrics and can_combine_multiple_runs (every memory tracked, no reservation column dropped at any stage), then "
    "join_pmappings of the CURRENT source run once, directly on those tables, reservations not combined, and the lookahead elimination switched off by a source transformation inside the harness process (falls back, and says so in the evidence, "
    "if the statement is no longer found); both sides share Compatibility.merge_next and PmappingDataframe.merge_next on pairs (C13 ties those to combinations of single pmappings)",
]


def run(ck):
    common.setup_impl_path()
    import accelforge as af
    from accelforge.mapper.FFM import main as MM
    from accelforge.mapper.FFM._join_pmappings import join_pmappings as J
    af.set_n_parallel_jobs(1)
    ck.prove()
    rng = ck.rng("specs")
    d = common.BUILD / "run" / f"c14-{os.getpid()}"
    d.mkdir(parents=True, exist_ok=True)
    dist = {"specs": 0, "einsums": {}, "metric_sets": {}, "front_sizes": [], "oversubscribed_retries": 0, "dirty_rounds": 0, "untracked_memory_msgs": 0, "table_rows": [],
            "make_errors": 0, "both_failed": 0, "lookahead_switched_off": None}
    _, dist["lookahead_switched_off"] = JR.exact_join_fn()
    E, L, RU, EDP = af.Metrics.ENERGY, af.Metrics.LATENCY, af.Metrics.RESOURCE_USAGE, af.Metrics.ENERGY_DELAY_PRODUCT
    msets = [("ENERGY|LATENCY", E | L), ("ENERGY|LATENCY|RESOURCE_USAGE", E | L | RU), ("ENERGY", E), ("ENERGY_DELAY_PRODUCT", EDP), ("LATENCY|RESOURCE_USAGE", L | RU)]
    for i in range(ck.n(14, 100)):
        p = JR.gen_spec(rng, allow_three=ck.tier == "thorough")
        mname, metrics = msets[i % len(msets)] if i % 2 else msets[i // 2 % 2]
        dist["specs"] += 1
        dist["einsums"][str(p["n"])] = dist["einsums"].get(str(p["n"]), 0) + 1
        dist["metric_sets"][mname] = dist["metric_sets"].get(mname, 0) + 1
        try:
            spec = JR.load_spec(af, p, d, metrics)
            cwd = os.getcwd()
            os.chdir(d)
            try:
                pm = MM.make_pmappings(spec, print_progress=False)
            finally:
                os.chdir(cwd)
        except Exception as ex:  # noqa
            dist["make_errors"] += 1
            continue
        dist["table_rows"].append(sum(len(g.mappings.data) for gs in pm.einsum2pmappings.values() for g in gs))
        st = st_err = ex_df = ex_err = None
        calls = {"strategy": 0, "joins": 0, "untracked": 0}
        o_s2, o_join, o_track = J.join_strategy_2, J.join_pmappings, J.get_memories_to_track

        def w_s2(*a, **k):
            calls["strategy"] += 1
            return o_s2(*a, **k)

        def w_join(*a, **k):
            calls["joins"] += 1
            return o_join(*a, **k)

        def w_track(*a, **k):
            r = o_track(*a, **k)
            calls["untracked"] += len(r[1])
            return r
        J.join_strategy_2, J.join_pmappings, J.get_memories_to_track = w_s2, w_join, w_track
        try:
            st = MM.join_pmappings(pm, metrics=metrics, require_all_einsums=False, print_progress=False).data
        except Exception as ex:  # noqa
            st_err = f"{type(ex).__name__}: {str(ex)[:200]}"
        finally:
            J.join_strategy_2, J.join_pmappings, J.get_memories_to_track = o_s2, o_join, o_track
        retries = max(0, calls["strategy"] - 1)
        dist["oversubscribed_retries"] += retries
        dist["dirty_rounds"] += max(0, calls["joins"] - 1)
        dist["untracked_memory_msgs"] += calls["untracked"]
        try:
            pm_ref = pm
            if not (RU & metrics):
                # the reference tables are made with every memory tracked (RESOURCE_USAGE keeps every reservation column; make_pmappings'
                # own "memory is big enough / never reserved across fused loops" skipping is an acceleration under test)
                cwd = os.getcwd()
                os.chdir(d)
                try:
                    pm_ref = MM.make_pmappings(JR.load_spec(af, p, d, E | L | RU), print_progress=False, can_combine_multiple_runs=True)
                finally:
                    os.chdir(cwd)
                dist["reference_tables_rebuilt"] = dist.get("reference_tables_rebuilt", 0) + 1
            ex_df = JR.exact_join(af, pm_ref, E | L | RU)
        except Exception as ex:  # noqa
            ex_err = f"{type(ex).__name__}: {str(ex)[:200]}"
        key = json.dumps([p, mname], sort_keys=True, default=str)
        if st is None and ex_df is None:
            dist["both_failed"] += 1
            ck.case(key, nontrivial=False)
            continue
        payload = {"params": p, "metrics": mname, "arch_yaml": JR.yaml_text(p)[0], "workload_yaml": JR.yaml_text(p)[1]}
        if st is None or ex_df is None:
            ck.case(key, nontrivial=True)
            ck.failing_input(dict(payload, staged_error=st_err, exact_error=ex_err),
                             what=f"staged join {'failed: ' + st_err if st is None else 'returned mappings'} while the exact join {'failed: ' + ex_err if ex_df is None else 'returned mappings'}")
            continue
        with_usage = bool(RU & metrics)
        if "Total<SEP>energy" in ex_df.columns and "Total<SEP>latency" in ex_df.columns:
            ex_df = ex_df.copy()
            ex_df["Total<SEP>energy_delay_product"] = ex_df["Total<SEP>energy"] * ex_df["Total<SEP>latency"]
        cols = JR.obj_cols(st, with_usage)
        missing = [c for c in cols if c not in ex_df.columns and not c.startswith("reservation<SEP>")]
        a = JR.pfront(JR.vectors(st, cols))
        b = JR.pfront(JR.vectors(ex_df, cols))
        dist["front_sizes"].append(len(b))
        ck.case(key, nontrivial=len(b) >= 2 or retries > 0 or calls["joins"] > 1,
                sample={"params": {k: p[k] for k in ("n", "M", "ns", "glb", "three", "long_lived", "max_fused_loops")}, "metrics": mname, "front": [list(v) for v in b[:4]],
                        "oversubscribed_retries": retries, "join_rounds": calls["joins"]})
        lost, extra = JR.same_front(a, b)
        if lost or extra or missing:
            ck.failing_input(dict(payload, columns=cols, staged_front=[list(v) for v in a[:10]], exact_front=[list(v) for v in b[:10]], lost=[list(v) for v in lost[:5]],
                                  extra=[list(v) for v in extra[:5]], missing_columns=missing),
                             what=(f"exact join has front point {lost[0]} ({cols}) that the staged join does not return" if lost else
                                   f"staged join returns {extra[0]} ({cols}) which is not on the front of the exact join" if extra else f"columns {missing} missing"))
    fs = dist.pop("front_sizes")
    tr = dist.pop("table_rows")
    dist["front_size"] = {"max": max(fs or [0]), "mean": sum(fs) / max(1, len(fs)), "multi_point": sum(1 for x in fs if x >= 2)}
    dist["table_rows"] = {"max": max(tr or [0]), "mean": sum(tr) / max(1, len(tr))}
    return ck.finish(
        rule="random chains of 2-3 matmuls (optionally a tensor living across all Einsums, optionally a third memory level; tight to infinite GlobalBuffer; finite throughputs so that "
             "energy and latency trade off; max_fused_loops None/1/2) under five metric sets with and without RESOURCE_USAGE: the public staged join_pmappings against one direct "
             "join with every acceleration off, fronts compared on the staged result's objective (and usage) columns; non-trivial = multi-point front or a dirty / retried round happened",
        trusted=TRUSTED,
        extra={"input_distribution": dist,
               "source_fingerprint": [common.fingerprint("accelforge/mapper/FFM/_join_pmappings/join_pmappings.py",
                                                         ["join_pmappings", "multi_strategy_join", "join_strategy_2", "OptimalityThresholder", "prune_with_tolerance", "get_memories_to_track"])]})


def replay(ck, data):
    print("replay: the arch / workload YAML and metric set are in the replay file; re-run ./check C14 with the recorded seed")
    return 0
