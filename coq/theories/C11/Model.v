(* C11 model — fast_pareto.py:fast_pareto_mask / _sfs_bnl_core, as repaired by the
   "fix:" commit (2-D sweep without the 1e308 sentinel; rows let in with an equal
   sort key are re-checked).  Executable definitions only.

   Values are integers: the harness replaces every float by its rank within its
   column (order isomorphism; +-inf become the extreme ranks).  Goals min / max / diff;
   the *_per_prime_factor goals are expanded by the separate, verified [pf_expand]. *)
From AF Require Import Base.Tactics Lib.Pareto.
Open Scope Z_scope.

Inductive goal := GMin | GMax | GDiff.
Notation row := (list Z) (only parsing).

Definition opt_part (gs : list goal) (r : row) : vec :=
  flat_map (fun gv => match fst gv with GMin => [snd gv] | GMax => [- snd gv] | GDiff => [] end)
           (combine gs r).
Definition diff_part (gs : list goal) (r : row) : vec :=
  flat_map (fun gv => match fst gv with GDiff => [snd gv] | _ => [] end) (combine gs r).

(* ------------------------------------------------------------------ reference semantics *)
Definition dominated_in (gs : list goal) (all : list row) (r : row) : bool :=
  existsb (fun s => veq (diff_part gs s) (diff_part gs r) && dom (opt_part gs s) (opt_part gs r)) all.

Definition memrow (r : row) (l : list row) : bool := existsb (veq r) l.

Fixpoint spec_aux (gs : list goal) (all seen rest : list row) : list bool :=
  match rest with
  | [] => []
  | r :: t => (negb (dominated_in gs all r) && negb (memrow r seen)) :: spec_aux gs all (r :: seen) t
  end.

(* row i is kept iff no row with equal diff columns strictly dominates it and it is not an
   exact duplicate of an earlier row *)
Definition spec_mask (gs : list goal) (rows : list row) : list bool := spec_aux gs rows [] rows.

(* ------------------------------------------------------------------ the algorithm *)
Record trow := mk { tg : nat; full : row; dkey : vec; eff : vec }.

(* which columns vary: head column, then recurse on the tails *)
Fixpoint varying_mask (v0 : vec) (vs : list vec) : list bool :=
  match v0 with
  | [] => []
  | x :: v0' =>
      negb (forallb (fun v => match v with y :: _ => x =? y | [] => true end) vs)
      :: varying_mask v0' (map (@tl Z) vs)
  end.

Definition count_true (m : list bool) : nat := length (filter (fun b => b) m).

Notation lrow := (nat * list Z)%type (only parsing).     (* a row of the per-group local buffer *)

(* stable sort by an integer key (np.argsort(kind="mergesort")) *)
Fixpoint insert_by (key : lrow -> Z) (p : lrow) (l : list lrow) : list lrow :=
  match l with
  | [] => [p]
  | q :: l' => if key p <? key q then p :: l else q :: insert_by key p l'
  end.
Definition sort_by (key : lrow -> Z) (l : list lrow) : list lrow :=
  fold_left (fun acc p => insert_by key p acc) l [].

Definition hd0 (v : vec) : Z := nth 0 v 0.
Definition c0 (p : lrow) : Z := nth 0 (snd p) 0.
Definition c1 (p : lrow) : Z := nth 1 (snd p) 0.

(* one varying column: keep the rows attaining the column minimum *)
Definition min_path (L : list lrow) : list nat :=
  match L with
  | [] => []
  | p0 :: _ =>
      let mn := fold_right Z.min (c0 p0) (map c0 L) in
      map fst (filter (fun p => c0 p <=? mn) L)
  end.

(* two varying columns: sort by column 0, sweep runs of equal column 0 *)
Definition better (g : Z) (best : option Z) : bool :=
  match best with None => true | Some b => g <? b end.
Definition run_min (run : list lrow) : Z :=
  match run with [] => 0 | p :: t => fold_right Z.min (c1 p) (map c1 t) end.
Definition flush (run : list lrow) (best : option Z) : list nat :=
  match run with
  | [] => []
  | _ => if better (run_min run) best
         then map fst (filter (fun q => c1 q =? run_min run) run) else []
  end.
Definition new_best (run : list lrow) (best : option Z) : option Z :=
  match run with
  | [] => best
  | _ => if better (run_min run) best then Some (run_min run) else best
  end.
Fixpoint sweep_acc (S run : list lrow) (best : option Z) : list nat :=
  match S with
  | [] => flush run best
  | p :: S' =>
      match run with
      | [] => sweep_acc S' [p] best
      | q :: _ =>
          if c0 p =? c0 q then sweep_acc S' (run ++ [p]) best
          else flush run best ++ sweep_acc S' [p] (new_best run best)
      end
  end.
Definition sweep2 (L : list lrow) : list nat := sweep_acc (sort_by c0 L) [] None.

(* general case: sort-filter-skyline.  State = (window, kept tags).  The window keeps
   every row that no window row dominated when it arrived; a row let in later with
   the same key un-marks the window rows it dominates. *)
Definition sfs_step (key : vec -> Z) (st : list lrow * list nat) (r : lrow) : list lrow * list nat :=
  let '(win, kept) := st in
  if existsb (fun w => dom (snd w) (snd r)) win then st
  else (win ++ [r],
        fst r :: filter (fun i => negb (existsb (fun w => Nat.eqb (fst w) i && (key (snd w) =? key (snd r)) && dom (snd r) (snd w)) win)) kept).
Definition sfs (key : vec -> Z) (L : list lrow) : list nat :=
  snd (fold_left (sfs_step key) (sort_by (fun p => key (snd p)) L) ([], [])).

(* per diff-group kernel *)
Definition core (key : vec -> Z) (G : list trow) : list nat :=
  match G with
  | [] => []
  | [t] => [tg t]
  | t0 :: _ =>
      let m := varying_mask (eff t0) (map eff G) in
      let L := map (fun t => (tg t, select m (eff t))) G in
      match count_true m with
      | O => map fst L
      | 1%nat => min_path L
      | 2%nat => sweep2 L
      | _ => sfs key L
      end
  end.

(* groups of equal diff key, in order of first occurrence *)
Fixpoint first_keys (seen : list vec) (l : list trow) : list vec :=
  match l with
  | [] => []
  | t :: l' => if existsb (veq (dkey t)) seen then first_keys seen l'
               else dkey t :: first_keys (dkey t :: seen) l'
  end.
Definition groups (l : list trow) : list (list trow) :=
  map (fun k => filter (fun t => veq (dkey t) k) l) (first_keys [] l).

Fixpoint memnat (i : nat) (l : list nat) : bool :=
  match l with [] => false | j :: t => Nat.eqb i j || memnat i t end.

(* first occurrences among the rows whose mask bit is set *)
Fixpoint dedup_kept (seen : list row) (rows : list row) (mask : list bool) : list bool :=
  match rows, mask with
  | r :: rows', b :: mask' =>
      if b then (if memrow r seen then false :: dedup_kept seen rows' mask'
                 else true :: dedup_kept (r :: seen) rows' mask')
      else false :: dedup_kept seen rows' mask'
  | _, _ => []
  end.

Definition tagrows (gs : list goal) (rows : list row) : list trow :=
  map (fun ir => mk (fst ir) (snd ir) (diff_part gs (snd ir)) (opt_part gs (snd ir)))
      (combine (seq 0 (length rows)) rows).

Definition impl_mask (key : vec -> Z) (gs : list goal) (rows : list row) : list bool :=
  let n := length rows in
  if (n <=? 1)%nat then repeat true n
  else
    let T0 := tagrows gs rows in
    match T0 with
    | [] => []
    | t0 :: _ =>
        (* globally constant optimised columns are dropped *)
        let gm := varying_mask (eff t0) (map eff T0) in
        let T := map (fun t => mk (tg t) (full t) (dkey t) (select gm (eff t))) T0 in
        let kept := if (count_true gm =? 0)%nat then map tg T     (* nothing to optimise: dedup only *)
                    else flat_map (core key) (groups T) in
        dedup_kept [] rows (map (fun i => memnat i kept) (seq 0 n))
    end.

Definition impl_mask_sum := impl_mask vsum.
