"""Shared machinery of the search-level checks (C01, C02, C03, C04, C16-C19): run the real mapper on a MiniForge-class spec,
evaluate the proven reference optimiser (AF.Lib.MiniSpace.opt, vm_compute) and its python twin (mini_space), compare."""
import hashlib
import json
import os
import pickle
import random
from fractions import Fraction

import common
import gen_mini as G
import mini_space as S
from common import coq_Z, coq_list


def load():
    common.setup_impl_path()
    import accelforge as af
    from accelforge.model.main import evaluate_mapping
    af.set_n_parallel_jobs(1)
    return af, evaluate_mapping


def gen_search_spec(rng, max_space=6000, fancy=True, levels=(2, 2, 3), pool=(2, 2, 3, 4), enumerate_space=True):
    """a spec whose whole mapspace is small enough to enumerate; returns (spec, space)"""
    while True:
        dedicated = rng.random() < 0.2
        spec = G.gen_spec(rng, max_levels=3 if dedicated else rng.choice(levels), bounds_pool=pool, fancy=fancy, min_levels=3 if dedicated else 2)
        S.set_keep(rng, spec)
        if dedicated and len(spec["levels"]) == 3:
            # a dedicated single-tensor path: the middle level is forced to keep one tensor, the level below may keep only it and is cheaper
            nt = len(spec["tensors"])
            t_ded = rng.randrange(nt)
            one = [k == t_ded for k in range(nt)]
            spec["levels"][1].update(keep=list(one), may=list(one), re=rng.randint(4, 12), we=rng.randint(4, 12))
            spec["levels"][2].update(keep=[False] * nt, may=list(one), re=1, we=1)
        if rng.random() < 0.5:
            # energy/latency trade-off: a cheap but slow outer memory and an expensive but fast buffer
            spec["levels"][0].update(re=rng.randint(1, 4), we=rng.randint(1, 4), rthr=rng.choice([1, 2]), wthr=rng.choice([1, 2, None]))
            for L in spec["levels"][1:]:
                L.update(re=rng.randint(8, 32), we=rng.randint(8, 32), rthr=None, wthr=None)
            spec["compute"]["thr"] = rng.choice([2, 4, 8])
        for L in spec["levels"][1:]:
            L["size"] = rng.choice([None, 128, 64, 32, 16])
        if dedicated and len(spec["levels"]) == 3:
            spec["levels"][2]["size"] = rng.choice([spec["tensors"][t_ded]["bpv"], 2 * spec["tensors"][t_ded]["bpv"], 16, None])
            spec["levels"][2]["bpv"].pop(spec["tensors"][t_ded]["name"], None)
        if not enumerate_space:
            return spec, None
        space = S.enumerate_space(spec)
        if 2 <= len(space) <= max_space:
            return spec, space


def coq_mspec(spec):
    nt = len(spec["tensors"])
    b = lambda x: str(bool(x)).lower()  # noqa
    keep = coq_list([coq_list([b(x) for x in L["keep"]]) for L in spec["levels"]])
    may = coq_list([coq_list([b(x) for x in L["may"]]) for L in spec["levels"]])
    size = coq_list(["None" if L["size"] is None else f"(Some {coq_Z(L['size'])})" for L in spec["levels"]])
    bpv = coq_list([coq_list([L["bpv"].get(spec["tensors"][t]["name"], spec["tensors"][t]["bpv"]) for t in range(nt)], coq_Z) for L in spec["levels"]])
    return f"(mkM {G.coq_spec(spec)} {keep} {may} {size} {bpv})"


def yaml_files(spec, d):
    (d / "a.yaml").write_text(S.arch_yaml(spec))
    (d / "w.yaml").write_text(G.workload_yaml(spec))
    return str(d / "a.yaml"), str(d / "w.yaml")


def repo_state():
    """identifies the implementation under test: HEAD + working-tree diff"""
    import subprocess
    r = str(common.REPO)
    head = subprocess.run(["git", "-C", r, "rev-parse", "HEAD"], capture_output=True, text=True).stdout.strip()
    diff = subprocess.run(["git", "-C", r, "diff", "HEAD", "--", "accelforge"], capture_output=True, text=True).stdout
    return hashlib.sha1((head + diff).encode()).hexdigest()[:16]


_CACHE = {}


def run_mapper(af, spec, d, metrics, extra=None, eval_in_detail=True):
    """returns dict(rows=[{energy, latency, edp, usage, mapping(list of compact strings)}], error=str|None); cached per repo state"""
    key = hashlib.sha1(json.dumps([spec, metrics, extra, eval_in_detail, repo_state()], sort_keys=True, default=str).encode()).hexdigest()
    cdir = common.BUILD / "cache" / "mapper"
    cdir.mkdir(parents=True, exist_ok=True)
    f = cdir / (key + ".pkl")
    if os.environ.get("VERIF_NO_CACHE") != "1" and f.exists():
        return pickle.loads(f.read_bytes())
    from accelforge.mapper.FFM.main import map_workload_to_arch
    a, w = yaml_files(spec, d)
    s = af.Spec.from_yaml(a, w)
    mm = None
    for name in metrics:
        mm = getattr(af.Metrics, name) if mm is None else mm | getattr(af.Metrics, name)
    s.mapper.metrics = mm
    for k, v in (extra or {}).items():
        setattr(s.mapper, k, v)
    out = {"rows": [], "error": None}
    try:
        res = map_workload_to_arch(s, eval_in_detail=eval_in_detail)
        for i in range(len(res)):
            row = {}
            for c in res.columns:
                if "mapping" in c:
                    continue
                row[c] = float(res.data[c].iloc[i])
            mp = res.data.iloc[i]["Total<SEP>mapping"]
            try:
                nodes = mp(_for_model=True).nodes if callable(mp) else mp.nodes
                row["mapping"] = [n.compact_str() for n in nodes if hasattr(n, "compact_str")]
                row["mapping_nodes"] = nodes_to_mini(nodes, spec)
            except Exception as ex:  # noqa
                row["mapping"] = [f"<{type(ex).__name__}: {ex}>"]
                row["mapping_nodes"] = None
            out["rows"].append(row)
    except Exception as ex:  # noqa
        out["error"] = f"{type(ex).__name__}: {str(ex)[:400]}"
    f.write_bytes(pickle.dumps(out))
    return out


def nodes_to_mini(nodes, spec):
    """accelforge mapping nodes -> [('sto', lvl, t) | ('loop', rv, tile)] (None if something is outside the class)"""
    from accelforge.frontend import mapping as M
    lv = {L["name"]: i for i, L in enumerate(spec["levels"])}
    tn = {T["name"]: i for i, T in enumerate(spec["tensors"])}
    out = []
    for n in nodes:
        cls = type(n).__name__
        if cls in ("Storage", "Toll"):
            for t in n.tensors:
                out.append(("sto", lv[str(n.component)], tn[str(t)]))
        elif cls == "Temporal":
            ts = n.tile_shape
            try:
                ts = int(ts)
            except Exception:  # noqa
                return None
            out.append(("loop", G.RV.index(str(n.rank_variable)), ts))
        elif cls in ("Reservation", "Compute"):
            continue
        else:
            return None
    return out


def best(rows, col):
    vals = [r[col] for r in rows if col in r]
    return min(vals) if vals else None


def reference(spec, space=None):
    """python twin of MiniSpace: list of (mapping, energy, latency) over the valid space"""
    space = space if space is not None else S.enumerate_space(spec)
    out = []
    for m in space:
        if S.accepted(spec, m):
            e, l = S.evaluate(spec, m)
            out.append((m, e, l))
    return out


def canonical_body(spec, m):
    """mapping with the level-0 holders in tensor order on top (the space's canonical form)"""
    nt = len(spec["tensors"])
    body = [n for n in m if not (n[0] == "sto" and n[1] == 0)]
    return [("sto", 0, t) for t in range(nt)] + body


def close(x, q, tol=1e-5):
    q = float(q)
    return abs(x - q) <= tol * max(1.0, abs(q))
