(* C21 model — _basetypes.py:_get_parsable_field_order + _eval_expressions_final +
   _eval_expressions.py:eval_expression for objects whose fields are integer arithmetic
   expressions over names.  Names are numbers; an object is an association list in KEY ORDER. *)
From AF Require Import Base.Tactics.
Open Scope Z_scope.

Inductive binop := OAdd | OSub | OMul | ODiv | OMod | OMin | OMax.
Inductive aexp := Num (z : Z) | Var (x : nat) | Bin (o : binop) (a b : aexp).

Notation defs := (list (nat * aexp)) (only parsing).
Notation table := (list (nat * Z)) (only parsing).

Fixpoint vars (e : aexp) : list nat :=
  match e with Num _ => [] | Var x => [x] | Bin _ a b => vars a ++ vars b end.

Fixpoint memn (x : nat) (l : list nat) : bool :=
  match l with [] => false | y :: t => Nat.eqb x y || memn x t end.

Definition names (d : defs) : list nat := map fst d.

(* dependencies[f] = the OTHER fields of the same object whose name occurs in f's expression *)
Definition deps (d : defs) (x : nat) (e : aexp) : list nat :=
  filter (fun y => memn y (names d) && negb (Nat.eqb y x)) (vars e).

(* can_add = [f for f in to_sort if all(dep in order for dep in dependencies[f])]; take the first *)
Fixpoint pick (d : defs) (done : list nat) (rem : defs) : option (nat * aexp) :=
  match rem with
  | [] => None
  | (x, e) :: t => if forallb (fun y => memn y done) (deps d x e) then Some (x, e) else pick d done t
  end.

Fixpoint remove_field (x : nat) (rem : defs) : defs :=
  match rem with
  | [] => []
  | (y, e) :: t => if Nat.eqb x y then t else (y, e) :: remove_field x t
  end.

(* the worklist; fuel = number of fields; None = "Circular dependency detected" *)
Fixpoint order_loop (fuel : nat) (d : defs) (done : list nat) (rem : defs) : option (list (nat * aexp)) :=
  match rem with
  | [] => Some []
  | _ =>
      match fuel with
      | O => None
      | S fuel' =>
          match pick d done rem with
          | None => None
          | Some (x, e) =>
              match order_loop fuel' d (x :: done) (remove_field x rem) with
              | Some o => Some ((x, e) :: o)
              | None => None
              end
          end
      end
  end.

Definition field_order (d : defs) : option (list (nat * aexp)) := order_loop (length d) d [] d.

(* symbol table: first binding wins; update = cons *)
Fixpoint lookup (x : nat) (st : table) : option Z :=
  match st with [] => None | (y, v) :: t => if Nat.eqb x y then Some v else lookup x t end.

Definition apply_op (o : binop) (a b : Z) : option Z :=
  match o with
  | OAdd => Some (a + b) | OSub => Some (a - b) | OMul => Some (a * b)
  | ODiv => if b =? 0 then None else Some (a / b)          (* Python // : floor, ZeroDivisionError *)
  | OMod => if b =? 0 then None else Some (a mod b)        (* Python %  : sign of the divisor *)
  | OMin => Some (Z.min a b) | OMax => Some (Z.max a b)
  end.

(* eval_expression: names resolve through the current symbol table; anything failing raises *)
Fixpoint eval_exp (st : table) (e : aexp) : option Z :=
  match e with
  | Num z => Some z
  | Var x => lookup x st
  | Bin o a b =>
      match eval_exp st a, eval_exp st b with
      | Some va, Some vb => apply_op o va vb
      | _, _ => None
      end
  end.

(* _eval_expressions_final: evaluate field by field, each result enters the symbol table *)
Fixpoint eval_in_order (st : table) (o : list (nat * aexp)) : option table :=
  match o with
  | [] => Some st
  | (x, e) :: t =>
      match eval_exp st e with
      | Some v => eval_in_order ((x, v) :: st) t
      | None => None
      end
  end.

Inductive outcome := OK (st : table) | ErrCycle | ErrEval.

Definition eval_object (outer : table) (d : defs) : outcome :=
  match field_order d with
  | None => ErrCycle
  | Some o => match eval_in_order outer o with Some st => OK st | None => ErrEval end
  end.

(* nested scopes: spec variables, then arch variables, then component attributes; each level
   starts from the table the enclosing level produced *)
Fixpoint eval_scopes (outer : table) (levels : list defs) : outcome :=
  match levels with
  | [] => OK outer
  | d :: rest => match eval_object outer d with OK st => eval_scopes st rest | err => err end
  end.

Definition observe (st : table) (xs : list nat) : list (option Z) := map (fun x => lookup x st) xs.
