From AF Require Import Base.Tactics Lib.Pareto Lib.Front C08.Model.
Open Scope Z_scope.

Lemma vle_dom_trans a b c : vle a b = true -> dom b c = true -> dom a c = true.
Proof.
  intros H1 H2. apply dom_iff in H2. destruct H2 as [H2 H3]. apply dom_iff. split; [eapply vle_trans; eassumption|].
  destruct (vle c a) eqn:E; [|reflexivity]. rewrite (vle_trans _ _ _ E H1) in H3. discriminate.
Qed.

(* two sets, one inside the other and weakly covering it, have the same front *)
Lemma front_of_cover (G' G : list vec) :
  (forall x, In x G' -> In x G) -> (forall x, In x G -> exists y, In y G' /\ vle y x = true) ->
  forall f, In f (front G') <-> In f (front G).
Proof.
  intros Hsub Hcov f. rewrite !front_in. split; intros [Hf Hn].
  - split; [apply Hsub, Hf|]. intros x Hx. destruct (dom x f) eqn:E; [|reflexivity].
    destruct (Hcov x Hx) as [y [Hy Hyx]]. rewrite <- (Hn y Hy). symmetry. eapply vle_dom_trans; eassumption.
  - destruct (Hcov f Hf) as [y [Hy Hyf]]. pose proof (Hn y (Hsub y Hy)) as Nd.
    assert (vle f y = true) as Hfy.
    { destruct (vle f y) eqn:E; [reflexivity|]. assert (dom y f = true) by (apply dom_iff; split; assumption). congruence. }
    rewrite (vle_antisym _ _ Hfy Hyf). split; [exact Hy|]. rewrite <- (vle_antisym _ _ Hfy Hyf). intros x Hx. apply Hn, Hsub, Hx.
Qed.

Section P.
  Variable next : list Z -> list Z.
  Variable valid : list Z -> bool.
  Variable obj crit : list Z -> vec.
  Notation exts := (exts next).
  Notation prune := (prune crit).
  Notation prune_aux := (prune_aux crit).
  Notation expand := (expand next).
  Notation stages := (stages next crit).

  Lemma prune_aux_sub all : forall rest seen p, In p (prune_aux all seen rest) -> In p rest.
  Proof.
    induction rest as [|x r IH]; intros seen p H; [destruct H|]. cbn [prune_aux] in H.
    destruct (_ || _) in H; [right; eapply IH; exact H|]. destruct H as [<-|H]; [left; reflexivity|right; eapply IH; exact H].
  Qed.
  Lemma prune_sub L p : In p (prune L) -> In p L.
  Proof. apply prune_aux_sub. Qed.

  Lemma prune_aux_first all g : (forall q, In q all -> dom (crit q) g = false) ->
    forall rest seen, (forall q, In q seen -> crit q <> g) -> (exists q, In q rest /\ crit q = g) ->
    exists r, In r (prune_aux all seen rest) /\ crit r = g.
  Proof.
    intros Hnd. induction rest as [|x r IH]; intros seen Hs [q [Hq Eq]]; [destruct Hq|]. cbn [prune_aux].
    destruct (list_eq_dec Z.eq_dec (crit x) g) as [Ex|Nx].
    - assert (existsb (fun q => dom (crit q) (crit x)) all = false) as E1.
      { destruct (existsb _ all) eqn:E; [|reflexivity]. apply existsb_exists in E. destruct E as [y [Hy Dy]]. rewrite Ex, (Hnd y Hy) in Dy. discriminate. }
      assert (existsb (fun q => veq (crit q) (crit x)) seen = false) as E2.
      { destruct (existsb _ seen) eqn:E; [|reflexivity]. apply existsb_exists in E. destruct E as [y [Hy Dy]]. apply veq_eq in Dy. exfalso. apply (Hs y Hy). congruence. }
      rewrite E1, E2. exists x. split; [left; reflexivity|exact Ex].
    - assert (exists r0, In r0 (prune_aux all (x :: seen) r) /\ crit r0 = g) as [r0 [H1 H2]].
      { apply IH; [intros y [<-|Hy]; [exact Nx|apply Hs, Hy]|]. destruct Hq as [<-|Hq]; [contradiction|]. exists q. split; assumption. }
      exists r0. split; [|exact H2]. destruct (_ || _); [exact H1|right; exact H1].
  Qed.

  (* pruning keeps, for every partial assignment, one whose criteria are at least as good *)
  Lemma prune_cover L p : In p L -> exists r, In r (prune L) /\ vle (crit r) (crit p) = true.
  Proof.
    intro Hp.
    assert (exists g, In g (map crit L) /\ vle g (crit p) = true /\ forall x, In x (map crit L) -> dom x g = false) as [g [Hg [Hle Hn]]].
    { destruct (existsb (fun x => dom x (crit p)) (map crit L)) eqn:E.
      - apply existsb_exists in E. destruct E as [x [Hx Dx]]. destruct (exists_nondominated_dominator (map crit L) (crit p) x Hx Dx) as [g [G1 [G2 G3]]].
        exists g. split; [exact G1|]. split; [apply dom_iff in G2; apply G2|exact G3].
      - exists (crit p). split; [apply in_map, Hp|]. split; [apply vle_refl|]. intros x Hx. destruct (dom x (crit p)) eqn:F; [|reflexivity].
        assert (existsb (fun x => dom x (crit p)) (map crit L) = true) by (apply existsb_exists; exists x; tauto). congruence. }
    apply in_map_iff in Hg. destruct Hg as [q [Eq Hq]].
    destruct (prune_aux_first L g) with (rest := L) (seen := @nil (list Z)) as [r [Hr Er]].
    - intros y Hy. apply Hn, in_map, Hy.
    - intros y [].
    - exists q. split; assumption.
    - exists r. split; [exact Hr|]. rewrite Er. exact Hle.
  Qed.

  Lemma exts_S k p a : In a (exts (S k) p) <-> exists v, In v (next p) /\ In a (exts k (p ++ [v])).
  Proof. cbn [Model.exts]. rewrite in_flat_map. tauto. Qed.

  Lemma exts_snoc j : forall p a, In a (exts (S j) p) <-> exists q, In q (exts j p) /\ exists v, In v (next q) /\ a = q ++ [v].
  Proof.
    induction j as [|j IH]; intros p a.
    - rewrite exts_S. cbn [Model.exts In]. split.
      + intros [v [Hv [<-|[]]]]. exists p. split; [left; reflexivity|]. exists v. split; [exact Hv|reflexivity].
      + intros [q [[<-|[]] [v [Hv ->]]]]. exists v. split; [exact Hv|left; reflexivity].
    - rewrite exts_S. split.
      + intros [v [Hv Ha]]. apply IH in Ha. destruct Ha as [q [Hq R]]. exists q. split; [|exact R]. apply exts_S. exists v. split; assumption.
      + intros [q [Hq R]]. apply exts_S in Hq. destruct Hq as [v [Hv Hq]]. exists v. split; [exact Hv|]. apply IH. exists q. split; assumption.
  Qed.

  Lemma expand_in K x : In x (expand K) <-> exists q, In q K /\ exists v, In v (next q) /\ x = q ++ [v].
  Proof.
    unfold Model.expand. rewrite in_flat_map. split; intros [q [Hq H]]; exists q; (split; [exact Hq|]).
    - apply in_map_iff in H. destruct H as [v [<- Hv]]. exists v. split; [exact Hv|reflexivity].
    - destruct H as [v [Hv ->]]. apply in_map_iff. exists v. split; [reflexivity|exact Hv].
  Qed.

  Variable n : nat.
  (* soundness of the criteria: a partial assignment at least as good on the criteria has, for every valid completion of
     the other, a valid completion at least as good on every objective *)
  Hypothesis crit_sound : forall j k p q, (j + k = n)%nat -> In p (exts j []) -> In q (exts j []) -> vle (crit q) (crit p) = true ->
    forall a, In a (exts k p) -> valid a = true -> exists b, In b (exts k q) /\ valid b = true /\ vle (obj b) (obj a) = true.

  Definition Inv (j k : nat) (K : list (list Z)) : Prop :=
    (forall p, In p K -> In p (exts j [])) /\
    (forall a, In a (exts n []) -> valid a = true -> exists q, In q K /\ exists b, In b (exts k q) /\ valid b = true /\ vle (obj b) (obj a) = true).

  Lemma inv_step j k K : (j + S k = n)%nat -> Inv j (S k) K -> Inv (S j) k (prune (expand K)).
  Proof.
    intros Hn [Hgen Hcov]. split.
    - intros p Hp. apply prune_sub, expand_in in Hp. destruct Hp as [q [Hq [v [Hv ->]]]]. apply exts_snoc. exists q. split; [apply Hgen, Hq|]. exists v. split; [exact Hv|reflexivity].
    - intros a Ha Va. destruct (Hcov a Ha Va) as [q [Hq [b [Hb [Vb Lb]]]]]. apply exts_S in Hb. destruct Hb as [v [Hv Hb]].
      assert (In (q ++ [v]) (expand K)) as He by (apply expand_in; exists q; split; [exact Hq|]; exists v; split; [exact Hv|reflexivity]).
      destruct (prune_cover _ _ He) as [r [Hr Lr]].
      assert (forall x, In x (expand K) -> In x (exts (S j) [])) as Hg'.
      { intros x Hx. apply expand_in in Hx. destruct Hx as [q0 [Hq0 [v0 [Hv0 ->]]]]. apply exts_snoc. exists q0. split; [apply Hgen, Hq0|]. exists v0. split; [exact Hv0|reflexivity]. }
      destruct (crit_sound (S j) k (q ++ [v]) r) with (a := b) as [b' [Hb' [Vb' Lb']]]; try assumption; [lia|apply Hg', He|apply Hg', prune_sub, Hr|].
      exists r. split; [exact Hr|]. exists b'. split; [exact Hb'|]. split; [exact Vb'|]. eapply vle_trans; eassumption.
  Qed.

  Lemma inv_stages k : forall j K, (j + k = n)%nat -> Inv j k K -> Inv n 0 (stages k K).
  Proof.
    induction k as [|k IH]; intros j K Hn HI; cbn [Model.stages].
    - replace n with j by lia. exact HI.
    - apply (IH (S j)); [lia|]. apply inv_step; assumption.
  Qed.

  Lemma inv_init : Inv 0 n [[]].
  Proof.
    split; [intros p [<-|[]]; left; reflexivity|]. intros a Ha Va. exists []. split; [left; reflexivity|]. exists a. split; [exact Ha|]. split; [exact Va|apply vle_refl].
  Qed.

  Theorem pruned_front_exact : forall f, In f (front (pruned_vectors next valid obj crit n)) <-> In f (front (exhaustive_vectors next valid obj n)).
  Proof.
    destruct (inv_stages n 0 [[]] eq_refl inv_init) as [Hgen Hcov]. apply front_of_cover.
    - intros x Hx. unfold pruned_vectors in Hx. apply in_map_iff in Hx. destruct Hx as [a [<- Ha]]. apply filter_In in Ha. destruct Ha as [Ha Va].
      apply in_map, filter_In. split; [apply Hgen, Ha|exact Va].
    - intros x Hx. unfold exhaustive_vectors in Hx. apply in_map_iff in Hx. destruct Hx as [a [<- Ha]]. apply filter_In in Ha. destruct Ha as [Ha Va].
      destruct (Hcov a Ha Va) as [q [Hq [b [Hb [Vb Lb]]]]]. cbn [Model.exts In] in Hb. destruct Hb as [<-|[]].
      exists (obj q). split; [|exact Lb]. apply in_map, filter_In. split; assumption.
  Qed.

End P.

(* the boolean criteria check decides the soundness hypothesis on a concrete space *)
Lemma sound_b_sound next valid obj crit n : sound_b next valid obj crit n = true ->
  forall j k p q, (j + k = n)%nat -> In p (exts next j []) -> In q (exts next j []) -> vle (crit q) (crit p) = true ->
  forall a, In a (exts next k p) -> valid a = true -> exists b, In b (exts next k q) /\ valid b = true /\ vle (obj b) (obj a) = true.
Proof.
  intros H j k p q Hn Hp Hq Hle a Ha Va. unfold sound_b in H. rewrite forallb_forall in H.
  assert (In j (seq 0 (S n))) as Hj by (apply in_seq; lia). specialize (H j Hj). replace (n - j)%nat with k in H by lia.
  unfold sound_at in H. rewrite forallb_forall in H. specialize (H p Hp). rewrite forallb_forall in H. specialize (H q Hq).
  rewrite Hle in H. cbn [negb orb] in H. rewrite forallb_forall in H. specialize (H a Ha). rewrite Va in H. cbn [negb orb] in H.
  apply existsb_exists in H. destruct H as [b [Hb Hv]]. apply andb_true_iff in Hv. exists b. tauto.
Qed.

(* every emitted assignment is one of the exhaustive enumeration (nothing is invented); no hypothesis on the criteria *)
Lemma stages_sub next crit k : forall j K, (forall p, In p K -> In p (exts next j [])) ->
  forall a, In a (stages next crit k K) -> In a (exts next (j + k) []).
Proof.
  induction k as [|k IH]; intros j K HK a Ha; cbn [stages] in Ha.
  - replace (j + 0)%nat with j by lia. apply HK, Ha.
  - replace (j + S k)%nat with (S j + k)%nat by lia. apply (IH (S j) (prune crit (expand next K))); [|exact Ha].
    intros p Hp. apply prune_sub, expand_in in Hp. destruct Hp as [q [Hq [v [Hv ->]]]]. apply (proj2 (exts_snoc next (fun _ => true) crit crit j [] (q ++ [v]))). exists q. split; [apply HK, Hq|]. exists v. split; [exact Hv|reflexivity].
Qed.

(* ---- where sound criteria come from: the objectives (and validity) depend on the chosen prefix only through terms in which they are
   monotone, and two prefixes of equal length allow the same suffixes *)
Lemma exts_length next k : forall p a, In a (exts next k p) -> length a = (length p + k)%nat.
Proof.
  induction k as [|k IH]; intros p a H; cbn [exts] in H.
  - destruct H as [<-|[]]. lia.
  - apply in_flat_map in H. destruct H as [v [_ H]]. apply IH in H. rewrite app_length in H. cbn in H. lia.
Qed.

Lemma monotone_terms_sound next valid obj crit n :
  (forall j k p q a, (j + k = n)%nat -> In p (exts next j []) -> In q (exts next j []) -> In a (exts next k p) ->
     exists c, a = p ++ c /\ In (q ++ c) (exts next k q)) ->
  (forall p q c, length p = length q -> vle (crit q) (crit p) = true ->
     vle (obj (q ++ c)) (obj (p ++ c)) = true /\ (valid (p ++ c) = true -> valid (q ++ c) = true)) ->
  forall j k p q, (j + k = n)%nat -> In p (exts next j []) -> In q (exts next j []) -> vle (crit q) (crit p) = true ->
  forall a, In a (exts next k p) -> valid a = true -> exists b, In b (exts next k q) /\ valid b = true /\ vle (obj b) (obj a) = true.
Proof.
  intros Hsuf Hmon j k p q Hn Hp Hq Hle a Ha Va. destruct (Hsuf j k p q a Hn Hp Hq Ha) as [c [-> Hc]].
  assert (length p = length q) as Hl by (apply exts_length in Hp, Hq; cbn in Hp, Hq; lia).
  destruct (Hmon p q c Hl Hle) as [Ho Hv]. exists (q ++ c). split; [exact Hc|]. split; [apply Hv, Va|exact Ho].
Qed.

(* candidate sets that depend on the position only (not on the values chosen) give every prefix of one length the same suffixes *)
Lemma exts_suffix next : (forall p q, length p = length q -> next p = next q) ->
  forall k p q, length p = length q -> forall a, In a (exts next k p) -> exists c, a = p ++ c /\ In (q ++ c) (exts next k q).
Proof.
  intro Hn. induction k as [|k IH]; intros p q Hl a Ha; cbn [exts] in *.
  - destruct Ha as [<-|[]]. exists []. rewrite !app_nil_r. split; [reflexivity|left; reflexivity].
  - apply in_flat_map in Ha. destruct Ha as [v [Hv Ha]].
    destruct (IH (p ++ [v]) (q ++ [v])) with (a := a) as [c [-> Hc]]; [rewrite !app_length; cbn; lia|exact Ha|].
    exists (v :: c). split; [rewrite <- app_assoc; reflexivity|]. apply in_flat_map. exists v. split; [rewrite <- (Hn p q Hl); exact Hv|].
    rewrite <- app_assoc in Hc. cbn [app] in Hc. replace ((q ++ [v]) ++ c) with (q ++ v :: c) by (rewrite <- app_assoc; reflexivity). exact Hc.
Qed.

Lemma vle_app_same c : forall q p, vle q p = true -> vle (q ++ c) (p ++ c) = true.
Proof. induction q as [|x q IH]; intros [|y p] H; cbn in *; try discriminate; [apply vle_refl|]. apply andb_true_iff in H. destruct H as [H1 H2]. rewrite H1, (IH p H2). reflexivity. Qed.
