From Coq Require Import List Arith Lia.
Import ListNotations.

Lemma NoDup_app_intro {A} (l1 l2 : list A) :
  NoDup l1 -> NoDup l2 -> (forall x, In x l1 -> In x l2 -> False) -> NoDup (l1 ++ l2).
Proof.
  induction l1 as [|a l1 IH]; intros H1 H2 Hd; simpl; [assumption|].
  inversion H1; subst. constructor.
  - rewrite in_app_iff. intros [H|H]; [contradiction|]. apply (Hd a); [left; reflexivity|assumption].
  - apply IH; try assumption. intros x Hx Hx2. apply (Hd x); [right; assumption|assumption].
Qed.

Lemma NoDup_app_inv {A} (l1 l2 : list A) :
  NoDup (l1 ++ l2) -> NoDup l1 /\ NoDup l2 /\ (forall x, In x l1 -> In x l2 -> False).
Proof.
  induction l1 as [|a l1 IH]; simpl; intros H.
  - repeat split; [constructor|assumption|intros x []].
  - inversion H; subst. destruct (IH H3) as [N1 [N2 D]].
    repeat split; [constructor; [rewrite in_app_iff in H2; tauto|assumption]|assumption|].
    intros x [->|Hx] Hx2; [apply H2; rewrite in_app_iff; tauto|apply (D x); assumption].
Qed.
