"""C22 — set expressions follow set algebra over each Einsum's tensors."""
import json

import common
import gen_arch
import gen_workload
from gen_workload import tname

TRUSTED = [
    "modelled: InvertibleSet.__invert__/__and__/__or__/__sub__/__xor__ (to_my_space of the left operand), eval_set_expression_dict (Other key, disjointness), "
    "the named sets built by Einsum._eval_expressions (All, Inputs, Outputs, Intermediates, Shared, Persistent, Nothing, tensor names)",
    "Python's eval (operator precedence ~ > - > & > ^ > |) is trusted; the harness renders every tree both fully parenthesised and with minimal parentheses",
    "rank-variable sets and the .rank_variables/.tensors accessors are outside the model",
]
ATOMS = ["NAll", "NInputs", "NOutputs", "NIntermediates", "NShared", "NPersistent", "NNothing"]
PYNAME = {"NAll": "All", "NInputs": "Inputs", "NOutputs": "Outputs", "NIntermediates": "Intermediates", "NShared": "Shared",
          "NPersistent": "Persistent", "NNothing": "Nothing", "NOther": "Other"}
PREC = {"SOr": 1, "SXor": 2, "SAnd": 3, "SSub": 4, "SInv": 5}
SYM = {"SOr": "|", "SXor": "^", "SAnd": "&", "SSub": "-"}


def gen_tree(rng, tensors, depth=0, allow_other=False):
    if depth >= 4 or rng.random() < 0.3:
        r = rng.random()
        if allow_other and r < 0.15:
            return ("name", "NOther")
        if r < 0.6 or not tensors:
            return ("name", rng.choice(ATOMS))
        return ("name", ("T", rng.choice(tensors)))
    op = rng.choice(["SInv", "SAnd", "SOr", "SSub", "SXor"])
    if op == "SInv":
        return (op, gen_tree(rng, tensors, depth + 1, allow_other))
    return (op, gen_tree(rng, tensors, depth + 1, allow_other), gen_tree(rng, tensors, depth + 1, allow_other))


def atom_str(a):
    return PYNAME[a] if isinstance(a, str) else tname(a[1])


def render_full(t):
    if t[0] == "name":
        return atom_str(t[1])
    if t[0] == "SInv":
        return f"(~{render_full(t[1])})"
    return f"({render_full(t[1])} {SYM[t[0]]} {render_full(t[2])})"


def render_min(t, parent=0, right=False):
    if t[0] == "name":
        return atom_str(t[1])
    p = PREC[t[0]]
    if t[0] == "SInv":
        s = "~" + render_min(t[1], p)
    else:
        s = f"{render_min(t[1], p)} {SYM[t[0]]} {render_min(t[2], p, True)}"
    # all binary operators are left associative: the right child needs parentheses at equal precedence
    need = p < parent or (p == parent and right)
    return f"({s})" if need else s


def coq_tree(t):
    if t[0] == "name":
        a = t[1]
        return f"(SName {a})" if isinstance(a, str) else f"(SName (NTensor {a[1]}%nat))"
    if t[0] == "SInv":
        return f"(SInv {coq_tree(t[1])})"
    return f"({t[0]} {coq_tree(t[1])} {coq_tree(t[2])})"


# ------------------------------------------------------------------ oracle
def named_sets(w, i):
    e = w[i]
    ins = {t for t, o, p in e if not o}
    outs = {t for t, o, p in e if o}
    al = ins | outs
    def readers(t):
        return {j for j, f in enumerate(w) if any(tt == t and not o for tt, o, _ in f)}
    def writers(t):
        return {j for j, f in enumerate(w) if any(tt == t and o for tt, o, _ in f)}
    return {"NAll": al, "NInputs": ins, "NOutputs": outs, "NNothing": set(),
            "NIntermediates": {t for t in al if readers(t) and writers(t)},
            "NShared": {t for t in al if len(readers(t) | writers(t)) > 1},
            "NPersistent": {t for t, o, p in e if p}}, al


def oracle_eval(t, ns, al, other=None):
    if t[0] == "name":
        a = t[1]
        if a == "NOther":
            return set(other)
        return set(ns[a]) if isinstance(a, str) else ({a[1]} & al)
    if t[0] == "SInv":
        return al - oracle_eval(t[1], ns, al, other)
    x, y = oracle_eval(t[1], ns, al, other), oracle_eval(t[2], ns, al, other)
    return {"SAnd": x & y, "SOr": x | y, "SSub": x - y, "SXor": x ^ y}[t[0]]


def mentions_other(t):
    return (t[0] == "name" and t[1] == "NOther") or any(mentions_other(c) for c in t[1:] if isinstance(c, tuple) and c and c[0] in ("name", "SInv", "SAnd", "SOr", "SSub", "SXor"))


def oracle_dict(keys, ns, al):
    """returns list of parts in evaluation order, or None if the dictionary must be rejected"""
    others = [k for k in keys if mentions_other(k)]
    if len(others) > 1:
        return None
    order = [k for k in keys if not mentions_other(k)] + others
    other = set(al)
    parts = []
    for k in order:
        s = oracle_eval(k, ns, al, other)
        parts.append(s)
        other -= s
    for a in range(len(parts)):
        for b in range(a + 1, len(parts)):
            if parts[a] & parts[b]:
                return None
    return parts


def run(ck):
    af = gen_arch.load()
    import accelforge.frontend.arch as A
    from accelforge.frontend.renames import TensorName
    from accelforge.util._setexpressions import eval_set_expression, eval_set_expression_dict
    from accelforge.util._eval_expressions import EvaluationError
    ck.prove()
    rng = ck.rng("exprs")
    exprs, keys = [], []
    dexprs, dkeys = [], []
    for _ in range(ck.n(40, 800)):
        w = gen_workload.random_workload(rng)
        tensors = sorted({t for e in w for t, _, _ in e})
        wl = gen_workload.to_workload(w, af)
        trees_keep = [gen_tree(rng, tensors) for _ in range(len(w))]
        for i in range(len(w)):
            arch = A.Arch(nodes=[A.Memory(name="Mem", size=1000, actions=[{"name": "read", "energy": 1, "throughput": 1}, {"name": "write", "energy": 1, "throughput": 1}],
                                          area=1, leak_power=0, tensors={"keep": render_min(trees_keep[i])}),
                                 A.Compute(name="MAC", actions=[{"name": "compute", "energy": 1, "throughput": 1}], area=1, leak_power=0)])
            ev = af["Spec"](arch=arch, workload=wl)._spec_eval_expressions(einsum_name=f"E{i}")
            st = {r.name: r.source for r in ev.workload.einsums[f"E{i}"].renames}
            ns, al = named_sets(w, i)
            trees = [gen_tree(rng, tensors) for _ in range(ck.n(8, 12))] + [("name", a) for a in ATOMS]
            for t in trees + [trees_keep[i]]:
                exp = oracle_eval(t, ns, al)
                res = {}
                for how, s in (("full", render_full(t)), ("min", render_min(t))):
                    try:
                        res[how] = {int(x[1:]) for x in eval_set_expression(s, st, TensorName, "verif").instance}
                    except Exception as ex:  # noqa
                        res[how] = f"EXC {type(ex).__name__}: {str(ex)[:80]}"
                if t is trees_keep[i]:
                    res["keep"] = {int(x[1:]) for x in ev.arch.find("Mem").tensors.keep.instance}
                ck.case((json.dumps(w), i, render_full(t)), nontrivial=t[0] != "name",
                        sample={"workload": w, "einsum": i, "expression": render_min(t), "value": sorted(tname(x) for x in exp)})
                for how, g in res.items():
                    if g != exp:
                        ck.failing_input({"workload": w, "einsum": i, "expression": render_full(t), "rendered": render_min(t), "route": how,
                                          "impl": sorted(g) if isinstance(g, set) else g, "expected": sorted(exp)},
                                         what="set expression does not evaluate to its set-algebra value")
                exprs.append(f"inst (impl_eval (env_of {gen_workload.to_coq(w)} (nth {i} {gen_workload.to_coq(w)} []) []) {coq_tree(t)})")
                keys.append((w, i, t, res["full"]))
            # dictionaries with an Other key
            for _d in range(ck.n(4, 6)):
                ks = [gen_tree(rng, tensors, depth=2, allow_other=rng.random() < 0.15) for _ in range(rng.randint(1, 3))]
                if rng.random() < 0.7:
                    ks.insert(rng.randrange(len(ks) + 1), ("name", "NOther"))
                strs = [render_min(k) for k in ks]
                if len(set(strs)) < len(strs):
                    continue
                exp = oracle_dict(ks, ns, al)
                try:
                    got = eval_set_expression_dict({s: j for j, s in enumerate(strs)}, st, TensorName, "verif")
                    got = [{int(x[1:]) for x in ins} for _, ins, _ in got]
                except EvaluationError:
                    got = None
                except Exception as ex:  # noqa
                    got = f"EXC {type(ex).__name__}"
                ck.case((json.dumps(w), i, tuple(strs)), nontrivial=len(ks) >= 2)
                ck.count("dict_cases")
                ck.count("dict_rejected" if exp is None else "dict_accepted")
                ok = got == exp
                if ok and exp is not None and ("name", "NOther") in ks:
                    ok = set().union(*exp) == al and sum(len(p) for p in exp) == len(al)
                if not ok:
                    ck.failing_input({"workload": w, "einsum": i, "keys": strs, "impl": [sorted(p) for p in got] if isinstance(got, list) else got,
                                      "expected": [sorted(p) for p in exp] if exp is not None else "rejected"},
                                     what="Other-key dictionary: parts differ / overlap not rejected / tensor not assigned exactly once")
                wl_c = gen_workload.to_coq(w)
                dexprs.append(f"(match dict_eval {wl_c} (nth {i} {wl_c} []) [{'; '.join(coq_tree(k) for k in ks)}] with Some r => (true, map snd r) | None => (false, []) end)")
                dkeys.append((w, i, strs, got))
    B = 20
    vals = [v for b in common.run_coq_eval("C22", ["AF.C22.Model"], ["[" + "; ".join(exprs[k:k + B]) + "]" for k in range(0, len(exprs), B)], chunk=10) for v in b]
    mism = []
    for (w, i, t, got), m in zip(keys, vals):
        if not isinstance(got, set) or set(m) != got:
            mism.append({"workload": w, "einsum": i, "expression": render_full(t), "impl": sorted(got) if isinstance(got, set) else got, "model": sorted(m)})
    dvals = [v for b in common.run_coq_eval("C22", ["AF.C22.Model"], ["[" + "; ".join(dexprs[k:k + B]) + "]" for k in range(0, len(dexprs), B)], chunk=10, tag="dict") for v in b]
    for (w, i, strs, got), m in zip(dkeys, dvals):
        ok_m, parts = m
        mg = [set(p) for p in parts] if ok_m else None
        if mg != got:
            mism.append({"workload": w, "einsum": i, "dict_keys": strs, "impl": str(got), "model": str(mg)})
    ck.count("model_vs_impl_compared", len(keys) + len(dkeys))
    ck.count("model_vs_impl_mismatches", len(mism))
    if mism and not ck.violations:
        ck.unexplained("broken-correspondence", {"mismatches": mism[:3]}, what="model set-expression value != implementation")
    return ck.finish(
        rule="random workloads of 1-4 Einsums (random input/output/persistent structure, shared tensors), random expression trees of depth <= 4 over the named sets and tensor names, "
             "rendered fully parenthesised and with minimal parentheses, evaluated by eval_set_expression and (one per Einsum) through a memory's tensors.keep; "
             "Other-key dictionaries through eval_set_expression_dict; non-trivial = the expression has an operator / the dictionary has >= 2 keys",
        trusted=TRUSTED,
        extra={"source_fingerprint": [common.fingerprint("accelforge/util/_setexpressions.py", ["InvertibleSet", "eval_set_expression", "eval_set_expression_dict"]),
                                      common.fingerprint("accelforge/frontend/workload.py", ["Einsum"])]})


def replay(ck, data):
    print("replay: re-run ./check C22 with the recorded seed")
    return 0
