(* Pareto fronts of finite sets of integer objective vectors (all objectives minimised). *)
From AF Require Import Base.Tactics Lib.Pareto.
Open Scope Z_scope.

Fixpoint dedup (G : list (list Z)) : list (list Z) :=
  match G with
  | [] => []
  | g :: r => if existsb (veq g) r then dedup r else g :: dedup r
  end.

Definition front (G : list (list Z)) : list (list Z) :=
  filter (fun g => negb (existsb (fun x => dom x g) G)) (dedup G).

Lemma dedup_in G g : In g (dedup G) <-> In g G.
Proof.
  induction G as [|a r IH]; [tauto|]. cbn [dedup]. destruct (existsb (veq a) r) eqn:E.
  - rewrite IH. split; [right; assumption|]. intros [<-|H]; [|exact H].
    apply existsb_exists in E. destruct E as [x [Hx Ex]]. apply veq_eq in Ex. subst. exact Hx.
  - cbn [In]. rewrite IH. tauto.
Qed.

Lemma dedup_nodup G : NoDup (dedup G).
Proof.
  induction G as [|a r IH]; [constructor|]. cbn [dedup]. destruct (existsb (veq a) r) eqn:E; [exact IH|].
  constructor; [|exact IH]. rewrite dedup_in. intro H.
  assert (existsb (veq a) r = true) by (apply existsb_exists; exists a; split; [exact H|apply veq_refl]). congruence.
Qed.

Lemma front_in G f : In f (front G) <-> In f G /\ forall x, In x G -> dom x f = false.
Proof.
  unfold front. rewrite filter_In, dedup_in, negb_true_iff. split; intros [H1 H2]; (split; [exact H1|]).
  - intros x Hx. destruct (dom x f) eqn:E; [|reflexivity].
    assert (existsb (fun x => dom x f) G = true) by (apply existsb_exists; exists x; tauto). congruence.
  - destruct (existsb (fun x => dom x f) G) eqn:E; [|reflexivity]. apply existsb_exists in E. destruct E as [x [Hx Ex]].
    rewrite (H2 x Hx) in Ex. discriminate.
Qed.

(* completeness: every vector of the set is weakly dominated by a front vector *)
Theorem front_complete G g : In g G -> exists f, In f (front G) /\ vle f g = true.
Proof.
  intro Hg. destruct (existsb (fun x => dom x g) G) eqn:E.
  - apply existsb_exists in E. destruct E as [x [Hx Ex]].
    destruct (exists_nondominated_dominator G g x Hx Ex) as [f [Hf [Df Nf]]].
    exists f. split; [apply front_in; split; assumption|]. apply dom_iff in Df. apply Df.
  - exists g. split; [|apply vle_refl]. apply front_in. split; [exact Hg|]. intros x Hx.
    destruct (dom x g) eqn:F; [|reflexivity].
    assert (existsb (fun x => dom x g) G = true) by (apply existsb_exists; exists x; tauto). congruence.
Qed.

(* minimality and distinctness *)
Theorem front_minimal G f1 f2 : In f1 (front G) -> In f2 (front G) -> dom f1 f2 = false.
Proof. intros H1 H2. apply front_in in H1, H2. apply H2, H1. Qed.

Theorem front_nodup G : NoDup (front G).
Proof. unfold front. apply NoDup_filter, dedup_nodup. Qed.

Theorem front_subset G f : In f (front G) -> In f G.
Proof. intro H. apply front_in in H. apply H. Qed.

(* coordinate optima survive on the front; so does the optimum of the product of two non-negative coordinates *)
Definition c0 (v : list Z) := nth 0 v 0.
Definition c1 (v : list Z) := nth 1 v 0.

Lemma vle_coords a b : vle a b = true -> c0 a <= c0 b /\ c1 a <= c1 b.
Proof.
  unfold c0, c1. destruct a as [|x [|x' a]], b as [|y [|y' b]]; cbn; try discriminate; try lia.
Qed.

Theorem front_keeps_coordinate_optima G g : In g G ->
  (exists f, In f (front G) /\ c0 f <= c0 g) /\ (exists f, In f (front G) /\ c1 f <= c1 g).
Proof.
  intro H. destruct (front_complete G g H) as [f [Hf L]]. apply vle_coords in L. split; exists f; (split; [exact Hf|lia]).
Qed.

Theorem front_keeps_product_optimum G g : (forall x, In x G -> 0 <= c0 x /\ 0 <= c1 x) -> In g G ->
  exists f, In f (front G) /\ c0 f * c1 f <= c0 g * c1 g.
Proof.
  intros Hpos H. destruct (front_complete G g H) as [f [Hf L]]. apply vle_coords in L. exists f. split; [exact Hf|].
  destruct (Hpos f (front_subset G f Hf)). destruct (Hpos g H). nia.
Qed.
