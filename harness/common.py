"""Shared machinery for every ./check Cxx run.

Run protocol (DESIGN.md section 2.3):
  0 hygiene gate over the Coq sources
  1 build the Coq development (full .vo build) and re-check the property's Props.v,
    parsing the Print Assumptions blocks -> obligations / discharged
  2 corpus replay, 3 correspondence (model vs implementation), 4 oracle
  5 decision: VIOLATION / KNOWN-FINDING lines, exit status
  6 evidence file (schema-validated)
"""
from __future__ import annotations

import fcntl
import hashlib
import json
import os
import random
import re
import shutil
import subprocess
import sys
import time
from pathlib import Path

ROOT = Path(__file__).resolve().parent.parent
COQ = ROOT / "coq"
BUILD = ROOT / "build"
REPLAYS = Path(os.environ.get("VERIF_REPLAY_DIR", ROOT / "replays"))
EVIDENCE = Path(os.environ.get("VERIF_EVIDENCE_DIR", ROOT / "evidence"))
REPO = Path(os.environ.get("VERIF_REPO", "/repo"))
PY = "/venv/bin/python"
GUARD = "ACCELFORGE_VERIF"

ALLOWED_AXIOMS = {
    # standard-library axioms that may appear; each must be named in the trusted base
    "functional_extensionality_dep",
}

FORBIDDEN = re.compile(
    r"\b(Admitted|admit|Axiom|Axioms|Parameter|Parameters|Conjecture|Conjectures|"
    r"Admit\s+Obligations|bypass_check)\b|Unset\s+Guard|Unset\s+Positivity|"
    r"Unset\s+Universe|type-in-type|impredicative-set|native_compute"
)


def strip_coq_comments(text: str) -> str:
    out, depth, i = [], 0, 0
    while i < len(text):
        if text.startswith("(*", i):
            depth += 1
            i += 2
        elif text.startswith("*)", i) and depth:
            depth -= 1
            i += 2
        else:
            if not depth:
                out.append(text[i])
            elif text[i] == "\n":
                out.append("\n")
            i += 1
    return "".join(out)


def hygiene() -> list[str]:
    """Any forbidden vernacular outside comments, or a top-level Variable/Hypothesis,
    is a hard failure."""
    bad = []
    for f in sorted(COQ.rglob("*.v")):
        if "build" in f.parts:
            continue
        txt = strip_coq_comments(f.read_text())
        depth = 0
        for n, line in enumerate(txt.splitlines(), 1):
            if FORBIDDEN.search(line):
                bad.append(f"{f.relative_to(ROOT)}:{n}: {line.strip()}")
            s = line.strip()
            if re.match(r"(Section|Module)\s", s):
                depth += 1
            elif re.match(r"End\s", s):
                depth -= 1
            if depth <= 0 and re.match(r"(Variable|Variables|Hypothesis|Hypotheses|Context)\b", s):
                bad.append(f"{f.relative_to(ROOT)}:{n}: top-level {s}")
    for f in [COQ / "_CoqProject"]:
        if f.exists() and re.search(r"type-in-type|impredicative-set|-vos|-vok|noinit", f.read_text()):
            bad.append(f"{f}: forbidden flag")
    return bad


class Lock:
    def __init__(self, name="coq"):
        BUILD.mkdir(exist_ok=True)
        self.f = open(BUILD / f".{name}.lock", "w")

    def __enter__(self):
        fcntl.flock(self.f, fcntl.LOCK_EX)

    def __exit__(self, *a):
        fcntl.flock(self.f, fcntl.LOCK_UN)


def sh(cmd, timeout=1200, cwd=None, env=None, inp=None):
    e = dict(os.environ)
    if env:
        e.update(env)
    p = subprocess.run(
        cmd, shell=isinstance(cmd, str), cwd=cwd, env=e, input=inp,
        stdout=subprocess.PIPE, stderr=subprocess.STDOUT, text=True, timeout=timeout,
    )
    return p.returncode, p.stdout


def coq_build(timeout=3000) -> tuple[bool, str]:
    """Full .vo build of the development (incremental: make only rebuilds what changed)."""
    with Lock():
        rc, out = sh(["bash", str(ROOT / "setup.sh")], env={"VERIF_COQ_TIMEOUT": str(timeout)}, timeout=timeout + 60)
        return rc == 0, out


def check_props(pid: str, extra_files=()) -> dict:
    """Re-compile Cxx/Props.v (always, so Print Assumptions output is captured this run)."""
    res = {"theorems": [], "closed": [], "axioms": {}, "error": None, "files": []}
    files = [COQ / "theories" / pid / "Props.v"] + [COQ / f for f in extra_files]
    for f in files:
        if not f.exists():
            res["error"] = f"missing {f}"
            return res
        txt = strip_coq_comments(f.read_text())
        thms = re.findall(r"^\s*(?:Theorem|Corollary)\s+(\w+)", txt, re.M)
        prints = re.findall(r"Print\s+Assumptions\s+(\w+)", txt)
        res["files"].append(str(f.relative_to(ROOT)))
        if sorted(thms) != sorted(prints):
            res["error"] = f"{f.name}: every Theorem needs a Print Assumptions ({thms} vs {prints})"
            return res
        res["theorems"] += thms
        with Lock():
            rc, out = sh(["timeout", "600", "coqc", "-Q", "theories", "AF", str(f.relative_to(COQ))], cwd=COQ, timeout=700)
        if rc:
            res["error"] = out[-3000:]
            return res
        # parse blocks: sequence of "Closed under the global context" or "Axioms:" + lines
        blocks = re.split(r"(?=Closed under the global context|Axioms:)", out)
        blocks = [b for b in blocks if b.startswith("Closed under") or b.startswith("Axioms:")]
        if len(blocks) != len(prints):
            res["error"] = f"{f.name}: {len(blocks)} assumption blocks for {len(prints)} theorems\n{out[-2000:]}"
            return res
        for name, b in zip(prints, blocks):
            if b.startswith("Closed under"):
                res["closed"].append(name)
            else:
                ax = re.findall(r"^(\w[\w.']*)\s*:", b, re.M)
                res["axioms"][name] = ax
    return res


# ----------------------------------------------------------------- Coq term printing / parsing

def coq_Z(n: int) -> str:
    return f"({n})%Z" if n < 0 else f"{n}%Z"


def coq_N(n: int) -> str:
    assert n >= 0
    return f"{n}%N"


def coq_nat(n: int) -> str:
    assert 0 <= n < 5000
    return f"{n}%nat"


def coq_bool(b) -> str:
    return "true" if b else "false"


def coq_list(xs, f=str) -> str:
    return "[" + "; ".join(f(x) for x in xs) + "]"


def coq_opt(x, f=str) -> str:
    return "None" if x is None else f"(Some {f(x)})"


def coq_string(s: str) -> str:
    assert all(32 <= ord(c) < 127 for c in s), s
    return '"' + s.replace('"', '""') + '"%string'


_TOK = re.compile(r'\s*(?:("(?:[^"]|"")*")|(-?\d+)|([A-Za-z_][\w.\']*)|(%[A-Za-z_]+)|([\[\];(),]))')


def parse_coq_term(s: str):
    toks = []
    pos = 0
    s = s.strip()
    while pos < len(s):
        m = _TOK.match(s, pos)
        if not m:
            if s[pos:].strip() == "":
                break
            raise ValueError(f"cannot tokenise at {s[pos:pos+40]!r}")
        pos = m.end()
        if m.group(4):
            continue  # scope annotations are dropped
        toks.append(m.group(1) or m.group(2) or m.group(3) or m.group(5))
    i = 0

    def atom():
        nonlocal i
        t = toks[i]
        if t == "[":
            i += 1
            xs = []
            if toks[i] == "]":
                i += 1
                return xs
            while True:
                xs.append(app())
                if toks[i] == ";":
                    i += 1
                    continue
                assert toks[i] == "]", toks[i]
                i += 1
                return xs
        if t == "(":
            i += 1
            xs = [app()]
            while toks[i] == ",":
                i += 1
                xs.append(app())
            assert toks[i] == ")", toks[i : i + 5]
            i += 1
            return xs[0] if len(xs) == 1 else tuple(xs)
        i += 1
        if t[0] == '"':
            return t[1:-1].replace('""', '"')
        if re.fullmatch(r"-?\d+", t):
            return int(t)
        if t == "true":
            return True
        if t == "false":
            return False
        if t == "None":
            return None
        return ("@", t)

    def app():
        nonlocal i
        if toks[i] == "-":
            i += 1
            return -atom()
        h = atom()
        if isinstance(h, tuple) and len(h) == 2 and h[0] == "@":
            args = []
            while i < len(toks) and toks[i] not in ("]", ")", ";", ","):
                args.append(atom())
            name = h[1]
            if name == "Some":
                return ("Some", args[0])
            if not args:
                return name
            return (name, *args)
        return h

    # allow leading '-' tokens: tokenizer makes "-3" one token only when adjacent
    r = app()
    assert i == len(toks), (toks[i:], s[:200])
    return r


def run_coq_eval(pid: str, imports: list[str], exprs: list[str], tag="cases", chunk=400, timeout=900, preamble="") -> list:
    """Evaluate each expression with vm_compute inside Coq; returns parsed values, in order."""
    d = BUILD / "run" / f"{pid}-{os.getpid()}"
    d.mkdir(parents=True, exist_ok=True)
    files = []
    for k in range(0, len(exprs), chunk):
        name = f"{tag}_{k // chunk}"
        body = ["From Coq Require Import ZArith NArith List String Bool.", "Import ListNotations.", "Open Scope string_scope."]
        body += [f"Require Import {m}." for m in imports]
        body += ["Set Printing Width 100000000.", "Set Printing Depth 100000000.", preamble]
        for j, e in enumerate(exprs[k : k + chunk]):
            body.append(f'Eval vm_compute in ({e}).')
        (d / f"{name}.v").write_text("\n".join(body) + "\n")
        files.append(name)
    procs = []
    results = {}
    maxp = 12
    pending = list(files)
    running = []
    errors = []
    while pending or running:
        while pending and len(running) < maxp:
            n = pending.pop(0)
            p = subprocess.Popen(
                ["timeout", str(timeout), "coqc", "-Q", str(COQ / "theories"), "AF", "-Q", str(d), "Cases", f"{n}.v"],
                cwd=d, stdout=subprocess.PIPE, stderr=subprocess.STDOUT, text=True,
            )
            running.append((n, p))
        n, p = running.pop(0)
        out, _ = p.communicate()
        if p.returncode:
            errors.append((n, out[-2000:]))
        results[n] = out
    if errors:
        raise RuntimeError(f"coqc failed on generated cases: {errors[0]}")
    vals = []
    for n in files:
        out = results[n]
        parts = re.findall(r"^\s*= (.*?)\n\s*: ", out, re.M | re.S)
        vals += [parse_coq_term(" ".join(p.split())) for p in parts]
    if len(vals) != len(exprs):
        raise RuntimeError(f"expected {len(exprs)} results from Coq, got {len(vals)}")
    shutil.rmtree(d, ignore_errors=True)
    return vals


# ----------------------------------------------------------------- source fingerprints

def fingerprint(relpath: str, names: list[str] | None = None) -> dict:
    import ast

    p = REPO / relpath
    try:
        src = p.read_text()
        tree = ast.parse(src)
    except Exception as e:  # noqa
        return {"file": relpath, "error": str(e)}
    out = {"file": relpath, "sha": hashlib.sha256(src.encode()).hexdigest()[:16]}
    if names:
        fs = {}
        for node in ast.walk(tree):
            if isinstance(node, (ast.FunctionDef, ast.ClassDef)) and node.name in names:
                fs[node.name] = hashlib.sha256(ast.dump(node).encode()).hexdigest()[:16]
        out["functions"] = fs
    return out


# ----------------------------------------------------------------- the Check object

class Check:
    def __init__(self, pid: str, tier: str, seed: int):
        self.pid, self.tier, self.seed = pid, tier, seed
        self.t0 = time.time()
        self.violations: list[dict] = []
        self.known_hits: dict[str, str] = {}
        self.coverage: dict = {}
        self.assumptions: list[str] = []
        self.notes: list[str] = []
        self.proof: dict = {}
        self.counters: dict = {}
        self.samples: list = []
        self.distinct: set = set()
        self.evaluations = 0
        kf = json.loads((ROOT / "known_findings.json").read_text())
        self.known = {e["id"]: e for e in kf["findings"] if e["property"] == pid and e["status"] == "open"}

    # -- randomness: one PRNG state per named stream, all derived from the seed
    def rng(self, stream: str) -> random.Random:
        h = hashlib.sha256(f"{self.seed}/{self.pid}/{stream}".encode()).digest()
        return random.Random(int.from_bytes(h[:8], "big"))

    def quick(self) -> bool:
        return self.tier == "quick"

    def n(self, quick: int, thorough: int) -> int:
        return quick if self.quick() else thorough

    def count(self, key: str, k: int = 1):
        self.counters[key] = self.counters.get(key, 0) + k

    def case(self, key, nontrivial: bool = True, sample=None):
        """Record one explored case; key must identify the case (for distinct counting)."""
        self.evaluations += 1
        if nontrivial:
            self.distinct.add(hashlib.sha1(repr(key).encode()).hexdigest())
        if sample is not None and len(self.samples) < 4:
            self.samples.append(sample)

    # -- proofs
    def prove(self, extra_files=()):
        bad = hygiene()
        ok, log = coq_build()
        res = check_props(self.pid, extra_files) if ok and not bad else {"theorems": [], "closed": [], "axioms": {}, "files": [],
                                                                         "error": (log or "coq build failed (no output)") if not bad else None}
        self.proof = res
        broken = []
        if bad:
            broken.append({"what": "hygiene gate", "detail": bad[:10]})
        if res.get("error"):
            broken.append({"what": "coq build / Props.v does not check", "detail": res["error"][-1500:]})
        for thm, ax in res["axioms"].items():
            extra = [a for a in ax if a.split(".")[-1] not in ALLOWED_AXIOMS]
            if extra:
                broken.append({"what": f"theorem {thm} depends on axioms", "detail": extra})
        if not broken and not res.get("theorems"):
            broken.append({"what": "no property theorem was checked", "detail": str(res)[:500]})
        self.proof_broken = broken
        return broken

    # -- reporting
    def write_replay(self, kind: str, payload: dict) -> Path:
        REPLAYS.mkdir(exist_ok=True)
        body = {"property": self.pid, "kind": kind, "seed": self.seed, "tier": self.tier, **payload,
                "how_to_replay": f"./check {self.pid} --replay <this file>"}
        txt = json.dumps(body, indent=1, sort_keys=True, default=str)
        h = hashlib.sha1(txt.encode()).hexdigest()[:10]
        p = REPLAYS / f"{self.pid}-{kind}-{h}.json"
        p.write_text(txt)
        return p

    def failing_input(self, payload: dict, finding_id: str | None = None, what: str = ""):
        """A concrete input on which the property fails against the real code."""
        if finding_id and finding_id in self.known:
            if finding_id not in self.known_hits:
                self.known_hits[finding_id] = what or self.known[finding_id]["what"]
            self.count(f"known_finding:{finding_id}")
            return
        if len(self.violations) >= 5:
            self.count("further_violations_suppressed")
            return
        p = self.write_replay("failing-input", {"what": what, **payload})
        self.violations.append({"replay": str(p), "suffix": "", "what": what})

    def unexplained(self, kind: str, payload: dict, what: str = ""):
        """Broken theorem or correspondence with no failing input found."""
        if any(v["suffix"] for v in self.violations) and len(self.violations) >= 3:
            return
        p = self.write_replay(kind, {"what": what, **payload})
        self.violations.append({"replay": str(p), "suffix": " no-failing-input-found", "what": what})

    def finish(self, rule: str, trusted: list[str], exhaustive: bool = False, extra: dict | None = None) -> int:
        # broken proofs with no failing input found so far
        if getattr(self, "proof_broken", None) and not any(not v["suffix"] for v in self.violations):
            for b in self.proof_broken[:2]:
                self.unexplained("broken-theorem", {"theorem_or_gate": b["what"], "detail": b["detail"],
                                                    "props_files": self.proof.get("files")}, b["what"])
        thms = self.proof.get("theorems", [])
        closed = [t for t in thms if t in self.proof.get("closed", [])] + [
            t for t, ax in self.proof.get("axioms", {}).items()
            if all(a.split(".")[-1] in ALLOWED_AXIOMS for a in ax)]
        named_axioms = sorted({a for ax in self.proof.get("axioms", {}).values() for a in ax})
        cov = {
            "obligations": max(1, len(thms)),
            "discharged": len(closed),
            "checker_cmd": f"cd /verif/coq && make -j16 && coqc -Q theories AF theories/{self.pid}/Props.v  (Print Assumptions under every theorem)",
            "trusted_base": [
                "Coq 8.16.1 kernel + coqc (Debian package); vm_compute used for correspondence evaluation and concrete Examples; no native_compute",
                f"axioms reported by Print Assumptions for this property's theorems: {named_axioms or 'none (Closed under the global context)'}",
                "hand-written Gallina model tied to /repo by the correspondence run of this check (harness/*.py: generators, printers, differ, oracle)",
            ] + trusted,
            "theorems": thms,
            "evaluations": max(1, self.evaluations),
            "distinct_nontrivial": len(self.distinct),
            "rule": rule,
            "samples": self.samples[:4] or ["(no sample recorded)"],
            "exhaustive": exhaustive,
            "counters": self.counters,
        }
        if extra:
            cov.update(extra)
        ev = {
            "property_id": self.pid, "tier": self.tier, "seed": self.seed,
            # a run whose theorems do not all check is not proof-level evidence (it also reports a violation)
            "level": "proof" if thms and len(closed) == len(thms) else "exploration",
            "coverage": cov, "assumptions": self.assumptions + self.notes,
            "wall_s": round(time.time() - self.t0, 2), "violations": len(self.violations),
            "known_findings_hit": self.known_hits,
        }
        try:
            import jsonschema
            schema = json.loads(Path("/root/.vp/EVIDENCE.schema.json").read_text())
            jsonschema.validate(ev, schema)
        except ImportError:
            pass
        except FileNotFoundError:
            pass
        EVIDENCE.mkdir(exist_ok=True)
        (EVIDENCE / f"{self.pid}.json").write_text(json.dumps(ev, indent=1, default=str) + "\n")
        for fid, what in self.known_hits.items():
            print(f"KNOWN-FINDING: property={self.pid} [{fid}] {what}")
        for v in self.violations:
            print(f"VIOLATION property={self.pid} replay={v['replay']}{v['suffix']}")
        print(f"{self.pid} {self.tier}: theorems {len(closed)}/{len(thms)} closed, {self.evaluations} cases "
              f"({len(self.distinct)} distinct non-trivial), {len(self.violations)} violation(s), {ev['wall_s']} s")
        sys.stdout.flush()
        return 1 if self.violations else 0


# ----------------------------------------------------------------- running the implementation

def impl_env(extra=None):
    e = dict(os.environ)
    e.update({"PYTHONPATH": str(REPO), "PYTHONHASHSEED": "0", GUARD: "1", "NUMBA_CACHE_DIR": str(BUILD / "numba_cache"),
              "MPLBACKEND": "Agg"})
    if extra:
        e.update(extra)
    return e


def setup_impl_path():
    """Make `import accelforge` resolve to the working tree under REPO, with hooks enabled."""
    os.environ[GUARD] = "1"
    os.environ.setdefault("NUMBA_CACHE_DIR", str(BUILD / "numba_cache"))
    os.environ.setdefault("MPLBACKEND", "Agg")
    sys.path.insert(0, str(REPO))
    d = BUILD / "run" / f"cwd-{os.getpid()}"
    d.mkdir(parents=True, exist_ok=True)
    os.chdir(d)
    import accelforge  # noqa
    assert str(Path(accelforge.__file__).resolve()).startswith(str(REPO.resolve())), accelforge.__file__
    return d
