From Coq Require Import List Arith Lia.
Import ListNotations.
From AF Require Import C30.Model.

Lemma existsb_eqb_seq p a len : existsb (Nat.eqb p) (seq a len) = (Nat.leb a p && Nat.ltb p (a + len))%bool.
Proof.
  revert a. induction len as [|len IH]; intros a; simpl.
  - destruct (Nat.leb_spec a p), (Nat.ltb_spec p (a + 0)); simpl; try reflexivity; lia.
  - rewrite IH. destruct (Nat.eqb_spec p a), (Nat.leb_spec a p), (Nat.leb_spec (S a) p), (Nat.ltb_spec p (S a + len)), (Nat.ltb_spec p (a + S len)); simpl; try reflexivity; lia.
Qed.

(* ---------------- mesh multicast *)
Lemma mesh_multicast_total n s : total_hops (mesh_multicast_routes n s) = (n - 1) * s.
Proof. unfold total_hops, mesh_multicast_routes. simpl. rewrite seq_length. lia. Qed.

Lemma max_load_const links rs k : (forall p, In p links -> load p rs = k) -> links <> [] -> max_load links rs = k.
Proof.
  induction links as [|p links IH]; intros H Hne; [congruence|]. simpl.
  rewrite (H p) by (left; reflexivity). destruct links as [|q links']; [simpl; lia|].
  rewrite IH; [lia| |discriminate]. intros x Hx. apply H. right; exact Hx.
Qed.

Lemma mesh_multicast_max n s : 0 < (n - 1) * s -> max_load (mesh_links n s) (mesh_multicast_routes n s) = 1.
Proof.
  intros Hpos. apply max_load_const.
  - intros p Hp. apply in_seq in Hp. unfold load, mesh_multicast_routes. simpl.
    rewrite existsb_eqb_seq. destruct (Nat.leb_spec 0 p), (Nat.ltb_spec p (0 + (n - 1) * s)); simpl; try reflexivity; lia.
  - unfold mesh_links. destruct ((n - 1) * s); [lia|discriminate].
Qed.

Lemma mesh_multicast_nolink n s : (n - 1) * s = 0 -> max_load (mesh_links n s) (mesh_multicast_routes n s) = 0.
Proof. intros H. unfold mesh_links. rewrite H. reflexivity. Qed.

(* ---------------- mesh unicast *)
Lemma unicast_total_gen s m a :
  2 * total_hops (map (fun i => seq 0 (i * s)) (seq a m)) + s * m = s * (m * (2 * a + m)).
Proof.
  revert a. induction m as [|m IH]; intros a; [simpl; lia|].
  cbn [seq map total_hops fold_right]. fold (total_hops (map (fun i => seq 0 (i * s)) (seq (S a) m))).
  rewrite seq_length. specialize (IH (S a)). nia.
Qed.

Lemma mesh_unicast_total2 n s : 2 * total_hops (mesh_unicast_routes n s) = n * (n - 1) * s.
Proof. unfold mesh_unicast_routes. pose proof (unicast_total_gen s (n - 1) 1). destruct n; simpl in *; nia. Qed.

Lemma load_le_length p rs : load p rs <= length rs.
Proof. unfold load. induction rs as [|r rs IH]; simpl; [lia|]. destruct (existsb (Nat.eqb p) r); simpl; lia. Qed.

Lemma route_has0 k : 0 < k -> existsb (Nat.eqb 0) (seq 0 k) = true.
Proof. destruct k; [lia|reflexivity]. Qed.

Lemma unicast_load0 s m a : 0 < s -> 0 < a ->
  load 0 (map (fun i => seq 0 (i * s)) (seq a m)) = m.
Proof.
  intros Hs. revert a. induction m as [|m IH]; intros a Ha; [reflexivity|].
  unfold load in *. cbn [seq map filter]. rewrite route_has0 by nia. cbn [length]. f_equal. apply IH. lia.
Qed.

Lemma max_load_bound links rs k : (forall p, In p links -> load p rs <= k) -> max_load links rs <= k.
Proof. induction links as [|p links IH]; intros H; simpl; [lia|]. pose proof (H p (or_introl eq_refl)). assert (max_load links rs <= k) by (apply IH; intros; apply H; right; assumption). lia. Qed.

Lemma max_load_ge links rs p : In p links -> load p rs <= max_load links rs.
Proof. induction links as [|q links IH]; intros H; [destruct H|]. simpl. destruct H as [->|H]; [lia|]. specialize (IH H). lia. Qed.

Lemma mesh_unicast_max n s : 0 < s -> 2 <= n -> max_load (mesh_links n s) (mesh_unicast_routes n s) = n - 1.
Proof.
  intros Hs Hn. apply Nat.le_antisymm.
  - apply max_load_bound. intros p _. etransitivity; [apply load_le_length|].
    unfold mesh_unicast_routes. rewrite map_length, seq_length. lia.
  - rewrite <- (unicast_load0 s (n - 1) 1 Hs) at 1 by lia. apply max_load_ge.
    unfold mesh_links. apply in_seq. nia.
Qed.

(* ---------------- switch *)
Lemma fold_max_const (f : nat -> nat) l k : (forall p, In p l -> f p = k) -> l <> [] ->
  fold_right (fun p acc => Nat.max (f p) acc) 0 l = k.
Proof.
  induction l as [|q l IH]; intros H Hne; [congruence|]. simpl. rewrite (H q) by (left; reflexivity).
  destruct l as [|q' l']; [simpl; lia|]. rewrite IH; [lia| |discriminate]. intros x Hx. apply H. right; exact Hx.
Qed.

Lemma switch_max_multicast n : 2 <= n -> switch_max n (switch_load_multicast n) = 1.
Proof.
  intros Hn. unfold switch_max. apply fold_max_const.
  - intros p _. unfold switch_load_multicast. destruct (Nat.leb_spec n 1); [lia|reflexivity].
  - unfold switch_links. destruct (Nat.leb_spec n 1); [lia|]. destruct n; [lia|discriminate].
Qed.

Lemma fold_max_bound (f : nat -> nat) l k : (forall p, In p l -> f p <= k) ->
  fold_right (fun p acc => Nat.max (f p) acc) 0 l <= k.
Proof.
  induction l as [|q l IH]; intros H; simpl; [lia|].
  pose proof (H q (or_introl eq_refl)). assert (fold_right (fun p acc => Nat.max (f p) acc) 0 l <= k) by (apply IH; intros; apply H; right; assumption). lia.
Qed.

Lemma switch_max_unicast n : 2 <= n -> switch_max n (switch_load_unicast n) = n - 1.
Proof.
  intros Hn. unfold switch_max, switch_links. destruct (Nat.leb_spec n 1); [lia|].
  destruct n as [|n]; [lia|]. cbn [seq fold_right].
  assert (H1 : fold_right (fun p acc => Nat.max (switch_load_unicast (S n) p) acc) 0 (seq 1 n) <= 1).
  { apply fold_max_bound. intros p Hp. apply in_seq in Hp. unfold switch_load_unicast.
    destruct (Nat.eqb_spec p 0); lia. }
  unfold switch_load_unicast at 1. simpl Nat.eqb. cbv iota. lia.
Qed.
