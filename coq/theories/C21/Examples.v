From AF Require Import Base.Tactics C21.Model.
Open Scope Z_scope.
(* a: b+1, b: 3, c: a*2 written in a non-topological key order *)
Example ex_ok : eval_object [] [(0%nat, Bin OAdd (Var 1) (Num 1)); (2%nat, Bin OMul (Var 0) (Num 2)); (1%nat, Num 3)]
  = OK [(2%nat, 8); (0%nat, 4); (1%nat, 3)].
Proof. vm_compute. reflexivity. Qed.
Example ex_cycle : eval_object [] [(0%nat, Var 1); (1%nat, Var 0)] = ErrCycle.
Proof. vm_compute. reflexivity. Qed.
(* self reference: resolves to the enclosing scope if bound there, otherwise evaluation fails *)
Example ex_self_outer : eval_object [(0%nat, 5)] [(0%nat, Bin OAdd (Var 0) (Num 1))] = OK [(0%nat, 6); (0%nat, 5)].
Proof. vm_compute. reflexivity. Qed.
Example ex_self_unbound : eval_object [] [(0%nat, Bin OAdd (Var 0) (Num 1))] = ErrEval.
Proof. vm_compute. reflexivity. Qed.
