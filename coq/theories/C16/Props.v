(* C16 — property theorems only.  The mathematical content of "tolerances stay within their documented bound":
   a pruning that keeps, for every dropped candidate, a kept candidate within the factor (1+t), and only keeps real candidates,
   returns a best value between the exact optimum and (1+t) times it.  Whether accelforge's rounding-based pruning satisfies the
   premise at each of its pruning sites is what the correspondence run checks end to end on the real mapper. *)
From Coq Require Import QArith List Lia.
Import ListNotations.
From AF Require Import Lib.MiniForge C06.Model Lib.MiniSpace.
Open Scope Q_scope.

Theorem C16_never_below : forall kept all v w,
  (forall y, In y kept -> In y all) -> qmin_list all = Some v -> qmin_list kept = Some w -> v <= w.
Proof.
  intros kept all v w Hsub A K. apply qmin_list_spec in A, K. destruct A as [A _]. destruct K as [_ [y [Hy <-]]]. apply A, Hsub, Hy.
Qed.
Print Assumptions C16_never_below.

Theorem C16_objective_bound : forall t kept all v w, 0 <= t ->
  (forall x, In x all -> exists y, In y kept /\ y <= (1 + t) * x) ->
  qmin_list all = Some v -> qmin_list kept = Some w -> w <= (1 + t) * v.
Proof.
  intros t kept all v w Ht Hcov A K. apply qmin_list_spec in A, K. destruct A as [_ [x [Hx <-]]]. destruct K as [K _].
  destruct (Hcov x Hx) as [y [Hy Hle]]. eapply Qle_trans; [apply K, Hy|exact Hle].
Qed.
Print Assumptions C16_objective_bound.

(* the factor does not compound when the same values are pruned twice (tile-shape exploration, then the pmapping table):
   a second pruning of an already (1+t)-covering kept set with the SAME rounding keeps a (1+t)-cover of the original set
   provided the cover relation is the same grid relation: stated for a transitive-with-absorption relation R *)
Theorem C16_no_compounding : forall (R : Q -> Q -> Prop) kept1 kept2 all,
  (forall x y z, R y x -> R z y -> R z x) ->
  (forall x, In x all -> exists y, In y kept1 /\ R y x) ->
  (forall y, In y kept1 -> exists z, In z kept2 /\ R z y) ->
  forall x, In x all -> exists z, In z kept2 /\ R z x.
Proof.
  intros R k1 k2 all Htr H1 H2 x Hx. destruct (H1 x Hx) as [y [Hy Ryx]]. destruct (H2 y Hy) as [z [Hz Rzy]]. exists z. split; [exact Hz|eapply Htr; eassumption].
Qed.
Print Assumptions C16_no_compounding.
