(* C07 model — symbolic cost formulas of a pmapping template.  A template is a mapping whose loop tile shapes may be symbols;
   the symbolic evaluator builds expressions (over +, *, integer division) exactly where the concrete model computes numbers. *)
From Coq Require Import ZArith List Bool Lia.
Import ListNotations.
Require Import AF.Lib.MiniForge.
Open Scope Z_scope.

Inductive expr := EConst (z : Z) | EVar (i : nat) | EAdd (a b : expr) | ESub (a b : expr) | EMul (a b : expr) | EDiv (a b : expr).
Fixpoint denote (sigma : nat -> Z) (e : expr) : Z :=
  match e with
  | EConst z => z | EVar i => sigma i
  | EAdd a b => denote sigma a + denote sigma b | ESub a b => denote sigma a - denote sigma b
  | EMul a b => denote sigma a * denote sigma b | EDiv a b => denote sigma a / denote sigma b
  end.

(* templates: tile shapes are expressions (a symbol or a constant) *)
Inductive tnode := TSto (lvl t : nat) | TLoop (rv : nat) (tile : expr).
Definition instantiate (sigma : nat -> Z) (tp : list tnode) : list node :=
  map (fun n => match n with TSto l t => Sto l t | TLoop rv e => Loop rv (denote sigma e) end) tp.

(* symbolic shapes, chains and stats *)
Definition sshape := list expr.
Fixpoint sset_nth (i : nat) (v : expr) (s : sshape) : sshape :=
  match s, i with [], _ => [] | _ :: t, O => v :: t | x :: t, S j => x :: sset_nth j v t end.
Fixpoint soccupancy (rel : list bool) (s : sshape) : expr :=
  match rel, s with r :: rel', x :: s' => EMul (if r then x else EConst 1) (soccupancy rel' s') | _, _ => EConst 1 end.

Inductive sitem := SLoop (n : expr) (rel : bool) | SHold (lvl : nat) (skip : bool) (tile : expr).
Fixpoint schain_of (skipf : nat -> bool) (t : nat) (tn : tensor) (tp : list tnode) (s : sshape) : list sitem :=
  match tp with
  | [] => []
  | TLoop rv tile :: rest => SLoop (EDiv (nth rv s (EConst 1)) tile) (nth rv (t_rel tn) false) :: schain_of skipf t tn rest (sset_nth rv tile s)
  | TSto lvl t' :: rest =>
      if Nat.eqb t' t then SHold lvl (skipf lvl) (soccupancy (t_rel tn) s) :: schain_of skipf t tn rest s else schain_of skipf t tn rest s
  end.

Record sup := mkSUp { sR : expr; sW : expr; sS : expr }.
Record sacts := mkSA { sa_lvl : nat; sa_r : expr; sa_rs : expr; sa_w : expr; sa_ws : expr }.
Definition srep_up (n : expr) (rel : bool) (u : sup) : sup := mkSUp (EMul n (sR u)) (EMul n (sW u)) (if rel then EMul n (sS u) else sS u).
Definition srep_acts (n : expr) (rel : bool) (a : sacts) : sacts :=
  mkSA (sa_lvl a) (EMul n (sa_r a)) (if rel then EMul n (sa_rs a) else sa_rs a) (EMul n (sa_w a)) (if rel then EMul n (sa_ws a) else sa_ws a).

Section OneTensor.
  Variable out skipc : bool.
  Definition b2e (b : bool) := EConst (if b then 1 else 0).
  Fixpoint smodel (c : list sitem) (hp : bool) : sup * list sacts :=
    match c with
    | [] => (mkSUp (EConst 1) (b2e out) (b2e (out && skipc)), [])
    | SLoop n rel :: rest => let '(u, l) := smodel rest hp in (srep_up n rel u, map (srep_acts n rel) l)
    | SHold lvl skip tile :: rest =>
        let '(ch, l) := smodel rest true in
        let own := if hp then mkSUp tile (if out then tile else EConst 0) (if out && skip then tile else EConst 0)
                   else mkSUp (EConst 0) (EConst 0) (EConst 0) in
        (own, mkSA lvl (EAdd (sW own) (sR ch)) (if skip then sS ch else EConst 0) (EAdd (sR own) (sW ch)) (sS own) :: l)
    end.
End OneTensor.

Definition den_item (sigma : nat -> Z) (it : sitem) : item :=
  match it with SLoop n rel => ILoop (denote sigma n) rel | SHold l k tile => IHold l k (denote sigma tile) end.
Definition den_up (sigma : nat -> Z) (u : sup) : up := mkUp (denote sigma (sR u)) (denote sigma (sW u)) (denote sigma (sS u)).
Definition den_acts (sigma : nat -> Z) (a : sacts) : acts :=
  mkA (sa_lvl a) (denote sigma (sa_r a)) (denote sigma (sa_rs a)) (denote sigma (sa_w a)) (denote sigma (sa_ws a)).

(* per level: (reads, writes) net of the skipped first parts, as expressions *)
Definition snet (l : list sacts) (lvl : nat) : expr * expr :=
  fold_right (fun a rw => if Nat.eqb (sa_lvl a) lvl then (EAdd (fst rw) (ESub (sa_r a) (sa_rs a)), EAdd (snd rw) (ESub (sa_w a) (sa_ws a))) else rw)
             (EConst 0, EConst 0) l.
Definition smodel_counts (out skipc : bool) (c : list sitem) (lvl : nat) : expr * expr := snet (snd (smodel out skipc c false)) lvl.
(* whole template: the symbolic counts of tensor t at a level *)
Definition stcounts (sp : spec) (tp : list tnode) (t lvl : nat) : expr * expr :=
  let tn := nth t (s_tensors sp) (mkT [] false) in
  smodel_counts (t_out tn) (c_skip sp) (schain_of (skipf_of sp) t tn tp (map EConst (s_bounds sp))) lvl.
Definition den2 (sigma : nat -> Z) (p : expr * expr) : Z * Z := (denote sigma (fst p), denote sigma (snd p)).
(* symbolic occupancy (values held) of every holder of the template, in mapping order: (level, tensor, expr) *)
Fixpoint sholds (sp : spec) (tp : list tnode) (s : sshape) : list (nat * nat * expr) :=
  match tp with
  | [] => []
  | TLoop rv tile :: rest => sholds sp rest (sset_nth rv tile s)
  | TSto lvl t :: rest => (lvl, t, soccupancy (t_rel (nth t (s_tensors sp) (mkT [] false))) s) :: sholds sp rest s
  end.
Fixpoint holds (sp : spec) (m : list node) (s : shape) : list (nat * nat * Z) :=
  match m with
  | [] => []
  | Loop rv tile :: rest => holds sp rest (set_nth rv tile s)
  | Sto lvl t :: rest => (lvl, t, occupancy (t_rel (nth t (s_tensors sp) (mkT [] false))) s) :: holds sp rest s
  end.
