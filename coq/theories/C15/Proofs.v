From Coq Require Import List Arith Lia.
Import ListNotations.
From AF Require Import C15.Model.

Section Proofs.
Context {A : Type}.
Notation seg := (nat * list A)%type.

(* descending partition: the head segment ends at [top]; each next one ends where the
   previous starts; the last starts at 0 *)
Fixpoint wf_desc (D : list seg) (top : nat) : Prop :=
  match D with
  | [] => top = 0
  | (s, T) :: D' => s + length T = top /\ wf_desc D' s
  end.

(* only the head segment may be empty *)
Definition tail_nonempty (D : list seg) : Prop :=
  match D with [] => True | _ :: D' => Forall (fun e : seg => snd e <> []) D' end.

Lemma wf_desc_starts_le D : forall top e, wf_desc D top -> In e D -> fst e <= top.
Proof.
  induction D as [|[s T] D IH]; intros top e H Hin; [destruct Hin|]. simpl in H. destruct H as [H1 H2].
  destruct Hin as [<-|Hin]; simpl; [lia|]. specialize (IH s e H2 Hin). lia.
Qed.

Lemma wf_desc_tail_lt D : forall top e, wf_desc D top -> Forall (fun e : seg => snd e <> []) D -> In e D -> fst e < top.
Proof.
  induction D as [|[s T] D IH]; intros top e H HF Hin; [destruct Hin|]. simpl in H. destruct H as [H1 H2].
  inversion HF as [|? ? Hne HF']; subst. simpl in Hne.
  assert (0 < length T) by (destruct T; [congruence|simpl; lia]).
  destruct Hin as [<-|Hin]; simpl; [lia|]. specialize (IH s e H2 HF' Hin). lia.
Qed.

Lemma dict_replace_none k v (D : list seg) : (forall e, In e D -> fst e <> k) -> dict_replace k v D = None.
Proof.
  induction D as [|[k' v'] D IH]; intros H; simpl; [reflexivity|].
  assert (k <> k') by (intro; subst; apply (H (k', v')); [left; reflexivity|reflexivity]).
  destruct (Nat.eqb_spec k k'); [contradiction|]. rewrite IH; [reflexivity|]. intros e He. apply H. right; exact He.
Qed.

(* what dict_put does on a well-formed dictionary when the key is the current total *)
Lemma dict_put_wf D top T :
  wf_desc D top -> tail_nonempty D ->
  wf_desc (dict_put top T D) (top + length T) /\ tail_nonempty (dict_put top T D) /\
  concat (map snd (rev (dict_put top T D))) = concat (map snd (rev D)) ++ T.
Proof.
  intros Hwf Htn. unfold dict_put. destruct D as [|[s0 T0] D'].
  - simpl in *. subst. simpl. repeat split; try lia; try apply Forall_nil; try apply app_nil_r.
  - simpl in Hwf. destruct Hwf as [H1 H2]. simpl in Htn. simpl.
    destruct (Nat.eqb_spec top s0) as [E|E].
    + (* the previous sub-table was empty: its entry is overwritten *)
      subst s0. assert (T0 = []) by (destruct T0; [reflexivity|simpl in H1; lia]). subst T0.
      simpl. repeat split; try lia; try assumption.
      rewrite !map_app, !concat_app. simpl. rewrite !app_nil_r. reflexivity.
    + assert (Hnone : dict_replace top T D' = None).
      { apply dict_replace_none. intros e He. pose proof (wf_desc_tail_lt D' s0 e H2 Htn He). lia. }
      rewrite Hnone. simpl. repeat split; try lia; try assumption.
      * constructor; [|exact Htn]. simpl. destruct T0; [simpl in H1; lia|discriminate].
      * rewrite !map_app, !concat_app. simpl. rewrite !app_nil_r. reflexivity.
Qed.

Lemma build_wf (Ts : list (list A)) : forall D top,
  wf_desc D top -> tail_nonempty D ->
  let st := fold_left build_step Ts (D, top) in
  wf_desc (fst st) (snd st) /\ tail_nonempty (fst st) /\
  concat (map snd (rev (fst st))) = concat (map snd (rev D)) ++ concat Ts /\
  snd st = top + length (concat Ts).
Proof.
  induction Ts as [|T Ts IH]; intros D top Hwf Htn; cbn [fold_left concat].
  - cbn [fst snd length]. rewrite app_nil_r. repeat split; try assumption. lia.
  - change (build_step (D, top) T) with (dict_put top T D, top + length T).
    destruct (dict_put_wf D top T Hwf Htn) as [W1 [W2 W3]].
    destruct (IH _ _ W1 W2) as [I1 [I2 [I3 I4]]]. repeat split; try assumption.
    + rewrite I3, W3, <- app_assoc. reflexivity.
    + rewrite I4, app_length. lia.
Qed.

(* ---------------------------------------------------------------- the walk *)
Fixpoint find_seg (i : nat) (D : list seg) : option (seg * list seg) :=
  match D with
  | [] => None
  | (s, T) :: D' => if Nat.leb s i then Some ((s, T), D') else find_seg i D'
  end.

Definition cl (cur : option seg) (iter : list seg) : list seg :=
  match cur with Some e => e :: iter | None => iter end.

Lemma adv_find i iter : forall cur, adv i cur iter = find_seg i (cl cur iter).
Proof.
  induction iter as [|[s1 T1] it IH]; intros [[s T]|]; simpl; try reflexivity.
  - destruct (Nat.leb s i); [reflexivity|]. rewrite IH. reflexivity.
  - rewrite IH. reflexivity.
Qed.

Lemma wf_desc_len (D : list seg) : forall top, wf_desc D top -> length (concat (map snd (rev D))) = top.
Proof.
  induction D as [|[s1 T1] D IH]; intros top H; simpl in *; [lia|].
  destruct H as [H1 H2]. rewrite map_app, concat_app, app_length. simpl. rewrite app_nil_r. rewrite (IH s1 H2). lia.
Qed.

Lemma find_seg_split (D : list seg) : forall top i, wf_desc D top -> i < top ->
  exists s T D' pre, find_seg i D = Some ((s, T), D') /\ D = pre ++ (s, T) :: D' /\
                     s <= i < s + length T /\ wf_desc ((s, T) :: D') (s + length T).
Proof.
  induction D as [|[s0 T0] D IH]; intros top i Hwf Hi; simpl in *; [lia|].
  destruct Hwf as [H1 H2]. destruct (Nat.leb_spec s0 i).
  - exists s0, T0, D, []. repeat split; try lia. simpl. tauto.
  - destruct (IH s0 i H2 H) as [s [T [D' [pre [F1 [F2 [F3 F4]]]]]]].
    exists s, T, D', ((s0, T0) :: pre). repeat split; try tauto; try lia. simpl. rewrite F2. reflexivity.
Qed.

Inductive desc : list nat -> Prop :=
| desc_nil : desc []
| desc_one x : desc [x]
| desc_cons x y l : y < x -> desc (y :: l) -> desc (x :: y :: l).

Lemma desc_tail x l : desc (x :: l) -> desc l.
Proof. inversion 1; subst; [constructor|assumption]. Qed.

Lemma desc_lt l : forall x j, desc (x :: l) -> In j l -> j < x.
Proof.
  induction l as [|y l IH]; intros x j H Hj; [destruct Hj|]. inversion H; subst.
  destruct Hj as [<-|Hj]; [assumption|]. specialize (IH y j H4 Hj). lia.
Qed.

Lemma walk_correct (all : list A) ids : forall cur iter top,
  desc ids -> wf_desc (cl cur iter) top ->
  (exists rest, all = concat (map snd (rev (cl cur iter))) ++ rest) ->
  (forall i, In i ids -> i < top) ->
  exists tbl, walk ids cur iter = Some tbl /\ forall i, In i ids -> lookup i tbl = nth_error all i /\ nth_error all i <> None.
Proof.
  induction ids as [|i ids IH]; intros cur iter top Hd Hwf [rest Hall] Hlt.
  - exists []. split; [reflexivity|]. intros i [].
  - simpl. rewrite adv_find.
    assert (Hi : i < top) by (apply Hlt; left; reflexivity).
    destruct (find_seg_split _ _ _ Hwf Hi) as [s [T [D' [pre [F1 [F2 [F3 F4]]]]]]].
    rewrite F1.
    (* all = (rows up to the end of the found segment) ++ rest' *)
    assert (Hall' : exists rest', all = concat (map snd (rev ((s, T) :: D'))) ++ rest').
    { exists (concat (map snd (rev pre)) ++ rest). rewrite Hall, F2.
      rewrite rev_app_distr, map_app, concat_app, <- app_assoc. reflexivity. }
    destruct Hall' as [rest' Hall'].
    pose proof (wf_desc_len _ _ F4) as Hlen.
    assert (Hrow : nth_error T (i - s) = nth_error all i).
    { rewrite Hall'. rewrite nth_error_app1 by lia. simpl. rewrite map_app, concat_app. simpl. rewrite app_nil_r.
      assert (Hl : length (concat (map snd (rev D'))) = s).
      { simpl in F4. apply wf_desc_len. tauto. }
      rewrite nth_error_app2 by lia. rewrite Hl. reflexivity. }
    destruct (nth_error T (i - s)) as [r|] eqn:Er; [|apply nth_error_None in Er; lia].
    destruct (IH (Some (s, T)) D' (s + length T)) as [tbl [Hw Hlk]].
    + eapply desc_tail; eassumption.
    + exact F4.
    + exists rest'. exact Hall'.
    + intros j Hj. pose proof (desc_lt _ _ _ Hd Hj). lia.
    + rewrite Hw. exists ((i, r) :: tbl). split; [reflexivity|].
      intros j [<-|Hj]; simpl.
      * rewrite Nat.eqb_refl. rewrite <- Hrow. split; [reflexivity|discriminate].
      * destruct (Nat.eqb_spec j i) as [->|_]; [rewrite <- Hrow; split; [reflexivity|discriminate]|apply Hlk, Hj].
Qed.

(* ---------------------------------------------------------------- sorting the id column *)
Lemma insert_desc_In x y l : In y (insert_desc x l) <-> y = x \/ In y l.
Proof.
  induction l as [|z t IH]; simpl; [intuition|].
  destruct (Nat.ltb z x); simpl; [intuition|].
  destruct (Nat.eqb_spec x z); simpl; [subst; intuition|]. rewrite IH. intuition.
Qed.

Lemma sort_desc_In y l : In y (sort_desc l) <-> In y l.
Proof. induction l as [|x t IH]; simpl; [tauto|]. rewrite insert_desc_In, IH. intuition. Qed.

Lemma insert_desc_desc x l : desc l -> desc (insert_desc x l).
Proof.
  induction 1 as [|z|z w t Hwz Ht IH]; simpl.
  - constructor.
  - destruct (Nat.ltb_spec z x); [constructor; [lia|constructor]|].
    destruct (Nat.eqb_spec x z); [constructor|]. constructor; [lia|constructor].
  - destruct (Nat.ltb_spec z x); [constructor; [lia|constructor; assumption]|].
    destruct (Nat.eqb_spec x z); [constructor; assumption|].
    simpl in IH. destruct (Nat.ltb_spec w x).
    + constructor; [lia|exact IH].
    + destruct (Nat.eqb_spec x w); constructor; try lia; exact IH.
Qed.

Lemma sort_desc_desc l : desc (sort_desc l).
Proof. induction l; simpl; [constructor|apply insert_desc_desc; assumption]. Qed.

(* ---------------------------------------------------------------- round trip *)
Theorem roundtrip (Ts : list (list A)) (ids : list nat) :
  (forall i, In i ids -> i < length (concat Ts)) ->
  decompress (build Ts) ids = Some (map (fun i => nth_error (concat Ts) i) ids) /\
  (forall i, In i ids -> nth_error (concat Ts) i <> None).
Proof.
  intros Hids. unfold decompress, build.
  destruct (build_wf Ts [] 0 eq_refl I) as [W1 [W2 [W3 W4]]]. simpl in W3, W4.
  set (D := fst (fold_left build_step Ts ([], 0))) in *.
  destruct (walk_correct (concat Ts) (sort_desc ids) None D (length (concat Ts))) as [tbl [Hw Hlk]].
  - apply sort_desc_desc.
  - simpl. rewrite <- W4. exact W1.
  - exists []. simpl. rewrite W3, app_nil_r. reflexivity.
  - intros i Hi. apply Hids. apply sort_desc_In. exact Hi.
  - rewrite Hw. split.
    + f_equal. apply map_ext_in. intros i Hi. apply Hlk. apply sort_desc_In. exact Hi.
    + intros i Hi. apply Hlk. apply sort_desc_In. exact Hi.
Qed.
End Proofs.
