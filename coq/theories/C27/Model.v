(* C27 model — the cost quantities of one component under repeated
   Spec.calculate_component_costs calls (as repaired: a calculated quantity is final). *)
From Coq Require Import QArith List Bool.
Import ListNotations.
Open Scope Q_scope.

Inductive qkind := QArea | QLeak | QEnergy | QThroughput.
Definition qkind_eqb (a b : qkind) : bool :=
  match a, b with QArea, QArea | QLeak, QLeak | QEnergy, QEnergy | QThroughput, QThroughput => true | _, _ => false end.

(* flags of one call: area, energy, throughput, leak *)
Definition flags := qkind -> bool.

Record qty := mkq { qk : qkind; cur : Q; factor : Q; fin : bool }.

(* calculate_area / calculate_leak_power / calculate_action_energy / calculate_action_throughput *)
Definition step_q (fl : flags) (q : qty) : qty :=
  if fl (qk q) && negb (fin q) then mkq (qk q) (cur q * factor q) (factor q) true else q.

(* the unrepaired code: the stored result is read back as the base value and scaled again *)
Definition step_q_old (fl : flags) (q : qty) : qty :=
  if fl (qk q) then mkq (qk q) (cur q * factor q) (factor q) true else q.

(* a component as written in the spec *)
Record action := mka { e0 : Q; e_scale : Q; t0 : Q; t_scale : Q }.
Record compo := mkc { area0 : Q; area_scale : Q; leak0 : Q; leak_scale : Q; npar : Q;
                      energy_scale_c : Q; thr_scale_c : Q; actions : list action }.

Definition quantities (c : compo) : list qty :=
  mkq QArea (area0 c) (area_scale c * npar c) false ::
  mkq QLeak (leak0 c) (leak_scale c * npar c) false ::
  flat_map (fun a => [mkq QEnergy (e0 a) (energy_scale_c c * e_scale a) false;
                      mkq QThroughput (t0 a) (thr_scale_c c * t_scale a * npar c) false]) (actions c).

Definition run (hist : list flags) (qs : list qty) : list qty :=
  fold_left (fun s fl => map (step_q fl) s) hist qs.
Definition run_old (hist : list flags) (qs : list qty) : list qty :=
  fold_left (fun s fl => map (step_q_old fl) s) hist qs.

Definition qout (q : Q) : Z * Z := let r := Qred q in (Qnum r, Zpos (Qden r)).
Definition mkflags (a e t l : bool) : flags :=
  fun k => match k with QArea => a | QEnergy => e | QThroughput => t | QLeak => l end.
Definition observe (hist : list (bool * bool * bool * bool)) (c : compo) : list (Z * Z) :=
  map (fun q => qout (cur q))
      (run (map (fun f => match f with (a, e, t, l) => mkflags a e t l end) hist) (quantities c)).
