#!/bin/bash
# Runs the repository's pinned test suite with the hook guard OFF and compares with BASELINE.json's stable_pass list.
out=${1:-/verif/build/baseline.junit.xml}
mkdir -p "$(dirname "$out")"
cd ${BASE_REPO:-/repo} && env -u ACCELFORGE_VERIF /venv/bin/python -m pytest -ra -q -p no:cacheprovider --timeout=900 --continue-on-collection-errors --junitxml="$out" > "${out%.xml}.log" 2>&1
/venv/bin/python - "$out" <<'PY'
import json, sys, xml.etree.ElementTree as ET
base = set(json.load(open('/root/.vp/BASELINE.json'))['stable_pass'])
passed = set()
for tc in ET.parse(sys.argv[1]).getroot().iter('testcase'):
    if not any(ch.tag in ('failure', 'error', 'skipped') for ch in tc):
        passed.add(f"{tc.get('classname')}::{tc.get('name')}")
missing = sorted(base - passed)
print(f"baseline stable_pass={len(base)} passed_now={len(passed)} missing={len(missing)}")
for m in missing[:40]:
    print("  MISSING", m)
sys.exit(1 if missing else 0)
PY
