(* C28 — property theorems only. *)
From Coq Require Import ZArith List Bool Lia.
Import ListNotations.
From AF Require Import C28.Model C28.Proofs.
Open Scope Z_scope.

(* Every breakdown of energy()/actions() has the same total: regrouping the (einsum, component, tensor, action)
   dictionary by ANY subset of its key positions (all 16 / 8 flag combinations are instances) preserves the sum. *)
Theorem C28_breakdown_total : forall flags d, total (group (flags_idx flags) d) = total d.
Proof. intros. apply group_total. Qed.
Print Assumptions C28_breakdown_total.

(* ... each reported key occurs once and carries exactly the sum of the entries that project onto it *)
Theorem C28_breakdown_value : forall idx d,
  NoDup (keys (group idx d)) /\ forall k', oz (lookup k' (group idx d)) = sum_where (fun k => key_eqb k' (select idx k)) d.
Proof. intros. split; [apply group_nodup|intro; apply group_value]. Qed.
Print Assumptions C28_breakdown_value.

(* energy() with no flag = the sum of all collected entries; same for the flag-less actions() total *)
Theorem C28_energy_scalar : forall es t d, collect ENERGY true es t = Some d ->
  option_map total (energy [false; false; false; false] es t) = Some (total d).
Proof. intros es t d H. unfold energy. rewrite H. simpl. f_equal. apply group_total. Qed.
Print Assumptions C28_energy_scalar.

(* latency: per-Einsum value = maximum over that Einsum's components; latency() = sum over Einsums of these maxima;
   per-component-only = sum over Einsums of the component's latency *)
Theorem C28_latency : forall es t d, lat_entries es t = Some d ->
  latency false false es t = Some [([], total (per_einsum_latency d))]
  /\ latency true false es t = Some (per_einsum_latency d)
  /\ (forall e m, lookup [e] (per_einsum_latency d) = Some m -> is_max_of m (members (fun k => key_eqb [e] (select [0%nat] k)) d))
  /\ (forall e, lookup [e] (per_einsum_latency d) = None -> members (fun k => key_eqb [e] (select [0%nat] k)) d = [])
  /\ (forall c, exists r, latency false true es t = Some r /\ oz (lookup [c] r) = sum_where (fun k => key_eqb [c] (select [1%nat] k)) d)
  /\ (exists r, latency false true es t = Some r /\ total r = total d).
Proof.
  intros es t d H. unfold latency. rewrite H. cbn [option_map].
  split; [reflexivity|]. split; [reflexivity|]. split; [apply per_einsum_is_max|]. split; [apply per_einsum_none|]. split.
  - intro c. eexists. split; [reflexivity|apply group_value].
  - eexists. split; [reflexivity|apply group_total].
Qed.
Print Assumptions C28_latency.
