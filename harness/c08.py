"""C08 — tile-shape exploration with pruning loses no Pareto-optimal choice and invents none."""
import json
import math
import os
from fractions import Fraction

import common
import gen_mini as G
import mini_space as S
import mapper_ref as R
import tile_capture as T
import c07
from common import coq_Z, coq_list

TRUSTED = [
    "Coq (C08/Model.v, Proofs.v): symbol-by-symbol enumeration with Pareto pruning of partial assignments on a criteria vector (keep the first of equals) is proved to emit, after "
    "Pareto filtering, exactly the objective vectors of the Pareto-filtered exhaustive enumeration, for any number of symbols / candidate sets / validity / objectives, under the "
    "hypothesis that the criteria are sound (a boolean check decides that hypothesis on concrete spaces; an unsound-criteria witness shows the hypothesis is needed)",
    "the hypothesis itself (that the code's partially evaluated criteria, built from C09's verdicts, are sound) is NOT proved for the real get_tile_shape_choices: it is what the "
    "correspondence run tests - the table the real _make_tile_shapes returns for every captured template against exhaustive enumeration of every perfect assignment of that template",
    "the exhaustive side evaluates the formulas run_model returned for that template (tied to concrete evaluation by C07) in float64 at every perfect assignment, keeps those whose "
    "per-memory usage is <= 1, and Pareto-filters on (latency, energy); a sample of assignments is cross-checked against the python twin's validity and objectives",
    "Coq front (AF.Lib.Front) evaluated on the exhaustive vectors of small templates and compared with the harness front",
]


def pfront(vecs, tol=0.0):
    vs = sorted(set(vecs))
    return [v for v in vs if not any(all(x <= y for x, y in zip(w, v)) and any(x < y for x, y in zip(w, v)) for w in vs)]


def near(a, b, tol=2e-4):
    return all(abs(x - y) <= tol * max(1.0, abs(y)) for x, y in zip(a, b))


def run(ck):
    af, evaluate_mapping = R.load()
    import numpy as np
    import sympy as sp
    ck.prove()
    rng = ck.rng("specs")
    d = common.BUILD / "run" / f"c08-{os.getpid()}"
    d.mkdir(parents=True, exist_ok=True)
    dist = {"specs": 0, "templates": 0, "templates_compared": 0, "assignments_enumerated": 0, "valid_assignments": 0, "rows_emitted": 0, "front_points": 0,
            "max_assignments_in_a_template": 0, "templates_with_pruning": 0, "templates_all_invalid": 0, "skipped_too_large": 0, "twin_crosschecks": 0, "mapper_errors": 0,
            "symbols_per_template": {}, "metric_sets": {}}
    exprs, keys = [], []
    pools = [(4, 6, 8, 12), (6, 8, 12, 16), (8, 12, 16, 24), (12, 24, 36), (24, 48)] if ck.tier == "thorough" else [(4, 6, 8, 12), (6, 8, 12, 16), (8, 12, 24), (6, 12)]
    templates_done = 0
    for i in range(ck.n(30, 200)):
        if templates_done >= ck.n(120, 1500):
            break
        pool = rng.choice(pools)
        spec, _ = R.gen_search_spec(rng, fancy=(i % 2 == 1), pool=pool, levels=(2, 3, 3), enumerate_space=False)
        if i % 3 != 2:
            # tight buffers make validity pruning matter
            for L in spec["levels"][1:]:
                L["size"] = rng.choice([None, 48, 96, 96, 128, 256, 512, 1024])
        mset = [["ENERGY", "LATENCY"], ["LATENCY"], ["ENERGY", "LATENCY"], ["ENERGY"]][i % 4]
        dist["metric_sets"]["|".join(mset)] = dist["metric_sets"].get("|".join(mset), 0) + 1
        if i % 4 == 1:
            # latency-only with finite bandwidths everywhere: the latency is a max of several terms
            for L in spec["levels"]:
                L["rthr"] = L["rthr"] or rng.choice([1, 2, 4])
                L["wthr"] = L["wthr"] or rng.choice([1, 2, 4])
        caps, err = T.capture_run(af, spec, d, mset)
        dist["specs"] += 1
        dist["mapper_errors"] += err is not None
        if ck.quick() and len(caps) > 15:
            caps = rng.sample(caps, 15)       # quick tier: at most 15 templates of one spec, so that the amount of work does not hinge on one spec
        for ent in caps:
            templates_done += 1
            dist["templates"] += 1
            tpl, syms = ent["tpl"], ent["symbols"]
            if tpl is None or ent["table"] is None:
                continue
            sigmas = T.assignments(spec, tpl, cap=ck.n(4000, 40000) + 1)
            if len(sigmas) > ck.n(4000, 40000):
                dist["skipped_too_large"] += 1
                continue
            dist["symbols_per_template"][str(len(syms))] = dist["symbols_per_template"].get(str(len(syms)), 0) + 1
            dist["assignments_enumerated"] += len(sigmas)
            dist["max_assignments_in_a_template"] = max(dist["max_assignments_in_a_template"], len(sigmas))
            forms = {k: sp.sympify(v) for grp in ("sdf", "pmu") for k, v in ent[grp].items()}
            symobjs = []
            for name in syms:
                cands = [s for f in forms.values() for s in getattr(f, "free_symbols", ()) if s.name == name]
                symobjs.append(cands[0] if cands else sp.Symbol(name))
            forms = {k: (f.xreplace({s: symobjs[syms.index(s.name)] for s in f.free_symbols if s.name in syms}) if hasattr(f, "free_symbols") else f) for k, f in forms.items()}
            cols = {s: np.array([float(sg[s]) for sg in sigmas], dtype=np.float64) for s in syms}

            def ev(f):
                if not syms or not getattr(f, "free_symbols", None):
                    return np.full(len(sigmas), float(f))
                fn = sp.lambdify(symobjs, f, modules="numpy")
                return np.broadcast_to(np.asarray(fn(*[cols[s] for s in syms]), dtype=np.float64), (len(sigmas),)).copy()
            zero = sp.Integer(0)
            lat = ev(forms.get("Total<SEP>latency", zero))
            en = ev(forms.get("Total<SEP>dynamic_energy", zero)) + ev(forms.get("Total<SEP>leak_energy", zero))
            ok = np.ones(len(sigmas), dtype=bool)
            for k, f in forms.items():
                if k.startswith("usage<SEP>"):
                    ok &= ev(f) <= 1.0 + 1e-9
            # cross-check a few assignments with the twin (validity and objectives)
            for j in sorted(set([0, len(sigmas) // 2, len(sigmas) - 1])):
                m = T.instantiate(tpl, sigmas[j])
                dist["twin_crosschecks"] += 1
                e_t, l_t = S.evaluate(spec, m)
                okv = (("Total<SEP>latency" not in forms or near((lat[j],), (float(l_t),), 1e-6))
                       and ("Total<SEP>dynamic_energy" not in forms or near((en[j],), (float(e_t),), 1e-6)))
                if bool(ok[j]) != S.accepted(spec, m) or not okv:
                    ck.failing_input({"spec": spec, "template": [list(n) for n in tpl], "assignment": sigmas[j], "formula_valid": bool(ok[j]), "twin_valid": S.accepted(spec, m),
                                      "formula_latency_energy": [float(lat[j]), float(en[j])], "twin_latency_energy": [float(l_t), float(e_t)],
                                      "arch_yaml": S.arch_yaml(spec), "workload_yaml": G.workload_yaml(spec), "mapping_yaml": G.mapping_yaml(spec, m)},
                                     what=f"template formulas and concrete evaluation disagree at {sigmas[j]} (validity or objectives)")
            rows = ent["table"]
            ocols = [c for c in ("Total<SEP>latency", "Total<SEP>energy") if (c in rows[0] if rows else c.split("<SEP>")[1].upper() in mset)]
            pick = lambda a, b: tuple(x for x, c in ((a, "Total<SEP>latency"), (b, "Total<SEP>energy")) if c in ocols)  # noqa
            allv = [pick(float(lat[j]), float(en[j])) for j in range(len(sigmas)) if ok[j]]
            dist["valid_assignments"] += len(allv)
            ref = pfront(allv)
            got_all = [tuple(r[c] for c in ocols) for r in rows]
            got = pfront(got_all)
            dist["rows_emitted"] += len(rows)
            dist["front_points"] += len(ref)
            dist["templates_compared"] += 1
            dist["templates_with_pruning"] += len(rows) < len(allv)
            dist["templates_all_invalid"] += not allv
            ck.case(json.dumps([spec, tpl], sort_keys=True, default=str), nontrivial=len(rows) < len(allv) and len(ref) >= 1,
                    sample={"bounds": spec["bounds"], "template": [list(n) for n in tpl], "assignments": len(sigmas), "valid": len(allv), "rows_emitted": len(rows),
                            "front": [list(v) for v in ref[:5]]} if len(rows) < len(allv) else None)
            lost = [v for v in ref if not any(near(g, v) for g in got)]
            extra = [g for g in got if not any(near(g, v) for v in ref)]
            if lost or extra:
                wit = None
                if lost:
                    j = [j for j in range(len(sigmas)) if ok[j] and near(pick(lat[j], en[j]), lost[0], 1e-9)][0]
                    wit = sigmas[j]
                    what = (f"Pareto-optimal tile shapes {wit} with {ocols} = {lost[0]} are valid but no emitted row matches them "
                            f"(emitted front {got[:4]}, exhaustive front {ref[:4]})")
                else:
                    # the emitted row: which assignment is it, and why is it not on the exhaustive front
                    r = [r for r in rows if near(tuple(r[c] for c in ocols), extra[0], 1e-9)][0]
                    wit = {s: int(round(r[s])) for s in syms if s in r}
                    js = [j for j, sg in enumerate(sigmas) if sg == wit]
                    why = "not a perfect assignment of the template" if not js else ("exceeds a memory (usage > 1)" if not ok[js[0]] else "its objectives differ from the formulas' values")
                    what = f"emitted row {wit} with {ocols} = {extra[0]} is not on the exhaustive front: {why}"
                m = T.instantiate(tpl, wit) if wit and all(s in wit for s in syms) else None
                ck.failing_input({"spec": spec, "template": [list(n) for n in tpl], "symbols": syms, "witness_assignment": wit, "lost": [list(v) for v in lost[:4]],
                                  "extra": [list(v) for v in extra[:4]], "emitted_front": [list(v) for v in got[:8]], "exhaustive_front": [list(v) for v in ref[:8]],
                                  "arch_yaml": S.arch_yaml(spec), "workload_yaml": G.workload_yaml(spec), "mapping_yaml": G.mapping_yaml(spec, m) if m else None},
                                 what=what)
            # Coq front on small templates
            if 2 <= len(allv) <= 150 and len(ocols) == 2 and len(exprs) < ck.n(30, 200):
                ints = sorted({(int(round(a * 4096)), int(round(b * 4096))) for a, b in allv})
                exprs.append(f"front {coq_list(ints, lambda v: coq_list(v, coq_Z))}")
                keys.append(sorted((int(round(a * 4096)), int(round(b * 4096))) for a, b in pfront([(x / 4096, y / 4096) for x, y in ints])))
    vals = common.run_coq_eval("C08", ["AF.Lib.Pareto", "AF.Lib.Front"], exprs, chunk=10, preamble="Open Scope Z_scope.")
    mism = [{"coq": str(v)[:300], "twin": str(k)[:300]} for k, v in zip(keys, vals) if sorted(tuple(int(y) for y in x) for x in v) != k]
    ck.count("coq_front_vs_harness_compared", len(keys))
    ck.count("coq_front_vs_harness_mismatches", len(mism))
    if mism and not ck.violations:
        ck.unexplained("broken-correspondence", {"mismatches": mism[:2]}, what="Coq front and harness front disagree")
    return ck.finish(
        rule="random single-Einsum specs (2-3 memory levels, bounds up to 24, mostly with finite buffers); for every pmapping template of a real mapper run: the (latency, energy) "
             "vectors of the table _make_tile_shapes returned, Pareto-filtered, against the Pareto front over ALL perfect assignments of the template that fit every memory; "
             "non-trivial = the exploration emitted fewer rows than there are valid assignments (something was pruned)",
        trusted=TRUSTED,
        extra={"input_distribution": dist,
               "source_fingerprint": [common.fingerprint("accelforge/mapper/FFM/_make_pmappings/make_pmappings_from_templates/make_tile_shapes.py",
                                                         ["get_tile_shape_choices", "_make_tile_shapes", "grab_symbol", "coalesce_symbols", "get_padded_choices", "check_loops"])]})


def replay(ck, data):
    print("replay: the spec, template and witness assignment are in the replay file; re-run ./check C08 with the recorded seed")
    return 0
