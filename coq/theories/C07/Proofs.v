From Coq Require Import ZArith List Bool Lia.
Import ListNotations.
Require Import AF.Lib.MiniForge AF.C07.Model.
Open Scope Z_scope.

Section P.
  Variable sigma : nat -> Z.

  Lemma den_sset_nth i v s : map (denote sigma) (sset_nth i v s) = set_nth i (denote sigma v) (map (denote sigma) s).
  Proof. revert i. induction s as [|x s IH]; intro i; [destruct i; reflexivity|]. destruct i; cbn; [reflexivity|]. rewrite IH. reflexivity. Qed.

  Lemma den_soccupancy rel : forall s, denote sigma (soccupancy rel s) = occupancy rel (map (denote sigma) s).
  Proof. induction rel as [|r rel IH]; intros [|x s]; cbn; try reflexivity. rewrite IH. destruct r; reflexivity. Qed.

  Lemma den_nth rv s : denote sigma (nth rv s (EConst 1)) = nth rv (map (denote sigma) s) 1.
  Proof. revert rv. induction s as [|x s IH]; intro rv; destruct rv; cbn; auto. Qed.

  (* the symbolic chain of a template denotes the concrete chain of its instantiation *)
  Lemma den_schain skipf t tn tp : forall s,
    map (den_item sigma) (schain_of skipf t tn tp s) = chain_of skipf t tn (instantiate sigma tp) (map (denote sigma) s).
  Proof.
    induction tp as [|n tp IH]; intro s; [reflexivity|]. destruct n as [l t'|rv tile]; cbn [schain_of instantiate map chain_of].
    - fold (instantiate sigma tp). destruct (Nat.eqb t' t); cbn [map den_item]; rewrite ?den_soccupancy, IH; reflexivity.
    - fold (instantiate sigma tp). cbn [den_item denote]. rewrite den_nth, IH, den_sset_nth. reflexivity.
  Qed.

  Variable out skipc : bool.

  Lemma den_b2e b : denote sigma (b2e b) = if b then 1 else 0.
  Proof. destruct b; reflexivity. Qed.

  Lemma den_smodel c : forall hp,
    den_up sigma (fst (smodel out skipc c hp)) = fst (model out skipc (map (den_item sigma) c) hp)
    /\ map (den_acts sigma) (snd (smodel out skipc c hp)) = snd (model out skipc (map (den_item sigma) c) hp).
  Proof.
    induction c as [|it c IH]; intro hp.
    - split; [|reflexivity]. destruct out, skipc; reflexivity.
    - destruct it as [n rel|lvl skip tile]; cbn [smodel map den_item model].
      + destruct (IH hp) as [A B]. destruct (smodel out skipc c hp) as [u l]. destruct (model out skipc (map (den_item sigma) c) hp) as [u' l'].
        cbn [fst snd] in *. subst u' l'. split.
        * unfold den_up, srep_up, rep_up. cbn. destruct rel; reflexivity.
        * rewrite !map_map. apply map_ext. intros [a b c0 d e]. unfold den_acts, srep_acts, rep_acts. cbn. destruct rel; reflexivity.
      + destruct (IH true) as [A B]. destruct (smodel out skipc c true) as [ch l]. destruct (model out skipc (map (den_item sigma) c) true) as [ch' l'].
        cbn [fst snd] in *. subst ch' l'. split.
        * unfold den_up. destruct hp, out, skip; reflexivity.
        * cbn [map]. f_equal. unfold den_acts, den_up. cbn. destruct hp, out, skip; reflexivity.
  Qed.
End P.

Lemma den_snet sigma l lvl : den2 sigma (snet l lvl) = net (map (den_acts sigma) l) lvl.
Proof.
  induction l as [|a l IH]; [reflexivity|]. cbn [snet net map fold_right]. fold (snet l lvl). fold (net (map (den_acts sigma) l) lvl).
  rewrite <- IH. destruct a as [al ar ars aw aws]. cbn [sa_lvl a_lvl den_acts]. destruct (Nat.eqb al lvl); reflexivity.
Qed.

Lemma den_map_const sigma b : map (denote sigma) (map EConst b) = b.
Proof. induction b as [|x b IH]; [reflexivity|]. cbn. rewrite IH. reflexivity. Qed.

Theorem den_stcounts sigma sp tp t lvl :
  den2 sigma (stcounts sp tp t lvl) = tcounts model_counts sp (instantiate sigma tp) t lvl.
Proof.
  unfold stcounts, tcounts, smodel_counts, model_counts. rewrite den_snet.
  destruct (den_smodel sigma (t_out (nth t (s_tensors sp) (mkT [] false))) (c_skip sp)
              (schain_of (skipf_of sp) t (nth t (s_tensors sp) (mkT [] false)) tp (map EConst (s_bounds sp))) false) as [_ B].
  rewrite B, den_schain, den_map_const. reflexivity.
Qed.

Theorem den_sholds sigma sp tp : forall s,
  map (fun h => (fst h, denote sigma (snd h))) (sholds sp tp s) = holds sp (instantiate sigma tp) (map (denote sigma) s).
Proof.
  induction tp as [|n tp IH]; intro s; [reflexivity|]. destruct n as [l t|rv tile]; cbn [sholds holds instantiate map].
  - fold (instantiate sigma tp). cbn [fst snd]. rewrite den_soccupancy, IH. reflexivity.
  - fold (instantiate sigma tp). rewrite IH, den_sset_nth. reflexivity.
Qed.
