"""C26 — component totals count every instance of the component."""
import json

import common
import gen_arch

TRUSTED = [
    "modelled: iterate_hierarchically (parent list threading, Fork copies) + the instance count of Spec.calculate_component_costs; Array/Network nodes outside the model",
    "hwcomponents is bypassed: every component has explicit area / leak_power / action energy / throughput",
]


def py_instances(t, x):
    """oracle: own fanout x fanouts of the non-compute leaves before x on x's path (forks not containing x pruned)"""
    def contains(nodes):
        return any((n[0] == "leaf" and n[2] == x) or (n[0] == "hier" and contains(n[2])) for n in nodes)

    def pleaves(nodes):
        out = []
        for n in nodes:
            if n[0] == "leaf":
                out.append(n)
            elif not (n[1] and not contains(n[2])):
                out += pleaves(n[2])
        return out
    prod = 1
    for l in pleaves(t):
        if l[2] == x:
            return prod * l[3]
        if l[1] != "KComp":
            prod *= l[3]
    raise KeyError(x)


def impl_totals(af, t, rng_vals):
    arch = gen_arch.to_arch(t, af, rng_vals)
    spec = af["Spec"](arch=arch, workload=gen_arch.simple_workload(af))
    s2 = spec.calculate_component_costs()
    return ({int(k[1:]): v for k, v in s2.arch.per_component_total_area.items()},
            {int(k[1:]): v for k, v in s2.arch.per_component_total_leak_power.items()},
            s2.arch.total_area, s2.arch.total_leak_power)


def array_stream(ck, af, rng, n):
    """oracle-only streams (outside the Coq model): (a) architectures with !Array nodes whose children are independent of each other;
    (b) re-costing after a fanout was changed on the costed spec"""
    A = af["arch"]

    def mem(name, fo, area, leak):
        return A.Memory(name=name, size=1000, spatial=[{"name": "d" + name, "fanout": fo}] if fo != 1 else [], area=area, leak_power=leak,
                        actions=[{"name": "read", "energy": 1, "throughput": 1}, {"name": "write", "energy": 1, "throughput": 1}])
    for _ in range(n):
        nodes, expect, per = [], {}, {}
        cur, cnt = 1, 0
        plan = [rng.choice(["leaf", "leaf", "array", "cont"]) for _ in range(rng.randint(2, 6))]
        if rng.random() < 0.6 and "array" not in plan:
            plan[rng.randrange(len(plan))] = "array"
        desc = []
        for kind in plan:
            if kind == "leaf":
                fo, a, l = rng.choice([1, 1, 2, 3]), rng.randint(0, 9), rng.randint(0, 5)
                nm = f"N{cnt}"; cnt += 1
                nodes.append(mem(nm, fo, a, l)); expect[nm] = cur * fo; per[nm] = (a, l); cur *= fo
                desc.append(("mem", nm, fo))
            elif kind == "cont":
                fo = rng.choice([1, 2, 3, 4])
                nm = f"N{cnt}"; cnt += 1
                nodes.append(A.Container(name=nm, spatial=[{"name": "d" + nm, "fanout": fo}] if fo != 1 else [])); cur *= fo
                desc.append(("container", nm, fo))
            else:
                fa = rng.choice([1, 2, 2, 3, 4])
                nm = f"N{cnt}"; cnt += 1
                cur *= fa
                kids, kd = [], []
                for _k in range(rng.randint(1, 4)):
                    fo, a, l = rng.choice([1, 2, 2, 3]), rng.randint(1, 9), rng.randint(0, 5)
                    kn = f"N{cnt}"; cnt += 1
                    kids.append(mem(kn, fo, a, l)); expect[kn] = cur * fo; per[kn] = (a, l)
                    kd.append(("mem", kn, fo))
                nodes.append(A.Array(name=nm, nodes=kids, spatial=[{"name": "d" + nm, "fanout": fa}] if fa != 1 else []))
                desc.append(("array", nm, fa, kd))
        fo = rng.choice([1, 2, 3])
        nodes.append(A.Compute(name="MAC", spatial=[{"name": "dm", "fanout": fo}] if fo != 1 else [], area=1, leak_power=1,
                               actions=[{"name": "compute", "energy": 1, "throughput": 1}]))
        expect["MAC"] = cur * fo; per["MAC"] = (1, 1)
        desc.append(("compute", "MAC", fo))
        has_array = any(d[0] == "array" for d in desc)
        ck.case(("array-stream", json.dumps(desc)), nontrivial=has_array, sample={"array_stream": desc} if has_array else None)
        ck.count("array_stream_cases")
        try:
            spec = af["Spec"](arch=A.Arch(nodes=nodes), workload=gen_arch.simple_workload(af))
            s2 = spec.calculate_component_costs()
            area, leak = dict(s2.arch.per_component_total_area), dict(s2.arch.per_component_total_leak_power)
        except Exception as e:  # noqa
            ck.failing_input({"arch": desc, "why": f"exception {type(e).__name__}: {e}"}, what="calculate_component_costs raised on an architecture with an Array")
            continue
        bad = {k: (area.get(k), per[k][0] * n_, leak.get(k), per[k][1] * n_) for k, n_ in expect.items()
               if area.get(k) != per[k][0] * n_ or leak.get(k) != per[k][1] * n_}
        if bad:
            ck.failing_input({"arch": desc, "component: (total_area, expected, total_leak, expected)": bad},
                             what="component total != per-instance value x number of instances (architecture with an Array)")
            continue
        # (b) change one fanout on the costed spec and cost it again: the totals must follow the new instance counts
        cands = [d for d in desc if d[0] in ("mem", "container", "compute")]
        d = rng.choice(cands)
        newf = rng.choice([f for f in (2, 3, 5, 7) if f != d[2]])
        node = s2.arch.find(d[1])
        try:
            if node.spatial:
                node.spatial[0].fanout = newf
            else:
                continue
            s3 = s2.calculate_component_costs()
        except Exception as e:  # noqa
            ck.failing_input({"arch": desc, "changed": d[1], "why": f"exception {type(e).__name__}: {e}"}, what="re-costing after a fanout change raised")
            continue
        # recompute expectations with the new fanout
        cur, exp2 = 1, {}
        for dd in desc:
            f = newf if dd[1] == d[1] else dd[2]
            if dd[0] in ("mem", "compute"):
                exp2[dd[1]] = cur * f
                if dd[0] == "mem":
                    cur *= f
            elif dd[0] == "container":
                cur *= f
            else:
                cur *= f
                for kd in dd[3]:
                    exp2[kd[1]] = cur * (newf if kd[1] == d[1] else kd[2])
        area3, leak3 = dict(s3.arch.per_component_total_area), dict(s3.arch.per_component_total_leak_power)
        bad = {k: (area3.get(k), per[k][0] * n_, leak3.get(k), per[k][1] * n_) for k, n_ in exp2.items()
               if area3.get(k) != per[k][0] * n_ or leak3.get(k) != per[k][1] * n_}
        ck.count("recost_after_fanout_change_cases")
        if bad or s3.arch.total_area != sum(area3.values()):
            ck.failing_input({"arch": desc, "changed": d[1], "new_fanout": newf, "component: (total_area, expected, total_leak, expected)": bad},
                             what="after changing a fanout on the costed spec and costing again, totals do not match the new instance counts")


def run(ck):
    af = gen_arch.load()
    ck.prove()
    rng = ck.rng("trees")
    array_stream(ck, af, ck.rng("arrays"), ck.n(80, 1500))
    exprs, keys = [], []
    for _ in range(ck.n(150, 4000)):
        t = gen_arch.random_tree(rng)
        lv = gen_arch.leaves(t)
        vals = {l[2]: dict(area=rng.randint(0, 9), area_scale=1, leak=rng.randint(0, 5), leak_scale=1, npar=1, energy_scale=1, thr_scale=1,
                           actions={"read": (1, 1, 1, 1), "write": (1, 1, 1, 1), "compute": (1, 1, 1, 1)}) for l in lv}
        try:
            area, leak, tot_a, tot_l = impl_totals(af, t, vals)
        except Exception as e:  # noqa
            ck.failing_input({"tree": t, "why": f"exception {type(e).__name__}: {e}"}, what="calculate_component_costs raised")
            continue
        comps = [l for l in lv if l[1] != "KCont"]
        bad = None
        for l in comps:
            inst = py_instances(t, l[2])
            if area.get(l[2]) != vals[l[2]]["area"] * inst or leak.get(l[2]) != vals[l[2]]["leak"] * inst:
                bad = {"component": l[2], "fanout": l[3], "instances_expected": inst, "area_per_instance": vals[l[2]]["area"],
                       "total_area": area.get(l[2]), "leak_per_instance": vals[l[2]]["leak"], "total_leak": leak.get(l[2])}
        if bad is None and (tot_a != sum(area.values()) or tot_l != sum(leak.values())):
            bad = {"total_area": tot_a, "sum": sum(area.values())}
        multi = sum(1 for l in lv if l[3] > 1)
        ck.case(json.dumps(t), nontrivial=multi >= 2, sample={"tree": t, "total_area": area})
        if bad:
            ck.failing_input({"tree": t, **bad}, what="component total != per-instance value x number of instances")
        exprs.append(f"(map (fun lg => (ln (fst lg), snd lg)) (impl_totals {gen_arch.to_coq(t)}))")
        keys.append((t, {k: (v // vals[k]["area"] if vals[k]["area"] else None) for k, v in area.items()}))
    B = 20
    res = [v for b in common.run_coq_eval("C26", ["AF.Lib.ArchTree", "AF.C26.Model"],
                                          ["[" + "; ".join(exprs[k:k + B]) + "]" for k in range(0, len(exprs), B)], chunk=10) for v in b]
    mism = []
    for (t, inst), m in zip(keys, res):
        md = dict(m)
        for k, v in inst.items():
            if v is not None and md.get(k) != v:
                mism.append({"tree": t, "component": k, "impl_instances": v, "model_instances": md.get(k)})
    ck.count("model_vs_impl_compared", len(keys))
    ck.count("model_vs_impl_mismatches", len(mism))
    if mism and not ck.violations:
        ck.unexplained("broken-correspondence", {"mismatches": mism[:3]}, what="model instance counts != implementation")
    return ck.finish(
        rule="random trees with fanouts 1-5 on memories, tolls, containers and computes at any position (forks, nested hierarchies), "
             "random integer per-instance area and leak; per_component_total_area / _leak_power / total_area / total_leak_power checked; "
             "non-trivial = at least two nodes with fanout > 1; plus two oracle-only streams outside the Coq model: architectures with !Array nodes (children independent of each other), "
             "and re-costing after one fanout was changed on the costed spec",
        trusted=TRUSTED,
        extra={"source_fingerprint": [common.fingerprint("accelforge/frontend/spec.py", ["Spec"]),
                                      common.fingerprint("accelforge/frontend/arch/structure.py", ["ArchNode"])]})


def replay(ck, data):
    af = gen_arch.load()
    def tup(n):
        return ("leaf", n[1], n[2], n[3]) if n[0] == "leaf" else ("hier", n[1], [tup(x) for x in n[2]])
    t = [tup(n) for n in data["tree"]]
    vals = {l[2]: dict(area=1, area_scale=1, leak=1, leak_scale=1, npar=1, energy_scale=1, thr_scale=1,
                       actions={"read": (1, 1, 1, 1), "write": (1, 1, 1, 1), "compute": (1, 1, 1, 1)}) for l in gen_arch.leaves(t)}
    area, leak, _, _ = impl_totals(af, t, vals)
    for l in gen_arch.leaves(t):
        if l[1] != "KCont" and area.get(l[2]) != py_instances(t, l[2]):
            print("VIOLATION property=C26 replay=<replayed>")
            return 1
    print("replay: property holds on this input now")
    return 0
