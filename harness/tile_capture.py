"""Capture, from a real map_workload_to_arch run, every pmapping template the mapper builds together with the symbolic
formulas run_model returns for it and the tile-shape table _make_tile_shapes produces from them (C07, C08)."""
import itertools
from fractions import Fraction

import gen_mini as G
import mini_space as S
import mapper_ref as R


def template_to_mini(nodes, spec):
    """accelforge template nodes -> [('sto', lvl, t) | ('loop', rv, int-or-symbol-name)]; None outside the class"""
    lv = {L["name"]: i for i, L in enumerate(spec["levels"])}
    tn = {T["name"]: i for i, T in enumerate(spec["tensors"])}
    out = []
    for n in nodes:
        cls = type(n).__name__
        if cls in ("Storage", "Toll"):
            for t in n.tensors:
                out.append(("sto", lv[str(n.component)], tn[str(t)]))
        elif cls == "Temporal":
            ts = n.tile_shape
            try:
                ts = int(ts)
            except Exception:  # noqa
                ts = str(ts)
            out.append(("loop", G.RV.index(str(n.rank_variable)), ts))
        elif cls in ("Reservation", "Compute"):
            continue
        else:
            return None
    return out


def capture_run(af, spec, d, metrics, extra=None):
    """-> (templates, final rows or error).  Each template: dict(tpl, symbols, sdf, pmu, udf, adf, table, table_cols, error)"""
    from accelforge.mapper.FFM._make_pmappings.make_pmappings_from_templates import make_tile_shapes as M
    from accelforge.mapper.FFM.main import map_workload_to_arch
    caps, stack = [], []
    orig_run, orig_make = M.run_model, M._make_tile_shapes

    def w_run(job):
        out = orig_run(job)
        symbols, sdf, pmu, udf, t2m, adf = out
        ent = {"tpl": template_to_mini(job.mapping.nodes, spec), "symbols": [str(s) for s in symbols], "sym_objs": list(symbols),
               "sdf": dict(sdf), "pmu": dict(pmu), "udf": dict(udf), "adf": dict(adf), "table": None, "error": None}
        caps.append(ent)
        if stack:
            stack[-1].append(ent)
        return out

    def w_make(job):
        stack.append([])
        try:
            r = orig_make(job)
        except Exception as ex:  # noqa
            for ent in stack.pop():
                ent["error"] = f"{type(ex).__name__}: {str(ex)[:200]}"
            raise
        ents = stack.pop()
        df = r[0] if isinstance(r, tuple) else r
        for ent in ents:
            try:
                cols = [c for c in df.columns if c != "mapping" and not str(c).startswith("mapping")]
                ent["table_cols"] = cols
                ent["table"] = [{c: float(df[c].iloc[i]) for c in cols} for i in range(len(df))]
            except Exception as ex:  # noqa
                ent["error"] = f"table: {type(ex).__name__}: {str(ex)[:200]}"
        return r

    M.run_model, M._make_tile_shapes = w_run, w_make
    err = None
    try:
        a, w = R.yaml_files(spec, d)
        s = af.Spec.from_yaml(a, w)
        m = af.Metrics[metrics[0]]
        for x in metrics[1:]:
            m = m | af.Metrics[x]
        s.mapper.metrics = m
        if extra:
            extra(s)
        map_workload_to_arch(s, print_progress=False)
    except Exception as ex:  # noqa
        err = f"{type(ex).__name__}: {str(ex)[:300]}"
    finally:
        M.run_model, M._make_tile_shapes = orig_run, orig_make
    return caps, err


def assignments(spec, tpl, cap=None):
    """every perfect assignment of the template's symbols: each tile divides the extent it tiles (the full extent and 1 included)"""
    out = []

    def rec(i, shape, sigma):
        if cap is not None and len(out) >= cap:
            return
        if i == len(tpl):
            out.append(dict(sigma))
            return
        n = tpl[i]
        if n[0] != "loop":
            return rec(i + 1, shape, sigma)
        rv, tile = n[1], n[2]
        if isinstance(tile, int):
            if tile >= 1 and shape[rv] % tile == 0:
                s2 = list(shape)
                s2[rv] = tile
                rec(i + 1, s2, sigma)
            return
        if tile in sigma:
            return rec(i + 1, shape, sigma)
        for dv in G.divisors(shape[rv]):
            s2 = list(shape)
            s2[rv] = dv
            sigma[tile] = dv
            rec(i + 1, s2, sigma)
            del sigma[tile]
    rec(0, list(spec["bounds"]), {})
    return out


def instantiate(tpl, sigma):
    return [n if n[0] != "loop" or isinstance(n[2], int) else ("loop", n[1], sigma[n[2]]) for n in tpl]


def coq_template(tpl, symbols):
    idx = {s: i for i, s in enumerate(symbols)}
    parts = []
    for n in tpl:
        if n[0] == "sto":
            parts.append(f"TSto {n[1]}%nat {n[2]}%nat")
        else:
            parts.append(f"TLoop {n[1]}%nat ({'EConst ' + str(n[2]) if isinstance(n[2], int) else 'EVar ' + str(idx[n[2]]) + '%nat'})")
    return "[" + "; ".join(parts) + "]"


def coq_sigma(symbols, sigma):
    return "(fun i => nth i [" + "; ".join(str(sigma[s]) for s in symbols) + "] 1)"
