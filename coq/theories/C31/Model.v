(* C31 model — Toll components (analyze_toll = analyze_storage with propagate_child_results, per-tensor
   count_upward/downward_movement from the direction, count_writes = False, max_occupancy := 0). *)
From Coq Require Import ZArith List Bool Lia.
Import ListNotations.
Require Import AF.Lib.MiniForge.
Open Scope Z_scope.

Inductive titem := TBase (it : item) | TToll (lvl : nat) (up down : bool).

Definition erase (c : list titem) : list item :=
  flat_map (fun x => match x with TBase it => [it] | TToll _ _ _ => [] end) c.

Section OneTensor.
  Variable out : bool.
  Variable skipc : bool.

  (* returns: what the nearest buffet below reports upward, the Memory levels' action totals, the Toll levels' action totals
     (a Toll entry uses the same record: a_w and a_ws are the write totals the code computes for it) *)
  Fixpoint tmodel (c : list titem) (hp : bool) : up * list acts * list acts :=
    match c with
    | [] => (mkUp 1 (if out then 1 else 0) (if out && skipc then 1 else 0), [], [])
    | TBase (ILoop n rel) :: rest =>
        let '(u, l, tl) := tmodel rest hp in (rep_up n rel u, map (rep_acts n rel) l, map (rep_acts n rel) tl)
    | TBase (IHold lvl skip tile) :: rest =>
        let '(ch, l, tl) := tmodel rest true in
        let own := if hp then mkUp tile (if out then tile else 0) (if out && skip then tile else 0) else mkUp 0 0 0 in
        (own, mkA lvl (uW own + uR ch) (if skip then uS ch else 0) (uR own + uW ch) (uS own) :: l, tl)
    | TToll lvl up down :: rest =>
        let '(ch, l, tl) := tmodel rest true in
        (* propagate_child_results: the child's traffic is handed upward unchanged (skip_initial is True for a Toll) *)
        let own := if hp then ch else mkUp 0 0 0 in
        (* write_scale = 0: every write term vanishes; reads: upward movement (own writes to parent), downward movement (child's reads) *)
        (own, l, mkA lvl ((if up then uW own else 0) + (if down then uR ch else 0)) (if down then uS ch else 0) 0 0 :: tl)
    end.

  (* every Toll has a Memory holder above it *)
  Fixpoint tolls_below_memory (c : list titem) (hp : bool) : Prop :=
    match c with
    | [] => True
    | TBase (ILoop _ _) :: rest => tolls_below_memory rest hp
    | TBase (IHold _ _ _) :: rest => tolls_below_memory rest true
    | TToll _ _ _ :: rest => hp = true /\ tolls_below_memory rest true
    end.
End OneTensor.

(* chains from mappings: a holder node on a Toll level becomes a TToll with that tensor's direction *)
Fixpoint tchain_of (skipf : nat -> bool) (tollf : nat -> nat -> option (bool * bool)) (t : nat) (tn : tensor) (nodes : list node) (s : shape) : list titem :=
  match nodes with
  | [] => []
  | Loop rv tile :: rest =>
      TBase (ILoop (nth rv s 1 / tile) (nth rv (t_rel tn) false)) :: tchain_of skipf tollf t tn rest (set_nth rv tile s)
  | Sto lvl t' :: rest =>
      if Nat.eqb t' t then
        (match tollf lvl t with
         | Some (u, d) => TToll lvl u d
         | None => TBase (IHold lvl (skipf lvl) (occupancy (t_rel tn) s)) end) :: tchain_of skipf tollf t tn rest s
      else tchain_of skipf tollf t tn rest s
  end.

Definition tnet (l : list acts) (lvl : nat) : Z * Z :=
  fold_right (fun a rw => if Nat.eqb (a_lvl a) lvl then (fst rw + (a_r a - a_rs a), snd rw + (a_w a - a_ws a)) else rw) (0, 0) l.
(* (reads, writes) reported for a level (Memory or Toll) and a tensor *)
Definition tcounts_toll (skipf : nat -> bool) tollf (out skipc : bool) (t : nat) (tn : tensor) (m : list node) (s : shape) (lvl : nat) : Z * Z :=
  let '(_, l, tl) := tmodel out skipc (tchain_of skipf tollf t tn m s) false in tnet (l ++ tl) lvl.
