From AF Require Import Base.Tactics C21.Model.
Open Scope Z_scope.

Lemma memn_In x l : memn x l = true <-> In x l.
Proof.
  induction l as [|y l IH]; simpl; [split; [discriminate|tauto]|].
  rewrite orb_true_iff, IH, Nat.eqb_eq. split; intros [H|H]; auto.
Qed.

Lemma memn_false x l : memn x l = false <-> ~ In x l.
Proof. rewrite <- memn_In. destruct (memn x l); split; congruence. Qed.

(* ---------------------------------------------------------------- the worklist *)
(* every dependency of the head is already done, recursively *)
Fixpoint topo_from (d : list (nat * aexp)) (done : list nat) (o : list (nat * aexp)) : Prop :=
  match o with
  | [] => True
  | (x, e) :: t => (forall y, In y (deps d x e) -> In y done) /\ topo_from d (x :: done) t
  end.

Lemma topo_from_mono d o : forall done done', (forall y, In y done -> In y done') -> topo_from d done o -> topo_from d done' o.
Proof.
  induction o as [|[x e] t IH]; intros done done' H; simpl; [tauto|].
  intros [H1 H2]. split; [intros y Hy; apply H, H1, Hy|].
  apply (IH (x :: done)); [|exact H2]. intros y [->|Hy]; [left; reflexivity|right; apply H, Hy].
Qed.

Lemma pick_spec d done rem x e : pick d done rem = Some (x, e) ->
  In (x, e) rem /\ forall y, In y (deps d x e) -> In y done.
Proof.
  induction rem as [|[x0 e0] t IH]; simpl; [discriminate|].
  destruct (forallb (fun y => memn y done) (deps d x0 e0)) eqn:E.
  - intros H. inversion H; subst. split; [left; reflexivity|]. intros y Hy.
    rewrite forallb_forall in E. apply memn_In, E, Hy.
  - intros H. destruct (IH H). split; [right; assumption|assumption].
Qed.

Lemma pick_complete d done rem x e : In (x, e) rem -> (forall y, In y (deps d x e) -> In y done) ->
  pick d done rem <> None.
Proof.
  induction rem as [|[x0 e0] t IH]; simpl; [tauto|]. intros Hin Hd.
  destruct (forallb (fun y => memn y done) (deps d x0 e0)) eqn:E; [discriminate|].
  destruct Hin as [Hin|Hin]; [|apply IH; assumption].
  inversion Hin; subst. exfalso.
  assert (forallb (fun y => memn y done) (deps d x e) = true); [|congruence].
  apply forallb_forall. intros y Hy. apply memn_In, Hd, Hy.
Qed.

Lemma remove_field_perm x e rem : NoDup (map fst rem) -> In (x, e) rem ->
  Permutation rem ((x, e) :: remove_field x rem).
Proof.
  induction rem as [|[y ey] t IH]; simpl; intros Hnd Hin; [destruct Hin|].
  inversion Hnd; subst. destruct (Nat.eqb_spec x y) as [->|Hne].
  - destruct Hin as [Hin|Hin]; [inversion Hin; subst; reflexivity|].
    exfalso. apply H1. apply in_map_iff. exists (y, e). tauto.
  - destruct Hin as [Hin|Hin]; [inversion Hin; subst; congruence|].
    rewrite perm_swap. constructor. apply IH; assumption.
Qed.

Lemma remove_field_nodup x rem : NoDup (map fst rem) -> NoDup (map fst (remove_field x rem)).
Proof.
  induction rem as [|[y ey] t IH]; simpl; intros Hnd; [constructor|]. inversion Hnd; subst.
  destruct (Nat.eqb_spec x y); [assumption|]. simpl. constructor; [|apply IH; assumption].
  intro Hin. apply H1. clear -Hin. induction t as [|[z ez] t IHt]; simpl in *; [tauto|].
  destruct (Nat.eqb x z); simpl in *; tauto.
Qed.

Lemma remove_field_length x e rem : In (x, e) rem -> S (length (remove_field x rem)) = length rem.
Proof.
  induction rem as [|[y ey] t IH]; simpl; intros Hin; [destruct Hin|].
  destruct (Nat.eqb_spec x y) as [->|Hne]; [reflexivity|]. simpl. f_equal. apply IH.
  destruct Hin as [Hin|Hin]; [inversion Hin; subst; congruence|exact Hin].
Qed.

Lemma order_loop_sound d fuel : forall done rem o, NoDup (map fst rem) ->
  order_loop fuel d done rem = Some o -> Permutation o rem /\ topo_from d done o.
Proof.
  induction fuel as [|fuel IH]; intros done rem o Hnd H.
  - destruct rem; simpl in H; [inversion H; subst; split; [reflexivity|exact I]|discriminate].
  - destruct rem as [|p rem']; [simpl in H; inversion H; subst; split; [reflexivity|exact I]|].
    set (rem := p :: rem') in *.
    assert (H' : match pick d done rem with
                 | None => None
                 | Some (x, e) => match order_loop fuel d (x :: done) (remove_field x rem) with Some o => Some ((x, e) :: o) | None => None end
                 end = Some o) by exact H.
    clear H. destruct (pick d done rem) as [[x e]|] eqn:Ep; [|discriminate].
    destruct (order_loop fuel d (x :: done) (remove_field x rem)) as [o'|] eqn:Eo; [|discriminate].
    inversion H'; subst. destruct (pick_spec _ _ _ _ _ Ep) as [Hin Hdeps].
    destruct (IH _ _ _ (remove_field_nodup x rem Hnd) Eo) as [HP HT].
    split; [|simpl; split; assumption].
    rewrite (remove_field_perm x e rem Hnd Hin). constructor. exact HP.
Qed.

(* removing an element whose dependencies are already done keeps the order admissible *)
Lemma topo_from_remove d x e o1 : forall done o2,
  (forall y, In y (deps d x e) -> In y done) ->
  topo_from d done (o1 ++ (x, e) :: o2) -> topo_from d (x :: done) (o1 ++ o2).
Proof.
  induction o1 as [|[z ez] o1 IH]; intros done o2 Hd; simpl.
  - tauto.
  - intros [H1 H2]. split; [intros y Hy; right; apply H1, Hy|].
    apply (topo_from_mono d _ (x :: z :: done)); [intros y [->|[->|Hy]]; simpl; tauto|].
    apply IH; [intros y Hy; right; apply Hd, Hy|exact H2].
Qed.

Lemma order_loop_complete d fuel : forall done rem, NoDup (map fst rem) -> (length rem <= fuel)%nat ->
  (exists o, Permutation o rem /\ topo_from d done o) -> order_loop fuel d done rem <> None.
Proof.
  induction fuel as [|fuel IH]; intros done rem Hnd Hlen [o [HP HT]].
  - destruct rem; simpl in *; [discriminate|lia].
  - destruct rem as [|p rem']; [simpl; discriminate|]. set (rem := p :: rem') in *.
    assert (E : order_loop (S fuel) d done rem =
                match pick d done rem with
                | None => None
                | Some (x, e) => match order_loop fuel d (x :: done) (remove_field x rem) with Some o => Some ((x, e) :: o) | None => None end
                end) by reflexivity.
    rewrite E.
    (* the head of the admissible order is ready, so pick succeeds *)
    destruct o as [|[x0 e0] t0]; [apply Permutation_nil in HP; discriminate|].
    pose proof HT as HT0. simpl in HT0. destruct HT0 as [Hd0 _].
    assert (Hin0 : In (x0, e0) rem) by (apply (Permutation_in _ HP); left; reflexivity).
    destruct (pick d done rem) as [[x e]|] eqn:Ep; [|exfalso; apply (pick_complete d done rem x0 e0 Hin0 Hd0); exact Ep].
    destruct (pick_spec _ _ _ _ _ Ep) as [Hin Hdeps].
    assert (Hrec : order_loop fuel d (x :: done) (remove_field x rem) <> None).
    { apply IH; [apply remove_field_nodup, Hnd|pose proof (remove_field_length x e rem Hin); lia|].
      (* take the admissible order and delete (x,e) from it *)
      assert (Hino : In (x, e) ((x0, e0) :: t0)) by (apply (Permutation_in _ (Permutation_sym HP)), Hin).
      apply in_split in Hino. destruct Hino as [o1 [o2 Eo]].
      exists (o1 ++ o2). split.
      - apply (Permutation_cons_inv (a := (x, e))).
        transitivity rem; [|apply remove_field_perm; assumption].
        transitivity ((x0, e0) :: t0); [rewrite Eo; apply Permutation_middle|exact HP].
      - apply topo_from_remove with (e := e); [exact Hdeps|]. rewrite <- Eo. exact HT. }
    destruct (order_loop fuel d (x :: done) (remove_field x rem)); [discriminate|congruence].
Qed.

(* ---------------------------------------------------------------- declarative semantics *)
(* [Ev outer d x e v]: expression e, occurring in the definition of field x of object d,
   denotes v.  Another field of the object denotes the value of ITS definition (the
   object's names shadow the enclosing scope); the field's own name, and names that are
   not fields, denote their value in the enclosing scope. *)
Inductive Ev (outer : list (nat * Z)) (d : list (nat * aexp)) : nat -> aexp -> Z -> Prop :=
| EvNum x z : Ev outer d x (Num z) z
| EvSelf x v : lookup x outer = Some v -> Ev outer d x (Var x) v
| EvField x y ey v : y <> x -> In (y, ey) d -> Ev outer d y ey v -> Ev outer d x (Var y) v
| EvOuter x y v : y <> x -> ~ In y (names d) -> lookup y outer = Some v -> Ev outer d x (Var y) v
| EvBin x o a b va vb v : Ev outer d x a va -> Ev outer d x b vb -> apply_op o va vb = Some v ->
                          Ev outer d x (Bin o a b) v.

Lemma names_unique (d : list (nat * aexp)) y e1 e2 : NoDup (names d) -> In (y, e1) d -> In (y, e2) d -> e1 = e2.
Proof.
  unfold names. induction d as [|[z ez] d IH]; simpl; intros Hnd H1 H2; [destruct H1|].
  inversion Hnd; subst. destruct H1 as [H1|H1], H2 as [H2|H2].
  - congruence.
  - inversion H1; subst. exfalso. apply H3. apply in_map_iff. exists (y, e2). tauto.
  - inversion H2; subst. exfalso. apply H3. apply in_map_iff. exists (y, e1). tauto.
  - apply IH; assumption.
Qed.

Theorem Ev_deterministic outer d : NoDup (names d) ->
  forall x e v, Ev outer d x e v -> forall v', Ev outer d x e v' -> v = v'.
Proof.
  intros Hnd x e v H.
  induction H as [x z|x v Hl|x y ey v Hne Hin Hev IH|x y v Hne Hnf Hl|x o a b va vb v Ha IHa Hb IHb Hop];
    intros v' H'; inversion H'; subst; try congruence;
    try (match goal with
         | Hn : ~ In ?y (names d), Hi : In (?y, ?e) d |- _ => exfalso; apply Hn; apply in_map_iff; exists (y, e); tauto
         end).
  - match goal with Hi2 : In (y, ?e2) d, He2 : Ev outer d y ?e2 v' |- _ =>
      rewrite <- (names_unique d y ey e2 Hnd Hin Hi2) in He2; apply IH; exact He2 end.
  - match goal with Ha' : Ev outer d x a ?va', Hb' : Ev outer d x b ?vb', Hop' : apply_op o ?va' ?vb' = Some v' |- _ =>
      rewrite <- (IHa _ Ha'), <- (IHb _ Hb') in Hop'; congruence end.
Qed.

Lemma Ev_perm outer d d' : Permutation d d' -> forall x e v, Ev outer d x e v -> Ev outer d' x e v.
Proof.
  intros HP x e v H. induction H.
  - constructor.
  - constructor; assumption.
  - eapply EvField; eauto. eapply Permutation_in; eassumption.
  - apply EvOuter; auto. intro Hin. apply H0. unfold names in *.
    apply (Permutation_in _ (Permutation_map fst (Permutation_sym HP))). exact Hin.
  - eapply EvBin; eauto.
Qed.

(* ---------------------------------------------------------------- evaluation in an admissible order is sound *)
(* state invariant: done fields hold their denotation; everything else is as in the enclosing scope *)
Definition st_inv (outer : list (nat * Z)) (d : list (nat * aexp)) (done : list nat) (st : list (nat * Z)) : Prop :=
  (forall y, In y done -> exists ey v, In (y, ey) d /\ lookup y st = Some v /\ Ev outer d y ey v) /\
  (forall y, ~ In y done -> lookup y st = lookup y outer).

Lemma eval_exp_sound outer d done st x e0 : st_inv outer d done st -> ~ In x done ->
  forall e v, (forall y, In y (vars e) -> In y (deps d x e0) \/ y = x \/ ~ In y (names d)) ->
  (forall y, In y (deps d x e0) -> In y done) ->
  (forall y, In y done -> In y (names d)) ->
  eval_exp st e = Some v -> Ev outer d x e v.
Proof.
  intros [I1 I2] Hx e. induction e as [z|y|o a IHa b IHb]; intros v Hv Hd Hdn He; simpl in He.
  - inversion He; subst. constructor.
  - destruct (Hv y (or_introl eq_refl)) as [Hy|[->|Hy]].
    + destruct (I1 y (Hd y Hy)) as [ey [w [Hin [Hl Hev]]]]. rewrite Hl in He. inversion He; subst.
      apply EvField with (ey := ey); auto. unfold deps in Hy. apply filter_In in Hy. destruct Hy as [_ Hy].
      apply andb_true_iff in Hy. destruct Hy as [_ Hy]. apply negb_true_iff, Nat.eqb_neq in Hy. exact Hy.
    + constructor. rewrite <- I2; assumption.
    + destruct (Nat.eq_dec y x) as [->|Hne]; [constructor; rewrite <- I2; assumption|].
      apply EvOuter; auto. rewrite <- I2; [exact He|]. intro Hdone. apply Hy, Hdn, Hdone.
  - destruct (eval_exp st a) as [va|] eqn:Ea; [|discriminate]. destruct (eval_exp st b) as [vb|] eqn:Eb; [|discriminate].
    apply EvBin with (va := va) (vb := vb); auto.
    + apply IHa; auto. intros y Hy. apply Hv. simpl. apply in_or_app. left; exact Hy.
    + apply IHb; auto. intros y Hy. apply Hv. simpl. apply in_or_app. right; exact Hy.
Qed.

Lemma vars_classify d x e y : In y (vars e) -> In y (deps d x e) \/ y = x \/ ~ In y (names d).
Proof.
  intros Hy. destruct (Nat.eq_dec y x) as [->|Hne]; [right; left; reflexivity|].
  destruct (memn y (names d)) eqn:E.
  - left. unfold deps. apply filter_In. split; [exact Hy|]. rewrite E. simpl. apply negb_true_iff, Nat.eqb_neq. exact Hne.
  - right. right. apply memn_false. exact E.
Qed.

Lemma lookup_cons_eq x v (st : list (nat * Z)) : lookup x ((x, v) :: st) = Some v.
Proof. simpl. rewrite Nat.eqb_refl. reflexivity. Qed.
Lemma lookup_cons_ne x y v (st : list (nat * Z)) : y <> x -> lookup y ((x, v) :: st) = lookup y st.
Proof. intros H. simpl. destruct (Nat.eqb_spec y x); [contradiction|reflexivity]. Qed.

Lemma eval_in_order_sound outer d o : forall done st st',
  NoDup (map fst o) -> (forall p, In p o -> In p d) -> (forall x, In x (map fst o) -> ~ In x done) ->
  (forall y, In y done -> In y (names d)) ->
  topo_from d done o -> st_inv outer d done st ->
  eval_in_order st o = Some st' -> st_inv outer d (rev (map fst o) ++ done) st'.
Proof.
  induction o as [|[x e] t IH]; intros done st st' Hnd Hsub Hfresh Hdn HT Hinv He; simpl in *.
  - inversion He; subst. exact Hinv.
  - destruct (eval_exp st e) as [v|] eqn:Ee; [|discriminate]. destruct HT as [Hdeps HT].
    inversion Hnd; subst.
    assert (Hx : ~ In x done) by (apply Hfresh; left; reflexivity).
    assert (Hev : Ev outer d x e v).
    { eapply eval_exp_sound; eauto. intros y Hy. apply vars_classify, Hy. }
    rewrite <- app_assoc. simpl.
    apply (IH (x :: done) ((x, v) :: st)); auto.
    + intros y Hy [<-|Hd]; [contradiction|]. apply (Hfresh y); [right; exact Hy|exact Hd].
    + intros y [<-|Hy]; [|apply Hdn, Hy]. apply in_map_iff. exists (x, e). split; [reflexivity|apply Hsub; left; reflexivity].
    + destruct Hinv as [I1 I2]. split.
      * intros y [<-|Hy].
        -- exists e, v. split; [apply Hsub; left; reflexivity|]. split; [apply lookup_cons_eq|exact Hev].
        -- destruct (I1 y Hy) as [ey [w [A [B C]]]]. exists ey, w. split; [exact A|]. split; [|exact C].
           rewrite lookup_cons_ne; [exact B|]. intros ->. contradiction.
      * intros y Hy. rewrite lookup_cons_ne; [apply I2; intro; apply Hy; right; assumption|].
        intros ->. apply Hy. left; reflexivity.
Qed.

Theorem eval_object_sound outer d st : NoDup (names d) -> eval_object outer d = OK st ->
  (forall x e, In (x, e) d -> exists v, lookup x st = Some v /\ Ev outer d x e v) /\
  (forall y, ~ In y (names d) -> lookup y st = lookup y outer).
Proof.
  intros Hnd H. unfold eval_object in H. destruct (field_order d) as [o|] eqn:Eo; [|discriminate].
  destruct (eval_in_order outer o) as [st'|] eqn:Ee; [|discriminate]. inversion H; subst st'.
  unfold field_order in Eo. destruct (order_loop_sound d _ _ _ _ Hnd Eo) as [HP HT].
  assert (Hinv0 : st_inv outer d [] outer) by (split; [intros y []|reflexivity]).
  assert (HndO : NoDup (map fst o)) by (apply (Permutation_NoDup (Permutation_map fst (Permutation_sym HP))), Hnd).
  pose proof (eval_in_order_sound outer d o [] outer st HndO
                (fun p Hp => Permutation_in _ HP Hp) (fun x _ H0 => H0) (fun y H0 => match H0 with end) HT Hinv0 Ee) as [J1 J2].
  rewrite app_nil_r in *. split.
  - intros x e Hin. assert (Hx : In x (rev (map fst o))).
    { apply in_rev. rewrite rev_involutive. apply (Permutation_in _ (Permutation_map fst (Permutation_sym HP))).
      apply in_map_iff. exists (x, e). tauto. }
    destruct (J1 x Hx) as [ey [v [A [B C]]]]. rewrite (names_unique d x e ey Hnd Hin A). exists v. tauto.
  - intros y Hy. apply J2. intro Hin. apply Hy. apply in_rev in Hin.
    apply (Permutation_in _ (Permutation_map fst HP)). exact Hin.
Qed.

(* written in any key order: same values *)
Theorem key_order_irrelevant outer d d' st st' : NoDup (names d) -> Permutation d d' ->
  eval_object outer d = OK st -> eval_object outer d' = OK st' -> forall x, lookup x st = lookup x st'.
Proof.
  intros Hnd HP H H' x.
  assert (Hnd' : NoDup (names d')) by (apply (Permutation_NoDup (Permutation_map fst HP)), Hnd).
  destruct (eval_object_sound outer d st Hnd H) as [A1 A2]. destruct (eval_object_sound outer d' st' Hnd' H') as [B1 B2].
  destruct (in_dec Nat.eq_dec x (names d)) as [Hin|Hout].
  - apply in_map_iff in Hin. destruct Hin as [[x' e] [E Hin]]. simpl in E; subst x'.
    destruct (A1 x e Hin) as [v [L1 E1]]. destruct (B1 x e (Permutation_in _ HP Hin)) as [v' [L2 E2]].
    rewrite L1, L2. f_equal. apply (Ev_deterministic outer d' Hnd' x e v (Ev_perm outer d d' HP _ _ _ E1) v' E2).
  - rewrite A2 by exact Hout. rewrite B2; [reflexivity|]. intro Hin. apply Hout.
    apply (Permutation_in _ (Permutation_map fst (Permutation_sym HP))). exact Hin.
Qed.

(* cycles: the worklist fails exactly when no admissible order exists *)
Theorem cycle_iff d : NoDup (names d) ->
  (field_order d = None <-> ~ exists o, Permutation o d /\ topo_from d [] o).
Proof.
  intros Hnd. unfold field_order. split.
  - intros H [o Ho]. apply (order_loop_complete d (length d) [] d Hnd (le_n _)); [exists o; exact Ho|exact H].
  - intros H. destruct (order_loop (length d) d [] d) as [o|] eqn:E; [|reflexivity].
    exfalso. apply H. exists o. apply (order_loop_sound d _ _ _ _ Hnd E).
Qed.
