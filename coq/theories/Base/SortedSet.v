(* Sorted duplicate-free lists of Z: the model of Python's  sorted(set(...)). *)
From AF Require Import Base.Tactics.
Open Scope Z_scope.

Fixpoint insert_uniq (x : Z) (l : list Z) : list Z :=
  match l with
  | [] => [x]
  | y :: t => if x <? y then x :: l else if x =? y then l else y :: insert_uniq x t
  end.

Definition sort_uniq (l : list Z) : list Z := fold_right insert_uniq [] l.

Fixpoint memZ (x : Z) (l : list Z) : bool :=
  match l with [] => false | y :: t => (x =? y) || memZ x t end.

Lemma memZ_In x l : memZ x l = true <-> In x l.
Proof.
  induction l as [|y t IH]; simpl; [intuition congruence|].
  rewrite orb_true_iff, IH, Z.eqb_eq. intuition.
Qed.

Lemma insert_uniq_In x y l : In y (insert_uniq x l) <-> y = x \/ In y l.
Proof.
  induction l as [|z t IH]; simpl; [intuition|].
  destruct (x <? z) eqn:E1; simpl; [intuition|].
  destruct (x =? z) eqn:E2; simpl.
  - apply Z.eqb_eq in E2; subst. intuition.
  - rewrite IH. intuition.
Qed.

Lemma sort_uniq_In y l : In y (sort_uniq l) <-> In y l.
Proof.
  induction l as [|x t IH]; simpl; [tauto|].
  rewrite insert_uniq_In, IH. intuition.
Qed.

Inductive inc : list Z -> Prop :=
| inc_nil : inc []
| inc_one x : inc [x]
| inc_cons x y l : x < y -> inc (y :: l) -> inc (x :: y :: l).

Lemma inc_tail x l : inc (x :: l) -> inc l.
Proof. inversion 1; subst; [constructor | assumption]. Qed.

Lemma insert_uniq_inc x l : inc l -> inc (insert_uniq x l).
Proof.
  induction 1 as [|z|z w t Hzw Ht IH]; simpl.
  - constructor.
  - destruct (x <? z) eqn:E1; [constructor; [lia|constructor]|].
    destruct (x =? z) eqn:E2; [constructor|]. constructor; [lia|constructor].
  - destruct (x <? z) eqn:E1; [constructor; [lia|constructor; assumption]|].
    destruct (x =? z) eqn:E2; [constructor; assumption|].
    simpl in IH. destruct (x <? w) eqn:E3.
    + constructor; [lia|]. exact IH.
    + destruct (x =? w) eqn:E4; constructor; try lia; exact IH.
Qed.

Lemma sort_uniq_inc l : inc (sort_uniq l).
Proof. induction l; simpl; [constructor | apply insert_uniq_inc; assumption]. Qed.

Lemma inc_lt_all x l : inc (x :: l) -> forall y, In y l -> x < y.
Proof.
  revert x; induction l as [|z t IH]; intros x H y Hy; [destruct Hy|].
  inversion H; subst. destruct Hy as [->|Hy]; [assumption|].
  assert (z < y) by (apply IH; assumption). lia.
Qed.

Lemma inc_NoDup l : inc l -> NoDup l.
Proof.
  induction l as [|x t IH]; intros H; constructor.
  - intro Hin. pose proof (inc_lt_all _ _ H _ Hin). lia.
  - apply IH. eapply inc_tail; eassumption.
Qed.

(* two increasing lists with the same members are equal: a sorted set is canonical *)
Lemma inc_ext l1 : forall l2, inc l1 -> inc l2 -> (forall x, In x l1 <-> In x l2) -> l1 = l2.
Proof.
  induction l1 as [|a t IH]; intros [|b u] H1 H2 E; try reflexivity.
  - exfalso. apply (proj2 (E b)). left; reflexivity.
  - exfalso. apply (proj1 (E a)). left; reflexivity.
  - assert (a = b).
    { destruct (proj1 (E a) (or_introl eq_refl)) as [->|Ha]; [reflexivity|].
      destruct (proj2 (E b) (or_introl eq_refl)) as [->|Hb]; [reflexivity|].
      pose proof (inc_lt_all _ _ H1 _ Hb). pose proof (inc_lt_all _ _ H2 _ Ha). lia. }
    subst. f_equal. apply IH; try (eapply inc_tail; eassumption).
    intro x. split; intro Hx.
    + destruct (proj1 (E x) (or_intror Hx)) as [->|]; [|assumption].
      pose proof (inc_lt_all _ _ H1 _ Hx). lia.
    + destruct (proj2 (E x) (or_intror Hx)) as [->|]; [|assumption].
      pose proof (inc_lt_all _ _ H2 _ Hx). lia.
Qed.
