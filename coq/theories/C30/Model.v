(* C30 model — _network.py: MeshTopologyModel / AllToAllTopologyModel.per_loop_transfer_cost
   for a non-distributed source, against explicit route enumeration.
   n destinations at positions 0, s, ..., (n-1)s on a line; the source sits with destination 0.
   Unit link p joins positions p and p+1.  Everything is counted per unit of volume; the
   code multiplies by the volume. *)
From Coq Require Import List Arith Lia.
Import ListNotations.

(* ---- closed forms, as coded (per unit volume).  Unicast total is returned doubled to stay in nat:
        arithmetic_sum(n-1) * stride = 0.5 * n * (n-1) * stride *)
Definition impl_mesh_multicast (n s : nat) : nat * nat := ((n - 1) * s, 1).          (* total, max_traffic *)
Definition impl_mesh_unicast2 (n s : nat) : nat * nat := (n * (n - 1) * s, n - 1).   (* 2*total, max_traffic *)
Definition impl_switch_multicast (n : nat) : nat * nat := (n - 1, 1).
Definition impl_switch_unicast (n : nat) : nat * nat := (n - 1, n - 1).

(* ---- route enumeration *)
Definition route := list nat.                              (* the links a value traverses *)
Definition total_hops (rs : list route) : nat := fold_right (fun r acc => length r + acc) 0 rs.
Definition load (p : nat) (rs : list route) : nat :=
  length (filter (fun r => existsb (Nat.eqb p) r) rs).
Definition max_load (links : list nat) (rs : list route) : nat :=
  fold_right (fun p acc => Nat.max (load p rs) acc) 0 links.

(* mesh: a shared value travels once along the line to the farthest destination *)
Definition mesh_links (n s : nat) : list nat := seq 0 ((n - 1) * s).
Definition mesh_multicast_routes (n s : nat) : list route := [seq 0 ((n - 1) * s)].
(* mesh: destination i (i = 1 .. n-1) receives its own value along the shortest line route 0 -> i*s *)
Definition mesh_unicast_routes (n s : nat) : list route := map (fun i => seq 0 (i * s)) (seq 1 (n - 1)).

(* switch: link 0 is the source's uplink, link i the downlink of destination i; one delivery = one hop
   (one switch traversal).  Multicast: the switch replicates one uplink message. *)
Definition switch_links (n : nat) : list nat := if Nat.leb n 1 then [] else seq 0 n.
Definition switch_deliveries (n : nat) : nat := n - 1.
Definition switch_load_multicast (n p : nat) : nat := if Nat.leb n 1 then 0 else 1.
Definition switch_load_unicast (n p : nat) : nat := if Nat.eqb p 0 then n - 1 else 1.
Definition switch_max (n : nat) (ld : nat -> nat) : nat := fold_right (fun p acc => Nat.max (ld p) acc) 0 (switch_links n).
