"""C29 — renames resolve with per-Einsum entries overriding defaults."""
import json

import common
import gen_arch
import gen_workload
import c22

TRUSTED = [
    "modelled: Renames.get_renames_for_einsum and the 'append if the name is not there yet' merging of Einsum._eval_expressions, the expected_count check of Rename; "
    "sources are C22 set expressions over the built-in named sets (a rename referring to another rename is outside the model)",
    "rank-variable renames are outside the model (tensor renames only)",
]


def rname(k):
    return f"r{k}"


def gen_table(rng, tensors, names, p=0.6):
    # sources use the named sets only: while renames are evaluated, tensors of OTHER Einsums are not bound yet
    return [(k, c22.gen_tree(rng, [], depth=2), None) for k in names if rng.random() < p]


def coq_table(tab):
    return "[" + "; ".join(f"mkren {k}%nat {c22.coq_tree(t)} {'None' if c is None else f'(Some {c}%nat)'}" for k, t, c in tab) + "]"


def as_yaml_list(tab):
    out = []
    for k, t, c in tab:
        d = {"name": rname(k), "source": c22.render_min(t)}
        if c is not None:
            d["expected_count"] = c
        out.append(d)
    return out


def first_defined(n, local, tope, topd):
    for tab in (local, tope, topd):
        for k, t, c in tab:
            if k == n:
                return (k, t, c)
    return None


def merged(local, tope, topd):
    cur = list(local)
    extra = list(tope)
    for r in topd:
        if all(r[0] != x[0] for x in extra):
            extra.append(r)
    for r in extra:
        if all(r[0] != x[0] for x in cur):
            cur.append(r)
    return cur


def run(ck):
    af = gen_arch.load()
    import accelforge.frontend.arch as A
    from accelforge.frontend.renames import Renames
    from accelforge.util._eval_expressions import EvaluationError
    ck.prove()
    rng = ck.rng("renames")
    exprs, keys = [], []
    for _ in range(ck.n(120, 1500)):
        w = gen_workload.random_workload(rng)
        tensors = sorted({t for e in w for t, _, _ in e})
        names = list(range(4))
        topd = gen_table(rng, tensors, names, 0.6) if rng.random() < 0.8 else None
        tope = {i: gen_table(rng, tensors, names, 0.5) for i in range(len(w)) if rng.random() < 0.6}
        local = {i: gen_table(rng, tensors, names, 0.3) for i in range(len(w))}
        # expected_count: mostly right, sometimes absent, rarely wrong (only in one Einsum's visible tables)
        wrong_in = rng.randrange(len(w)) if rng.random() < 0.2 else None
        def fill(tab, i_for):
            out = []
            for k, t, _ in tab:
                if rng.random() < 0.5:
                    out.append((k, t, None))
                    continue
                ns, al = c22.named_sets(w, i_for if i_for is not None else 0)
                n = len(c22.oracle_eval(t, ns, al))
                out.append((k, t, n))
            return out
        tope = {i: fill(t, i) for i, t in tope.items()}
        local = {i: fill(t, i) for i, t in local.items()}
        if topd is not None:
            topd = [(k, t, None) for k, t, _ in topd]
        if wrong_in is not None:
            tab = local[wrong_in] or tope.get(wrong_in)
            if tab:
                k, t, c = tab[0]
                ns, al = c22.named_sets(w, wrong_in)
                true_n = len(c22.oracle_eval(t, ns, al))
                tab[0] = (k, t, 0 if (true_n > 0 and rng.random() < 0.5) else true_n + 1)
            else:
                wrong_in = None
        top_list = ([{"name": "default", "tensor_accesses": as_yaml_list(topd)}] if topd is not None else []) + \
                   [{"name": f"E{i}", "tensor_accesses": as_yaml_list(t)} for i, t in tope.items()]
        if rng.random() < 0.5:
            top_list.reverse()  # the position of the default entry must not matter
        try:
            wl = gen_workload.to_workload(w, af, renames={i: as_yaml_list(t) for i, t in local.items()})
            arch = A.Arch(nodes=[A.Memory(name="Mem", size=1000, actions=[{"name": "read", "energy": 1, "throughput": 1}, {"name": "write", "energy": 1, "throughput": 1}], area=1, leak_power=0),
                                 A.Compute(name="MAC", actions=[{"name": "compute", "energy": 1, "throughput": 1}], area=1, leak_power=0)])
            spec = af["Spec"](arch=arch, workload=wl, renames=Renames(einsums=top_list))
        except Exception as ex:  # noqa
            ck.failing_input({"workload": w, "why": f"construction failed: {type(ex).__name__}: {ex}"}, what="spec construction failed")
            continue
        snap0 = json.dumps(spec.renames.model_dump(), sort_keys=True, default=str)
        phases = [(1, topd)]
        if topd is not None and rng.random() < 0.5:
            phases.append((2, [(k, t, None) for k, t, _ in gen_table(rng, tensors, names, 0.7)]))
        for phase, topd in phases:
          if phase == 2:
            # evaluation must not have modified the user's spec; then the default entry is replaced IN PLACE and everything is resolved again
            if json.dumps(spec.renames.model_dump(), sort_keys=True, default=str) != snap0:
                ck.failing_input({"workload": w, "top_level": top_list, "why": "evaluating the spec modified spec.renames"},
                                 what="rename resolution: evaluating the spec modified the user's top-level renames (stale entries survive later edits)")
            idx = [j for j, e in enumerate(spec.renames.einsums) if e.name == "default"][0]
            spec.renames.einsums[idx] = Renames(einsums=[{"name": "default", "tensor_accesses": as_yaml_list(topd)}]).einsums[0]
            top_list = [dict(e, tensor_accesses=as_yaml_list(topd)) if e["name"] == "default" else e for e in top_list]
          for i in range(len(w)):
              ns, al = c22.named_sets(w, i)
              m = merged(local[i], tope.get(i, []), topd or [])
              mismatch = any(c is not None and len(c22.oracle_eval(t, ns, al)) != c for _, t, c in m)
              try:
                  ev = spec._spec_eval_expressions(einsum_name=f"E{i}")
                  ren = ev.workload.einsums[f"E{i}"].renames
                  got = {}
                  for k in names:
                      try:
                          got[k] = {int(x[1:]) for x in ren[rname(k)].source.instance}
                      except KeyError:
                          got[k] = None
              except EvaluationError:
                  got = "rejected"
              except Exception as ex:  # noqa
                  got = f"EXC {type(ex).__name__}: {str(ex)[:100]}"
              ck.case((json.dumps(w), i, json.dumps([as_yaml_list(local[i]), top_list])), nontrivial=bool(tope.get(i)) and topd is not None,
                      sample={"einsum": i, "local": as_yaml_list(local[i]), "top_level": top_list})
              bad = None
              if mismatch:
                  if got != "rejected":
                      bad = "an expected_count that does not match was not rejected"
              elif wrong_in is not None and got == "rejected":
                  pass  # another Einsum of the same workload carries the wrong count: the whole evaluation is rejected
              elif not isinstance(got, dict):
                  bad = f"evaluation failed: {got}"
              else:
                  for k in names:
                      fd = first_defined(k, local[i], tope.get(i, []), topd or [])
                      exp = None if fd is None else c22.oracle_eval(fd[1], ns, al)
                      if got[k] != exp:
                          src = "local" if any(x[0] == k for x in local[i]) else "top-level entry of the Einsum" if any(x[0] == k for x in tope.get(i, [])) else "default"
                          bad = f"{rname(k)} resolves to {sorted(got[k]) if got[k] is not None else None}, expected {sorted(exp) if exp is not None else None} (from {src})"
              if bad:
                  ck.failing_input({"workload": w, "einsum": i, "local": as_yaml_list(local[i]), "top_level": top_list, "why": bad}, what="rename resolution: " + bad)
              wc = gen_workload.to_coq(w)
              exprs.append("(map (fun n => match resolve %s (nth %d %s []) %s %s %s n with Val s => (0%%nat, s) | Unbound => (1%%nat, []) | Bad => (2%%nat, []) end) [0%%nat; 1%%nat; 2%%nat; 3%%nat])"
                           % (wc, i, wc, coq_table(local[i]), coq_table(tope.get(i, [])), coq_table(topd or [])))
              keys.append((w, i, got, wrong_in is not None and not mismatch))
    B = 10
    vals = [v for b in common.run_coq_eval("C29", ["AF.C22.Model", "AF.C29.Model"], ["[" + "; ".join(exprs[k:k + B]) + "]" for k in range(0, len(exprs), B)], chunk=10) for v in b]
    mism = []
    for (w, i, got, other_wrong), m in zip(keys, vals):
        if got == "rejected":
            if not other_wrong and not all(code == 2 for code, _ in m):
                mism.append({"workload": w, "einsum": i, "impl": "rejected", "model": str(m)})
            continue
        if not isinstance(got, dict):
            continue
        for k, (code, s) in enumerate(m):
            mv = set(s) if code == 0 else None
            if code == 2 or mv != got[k]:
                mism.append({"workload": w, "einsum": i, "name": rname(k), "impl": str(got[k]), "model": str((code, s))})
    ck.count("model_vs_impl_compared", len(keys))
    ck.count("model_vs_impl_mismatches", len(mism))
    if mism and not ck.violations:
        ck.unexplained("broken-correspondence", {"mismatches": mism[:3]}, what="model rename resolution != implementation")
    return ck.finish(
        rule="random workloads with random rename tables (names r0-r3, sources = random set expressions) in the top-level 'default' entry, in top-level per-Einsum entries "
             "and inside the Einsums; expected_count absent, right, or (20% of specs) wrong in one Einsum; resolution read back from the evaluated Einsum; "
             "non-trivial = the Einsum has both a per-Einsum top-level entry and a default entry",
        trusted=TRUSTED,
        extra={"source_fingerprint": [common.fingerprint("accelforge/frontend/renames.py", ["Renames", "Rename"]),
                                      common.fingerprint("accelforge/frontend/workload.py", ["Einsum"])]})


def replay(ck, data):
    print("replay: re-run ./check C29 with the recorded seed")
    return 0
