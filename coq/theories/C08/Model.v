(* C08 model — symbol-by-symbol tile-shape enumeration with Pareto pruning of partial assignments.
   A partial assignment is the list of values chosen so far; [next] gives the candidates of the next symbol (they may
   depend on the prefix: a tile must divide the one it tiles); after every symbol the partial assignments are pruned on a
   criteria vector [crit] (the partially evaluated objectives and usages the code compares), keeping the first of equals. *)
From AF Require Import Base.Tactics Lib.Pareto Lib.Front.
Open Scope Z_scope.

Section Enum.
  Variable next : list Z -> list Z.          (* candidates of the next symbol after a prefix *)
  Variable valid : list Z -> bool.           (* full assignment within every limit *)
  Variable obj : list Z -> vec.              (* objective vector of a full assignment *)
  Variable crit : list Z -> vec.             (* pruning criteria of a partial assignment *)

  (* all full extensions of a prefix by k more symbols: the exhaustive enumeration *)
  Fixpoint exts (k : nat) (p : list Z) : list (list Z) :=
    match k with O => [p] | S k' => flat_map (fun v => exts k' (p ++ [v])) (next p) end.

  Fixpoint prune_aux (all seen rest : list (list Z)) : list (list Z) :=
    match rest with
    | [] => []
    | p :: r =>
        if existsb (fun q => dom (crit q) (crit p)) all || existsb (fun q => veq (crit q) (crit p)) seen
        then prune_aux all (p :: seen) r else p :: prune_aux all (p :: seen) r
    end.
  Definition prune (L : list (list Z)) : list (list Z) := prune_aux L [] L.

  Definition expand (K : list (list Z)) : list (list Z) := flat_map (fun p => map (fun v => p ++ [v]) (next p)) K.
  Fixpoint stages (n : nat) (K : list (list Z)) : list (list Z) :=
    match n with O => K | S n' => stages n' (prune (expand K)) end.

  (* what the pruned exploration emits / what exhaustive enumeration emits, for n symbols *)
  Definition pruned_vectors (n : nat) : list vec := map obj (filter valid (stages n [[]])).
  Definition exhaustive_vectors (n : nat) : list vec := map obj (filter valid (exts n [])).

  (* boolean soundness check of the criteria on the n-symbol space (for concrete instances) *)
  Definition sound_at (j k : nat) : bool :=
    forallb (fun p => forallb (fun q => negb (vle (crit q) (crit p)) ||
      forallb (fun a => negb (valid a) || existsb (fun b => valid b && vle (obj b) (obj a)) (exts k q)) (exts k p)) (exts j [])) (exts j []).
  Definition sound_b (n : nat) : bool := forallb (fun j => sound_at j (n - j)) (seq 0 (S n)).
End Enum.
