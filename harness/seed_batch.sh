#!/bin/bash
# usage: seed_batch.sh C10 C11 ...   (evaluates /tmp/seedout/<pid>/patch{1,2}.diff against the scratch worktree /tmp/wt/seedrun)
export VERIF_REPO=${VERIF_REPO:-/tmp/wt/seedrun}
mkdir -p /verif/build/seedlogs
for p in "$@"; do for k in 1 2; do
  if [ -f /tmp/seedout/$p/patch$k.diff ] && [ -f /tmp/seedout/$p/demo$k.py ]; then
    /venv/bin/python /verif/harness/seed_eval.py $p /tmp/seedout/$p $k > /verif/build/seedlogs/$p-$k.json 2>&1
    echo "$p-$k: $(grep -o '"detected": [a-z]*' /verif/build/seedlogs/$p-$k.json) $(grep -c 'NOT KEPT' /verif/build/seedlogs/$p-$k.json)"
  fi
done; done
