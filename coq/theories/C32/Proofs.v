From Coq Require Import List Arith Lia Permutation.
Import ListNotations.
From AF Require Import C32.Model.

Section Proofs.
Context {R : Type}.

Lemma set_nth_length i v (l : list (option R)) : length (set_nth i v l) = length l.
Proof. revert i. induction l as [|x l IH]; intros [|i]; simpl; auto. Qed.

Lemma nth_set_nth_same i v (l : list (option R)) : i < length l -> nth_error (set_nth i v l) i = Some v.
Proof. revert i. induction l as [|x l IH]; intros [|i] H; simpl in *; try lia; [reflexivity|apply IH; lia]. Qed.

Lemma nth_set_nth_other i j v (l : list (option R)) : i <> j -> nth_error (set_nth i v l) j = nth_error l j.
Proof. revert i j. induction l as [|x l IH]; intros [|i] [|j] H; simpl; try reflexivity; try lia. apply IH. lia. Qed.

Fixpoint last_for (i : nat) (arr : list (nat * R)) : option R :=
  match arr with
  | [] => None
  | (j, r) :: t => match last_for i t with Some r' => Some r' | None => if Nat.eqb i j then Some r else None end
  end.

Lemma fold_collect arr : forall acc i, i < length acc ->
  nth_error (fold_left (fun a ir => set_nth (fst ir) (Some (snd ir)) a) arr acc) i =
  match last_for i arr with Some r => Some (Some r) | None => nth_error acc i end.
Proof.
  induction arr as [|[j r] arr IH]; intros acc i Hi; simpl; [reflexivity|].
  rewrite IH by (rewrite set_nth_length; exact Hi).
  destruct (last_for i arr); [reflexivity|].
  destruct (Nat.eqb_spec i j) as [->|Hne]; simpl.
  - apply nth_set_nth_same. exact Hi.
  - apply nth_set_nth_other. lia.
Qed.

Lemma last_for_unique i r (arr : list (nat * R)) : NoDup (map fst arr) -> In (i, r) arr -> last_for i arr = Some r.
Proof.
  induction arr as [|[j q] arr IH]; intros Hnd Hin; [destruct Hin|]. simpl in *. inversion Hnd; subst.
  destruct Hin as [Hin|Hin].
  - inversion Hin; subst. assert (last_for i arr = None) as ->.
    { clear -H1. induction arr as [|[j q'] arr IH]; simpl in *; [reflexivity|].
      rewrite IH by tauto. destruct (Nat.eqb_spec i j); [subst; tauto|reflexivity]. }
    rewrite Nat.eqb_refl. reflexivity.
  - rewrite (IH H2 Hin). reflexivity.
Qed.

Lemma list_ext_nth {A} (l1 : list A) : forall l2, length l1 = length l2 ->
  (forall i, i < length l1 -> nth_error l1 i = nth_error l2 i) -> l1 = l2.
Proof.
  induction l1 as [|a l1 IH]; intros [|b l2] Hl H; simpl in *; try discriminate; [reflexivity|].
  pose proof (H 0 ltac:(lia)) as H0. simpl in H0. inversion H0; subst. f_equal.
  apply IH; [lia|]. intros i Hi. apply (H (S i)). lia.
Qed.

Lemma fold_collect_length arr : forall acc : list (option R),
  length (fold_left (fun a ir => set_nth (fst ir) (Some (snd ir)) a) arr acc) = length acc.
Proof. induction arr as [|a arr IH]; intros acc; simpl; [reflexivity|]. rewrite IH, set_nth_length. reflexivity. Qed.

Lemma combine_seq_nth (rs : list R) : forall k i r, nth_error rs i = Some r -> In (k + i, r) (combine (seq k (length rs)) rs).
Proof.
  induction rs as [|x rs IH]; intros k [|i] r H; simpl in *; try discriminate.
  - inversion H; subst. left. f_equal. lia.
  - right. replace (k + S i) with (S k + i) by lia. apply IH, H.
Qed.

Lemma map_fst_combine_seq (rs : list R) k : map fst (combine (seq k (length rs)) rs) = seq k (length rs).
Proof. revert k. induction rs as [|x rs IH]; intros k; simpl; [reflexivity|]. rewrite IH. reflexivity. Qed.

Theorem collect_correct (rs : list R) (arrivals : list (nat * R)) :
  Permutation arrivals (combine (seq 0 (length rs)) rs) ->
  collect (length rs) arrivals = map Some rs.
Proof.
  intros HP. unfold collect. apply list_ext_nth.
  - rewrite fold_collect_length, repeat_length, map_length. reflexivity.
  - intros i Hi. rewrite fold_collect_length, repeat_length in Hi.
    rewrite fold_collect by (rewrite repeat_length; exact Hi).
    destruct (nth_error rs i) as [r|] eqn:Er; [|apply nth_error_None in Er; lia].
    assert (Hin : In (i, r) arrivals).
    { apply (Permutation_in _ (Permutation_sym HP)). apply (combine_seq_nth rs 0 i r Er). }
    assert (Hnd : NoDup (map fst arrivals)).
    { apply (Permutation_NoDup (Permutation_map fst (Permutation_sym HP))). rewrite map_fst_combine_seq. apply seq_NoDup. }
    rewrite (last_for_unique i r arrivals Hnd Hin). rewrite nth_error_map, Er. reflexivity.
Qed.

(* ---------------------------------------------------------------- dict jobs *)
Lemma dict_get_put k k' v (d : list (nat * R)) :
  dict_get k (dict_put k' v d) = if Nat.eqb k k' then Some v else dict_get k d.
Proof.
  induction d as [|[k2 v2] d IH]; simpl.
  - destruct (Nat.eqb k k'); reflexivity.
  - destruct (Nat.eqb_spec k' k2) as [->|H]; simpl.
    + destruct (Nat.eqb_spec k k2); reflexivity.
    + rewrite IH. destruct (Nat.eqb_spec k k2) as [->|H2]; [|reflexivity].
      destruct (Nat.eqb_spec k2 k'); [congruence|reflexivity].
Qed.

Lemma fold_dict arr : forall d k,
  dict_get k (fold_left (fun acc kv => dict_put (fst kv) (snd kv) acc) arr d) =
  match last_for k arr with Some r => Some r | None => dict_get k d end.
Proof.
  induction arr as [|[j r] arr IH]; intros d k; simpl; [reflexivity|].
  rewrite IH. destruct (last_for k arr); [reflexivity|]. rewrite dict_get_put. simpl. destruct (Nat.eqb k j); reflexivity.
Qed.

Lemma map_combine_some (f : nat -> option R) keys : forall vals, length keys = length vals ->
  (forall k v, In (k, v) (combine keys vals) -> f k = Some v) ->
  map (fun k => (k, f k)) keys = combine keys (map Some vals).
Proof.
  induction keys as [|k keys IH]; intros [|v vals] Hl H; simpl in *; try discriminate; [reflexivity|].
  rewrite (H k v) by (left; reflexivity). f_equal. apply IH; [lia|]. intros; apply H; right; assumption.
Qed.

Theorem collect_dict_correct keys (vals : list R) arrivals :
  NoDup keys -> length keys = length vals ->
  Permutation arrivals (combine keys vals) ->
  collect_dict keys arrivals = combine keys (map Some vals).
Proof.
  intros Hnd Hl HP. unfold collect_dict. apply map_combine_some; [exact Hl|].
  intros k v Hin. rewrite fold_dict.
  assert (Hnd' : NoDup (map fst arrivals)).
  { apply (Permutation_NoDup (Permutation_map fst (Permutation_sym HP))).
    clear -Hnd Hl. revert vals Hl. induction keys as [|k keys IH]; intros [|v vals] Hl; simpl in *; try discriminate; [constructor|].
    inversion Hnd; subst. constructor; [|apply IH; [assumption|lia]].
    intro Hin. apply H1. apply in_map_iff in Hin. destruct Hin as [[k' v'] [E Hin]]. simpl in E; subst. apply in_combine_l in Hin. exact Hin. }
  rewrite (last_for_unique k v arrivals Hnd' (Permutation_in _ (Permutation_sym HP) Hin)). reflexivity.
Qed.
End Proofs.
