From AF Require Import Base.Tactics Base.ListAux Base.SortedSet C10.Model.
Open Scope Z_scope.
Ltac Zify.zify_post_hook ::= Z.to_euclidean_division_equations.

Lemma range1_In k x : In x (range1 k) <-> 1 <= x <= Z.of_nat k.
Proof.
  unfold range1. rewrite in_map_iff. split.
  - intros [i [<- Hi]]. apply in_seq in Hi. lia.
  - intros H. exists (Z.to_nat x). split; [lia|]. apply in_seq. lia.
Qed.

Lemma range1_NoDup k : NoDup (range1 k).
Proof.
  unfold range1. apply FinFun.Injective_map_NoDup; [|apply seq_NoDup].
  intros a b H. lia.
Qed.

Lemma cdiv_exact n i : 0 < i -> n mod i = 0 -> cdiv n i = n / i.
Proof. intros Hi Hm. unfold cdiv. nia. Qed.

Lemma cdiv_spec a b : 0 < b -> 0 <= a -> b * (cdiv a b - 1) < a <= b * cdiv a b \/ (a = 0 /\ cdiv a b = 0).
Proof. intros Hb Ha. unfold cdiv. nia. Qed.

Lemma cdiv_pos a b : 0 < b -> 0 < a -> 1 <= cdiv a b.
Proof. intros. unfold cdiv. nia. Qed.

Lemma cdiv_le a b : 0 < b -> 0 < a -> cdiv a b <= a.
Proof. intros. unfold cdiv. nia. Qed.

Lemma cdiv_ub a b k : 0 < b -> a <= b * k -> cdiv a b <= k.
Proof. intros. unfold cdiv. nia. Qed.

Lemma cdiv_lb a b k : 0 < b -> b * k < a + b -> k <= cdiv a b.
Proof. intros. unfold cdiv. nia. Qed.

Lemma sqrt_up_sq n : 0 < n -> n <= sqrt_up n * sqrt_up n /\ 0 < sqrt_up n.
Proof.
  intros Hn. unfold sqrt_up. pose proof (Z.sqrt_up_spec n Hn) as H.
  split; [|pose proof (Z.sqrt_up_pos n); lia]. 
  replace (Z.sqrt_up n * Z.sqrt_up n) with ((Z.sqrt_up n)^2) by ring.
  replace ((Z.pred (Z.sqrt_up n)) ^ 2) with (Z.pred (Z.sqrt_up n) * Z.pred (Z.sqrt_up n)) in H by ring.
  lia.
Qed.

(* ---------------------------------------------------------------- factorize *)

Lemma factorize_In n d : 0 < n -> (In d (factorize n) <-> 0 < d /\ (d | n)).
Proof.
  intros Hn. unfold factorize. rewrite sort_uniq_In, in_flat_map.
  destruct (sqrt_up_sq n Hn) as [Hs Hs0].
  split.
  - intros [i [Hi Hd]]. apply range1_In in Hi.
    destruct (n mod i =? 0) eqn:E; [|destruct Hd].
    apply Z.eqb_eq in E. rewrite cdiv_exact in Hd by lia.
    destruct Hd as [ <- | [ <- | [] ] ].
    + split; [lia|]. apply Z.mod_divide; lia.
    + assert (n = i * (n / i)) by (apply Z_div_exact_full_2; lia).
      split; [nia|]. exists i. lia.
  - intros [Hd [q Hq]].
    assert (Hq0 : 0 < q) by nia.
    destruct (Z_le_gt_dec d (sqrt_up n)) as [Hle|Hgt].
    + exists d. split; [apply range1_In; lia|].
      assert (E : n mod d = 0) by (subst n; apply Z_mod_mult).
      rewrite E. simpl. left; reflexivity.
    + assert (q <= sqrt_up n) by nia.
      exists q. split; [apply range1_In; lia|].
      assert (E : n mod q = 0) by (subst n; rewrite Z.mul_comm; apply Z_mod_mult).
      rewrite E. simpl. right; left.
      rewrite cdiv_exact by lia. subst n. rewrite Z.mul_comm. apply Z_div_mult; lia.
Qed.

Lemma factorize_inc n : inc (factorize n).
Proof. apply sort_uniq_inc. Qed.

(* ---------------------------------------------------------------- perfect candidates *)

Lemma try_take_outer_perfect outer base :
  0 < outer ->
  forall t, In t (fst (try_take outer (base, []) outer)) <-> In t base \/ t = outer.
Proof.
  intros Ho t. unfold try_take.
  assert (outer <? outer = false) as -> by lia. simpl.
  destruct (memZ outer base) eqn:E; simpl.
  - apply memZ_In in E. split; [tauto|]. intros [H| ->]; assumption.
  - assert (cdiv outer outer = 1) as -> by (unfold cdiv; nia).
    assert (cdiv outer 1 = outer) as -> by (unfold cdiv; nia).
    simpl. intuition.
Qed.

Lemma perfect_In outer inner t :
  0 < inner -> 0 < outer ->
  (In t (factor_sizes outer false inner) <->
   (exists f, 0 < f /\ (f | cdiv outer inner) /\ t = f * inner) \/ t = outer).
Proof.
  intros Hi Ho. unfold factor_sizes. rewrite sort_uniq_In, try_take_outer_perfect by assumption.
  rewrite in_map_iff.
  assert (Hc : 0 < cdiv outer inner) by (pose proof (cdiv_pos outer inner); lia).
  split; (intros [H|H]; [left|right; assumption]).
  - destruct H as [f [<- Hf]]. apply factorize_In in Hf; [|assumption]. exists f. tauto.
  - destruct H as [f [Hf0 [Hf ->]]]. exists f. split; [reflexivity|]. apply factorize_In; tauto.
Qed.

Lemma perfect_exact outer inner t :
  0 < inner -> 0 < outer -> (inner | outer) ->
  (In t (factor_sizes outer false inner) <-> 0 < t /\ (inner | t) /\ (t | outer)).
Proof.
  intros Hi Ho [q Hq]. rewrite perfect_In by assumption.
  assert (Hq0 : 0 < q) by nia.
  assert (Hc : cdiv outer inner = q) by (unfold cdiv; subst outer; nia).
  rewrite Hc. split.
  - intros [[f [Hf0 [[r Hr] ->]]]| ->].
    + split; [nia|]. split; [exists f; reflexivity|]. exists r. subst outer q. ring.
    + split; [lia|]. split; [exists q; assumption| exists 1; ring].
  - intros [Ht0 [[f Hf] [r Hr]]]. left. exists f. split; [nia|]. split; [|assumption].
    exists r. subst t outer. assert (inner * q = inner * (r * f)) by lia. nia.
Qed.

(* ---------------------------------------------------------------- imperfect candidates *)

(* invariant of the candidate loop *)
Definition adm_inv (outer : Z) (st : list Z * list Z) : Prop :=
  (forall t, In t (fst st) -> exists c, In c (snd st) /\ t = cdiv outer c) /\
  (forall c, In c (snd st) -> In (cdiv outer c) (fst st) /\ 1 <= c <= outer).

Lemma try_take_inv outer st n :
  0 < outer -> 0 < n -> adm_inv outer st -> adm_inv outer (try_take outer st n).
Proof.
  intros Ho Hn [I1 I2]. destruct st as [fs ns]. unfold try_take.
  destruct ((outer <? n) || memZ n fs) eqn:E1; [split; assumption|].
  destruct (memZ (cdiv outer n) ns) eqn:E2; [split; assumption|].
  apply orb_false_iff in E1. destruct E1 as [E1 _].
  assert (Hc : 1 <= cdiv outer n <= outer) by (pose proof (cdiv_pos outer n); pose proof (cdiv_le outer n); lia).
  split; simpl.
  - intros t [<-|Ht]; [exists (cdiv outer n); tauto|].
    destruct (I1 t Ht) as [c [Hc1 Hc2]]. exists c. tauto.
  - intros c [<-|Hc1]; [tauto|]. destruct (I2 c Hc1). tauto.
Qed.

Lemma try_take_mono outer st n t : In t (fst st) -> In t (fst (try_take outer st n)).
Proof.
  destruct st as [fs ns]. unfold try_take. intros H.
  destruct ((outer <? n) || memZ n fs); [assumption|].
  destruct (memZ (cdiv outer n) ns); [assumption|]. simpl. right; assumption.
Qed.

Lemma try_take_mono2 outer st n c : In c (snd st) -> In c (snd (try_take outer st n)).
Proof.
  destruct st as [fs ns]. unfold try_take. intros H.
  destruct ((outer <? n) || memZ n fs); [assumption|].
  destruct (memZ (cdiv outer n) ns); [assumption|]. simpl. right; assumption.
Qed.

(* ceil(outer / ceil(outer / ceil(outer/n))) = ceil(outer/n): the accepted shape realises the count *)
Lemma cdiv_cdiv outer n : 0 < outer -> 0 < n -> n <= outer ->
  cdiv outer (cdiv outer (cdiv outer n)) = cdiv outer n.
Proof.
  intros Ho Hn Hle.
  set (k := cdiv outer n). assert (Hk : 1 <= k <= outer) by (subst k; pose proof (cdiv_pos outer n); pose proof (cdiv_le outer n); lia).
  set (t0 := cdiv outer k). assert (Ht0 : 1 <= t0 <= outer) by (subst t0; pose proof (cdiv_pos outer k); pose proof (cdiv_le outer k); lia).
  assert (t0 <= n).
  { subst t0. apply cdiv_ub; [lia|]. subst k. destruct (cdiv_spec outer n); lia. }
  apply Z.le_antisymm.
  - apply cdiv_ub; [lia|]. subst t0. destruct (cdiv_spec outer k); lia.
  - subst k. apply cdiv_lb; [lia|].
    destruct (cdiv_spec outer n) as [H1|H1]; [lia|lia| |lia].
    assert (t0 * (cdiv outer n) <= n * cdiv outer n) by nia.
    destruct (cdiv_spec outer t0) as [H2|H2]; [lia|lia| |lia].
    fold (cdiv outer t0) in *. nia.
Qed.

(* after accepting n (<= outer), the smallest shape for n's tile count is present *)
Lemma try_take_has outer st n :
  0 < outer -> 0 < n -> n <= outer -> adm_inv outer st ->
  In (cdiv outer (cdiv outer n)) (fst (try_take outer st n)).
Proof.
  intros Ho Hn Hle [I1 I2]. destruct st as [fs ns]. unfold try_take.
  assert (outer <? n = false) as -> by lia. simpl.
  destruct (memZ n fs) eqn:E1.
  - apply memZ_In in E1. destruct (I1 n E1) as [c [Hc ->]]. simpl in *.
    destruct (I2 c Hc) as [Hin Hr].
    rewrite cdiv_cdiv by lia. exact E1.
  - destruct (memZ (cdiv outer n) ns) eqn:E2; simpl.
    + apply memZ_In in E2. apply (I2 _ E2).
    + left; reflexivity.
Qed.

Lemma fold_take_inv outer ns : 0 < outer -> (forall n, In n ns -> 0 < n) ->
  forall st, adm_inv outer st -> adm_inv outer (fold_left (try_take outer) ns st).
Proof.
  intros Ho. induction ns as [|n ns IH]; intros Hpos st Hst; simpl; [assumption|].
  apply IH; [intros; apply Hpos; right; assumption|].
  apply try_take_inv; [assumption|apply Hpos; left; reflexivity|assumption].
Qed.

Lemma fold_take_mono outer ns : forall st t, In t (fst st) -> In t (fst (fold_left (try_take outer) ns st)).
Proof.
  induction ns as [|n ns IH]; intros st t H; simpl; [assumption|].
  apply IH. apply try_take_mono. assumption.
Qed.

Lemma fold_take_has outer ns : 0 < outer -> (forall n, In n ns -> 0 < n) ->
  forall st, adm_inv outer st ->
  forall m, In m ns -> m <= outer ->
  In (cdiv outer (cdiv outer m)) (fst (fold_left (try_take outer) ns st)).
Proof.
  intros Ho. induction ns as [|n ns IH]; intros Hpos st Hst m Hm Hle; [destruct Hm|].
  simpl. destruct Hm as [->|Hm].
  - apply fold_take_mono. apply try_take_has; try assumption. apply Hpos; left; reflexivity.
  - apply IH; try assumption; [intros; apply Hpos; right; assumption|].
    apply try_take_inv; [assumption|apply Hpos; left; reflexivity|assumption].
Qed.

Lemma adm_inv_init outer : adm_inv outer ([], []).
Proof. split; simpl; intros ? []. Qed.

Lemma imperfect_state_inv outer inner : 0 < inner -> 0 < outer ->
  let ns := map (fun j => j * inner) (range1 (Z.to_nat (outer / inner))) in
  (forall n, In n ns -> 0 < n) /\
  adm_inv outer (try_take outer (fold_left (try_take outer) ns ([], [])) outer).
Proof.
  intros Hi Ho ns.
  assert (Hpos : forall n, In n ns -> 0 < n).
  { intros n Hn. apply in_map_iff in Hn. destruct Hn as [j [<- Hj]]. apply range1_In in Hj. nia. }
  split; [assumption|].
  apply try_take_inv; [assumption|assumption|].
  apply fold_take_inv; [assumption|assumption|apply adm_inv_init].
Qed.

Lemma imperfect_bounded outer inner t : 0 < inner -> 0 < outer ->
  In t (factor_sizes outer true inner) -> 1 <= t <= outer.
Proof.
  intros Hi Ho. unfold factor_sizes. rewrite sort_uniq_In. intros Ht.
  destruct (imperfect_state_inv outer inner Hi Ho) as [_ [I1 I2]].
  destruct (I1 t Ht) as [c [Hc ->]]. destruct (I2 c Hc) as [_ Hr].
  pose proof (cdiv_pos outer c). pose proof (cdiv_le outer c). lia.
Qed.

Lemma imperfect_complete outer inner m : 0 < inner -> 0 < outer ->
  0 < m <= outer -> (inner | m) ->
  In (cdiv outer (cdiv outer m)) (factor_sizes outer true inner).
Proof.
  intros Hi Ho Hm [j Hj]. unfold factor_sizes. rewrite sort_uniq_In.
  apply try_take_mono.
  destruct (imperfect_state_inv outer inner Hi Ho) as [Hpos _].
  apply fold_take_has; try assumption; [apply adm_inv_init| |lia].
  apply in_map_iff. exists j. split; [lia|]. apply range1_In.
  assert (0 < j) by nia. split; [lia|].
  rewrite Z2Nat.id by (apply Z.div_pos; lia).
  apply Z.div_le_lower_bound; nia.
Qed.

Lemma imperfect_has_outer outer inner : 0 < inner -> 0 < outer ->
  In outer (factor_sizes outer true inner).
Proof.
  intros Hi Ho. unfold factor_sizes. rewrite sort_uniq_In.
  set (st := fold_left _ _ _).
  assert (Hst : adm_inv outer st).
  { apply fold_take_inv; [assumption| |apply adm_inv_init].
    intros n Hn. apply in_map_iff in Hn. destruct Hn as [j [<- Hj]]. apply range1_In in Hj. nia. }
  pose proof (try_take_has outer st outer Ho Ho (Z.le_refl _) Hst) as H.
  assert (E1 : cdiv outer outer = 1) by (unfold cdiv; nia).
  assert (E2 : cdiv outer 1 = outer) by (unfold cdiv; nia).
  rewrite E1, E2 in H. exact H.
Qed.

(* the accepted shape is the smallest one with its tile count *)
Lemma smallest_shape outer k t : 0 < outer -> 0 < t -> cdiv outer t = k -> cdiv outer k <= t.
Proof.
  intros Ho Ht <-. apply cdiv_ub; [pose proof (cdiv_pos outer t); lia|].
  destruct (cdiv_spec outer t); lia.
Qed.

(* ---------------------------------------------------------------- counting *)

Lemma divisors_In n d : 0 < n -> (In d (divisors n) <-> 0 < d /\ (d | n)).
Proof.
  intros Hn. unfold divisors. rewrite filter_In, range1_In, Z.eqb_eq. split.
  - intros [Hr Hm]. split; [lia|]. apply Z.mod_divide; lia.
  - intros [Hd Hdiv]. split; [|apply Z.mod_divide; [lia|assumption]].
    apply Z.divide_pos_le in Hdiv; lia.
Qed.

Lemma divisors_NoDup n : NoDup (divisors n).
Proof. apply NoDup_filter, range1_NoDup. Qed.

Lemma zsum_flat_map {A B} (f : A -> list B) (g : A -> Z) l :
  (forall x, In x l -> g x = Z.of_nat (length (f x))) ->
  zsum (map g l) = Z.of_nat (length (flat_map f l)).
Proof.
  induction l as [|a l IH]; intros H; simpl; [reflexivity|].
  rewrite app_length, Nat2Z.inj_add, H by (left; reflexivity).
  rewrite IH; [reflexivity|]. intros; apply H; right; assumption.
Qed.

Lemma count_fact_chains p : forall n, count_fact n p = Z.of_nat (length (chains n p)).
Proof.
  induction p as [|imp others IH]; intros n; [reflexivity|].
  destruct others as [|b o]; [reflexivity|].
  change (count_fact n (imp :: b :: o)) with
    (if imp then zsum (map (fun s => count_fact (cdiv n s) (b :: o)) (range1 (Z.to_nat n)))
     else zsum (map (fun d => count_fact (n / d) (b :: o)) (divisors n))).
  change (chains n (imp :: b :: o)) with
    (if imp then flat_map (fun s => map (cons s) (chains (cdiv n s) (b :: o))) (range1 (Z.to_nat n))
     else flat_map (fun d => map (cons d) (chains (n / d) (b :: o))) (divisors n)).
  destruct imp; apply zsum_flat_map; intros x _; rewrite map_length; apply IH.
Qed.

(* declarative notion of a factorisation chain *)
Fixpoint valid_chain (n : Z) (p : list bool) (c : list Z) : Prop :=
  match p with
  | [] => c = []
  | imp :: others =>
      match others with
      | [] => c = []
      | _ =>
          match c with
          | [] => False
          | x :: c' =>
              (if imp then 1 <= x <= n else 0 < x /\ (x | n)) /\
              valid_chain (if imp then cdiv n x else n / x) others c'
          end
      end
  end.

Lemma chains_valid p : forall n c, 0 < n -> (In c (chains n p) <-> valid_chain n p c).
Proof.
  induction p as [|imp others IH]; intros n c Hn.
  - simpl. intuition.
  - destruct others as [|b o]; [simpl; intuition|].
    change (chains n (imp :: b :: o)) with
      (if imp then flat_map (fun s => map (cons s) (chains (cdiv n s) (b :: o))) (range1 (Z.to_nat n))
       else flat_map (fun d => map (cons d) (chains (n / d) (b :: o))) (divisors n)).
    change (valid_chain n (imp :: b :: o) c) with
      (match c with [] => False | x :: c' =>
         (if imp then 1 <= x <= n else 0 < x /\ (x | n)) /\
         valid_chain (if imp then cdiv n x else n / x) (b :: o) c' end).
    destruct imp; rewrite in_flat_map.
    + split.
      * intros [s [Hs Hc]]. apply in_map_iff in Hc. destruct Hc as [c' [<- Hc']].
        apply range1_In in Hs. split; [lia|]. apply IH; [|assumption].
        pose proof (cdiv_pos n s). lia.
      * destruct c as [|x c']; [tauto|]. intros [Hx Hc']. exists x.
        split; [apply range1_In; lia|]. apply in_map. apply IH; [|assumption].
        pose proof (cdiv_pos n x). lia.
    + split.
      * intros [d [Hd Hc]]. apply in_map_iff in Hc. destruct Hc as [c' [<- Hc']].
        apply divisors_In in Hd; [|assumption]. split; [assumption|]. apply IH; [|assumption].
        destruct Hd as [Hd0 [q Hq]]. subst n. rewrite Z_div_mult by lia. nia.
      * destruct c as [|x c']; [tauto|]. intros [Hx Hc']. exists x.
        split; [apply divisors_In; assumption|]. apply in_map. apply IH; [|assumption].
        destruct Hx as [Hd0 [q Hq]]. subst n. rewrite Z_div_mult by lia. nia.
Qed.

Lemma NoDup_flat_map_cons (f : Z -> list (list Z)) l :
  NoDup l -> (forall x, NoDup (f x)) ->
  NoDup (flat_map (fun x => map (cons x) (f x)) l).
Proof.
  induction 1 as [|a l Ha Hl IH]; intros Hf; simpl; [constructor|].
  apply NoDup_app_intro.
  - apply FinFun.Injective_map_NoDup; [|apply Hf]. intros u v E; congruence.
  - apply IH; assumption.
  - intros c Hc Hc'. apply in_map_iff in Hc. destruct Hc as [c1 [<- _]].
    apply in_flat_map in Hc'. destruct Hc' as [y [Hy Hc']].
    apply in_map_iff in Hc'. destruct Hc' as [c2 [E _]]. congruence.
Qed.

Lemma chains_NoDup p : forall n, NoDup (chains n p).
Proof.
  induction p as [|imp others IH]; intros n; [repeat constructor; intros []|].
  destruct others as [|b o]; [repeat constructor; intros []|].
  change (chains n (imp :: b :: o)) with
    (if imp then flat_map (fun s => map (cons s) (chains (cdiv n s) (b :: o))) (range1 (Z.to_nat n))
     else flat_map (fun d => map (cons d) (chains (n / d) (b :: o))) (divisors n)).
  destruct imp.
  - apply (NoDup_flat_map_cons (fun s => chains (cdiv n s) (b :: o))); [apply range1_NoDup|intro; apply IH].
  - apply (NoDup_flat_map_cons (fun d => chains (n / d) (b :: o))); [apply divisors_NoDup|intro; apply IH].
Qed.

(* all-perfect patterns: chains are exactly the tuples of positive factors whose product divides n *)
Definition zprod (l : list Z) : Z := fold_right Z.mul 1 l.

Lemma perfect_chain_char L : forall n c, 0 < n ->
  (valid_chain n (repeat false (S L)) c <->
   length c = L /\ Forall (fun x => 0 < x) c /\ (zprod c | n)).
Proof.
  induction L as [|L IH]; intros n c Hn.
  - simpl. split.
    + intros ->. repeat split; [constructor|exists n; simpl; ring].
    + intros [H _]. destruct c; [reflexivity|discriminate].
  - change (repeat false (S (S L))) with (false :: false :: repeat false L).
    change (valid_chain n (false :: false :: repeat false L) c) with
      (match c with [] => False | x :: c' =>
         (0 < x /\ (x | n)) /\ valid_chain (n / x) (repeat false (S L)) c' end).
    destruct c as [|x c']; [split; [tauto|intros [H _]; discriminate]|].
    split.
    + intros [[Hx [q Hq]] Hc']. subst n. rewrite Z_div_mult in Hc' by lia.
      assert (0 < q) by nia. apply IH in Hc'; [|assumption].
      destruct Hc' as [Hl [Hf [r Hr]]]. simpl. split; [lia|]. split; [constructor; assumption|].
      exists r. subst q. unfold zprod. simpl. ring.
    + intros [Hl [Hf [r Hr]]]. pose proof (Forall_inv Hf) as Hx. pose proof (Forall_inv_tail Hf) as Hf'.
      simpl in Hx. subst n.
      unfold zprod in *; simpl in *; fold (zprod c') in *.
      assert (Hdiv : (x | r * (x * zprod c'))) by (exists (r * zprod c'); ring).
      split; [split; [assumption|assumption]|].
      replace (r * (x * zprod c') / x) with (r * zprod c') by (replace (r * (x * zprod c')) with (r * zprod c' * x) by ring; rewrite Z_div_mult; lia).
      assert (0 < zprod c').
      { clear -Hf'. induction Hf'; unfold zprod; simpl; [lia|]. fold (zprod l). nia. }
      assert (0 < r) by nia.
      apply IH; [nia|]. simpl in Hl. split; [lia|]. split; [assumption|]. exists r. reflexivity.
Qed.
