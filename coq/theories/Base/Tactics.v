(* Common header: lia that understands booleans, div and mod. *)
From Coq Require Export ZArith NArith List Bool Lia ZifyBool Sorting.Sorted Permutation.
Export ListNotations.
Ltac Zify.zify_post_hook ::= Z.to_euclidean_division_equations.
