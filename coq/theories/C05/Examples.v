From Coq Require Import ZArith QArith List Bool.
Import ListNotations.
From AF Require Import Lib.MiniForge C05.Proofs.
Open Scope Z_scope.
(* matmul M=4,K=6,N=2: MainMemory[A,B,C]; for m(2); GLB[A]; for k(3); GLB[B,C]; for n(1); for m(1); for k(1); compute *)
Definition ex_sp : spec :=
  mkS [4; 6; 2] [mkT [true; true; false] false; mkT [false; true; true] false; mkT [true; false; true] true]
      [mkL true 10 12 None None 0 [1; 1; 1]%Q [1; 1; 1]%Q; mkL true 2 3 None None 0 [1; 1; 1]%Q [1; 1; 1]%Q] true 1 (Some 1%Q) 0.
Definition ex_m : list node :=
  [Sto 0 0; Sto 0 1; Sto 0 2; Loop 0 2; Sto 1 0; Loop 1 3; Sto 1 1; Sto 1 2; Loop 2 1; Loop 0 1; Loop 1 1].
Example ex_valid : valid_loops ex_m (s_bounds ex_sp) = true. Proof. vm_compute. reflexivity. Qed.
(* the numbers evaluate_mapping reports for this mapping: C: MainMemory read 8 write 16, GlobalBuffer read 56 write 56 *)
Example ex_C : (tcounts model_counts ex_sp ex_m 2 0, tcounts model_counts ex_sp ex_m 2 1) = ((8, 16), (56, 56)).
Proof. vm_compute. reflexivity. Qed.
Example ex_C_exec : (tcounts exec_counts ex_sp ex_m 2 0, tcounts exec_counts ex_sp ex_m 2 1) = ((8, 16), (56, 56)).
Proof. vm_compute. reflexivity. Qed.
Example ex_energy : Qeq (energy model_counts ex_sp ex_m) 1416. Proof. vm_compute. reflexivity. Qed.
