"""C01 — the mapper returns a mapping that is optimal over the whole mapspace (single metric)."""
import json
import os
from fractions import Fraction

import common
import gen_mini as G
import mini_space as S
import mapper_ref as R
import c05

TRUSTED = [
    "the mapspace and the reference optimiser are AF.Lib.MiniSpace (in_space / bodies / opt) over the MiniForge cost model proved equal to loop-nest execution in C05; "
    "class: ONE Einsum, temporal loops, Memory levels with keep / may_keep sets and sizes, dense projections, perfect factorisation. Multi-Einsum fusion, spatial fanouts, "
    "loop-bound constraints and imperfect factorisation are outside this model (the join stage is exercised by C13/C14)",
    "capacity in the reference is accelforge's own check (C06 usage_code): 'valid mapping' means what evaluate_mapping accepts",
    "the python twin (mini_space.py) enumerates the same space for every case; the Coq opt is evaluated (vm_compute) on the cases whose space is small enough and must agree with the twin",
    "a reference mapping better than the mapper's is re-evaluated with the real evaluate_mapping before it is reported",
]
METRICS = [("ENERGY", "Total<SEP>energy"), ("LATENCY", "Total<SEP>latency"), ("ENERGY_DELAY_PRODUCT", "Total<SEP>energy_delay_product")]


def ref_value(metric, e, l):
    return e if metric == "ENERGY" else l if metric == "LATENCY" else e * l


def confirm_with_model(af, evaluate_mapping, spec, m, d):
    """evaluate a reference mapping with the real model: (energy, latency) or an error string"""
    try:
        got = c05.run_impl(af, evaluate_mapping, spec, m, d)
        return got["Total<SEP>energy"], got["Total<SEP>latency"]
    except Exception as ex:  # noqa
        return f"{type(ex).__name__}: {str(ex)[:200]}"


def run(ck):
    af, evaluate_mapping = R.load()
    ck.prove()
    rng = ck.rng("specs")
    d = common.BUILD / "run" / f"c01-{os.getpid()}"
    d.mkdir(parents=True, exist_ok=True)
    exprs, keys = [], []
    dist = {"space_sizes": [], "capacity_bound": 0, "infeasible": 0, "levels": {}, "coq_opt_evaluated": 0}
    for i in range(ck.n(10, 150)):
        spec, space = R.gen_search_spec(rng, max_space=ck.n(3000, 25000))
        ref = R.reference(spec, space)
        dist["space_sizes"].append(len(space))
        dist["capacity_bound"] += len(ref) < len(space)
        dist["infeasible"] += not ref
        dist["levels"][len(spec["levels"])] = dist["levels"].get(len(spec["levels"]), 0) + 1
        ck.case(json.dumps(spec, sort_keys=True, default=str), nontrivial=len(space) >= 20,
                sample={"bounds": spec["bounds"], "tensors": [(T["name"], T["rel"]) for T in spec["tensors"]], "mapspace_size": len(space), "valid": len(ref)})
        for metric, col in METRICS:
            res = R.run_mapper(af, spec, d, [metric])
            ck.count("mapper_runs")
            if not ref:
                if res["error"] is None and res["rows"]:
                    ck.failing_input({"spec": spec, "metric": metric, "returned": res["rows"][0].get("mapping")},
                                     what="the mapper returned a mapping although no valid mapping exists in the mapspace")
                continue
            m_best, e, l = min(ref, key=lambda x: ref_value(metric, x[1], x[2]))
            rv = ref_value(metric, e, l)
            if res["error"] is not None:
                conf = confirm_with_model(af, evaluate_mapping, spec, m_best, d)
                ck.failing_input({"spec": spec, "metric": metric, "mapper_error": res["error"], "valid_mapping": G.mapping_yaml(spec, m_best), "its_real_evaluation": conf,
                                  "arch_yaml": S.arch_yaml(spec), "workload_yaml": G.workload_yaml(spec)},
                                 what=f"the mapper raised ({res['error'][:80]}) although valid mappings exist")
                continue
            got = R.best(res["rows"], col)
            if got is None:
                ck.failing_input({"spec": spec, "metric": metric, "columns": list(res["rows"][0]) if res["rows"] else None}, what=f"no {col} column in the mapper result")
                continue
            if got > float(rv) * (1 + 1e-5) + 1e-9:
                conf = confirm_with_model(af, evaluate_mapping, spec, m_best, d)
                if isinstance(conf, tuple) and ref_value(metric, conf[0], conf[1]) < got * (1 - 1e-6):
                    ck.failing_input({"spec": spec, "metric": metric, "mapper_best": got, "better_mapping": G.mapping_yaml(spec, m_best),
                                      "better_mapping_real_evaluation": {"energy": conf[0], "latency": conf[1]}, "arch_yaml": S.arch_yaml(spec), "workload_yaml": G.workload_yaml(spec)},
                                     what=f"a valid mapping is strictly better ({metric}: {float(rv)} < {got}) than what the mapper returns")
                else:
                    ck.unexplained("broken-correspondence", {"spec": spec, "metric": metric, "mapper_best": got, "reference": float(rv), "real_evaluation_of_reference_mapping": str(conf)},
                                   what="reference optimum below the mapper's but the real model does not confirm the reference mapping")
            elif got < float(rv) * (1 - 1e-5) - 1e-9:
                # the mapper claims better than the whole space: its mapping is outside the space, invalid, or model and code disagree
                mm = res["rows"][0].get("mapping_nodes")
                inside = mm is not None and R.canonical_body(spec, mm) in [R.canonical_body(spec, x) for x in space]
                ck.failing_input({"spec": spec, "metric": metric, "mapper_best": got, "reference_optimum": float(rv), "mapper_mapping": res["rows"][0].get("mapping"),
                                  "mapping_inside_reference_space": inside, "arch_yaml": S.arch_yaml(spec), "workload_yaml": G.workload_yaml(spec)},
                                 what=f"the mapper reports {metric} {got} below the optimum {float(rv)} of the whole mapspace (invalid mapping or mis-reported metric)")
        if len(space) <= ck.n(1500, 4000):
            ms = R.coq_mspec(spec)
            q = lambda e: f"(match {e} with Some v => let r := Qred v in Some (Qnum r, Z.pos (Qden r)) | None => None end)"  # noqa
            exprs.append(f"(let ms := {ms} in ({q('opt ms MEnergy')}, {q('opt ms MLatency')}, {q('opt ms MEdp')}, Z.of_nat (List.length (space ms)), Z.of_nat (List.length (bodies ms))))")
            keys.append((spec, ref, len(space)))
            dist["coq_opt_evaluated"] += 1
    vals = common.run_coq_eval("C01", ["AF.Lib.MiniForge", "AF.Lib.MiniSpace"], exprs, chunk=1, timeout=3000, preamble="From Coq Require Import QArith.\nOpen Scope Z_scope.")
    mism = []
    for (spec, ref, nspace), v in zip(keys, vals):
        oe, ol, oedp, nvalid, nbodies = v
        tw = (min(x[1] for x in ref), min(x[2] for x in ref), min(x[1] * x[2] for x in ref)) if ref else (None, None, None)

        def fr(o):
            if o is None:
                return None
            o = o[1] if o[0] == "Some" else o
            return Fraction(o[0], o[1])
        cq = (fr(oe), fr(ol), fr(oedp))
        if cq != tw or nvalid != len(ref) or nbodies != nspace:
            mism.append({"spec": spec, "coq_opt": str(cq), "twin_opt": str(tw), "coq_space": [nbodies, nvalid], "twin_space": [nspace, len(ref)]})
    ck.count("coq_opt_vs_twin_compared", len(keys))
    ck.count("coq_opt_vs_twin_mismatches", len(mism))
    if mism and not ck.violations:
        ck.unexplained("broken-correspondence", {"mismatches": mism[:2]}, what="Coq reference optimiser and its python twin disagree")
    dist["space_sizes"] = {"min": min(dist["space_sizes"]), "max": max(dist["space_sizes"]), "mean": sum(dist["space_sizes"]) / len(dist["space_sizes"])}
    # fused witnesses: concrete fused mappings of a 2-matmul chain, evaluated by the real model, must not beat the mapper
    import join_ref as JR
    from accelforge.mapper.FFM.main import map_workload_to_arch
    frng = ck.rng("fused")
    fd = {"specs": 0, "family_members": 0, "valid_members": 0, "family_reaches_mapper_optimum": 0, "mapper_errors": 0}
    for k in range(ck.n(6, 40)):
        p = JR.gen_spec(frng, max_einsums=2, allow_three=False)
        p.update(n=2, ns=p["ns"][:3], long_lived=False, max_fused_loops=None, max_fused_loops_per_rank_variable=1)
        if k % 2 == 0:
            # a row of T1 does not fit next to anything else: two fused loops needed
            p.update(M=frng.choice([4, 4, 6]), glb=p["bpv"] * frng.choice([3, 3, 4]), mme=frng.choice([10, 100]), gthr="inf", mthr="inf")
            p["ns"] = [frng.choice([2, 4]), frng.choice([4, 4, 6]), frng.choice([2, 4])]
        fam = JR.fused_family(frng, p, cap=ck.n(64, 120))
        ok, rej = JR.evaluate_family(af, evaluate_mapping, p, d, fam)
        fd["specs"] += 1
        fd["family_members"] += len(fam)
        fd["valid_members"] += len(ok)
        if not ok:
            continue
        for mname, idx in (("ENERGY", 2), ("LATENCY", 3)) if k % 2 == 0 else (("ENERGY", 2),):
            wit = min(ok, key=lambda x: x[idx])
            ck.case(json.dumps([p, mname], sort_keys=True, default=str), nontrivial=len(ok) >= 2,
                    sample={"params": {q: p[q] for q in ("M", "ns", "glb", "mme")}, "metric": mname, "valid_family_members": len(ok), "best_member": wit[0], "its_value": wit[idx]})
            try:
                cwd = os.getcwd()
                os.chdir(d)
                try:
                    res = map_workload_to_arch(JR.load_spec(af, p, d, af.Metrics[mname]), print_progress=False)
                finally:
                    os.chdir(cwd)
                got = min(float(x) for x in res.data["Total<SEP>" + mname.lower()])
            except Exception as ex:  # noqa
                fd["mapper_errors"] += 1
                ck.failing_input({"params": p, "metric": mname, "mapper_error": f"{type(ex).__name__}: {str(ex)[:300]}", "valid_mapping": wit[1], "its_value": wit[idx],
                                  "arch_yaml": JR.yaml_text(p)[0], "workload_yaml": JR.yaml_text(p)[1]}, what=f"the mapper raised on a 2-Einsum chain although a valid fused mapping exists ({wit[0]})")
                continue
            fd["family_reaches_mapper_optimum"] += abs(got - wit[idx]) <= 1e-6 * max(1.0, abs(got))
            if got > wit[idx] * (1 + 1e-6) + 1e-9:
                ck.failing_input({"params": p, "metric": mname, "mapper_best": got, "better_mapping": wit[1], "better_mapping_value": wit[idx], "better_mapping_desc": wit[0],
                                  "arch_yaml": JR.yaml_text(p)[0], "workload_yaml": JR.yaml_text(p)[1]},
                                 what=f"a valid fused mapping ({wit[0]}) evaluated by the real model is strictly better ({mname}: {wit[idx]} < {got}) than what the mapper returns")
    dist["fused_witness_stream"] = fd
    # spatial array with a loop-bound constraint: if the mapper raises, look for a valid witness (the mapping of the unconstrained
    # run, when it happens to satisfy the constraint)
    import c03
    import random as _random
    crng = ck.rng("constraints")
    cs = {"specs": 0, "mapper_raised": 0, "raised_with_valid_witness": 0}
    for k in range(ck.n(6, 40)):
        state = crng.getstate()
        c = c03.constraint_case(af, d, crng, k)
        cs["specs"] += 1
        ck.case("constraint:" + c["key"], nontrivial=True)
        if c["res"] is not None:
            continue
        cs["mapper_raised"] += 1
        r2 = _random.Random()
        r2.setstate(state)
        relaxed = c03.constraint_case(af, d, r2, k, override=(">=", 1))
        if relaxed["res"] is None:
            continue
        for j in range(len(relaxed["res"].data)):
            if not c03.check_constrained(relaxed["res"].mapping(j), {"m": c["M"], "n0": c["KN"], "n1": c["KN"]}, c["fanout"], c["rv"], c["op"], c["val"]):
                cs["raised_with_valid_witness"] += 1
                ck.failing_input({"arch_yaml": c["arch"], "workload": "examples/workloads/basic/matmuls.yaml", "jinja": {"N_EINSUMS": 1, "M": c["M"], "KN": c["KN"]},
                                  "mapper_error": c["err"], "constraint": f"{c['rv']} {c['op']} {c['val']}",
                                  "valid_mapping": [getattr(n, "compact_str", lambda: str(n))() for n in next(c03.tree_paths(relaxed["res"].mapping(j)), [])]},
                                 finding_id="F14" if "free_symbols" in (c["err"] or "") else None,
                                 what=f"the mapper raised ({c['err'][:80]}) on a spatial-array spec with loop bound {c['rv']} {c['op']} {c['val']} although a valid mapping exists "
                                      f"(the optimum of the unconstrained spec satisfies the constraint)")
                break
    dist["constraint_stream"] = cs
    return ck.finish(
        rule="random single-Einsum specs (2-3 rank variables with bounds 2-4, 2-3 tensors, 2-3 memory levels with random keep / may_keep sets, sizes, energies, throughputs, leak, "
             "bits-per-value/-per-action overrides, skip flags); the real map_workload_to_arch is run with ENERGY, LATENCY and ENERGY_DELAY_PRODUCT and its best objective compared with the "
             "exhaustively enumerated optimum of the whole mapspace; non-trivial = at least 20 mappings in the space",
        trusted=TRUSTED,
        extra={"input_distribution": dist,
               "source_fingerprint": [common.fingerprint("accelforge/mapper/FFM/main.py", ["map_workload_to_arch"]),
                                      common.fingerprint("accelforge/mapper/FFM/_make_pmappings/make_pmapping_templates/make_loops.py", ["insert_temporal_loops"]),
                                      common.fingerprint("accelforge/mapper/FFM/_make_pmappings/make_pmappings_from_templates/make_tile_shapes.py", ["get_tile_shape_choices", "_make_tile_shapes"])]})


def replay(ck, data):
    af, evaluate_mapping = R.load()
    d = common.BUILD / "run" / f"c01-{os.getpid()}"
    d.mkdir(parents=True, exist_ok=True)
    spec, metric = data["spec"], data["metric"]
    ref = R.reference(spec)
    res = R.run_mapper(af, spec, d, [metric])
    col = dict(METRICS)[metric]
    if not ref:
        bad = res["error"] is None and res["rows"]
    elif res["error"] is not None:
        bad = True
    else:
        rv = min(ref_value(metric, e, l) for _, e, l in ref)
        got = R.best(res["rows"], col)
        bad = got is None or not R.close(got, rv)
    if bad:
        print("VIOLATION property=C01 replay=<replayed>")
        return 1
    print("replay: property holds on this input now")
    return 0
