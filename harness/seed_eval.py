"""Evaluate a seeded change: python harness/seed_eval.py <Cxx> <srcdir> <k> [<seed-id>]
  1. demo on the clean /repo must exit 0
  2. apply patch<k>.diff to /repo, demo must exit 1, ./check Cxx --tier quick is run (expect exit 1 + VIOLATION), revert
  3. store under /verif/seeded/<seed-id>/ (patch.diff, demo.py, notes.md, meta.json)
Never leaves /repo modified."""
import json
import pathlib
import os
import shutil
import subprocess
import sys
from pathlib import Path

ROOT = Path(__file__).resolve().parent.parent
pid, src, k = sys.argv[1], Path(sys.argv[2]), sys.argv[3]
sid = sys.argv[4] if len(sys.argv) > 4 else f"{pid}-{k}"
patch, demo, notes = src / f"patch{k}.diff", src / f"demo{k}.py", src / f"notes{k}.md"
REPO = os.environ.get("VERIF_REPO", "/repo")
env = dict(os.environ, PYTHONPATH=REPO, PYTHONHASHSEED="0")
env.pop("ACCELFORGE_VERIF", None)


def run(cmd, **kw):
    p = subprocess.run(cmd, stdout=subprocess.PIPE, stderr=subprocess.STDOUT, text=True, **kw)
    return p.returncode, p.stdout


def demo_rc():
    d = ROOT / "build" / "run" / f"seed-{os.getpid()}"
    d.mkdir(parents=True, exist_ok=True)
    rc, out = run(["/venv/bin/python", str(demo)], env=env, cwd=d, timeout=1800)
    shutil.rmtree(d, ignore_errors=True)
    return rc, out[-600:]


assert run(["git", "-C", REPO, "status", "--porcelain", "--untracked-files=no"])[1].strip() == "", "/repo is dirty"
res = {"property": pid, "seed": sid}
res["demo_clean_rc"], _ = demo_rc()
rc, out = run(["git", "-C", REPO, "apply", str(patch)])
assert rc == 0, out
try:
    res["demo_patched_rc"], res["demo_patched_tail"] = demo_rc()
    checks = [pid] + [c for c in os.environ.get("SEED_ALSO", "").split(",") if c]
    res["checks"] = {}
    for c in checks:
        scratch = ROOT / "build" / "seedruns" / sid
        scratch.mkdir(parents=True, exist_ok=True)
        cenv = dict(os.environ, VERIF_REPO=REPO, VERIF_EVIDENCE_DIR=str(scratch), VERIF_REPLAY_DIR=str(scratch))
        rc, out = run([str(ROOT / "check"), c, "--tier", os.environ.get("SEED_TIER", "quick")], cwd=ROOT, timeout=7200, env=cenv)
        lines = [l for l in out.splitlines() if l.startswith(("VIOLATION", "KNOWN-FINDING", "CHECK-ERROR")) or l.startswith(c + " ")]
        res["checks"][c] = {"rc": rc, "lines": lines[:8]}
finally:
    run(["git", "-C", REPO, "checkout", "--", "."])
res["detected"] = any(v["rc"] == 1 and any(l.startswith("VIOLATION") for l in v["lines"]) for v in res["checks"].values())
print(json.dumps(res, indent=1))
if res["demo_clean_rc"] == 0 and res["demo_patched_rc"] == 1:
    d = ROOT / "seeded" / sid
    d.mkdir(parents=True, exist_ok=True)
    tier = os.environ.get("SEED_TIER", "quick")
    results = {(c if tier == "quick" else f"{c}@{tier}"): v for c, v in res["checks"].items()}
    # results of earlier evaluations of the SAME patch are kept (a seed may be caught by another check or by the thorough tier only)
    try:
        if (d / "patch.diff").read_text() == pathlib.Path(patch).read_text():
            old = json.loads((d / "meta.json").read_text()).get("result", {})
            for k_, v_ in old.items():
                results.setdefault(k_, v_)
    except Exception:  # noqa
        pass
    res["checks"] = results
    res["detected"] = any(v["rc"] == 1 and any(l.startswith("VIOLATION") for l in v["lines"]) for v in results.values())
    shutil.copy(patch, d / "patch.diff")
    shutil.copy(demo, d / "demo.py")
    if notes.exists():
        shutil.copy(notes, d / "notes.md")
    meta = {"property": pid, "needs_to_manifest": (notes.read_text()[:1500] if notes.exists() else ""),
            "confirmed": {"demo_on_clean_tree_rc": 0, "demo_with_patch_rc": 1,
                          "tests": "see seeded/TESTS.md (patches applied together in a scratch worktree, full suite vs BASELINE stable_pass)"},
            "ran": [f"git -C /repo apply seeded/{sid}/patch.diff; ./check {c.split('@')[0]} --tier {c.split('@')[1] if '@' in c else 'quick'}; git -C /repo checkout -- ." for c in res["checks"]],
            "ran_against": f"a scratch git worktree of /repo ({REPO}, same commit as /repo HEAD at the time, selected with VERIF_REPO) with the patch applied and reverted afterwards; "
                           "'ran' is the equivalent command sequence against /repo itself",
            "result": res["checks"], "detected": res["detected"]}
    (d / "meta.json").write_text(json.dumps(meta, indent=1) + "\n")
else:
    print("NOT KEPT: demo does not discriminate")
