(* C09 model — the verdict combinators of make_tile_shapes.py: ComparisonResult, its __or__, the table of geq_leq_zero,
   the Min / Max rules of _compare_to_zero.  A formula is its value function over the points of the box. *)
From Coq Require Import QArith List Bool.
Import ListNotations.
Open Scope Q_scope.

Inductive verdict := AlwaysGeq | AlwaysLeq | AlwaysEq | Unknown.

(* ComparisonResult.__or__ *)
Definition vor (a b : verdict) : verdict :=
  match a, b with
  | AlwaysGeq, AlwaysGeq => AlwaysGeq | AlwaysLeq, AlwaysLeq => AlwaysLeq | AlwaysEq, AlwaysEq => AlwaysEq | Unknown, Unknown => Unknown
  | AlwaysEq, x => x | x, AlwaysEq => x
  | _, _ => Unknown
  end.

(* geq_leq_zero: lt = "may be negative somewhere", gt = "may be positive somewhere" *)
Definition table (lt gt : bool) : verdict :=
  match lt, gt with true, true => Unknown | true, false => AlwaysLeq | false, true => AlwaysGeq | false, false => AlwaysEq end.

(* _compare_to_zero on Min / Max: any / all over the arguments *)
Definition lt_min (l : list bool) := existsb (fun b => b) l.
Definition lt_max (l : list bool) := forallb (fun b => b) l.
Definition gt_min (l : list bool) := forallb (fun b => b) l.
Definition gt_max (l : list bool) := existsb (fun b => b) l.

Section Sem.
  Variable point : Type.
  Variable inbox : point -> Prop.
  Definition holds (v : verdict) (f : point -> Q) : Prop :=
    match v with
    | AlwaysGeq => forall p, inbox p -> 0 <= f p
    | AlwaysLeq => forall p, inbox p -> f p <= 0
    | AlwaysEq => forall p, inbox p -> f p == 0
    | Unknown => True
    end.
  (* a leaf oracle is sound when it answers false only if the formula is never negative / never positive on the box *)
  Definition lt_sound (b : bool) (f : point -> Q) : Prop := b = false -> forall p, inbox p -> 0 <= f p.
  Definition gt_sound (b : bool) (f : point -> Q) : Prop := b = false -> forall p, inbox p -> f p <= 0.
End Sem.

Definition qmin (a b : Q) : Q := if Qle_bool a b then a else b.
Definition qmax (a b : Q) : Q := if Qle_bool a b then b else a.
