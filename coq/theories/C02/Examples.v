From AF Require Import Base.Tactics Lib.Pareto Lib.Front.
Open Scope Z_scope.
Example ex_front : front [[5; 5]; [3; 7]; [5; 5]; [4; 6]; [6; 4]; [6; 6]; [3; 8]] = [[3; 7]; [5; 5]; [4; 6]; [6; 4]].
Proof. vm_compute. reflexivity. Qed.
