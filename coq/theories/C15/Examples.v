From Coq Require Import List Arith.
Import ListNotations.
From AF Require Import C15.Model.
(* empty sub-tables at the start, in the middle (start index collides and is overwritten) and at the end *)
Example ex1 : decompress (build [[]; [10; 11]; []; []; [12]; [13; 14; 15]; []]) [5; 0; 2; 2; 3]
  = Some [Some 15; Some 10; Some 12; Some 12; Some 13].
Proof. vm_compute. reflexivity. Qed.
Example ex_dict : build [[1;2]; []; [3]] = [(2, [3]); (0, [1; 2])].
Proof. vm_compute. reflexivity. Qed.
