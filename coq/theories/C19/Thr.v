(* C19, throughput clause: multiplying every throughput by k > 0 divides the latency of every mapping, hence the optimal latency, by k. *)
From Coq Require Import ZArith QArith List Bool Lia Setoid.
Import ListNotations.
Require Import AF.Lib.MiniForge AF.C06.Model AF.Lib.MiniSpace AF.C01.Proofs AF.C19.Proofs.
Open Scope Q_scope.

Definition scale_othr (k : Q) (o : option Q) : option Q := match o with None => None | Some q => Some (k * q) end.
Definition thr_level (k : Q) (L : level) : level :=
  mkL (l_skip L) (l_re L) (l_we L) (scale_othr k (l_rthr L)) (scale_othr k (l_wthr L)) (l_leak L) (l_rscale L) (l_wscale L).
Definition scale_thr (k : Q) (sp : spec) : spec :=
  mkS (s_bounds sp) (s_tensors sp) (map (thr_level k) (s_levels sp)) (c_skip sp) (c_e sp) (scale_othr k (c_thr sp)) (c_leak sp).

Lemma nth_thr k lvl ls : nth lvl (map (thr_level k) ls) dflt_level = thr_level k (nth lvl ls dflt_level).
Proof. change dflt_level with (thr_level k dflt_level) at 1. apply map_nth. Qed.

Lemma inv_thr_scale k o : ~ k == 0 -> inv_thr (scale_othr k o) == / k * inv_thr o.
Proof. intro Hk. destruct o as [q|]; cbn [scale_othr inv_thr]; [apply Qinv_mult_distr|ring]. Qed.

Lemma Qmax_compat a a' b b' : a == a' -> b == b' -> Qmax a b == Qmax a' b'.
Proof.
  intros Ha Hb. unfold Qmax. destruct (Qle_bool a b) eqn:E, (Qle_bool a' b') eqn:E'; try assumption.
  - apply Qle_bool_iff in E. rewrite Ha, Hb in E. apply Qle_bool_iff in E. congruence.
  - apply Qle_bool_iff in E'. rewrite <- Ha, <- Hb in E'. apply Qle_bool_iff in E'. congruence.
Qed.

Lemma Qmax_scale c a b : 0 < c -> Qmax (c * a) (c * b) == c * Qmax a b.
Proof.
  intro Hc. unfold Qmax. destruct (Qle_bool a b) eqn:E, (Qle_bool (c * a) (c * b)) eqn:E'; try reflexivity.
  - apply Qle_bool_iff in E. assert (c * a <= c * b) as H by (apply Qmult_le_l; assumption). apply Qle_bool_iff in H. congruence.
  - apply Qle_bool_iff in E'. apply Qmult_le_l in E'; [|exact Hc]. apply Qle_bool_iff in E'. congruence.
Qed.

Lemma fold_Qmax_scale {A} c (f f' : A -> Q) (l : list A) z z' : 0 < c -> z' == c * z -> (forall x, f' x == c * f x) ->
  fold_right Qmax z' (map f' l) == c * fold_right Qmax z (map f l).
Proof.
  intros Hc Hz Hf. induction l as [|x l IH]; cbn [map fold_right]; [exact Hz|].
  rewrite (Qmax_compat _ (c * f x) _ (c * fold_right Qmax z (map f l)) (Hf x) IH). apply Qmax_scale, Hc.
Qed.

Section Thr.
  Variable counts : bool -> bool -> list item -> nat -> Z * Z.
  Variable k : Q.
  Hypothesis Hk : 0 < k.
  Variable sp : spec.
  Variable m : list node.

  Lemma k_nz : ~ k == 0.
  Proof. intro H. rewrite H in Hk. discriminate. Qed.

  Lemma tcounts_thr t lvl : tcounts counts (scale_thr k sp) m t lvl = tcounts counts sp m t lvl.
  Proof.
    unfold tcounts. cbn [scale_thr s_tensors c_skip s_bounds]. f_equal.
    assert (E : forall l, skipf_of (scale_thr k sp) l = skipf_of sp l).
    { intro l. unfold skipf_of. cbn [scale_thr s_levels]. rewrite nth_thr. reflexivity. }
    generalize (s_bounds sp). generalize (nth t (s_tensors sp) (mkT [] false)). intros tn s. revert s.
    induction m as [|nd r IH]; intro s; [reflexivity|]. destruct nd as [l t'|rv tile]; cbn [chain_of].
    - destruct (Nat.eqb t' t); [rewrite E; f_equal|]; apply IH.
    - f_equal. apply IH.
  Qed.

  Lemma actions_thr lvl t : actions counts (scale_thr k sp) m lvl t = actions counts sp m lvl t.
  Proof. unfold actions. rewrite tcounts_thr. cbn [scale_thr s_levels]. rewrite nth_thr. reflexivity. Qed.

  Lemma level_latency_thr lvl : level_latency counts (scale_thr k sp) m lvl == / k * level_latency counts sp m lvl.
  Proof.
    unfold level_latency. cbn [scale_thr s_levels]. rewrite nth_thr. cbn [thr_level l_rthr l_wthr]. rewrite !inv_thr_scale by apply k_nz.
    unfold tids. cbn [scale_thr s_tensors].
    replace (map (fun t => fst (actions counts (scale_thr k sp) m lvl t)) (seq 0 (length (s_tensors sp))))
      with (map (fun t => fst (actions counts sp m lvl t)) (seq 0 (length (s_tensors sp)))) by (apply map_ext; intro t; rewrite actions_thr; reflexivity).
    replace (map (fun t => snd (actions counts (scale_thr k sp) m lvl t)) (seq 0 (length (s_tensors sp))))
      with (map (fun t => snd (actions counts sp m lvl t)) (seq 0 (length (s_tensors sp)))) by (apply map_ext; intro t; rewrite actions_thr; reflexivity).
    ring.
  Qed.

  Lemma latency_thr : latency counts (scale_thr k sp) m == / k * latency counts sp m.
  Proof.
    unfold latency, lids. cbn [scale_thr s_levels]. rewrite map_length. apply fold_Qmax_scale.
    - apply Qinv_lt_0_compat, Hk.
    - unfold compute_latency, n_computes. cbn [scale_thr s_bounds c_thr]. rewrite inv_thr_scale by apply k_nz. ring.
    - intro lvl. apply level_latency_thr.
  Qed.
End Thr.

Definition thr_mspec (k : Q) (ms : mspec) : mspec := mkM (scale_thr k (m_spec ms)) (m_keep ms) (m_may ms) (m_size ms) (m_bpv ms).

Lemma space_thr k ms : space (thr_mspec k ms) = space ms.
Proof.
  unfold space, bodies, fuel, init_state, top, fits, bpvf. cbn [thr_mspec m_spec m_size m_bpv scale_thr s_levels s_tensors s_bounds]. rewrite map_length.
  rewrite (paths_ext (sstep ms) (sstep (thr_mspec k ms)) (sfinal ms) (sfinal (thr_mspec k ms)) (scands ms) (scands (thr_mspec k ms))).
  - reflexivity.
  - intros st n. unfold sstep. cbn [thr_mspec m_spec m_may scale_thr s_levels s_tensors s_bounds]. rewrite map_length. reflexivity.
  - intro st. unfold sfinal, all_pairs. cbn [thr_mspec m_spec m_keep scale_thr s_levels s_tensors]. rewrite map_length. reflexivity.
  - intro st. unfold scands, all_pairs. cbn [thr_mspec m_spec scale_thr s_levels s_tensors s_bounds]. rewrite map_length. reflexivity.
Qed.

Lemma opt_latency_thr k ms v : 0 < k -> opt ms MLatency = Some v -> exists v', opt (thr_mspec k ms) MLatency = Some v' /\ v' == / k * v.
Proof.
  intros Hk O. unfold opt in *. rewrite space_thr.
  assert (F : Forall2 (fun a b => b == / k * a) (map (objective ms MLatency) (space ms)) (map (objective (thr_mspec k ms) MLatency) (space ms))).
  { clear O. induction (space ms) as [|m r IH]; cbn [map]; [constructor|]. constructor; [|exact IH]. unfold objective. cbn [thr_mspec m_spec]. apply latency_thr, Hk. }
  destruct (qmin_scaled_some (/ k) _ _ v F O) as [v' O']. exists v'. split; [exact O'|]. eapply qmin_scaled; try eassumption. apply Qinv_lt_0_compat, Hk.
Qed.
