(* C25 model — structure.py:Hierarchical._flatten (Memory/Toll/Container/Compute leaves,
   nested hierarchies, forks; Array nodes are outside this model). *)
From AF Require Import Base.Tactics Lib.ArchTree.

Definition target (c : nat) (l : leaf) : bool := is_comp l && Nat.eqb (ln l) c.

(* returns (flattened leaves, whether the target compute was reached) *)
Fixpoint flattenF (c : nat) (f : forest) : list leaf * bool :=
  match f with
  | FNil => ([], false)
  | FCons a f' =>
      match a with
      | AHier fork sub =>
          if fork && negb (containsF c sub) then flattenF c f'       (* fork without the compute: skipped *)
          else
            let '(r, found) := flattenF c sub in
            if found then (r, true)                                    (* break *)
            else let '(r', found') := flattenF c f' in (r ++ r', found')
      | ALeaf l =>
          if is_comp l then
            if Nat.eqb (ln l) c then ([l], true)                       (* append, break *)
            else flattenF c f'                                         (* another compute: skipped *)
          else let '(r', found') := flattenF c f' in (l :: r', found')
      end
  end.

(* Reference: walk the document-order leaf sequence of the tree pruned of foreign forks;
   stop at the target compute; drop every other compute. *)
Fixpoint path (c : nat) (L : list leaf) : list leaf * bool :=
  match L with
  | [] => ([], false)
  | l :: L' =>
      if target c l then ([l], true)
      else let '(r, found) := path c L' in (if is_comp l then r else l :: r, found)
  end.

Definition spec_path (c : nat) (f : forest) : list leaf * bool := path c (pleaves c f).

(* _get_flattened_architecture raises when the last flattened node is not the compute *)
Definition flatten_or_error (c : nat) (f : forest) : option (list leaf) :=
  let '(r, found) := flattenF c f in if found then Some r else None.
