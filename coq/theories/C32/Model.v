(* C32 model — util/parallel.py:parallel.  The pool (joblib) is abstracted by the list of
   arrivals: tagged results in completion order.  The model is the collection logic. *)
From Coq Require Import List Arith Lia Permutation.
Import ListNotations.

Section C32.
Context {R : Type}.

Fixpoint set_nth (i : nat) (v : option R) (l : list (option R)) : list (option R) :=
  match l, i with
  | [], _ => []
  | _ :: t, O => v :: t
  | x :: t, S i' => x :: set_nth i' v t
  end.

(* results = [None] * total_jobs; for i, result in yield_results(): results[i] = result *)
Definition collect (n : nat) (arrivals : list (nat * R)) : list (option R) :=
  fold_left (fun acc ir => set_nth (fst ir) (Some (snd ir)) acc) arrivals (repeat None n).

(* dict jobs: result = {k: v for k, v in arrivals}; return {k: result[k] for k in jobs} *)
Fixpoint dict_get (k : nat) (d : list (nat * R)) : option R :=
  match d with [] => None | (k', v) :: t => if Nat.eqb k k' then Some v else dict_get k t end.
Fixpoint dict_put (k : nat) (v : R) (d : list (nat * R)) : list (nat * R) :=
  match d with
  | [] => [(k, v)]
  | (k', v') :: t => if Nat.eqb k k' then (k, v) :: t else (k', v') :: dict_put k v t
  end.
Definition collect_dict (keys : list nat) (arrivals : list (nat * R)) : list (nat * option R) :=
  let d := fold_left (fun acc kv => dict_put (fst kv) (snd kv) acc) arrivals [] in
  map (fun k => (k, dict_get k d)) keys.

(* n_jobs == 1 or a single job *)
Definition sequential {J} (run : J -> R) (jobs : list J) : list R := map run jobs.
End C32.
