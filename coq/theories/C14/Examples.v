From AF Require Import Base.Tactics Lib.Pareto Lib.Front Lib.Join C13.Model C13.Examples.
Open Scope Z_scope.
(* on the C13 example: [19; 9] is achievable, filtering on it removes rows, the objective front stays *)
Example ex_achievable : In [19; 9] (map (fun r => oproj3 (rvec r)) (exhaustive ex_compat comb3 (fits3 8) ex_A [ex_B; ex_C])).
Proof. vm_compute. tauto. Qed.
Definition ex_A2 := ex_A ++ [mkRow 0 [30; 12; 1]].
Example ex_filtered : (length (tfilter oproj3 [19; 9] ex_A2), length ex_A2) = (4%nat, 5%nat).
Proof. vm_compute. reflexivity. Qed.
Example ex_same_front :
  front (map (fun r => oproj3 (rvec r)) (exhaustive ex_compat comb3 (fits3 8) (tfilter oproj3 [19; 9] ex_A2) (map (tfilter oproj3 [19; 9]) [ex_B; ex_C])))
  = front (map (fun r => oproj3 (rvec r)) (exhaustive ex_compat comb3 (fits3 8) ex_A2 [ex_B; ex_C])).
Proof. vm_compute. reflexivity. Qed.
