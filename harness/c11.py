"""C11 — the Pareto filter keeps exactly the non-dominated rows (DESIGN.md section 6, C11)."""
import itertools
import math

import numpy as np

import common
from common import coq_Z, coq_list

TRUSTED = [
    "float values are replaced by their per-column ranks before they reach the model (dominance, diff-equality and row equality depend only on order); the harness computes the ranks",
    "the float32 sort key of _sfs_bnl_core is abstracted by 'any key monotone w.r.t. dominance' (hypothesis of C11_mask_exact; true of rounded sums with any association); NaN keys are mapped to -inf by the code",
    "window-min / block-min pruning is modelled as the plain window scan; C11_skip_sound shows such pruning only skips comparisons that cannot succeed",
    "*_per_prime_factor goals: compared against the Python oracle (divisibility order) only, not against the Coq model",
    "numba code generation, numpy argsort(kind='mergesort') stability, pandas duplicated(): exercised by the correspondence only",
]
GOALS = ["min", "max", "diff", "min_per_prime_factor", "max_per_prime_factor"]
INF = float("inf")


def impl():
    common.setup_impl_path()
    from accelforge.mapper.FFM._pareto_df import fast_pareto, pareto
    return fast_pareto, pareto


# ------------------------------------------------------------------ oracle (the property itself)
def col_le(goal, a, b):
    if goal == "min":
        return a <= b
    if goal == "max":
        return b <= a
    if goal == "min_per_prime_factor":
        return int(b) % int(a) == 0
    if goal == "max_per_prime_factor":
        return int(a) % int(b) == 0
    raise ValueError(goal)


def oracle_mask(rows, goals):
    n = len(rows)
    opt = [k for k, g in enumerate(goals) if g != "diff"]
    dif = [k for k, g in enumerate(goals) if g == "diff"]
    out = []
    for i in range(n):
        ri = rows[i]
        dominated = False
        for j in range(n):
            rj = rows[j]
            if any(rj[k] != ri[k] for k in dif):
                continue
            if all(col_le(goals[k], rj[k], ri[k]) for k in opt) and any(not col_le(goals[k], ri[k], rj[k]) for k in opt):
                dominated = True
                break
        dup = any(rows[j] == ri for j in range(i))
        out.append((not dominated) and (not dup))
    return out


# ------------------------------------------------------------------ generators
def gen_bigfront(rng):
    """a large Pareto front (antichain of 16-90 rows in >= 3 varying columns) where every front row is the SOLE dominator of one
    other row: exercises the window / block-minima bookkeeping of the sort-filter-skyline at every window position"""
    nf = rng.choice([16, 17, 31, 32, 33, 48, 49, 64, 65, 90])
    d = rng.randint(3, 6)
    goals = [rng.choice(["min", "min", "max"]) for _ in range(d)]
    sgn = [1.0 if g == "min" else -1.0 for g in goals]
    perm = list(range(nf))
    rng.shuffle(perm)
    front = []
    for i in range(nf):
        r = [float(i), float(nf - i)] + [float(rng.randint(0, 2)) for _ in range(d - 2)]
        front.append(r)
    rows = []
    for i in perm:
        rows.append([sgn[k] * v for k, v in enumerate(front[i])])
    for i in rng.sample(range(nf), rng.randint(nf // 2, nf)):
        r = list(front[i])
        r[rng.randrange(2, d)] += 1.0        # worse in one of the free columns only: dominated by front[i] and by nothing else
        rows.append([sgn[k] * v for k, v in enumerate(r)])
    rng.shuffle(rows)
    dtype = rng.choice(["float32", "float64"])
    return rows, goals, dtype, "bigfront"


def gen_matrix(rng, big=False):
    if rng.random() < 0.12:
        return gen_bigfront(rng)
    kind = rng.choice(["small", "small", "wide", "inf", "ties", "sumtie", "pf", "mixed"])
    n = rng.choice([2, 3, 4, 5, 8, 12, 20, 33, 40]) if not big else rng.choice([64, 100, 150, 300])
    d = rng.randint(1, 8 if not big else 6)
    goals = []
    for k in range(d):
        r = rng.random()
        if kind == "pf" and r < 0.4:
            goals.append(rng.choice(GOALS[3:]))
        elif r < 0.18:
            goals.append("diff")
        elif r < 0.35:
            goals.append("max")
        else:
            goals.append("min")
    if kind == "mixed" and rng.random() < 0.5:
        goals[rng.randrange(d)] = rng.choice(GOALS[3:])
    cols = []
    for k in range(d):
        g = goals[k]
        if g.endswith("prime_factor"):
            col = [rng.choice([1, 2, 3, 4, 6, 8, 9, 12, 16, 18, 24, 36, 5, 10, 360]) for _ in range(n)]
        elif g == "diff":
            col = [float(rng.randint(0, 2)) for _ in range(n)]
        elif kind in ("small", "ties", "pf"):
            col = [float(rng.randint(0, 3)) for _ in range(n)]
        elif kind == "wide":
            col = [float(rng.choice([1, 3, 7]) * 10 ** rng.randint(0, 9)) for _ in range(n)]
        elif kind == "inf":
            col = [rng.choice([INF, -INF]) if rng.random() < 0.2 else float(rng.randint(0, 4)) for _ in range(n)]
            if g == "min":
                col = [abs(x) if x in (INF, -INF) and rng.random() < 0.8 else x for x in col]
        elif kind == "sumtie":
            # float32 sums collide: one huge column + small ones
            col = [float(rng.choice([1e8, 2e8, 3e8])) if k == 0 else float(rng.randint(0, 3)) for _ in range(n)]
        else:
            col = [float(rng.choice([0, 1, 2, 5, 1e6, 1e9, 16777216.0, 16777217.0, INF])) for _ in range(n)]
        if rng.random() < 0.12:
            col = [col[0]] * n  # constant column
        cols.append(col)
    rows = [[cols[k][i] for k in range(d)] for i in range(n)]
    # inject duplicates and dominating/dominated near-copies
    for _ in range(rng.randint(0, max(1, n // 4))):
        i, j = rng.randrange(n), rng.randrange(n)
        rows[j] = list(rows[i])
        if rng.random() < 0.5:
            k = rng.randrange(d)
            if goals[k] in ("min", "max") and rows[j][k] not in (INF, -INF):
                rows[j][k] += rng.choice([-1.0, 1.0])
    if kind in ("small", "ties", "wide", "mixed") and rng.random() < 0.15:
        # unit conversion: every min / max column scaled by a power of two (order-preserving and exact), tiny or huge magnitudes
        sc = 2.0 ** rng.choice([-70, -55, -45, 45])
        rows = [[x * sc if goals[k] in ("min", "max") else x for k, x in enumerate(r)] for r in rows]
        kind = kind + "-scaled"
    dtype = rng.choice(["float32", "float64"])
    if dtype == "float32":
        rows = [[float(np.float32(x)) for x in r] for r in rows]
    return rows, goals, dtype, kind


def run_impl(fp, par, rows, goals, dtype):
    data = np.array(rows, dtype=dtype)
    out = {}
    for name, f in (("fast_pareto_mask", fp.fast_pareto_mask), ("makepareto_numpy", par.makepareto_numpy)):
        try:
            out[name] = [bool(x) for x in f(data.copy(), list(goals))]
        except Exception as e:  # noqa
            out[name] = f"EXC:{type(e).__name__}:{e}"
    return out


def rank_encode(rows, goals):
    d = len(goals)
    enc = [[0] * d for _ in rows]
    for k in range(d):
        vals = sorted(set(r[k] for r in rows))
        rk = {v: i for i, v in enumerate(vals)}
        for i, r in enumerate(rows):
            enc[i][k] = rk[r[k]]
    return enc


def coq_case(rows, goals):
    gl = coq_list(goals, lambda g: {"min": "GMin", "max": "GMax", "diff": "GDiff"}[g])
    rl = coq_list(rank_encode(rows, goals), lambda r: coq_list(r, coq_Z))
    return f"impl_mask_sum {gl} {rl}"


def shrink(fails, rows, goals):
    """greedy row / column deletion keeping the failure"""
    changed = True
    while changed:
        changed = False
        for i in range(len(rows) - 1, -1, -1):
            cand = rows[:i] + rows[i + 1:]
            if len(cand) >= 2 and fails(cand, goals):
                rows, changed = cand, True
        for k in range(len(goals) - 1, -1, -1):
            if len(goals) <= 1:
                break
            cr, cg = [r[:k] + r[k + 1:] for r in rows], goals[:k] + goals[k + 1:]
            if fails(cr, cg):
                rows, goals, changed = cr, cg, True
    return rows, goals


def run(ck):
    fp, par = impl()
    ck.prove()
    rng = ck.rng("matrices")
    cases = []
    corpus = common.ROOT / "corpus" / "C11"
    import json
    for f in sorted(corpus.glob("*.json")):
        c = json.loads(f.read_text())
        cases.append(([[float(x) for x in r] for r in c["rows"]], c["goals"], c["dtype"], "corpus"))
    for _ in range(ck.n(1500, 40000)):
        cases.append(gen_matrix(rng))
    for _ in range(ck.n(40, 1500)):
        cases.append(gen_matrix(rng, big=True))
    # exhaustive small grid: all 3-row matrices over {0,1,2,inf}^2 (and ^3 in thorough), goals all min
    vals = [0.0, 1.0, 2.0, INF]
    for d in ([2] if ck.quick() else [2, 3]):
        for flat in itertools.product(vals, repeat=3 * d):
            cases.append(([list(flat[i * d:(i + 1) * d]) for i in range(3)], ["min"] * d, "float32", "grid"))
    kinds = {}
    model_cases = []
    for idx, (rows, goals, dtype, kind) in enumerate(cases):
        kinds[kind] = kinds.get(kind, 0) + 1
        exp = oracle_mask(rows, goals)
        got = run_impl(fp, par, rows, goals, dtype)
        nontrivial = len(rows) >= 2 and not all(exp)
        ck.case((rows, goals, dtype), nontrivial=nontrivial,
                sample={"rows": rows, "goals": goals, "dtype": dtype, "mask": exp} if kind not in ("grid",) and len(rows) <= 5 else None)
        ck.count("rows_total", len(rows))
        if any(x in (INF, -INF) for r in rows for x in r):
            ck.count("cases_with_inf")
        if len(set(map(tuple, rows))) < len(rows):
            ck.count("cases_with_duplicate_rows")
        for name, g in got.items():
            if g != exp and len(ck.violations) < 5:
                def fails(rr, gg, name=name, dtype=dtype):
                    return run_impl(fp, par, rr, gg, dtype)[name] != oracle_mask(rr, gg)
                srows, sgoals = shrink(fails, rows, goals)
                ck.failing_input({"function": name, "rows": srows, "goals": sgoals, "dtype": dtype,
                                  "impl": run_impl(fp, par, srows, sgoals, dtype)[name], "expected": oracle_mask(srows, sgoals)},
                                 what=f"{name} mask differs from the non-dominated/first-duplicate mask")
        if all(g in ("min", "max", "diff") for g in goals) and (kind != "grid" or len(goals) == 2):
            model_cases.append((idx, got["fast_pareto_mask"]))
    # model side
    exprs = [coq_case(cases[i][0], cases[i][1]) for i, _ in model_cases]
    # batch: several cases per Eval to cut per-command overhead
    B = 25
    batched = ["[" + "; ".join(exprs[k:k + B]) + "]" for k in range(0, len(exprs), B)]
    vals_ = common.run_coq_eval("C11", ["AF.Lib.Pareto", "AF.C11.Model"], batched, chunk=12)
    flat = [m for b in vals_ for m in b]
    mism = []
    for (i, g), m in zip(model_cases, flat):
        if m != g:
            mism.append({"rows": cases[i][0], "goals": cases[i][1], "dtype": cases[i][2], "impl": g, "model": m})
    ck.count("model_vs_impl_compared", len(model_cases))
    ck.count("model_vs_impl_mismatches", len(mism))
    if mism and not ck.violations:
        ck.unexplained("broken-correspondence", {"mismatches": mism[:3], "n": len(mism)},
                       what="Coq model mask and fast_pareto_mask differ; the oracle found no failing input")
    return ck.finish(
        rule="random matrices (2-40 rows, some 64-300; 1-8 columns; goals min/max/diff/*_per_prime_factor; float32 and float64; "
             "mixtures: small-range ties, wide magnitudes, +-inf, float32 sum ties, constant columns, injected duplicates and near-copies) "
             "+ every 3-row matrix over {0,1,2,inf}^d (d=2; d=3 in thorough) through fast_pareto_mask and makepareto_numpy; "
             "non-trivial = at least one row is filtered out",
        trusted=TRUSTED, exhaustive=False,
        extra={"input_distribution": kinds,
               "source_fingerprint": [common.fingerprint("accelforge/mapper/FFM/_pareto_df/fast_pareto.py", ["_sfs_bnl_core", "fast_pareto_mask", "_encode_groups", "prime_factor_counts", "_dedup_mask"])]})


def replay(ck, data):
    fp, par = impl()
    rows = [[float(x) for x in r] for r in data["rows"]]
    got = run_impl(fp, par, rows, data["goals"], data["dtype"])[data["function"]]
    if got != oracle_mask(rows, data["goals"]):
        print(f"VIOLATION property=C11 replay=<replayed>")
        return 1
    print("replay: property holds on this input now")
    return 0
