(* C11 proofs, part 1: sorting, and the sort-filter-skyline kernel. *)
From AF Require Import Base.Tactics Base.ListAux Lib.Pareto C11.Model.
Open Scope Z_scope.

(* ---------------------------------------------------------------- stable insertion sort *)
Section Sort.
Variable key : lrow -> Z.

Lemma insert_by_perm p l : Permutation (p :: l) (insert_by key p l).
Proof.
  induction l as [|q l IH]; simpl; [reflexivity|].
  destruct (key p <? key q); [reflexivity|].
  rewrite perm_swap. constructor. exact IH.
Qed.

Lemma sort_by_perm_gen l : forall acc, Permutation (l ++ acc) (fold_left (fun a p => insert_by key p a) l acc).
Proof.
  induction l as [|p l IH]; intros acc; simpl; [reflexivity|].
  rewrite <- IH. rewrite <- insert_by_perm. apply Permutation_middle.
Qed.

Lemma sort_by_perm l : Permutation l (sort_by key l).
Proof. unfold sort_by. rewrite <- sort_by_perm_gen. rewrite app_nil_r. reflexivity. Qed.

(* sortedness: every element is <= everything after it *)
Inductive ksorted : list lrow -> Prop :=
| ks_nil : ksorted []
| ks_cons p l : (forall q, In q l -> key p <= key q) -> ksorted l -> ksorted (p :: l).

Lemma insert_by_sorted p l : ksorted l -> ksorted (insert_by key p l).
Proof.
  induction 1 as [|q l Hq Hl IH]; simpl.
  - constructor; [intros ? []|constructor].
  - destruct (key p <? key q) eqn:E.
    + constructor; [|constructor; assumption].
      intros x [<-|Hx]; [lia|]. specialize (Hq x Hx). lia.
    + constructor; [|exact IH].
      intros x Hx. apply (Permutation_in _ (Permutation_sym (insert_by_perm p l))) in Hx.
      destruct Hx as [<-|Hx]; [lia|apply Hq, Hx].
Qed.

Lemma sort_by_sorted l : ksorted (sort_by key l).
Proof.
  unfold sort_by. assert (H : ksorted []) by constructor. revert H. generalize (@nil lrow).
  induction l as [|p l IH]; intros acc H; simpl; [exact H|]. apply IH, insert_by_sorted, H.
Qed.

Lemma ksorted_app_inv P r Q : ksorted (P ++ r :: Q) ->
  (forall x, In x P -> key x <= key r) /\ ksorted (r :: Q) /\ ksorted P.
Proof.
  induction P as [|p P IH]; simpl; intros H.
  - split; [intros x []|]. split; [assumption|constructor].
  - inversion H as [|? ? Hp Hs]; subst. destruct (IH Hs) as [H1 [H2 H3]]. split; [|split; [assumption|]].
    + intros x [<-|Hx]; [apply Hp, in_or_app; right; left; reflexivity|apply H1, Hx].
    + constructor; [|assumption]. intros q Hq. apply Hp, in_or_app. left; assumption.
Qed.
End Sort.

(* ---------------------------------------------------------------- the SFS invariant *)
Definition nondom_in (P : list lrow) (v : vec) : Prop := forall q, In q P -> dom (snd q) v = false.

Section Sfs.
Variable key : vec -> Z.
Hypothesis key_mono : forall a b, dom a b = true -> key a <= key b.

Definition lkey (p : lrow) : Z := key (snd p).

Record sfs_inv (P win : list lrow) (kept : list nat) : Prop := {
  inv_win_sub : forall w, In w win -> In w P;
  inv_cover : forall p, In p P -> In p win \/ exists w, In w win /\ dom (snd w) (snd p) = true;
  inv_kept : forall i, In i kept <-> exists v, In (i, v) P /\ nondom_in P v
}.

Lemma existsb_false_forall {A} (f : A -> bool) l : existsb f l = false -> forall x, In x l -> f x = false.
Proof.
  intros H x Hx. destruct (f x) eqn:E; [|reflexivity].
  assert (existsb f l = true) by (apply existsb_exists; exists x; tauto). congruence.
Qed.

Lemma sfs_step_inv P win kept r :
  NoDup (map fst (P ++ [r])) ->
  (forall x, In x P -> lkey x <= lkey r) ->
  sfs_inv P win kept ->
  let st := sfs_step key (win, kept) r in
  sfs_inv (P ++ [r]) (fst st) (snd st).
Proof.
  intros Hnd Hsorted [I1 I2 I3]. unfold sfs_step. cbv zeta.
  assert (Htag : forall i v v', In (i, v) (P ++ [r]) -> In (i, v') (P ++ [r]) -> v = v').
  { intros i v v' H1 H2. clear -Hnd H1 H2. induction (P ++ [r]) as [|[j u] l IH]; [destruct H1|].
    simpl in Hnd. inversion Hnd as [|? ? Hn Hl]; subst.
    destruct H1 as [H1|H1], H2 as [H2|H2].
    - congruence.
    - inversion H1; subst. exfalso. apply Hn. apply in_map_iff. exists (i, v'). tauto.
    - inversion H2; subst. exfalso. apply Hn. apply in_map_iff. exists (i, v). tauto.
    - apply IH; assumption. }
  destruct (existsb (fun w => dom (snd w) (snd r)) win) eqn:E; simpl.
  - (* r is dominated by a window row *)
    apply existsb_exists in E. destruct E as [w [Hw Hwr]].
    constructor.
    + intros x Hx. apply in_or_app. left. apply I1, Hx.
    + intros p Hp. apply in_app_or in Hp. destruct Hp as [Hp|[<-|[]]]; [apply I2, Hp|].
      right. exists w. tauto.
    + intros i. rewrite I3. split.
      * intros [v [Hv Hn]]. exists v. split; [apply in_or_app; left; exact Hv|].
        intros q Hq. apply in_app_or in Hq. destruct Hq as [Hq|[<-|[]]]; [apply Hn, Hq|].
        destruct (dom (snd r) v) eqn:F; [|reflexivity].
        pose proof (dom_trans _ _ _ Hwr F) as G. rewrite (Hn w (I1 w Hw)) in G. discriminate.
      * intros [v [Hv Hn]]. apply in_app_or in Hv. destruct Hv as [Hv|[Hv|[]]].
        -- exists v. split; [exact Hv|]. intros q Hq. apply Hn, in_or_app. left; exact Hq.
        -- subst r. simpl in Hwr. rewrite (Hn w) in Hwr; [discriminate|]. apply in_or_app. left. apply I1, Hw.
  - (* r enters the window *)
    pose proof (existsb_false_forall _ _ E) as Hnw. simpl in Hnw.
    assert (Hr_nd : nondom_in (P ++ [r]) (snd r)).
    { intros q Hq. apply in_app_or in Hq. destruct Hq as [Hq|[<-|[]]]; [|apply dom_irrefl].
      destruct (I2 q Hq) as [Hqw|[w [Hw Hwq]]]; [apply Hnw, Hqw|].
      destruct (dom (snd q) (snd r)) eqn:F; [|reflexivity].
      pose proof (dom_trans _ _ _ Hwq F) as G. rewrite (Hnw w Hw) in G. discriminate. }
    constructor.
    + intros x Hx. apply in_app_or in Hx. apply in_or_app. destruct Hx as [Hx|Hx]; [left; apply I1, Hx|right; exact Hx].
    + intros p Hp. apply in_app_or in Hp. destruct Hp as [Hp|[<-|[]]].
      * destruct (I2 p Hp) as [H|[w [Hw Hd]]]; [left; apply in_or_app; left; exact H|].
        right. exists w. split; [apply in_or_app; left; exact Hw|exact Hd].
      * left. apply in_or_app. right. left. reflexivity.
    + intros i. simpl. rewrite filter_In, I3, negb_true_iff. split.
      * intros [<-|[[v [Hv Hn]] Hu]].
        -- exists (snd r). split; [apply in_or_app; right; left; destruct r; reflexivity|exact Hr_nd].
        -- exists v. split; [apply in_or_app; left; exact Hv|].
           intros q Hq. apply in_app_or in Hq. destruct Hq as [Hq|[<-|[]]]; [apply Hn, Hq|].
           destruct (dom (snd r) v) eqn:F; [|reflexivity]. exfalso.
           (* (i,v) is in the window, has the same key as r, and r dominates it: it was un-marked *)
           assert (Hiw : In (i, v) win).
           { destruct (I2 (i, v) Hv) as [H|[w [Hw Hd]]]; [exact H|]. simpl in Hd.
             rewrite (Hn w (I1 w Hw)) in Hd. discriminate. }
           pose proof (Hsorted (i, v) Hv) as K1. pose proof (key_mono _ _ F) as K2. unfold lkey in K1. simpl in K1.
           pose proof (existsb_false_forall _ _ Hu (i, v) Hiw) as G. simpl in G.
           rewrite Nat.eqb_refl, F in G. simpl in G. rewrite andb_true_r in G. lia.
      * intros [v [Hv Hn]]. apply in_app_or in Hv. destruct Hv as [Hv|[Hv|[]]].
        -- right. split.
           ++ exists v. split; [exact Hv|]. intros q Hq. apply Hn, in_or_app. left; exact Hq.
           ++ match goal with |- existsb ?f win = false => destruct (existsb f win) eqn:G end; [|reflexivity]. exfalso.
              apply existsb_exists in G. destruct G as [[j u] [Hw G]]. simpl in G.
              rewrite !andb_true_iff in G. destruct G as [[G1 _] G3]. apply Nat.eqb_eq in G1. subst j.
              assert (u = v).
              { apply (Htag i); apply in_or_app; left; [apply I1, Hw|exact Hv]. }
              subst u. rewrite (Hn r) in G3; [discriminate|]. apply in_or_app. right. left. reflexivity.
        -- left. subst r. reflexivity.
Qed.

Lemma sfs_fold_inv S : forall P win kept,
  NoDup (map fst (P ++ S)) -> ksorted lkey (P ++ S) ->
  sfs_inv P win kept ->
  let st := fold_left (sfs_step key) S (win, kept) in
  sfs_inv (P ++ S) (fst st) (snd st).
Proof.
  induction S as [|r S IH]; intros P win kept Hnd Hs Hinv; cbn [fold_left].
  - rewrite app_nil_r. exact Hinv.
  - destruct (ksorted_app_inv _ _ _ _ Hs) as [Hle _].
    assert (E : P ++ r :: S = (P ++ [r]) ++ S) by (rewrite <- app_assoc; reflexivity).
    assert (Hnd' : NoDup (map fst (P ++ [r]))).
    { rewrite E in Hnd. rewrite map_app in Hnd. apply NoDup_app_inv in Hnd. tauto. }
    pose proof (sfs_step_inv P win kept r Hnd' Hle Hinv) as Hstep. cbv zeta in Hstep.
    destruct (sfs_step key (win, kept) r) as [win' kept'] eqn:Est. cbn [fst snd] in Hstep.
    rewrite E. apply IH; [rewrite <- E; exact Hnd|rewrite <- E; exact Hs|exact Hstep].
Qed.

(* the kernel keeps exactly the rows no row of the group dominates *)
Theorem sfs_correct L i : NoDup (map fst L) ->
  (In i (sfs key L) <-> exists v, In (i, v) L /\ nondom_in L v).
Proof.
  intros Hnd. unfold sfs.
  set (S := sort_by (fun p => key (snd p)) L).
  assert (HP : Permutation L S) by apply sort_by_perm.
  pose proof (sfs_fold_inv S [] [] []) as H. simpl in H.
  assert (Hinv0 : sfs_inv [] [] []).
  { constructor; simpl; try tauto. intros j. split; [intros []|intros [v [[] _]]]. }
  specialize (H (Permutation_NoDup (Permutation_map fst HP) Hnd) (sort_by_sorted _ L) Hinv0).
  destruct H as [_ _ H3]. rewrite H3. split; intros [v [Hv Hn]]; exists v.
  - split; [apply (Permutation_in _ (Permutation_sym HP)), Hv|]. intros q Hq. apply Hn, (Permutation_in _ HP), Hq.
  - split; [apply (Permutation_in _ HP), Hv|]. intros q Hq. apply Hn, (Permutation_in _ (Permutation_sym HP)), Hq.
Qed.
End Sfs.
