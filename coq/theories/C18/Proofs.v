(* C18 proofs: enlarging the mapspace never increases the optimum. *)
From Coq Require Import ZArith QArith List Bool Lia.
Import ListNotations.
Require Import AF.Lib.MiniForge AF.C06.Model AF.Lib.MiniSpace AF.C01.Proofs.
Open Scope Z_scope.

(* generic: if every mapping of the tighter space is a mapping of the relaxed space with the same objective value *)
Lemma opt_monotone ms ms' mt v v' :
  (forall m, in_space ms m = true -> in_space ms' m = true /\ (objective ms' mt m == objective ms mt m)%Q) ->
  opt ms mt = Some v -> opt ms' mt = Some v' -> (v' <= v)%Q.
Proof.
  intros H O O'. destruct (opt_attained ms mt v O) as [m [Hm <-]]. destruct (H m Hm) as [Hm' E].
  rewrite <- E. apply (opt_lower_bound ms' mt m v' Hm' O').
Qed.

Lemma opt_feasible_stays ms ms' mt v :
  (forall m, in_space ms m = true -> in_space ms' m = true) -> opt ms mt = Some v -> exists v', opt ms' mt = Some v'.
Proof.
  intros H O. destruct (opt_attained ms mt v O) as [m [Hm _]]. destruct (opt ms' mt) as [v'|] eqn:E; [eauto|].
  apply (proj1 (opt_none ms' mt)) with (m := m) in E. rewrite (H m Hm) in E. discriminate.
Qed.

(* ---- concrete relaxations that keep the cost model: memory sizes, may_keep, keep *)
Definition same_model (ms ms' : mspec) : Prop := m_spec ms' = m_spec ms /\ m_bpv ms' = m_bpv ms.

Definition size_le (a b : option Z) : Prop := match a, b with _, None => True | Some x, Some y => x <= y | None, Some _ => False end.

Lemma accepted_sizes tensors bpv s1 s2 m s : length s1 = length s2 -> Forall2 size_le s1 s2 ->
  accepted tensors bpv s1 m s = true -> accepted tensors bpv s2 m s = true.
Proof.
  intros L F. unfold accepted. rewrite <- L. rewrite !forallb_forall. intros H lvl Hl. specialize (H lvl Hl).
  assert (G : size_le (nth lvl s1 None) (nth lvl s2 None)).
  { clear -F. revert lvl. induction F as [|a b s1 s2 Hab F IH]; intro lvl; [destruct lvl; exact I|]. destruct lvl; [exact Hab|apply IH]. }
  destruct (nth lvl s1 None) as [x|], (nth lvl s2 None) as [y|]; cbn in G; try reflexivity; try contradiction.
  apply Z.leb_le in H. apply Z.leb_le. lia.
Qed.

Definition tbl_le (a b : list (list bool)) : Prop := forall l t, lk a l t = true -> lk b l t = true.

Section Relax.
  Variables ms ms' : mspec.
  Hypothesis Hmodel : same_model ms ms'.
  Hypothesis Hmay : tbl_le (m_may ms) (m_may ms').          (* may_keep grows *)
  Hypothesis Hkeep : tbl_le (m_keep ms') (m_keep ms).       (* keep shrinks *)
  Hypothesis Hlen : length (m_size ms) = length (m_size ms').
  Hypothesis Hsize : Forall2 size_le (m_size ms) (m_size ms').   (* memories grow *)

  Lemma sstep_relax st n st' : sstep ms st n = Some st' -> sstep ms' st n = Some st'.
  Proof.
    destruct Hmodel as [Hs _]. unfold sstep. rewrite Hs. destruct n as [l t|v tile]; [|auto].
    destruct (Nat.leb 1 l && Nat.ltb l _ && Nat.leb (st_lvl st) l && Nat.ltb t _ && lk (m_may ms) l t && negb (placedb (l, t) (st_placed st))) eqn:E; [|discriminate].
    rewrite !andb_true_iff in E. destruct E as (((((A & B) & C) & D) & F) & G). rewrite A, B, C, D, (Hmay _ _ F), G. auto.
  Qed.

  Lemma sfinal_relax st : sfinal ms st = true -> sfinal ms' st = true.
  Proof.
    destruct Hmodel as [Hs _]. unfold sfinal, all_pairs. rewrite Hs. intro H. apply andb_true_iff in H. destruct H as [A B]. rewrite A. cbn [andb].
    rewrite forallb_forall in *. intros p Hp. specialize (B p Hp). destruct (lk (m_keep ms') (fst p) (snd p)) eqn:K; [|reflexivity].
    rewrite (Hkeep _ _ K) in B. exact B.
  Qed.

  Lemma accepts_relax m : forall st, accepts _ _ (sstep ms) (sfinal ms) st m = true -> accepts _ _ (sstep ms') (sfinal ms') st m = true.
  Proof.
    induction m as [|n m IH]; intros st H; cbn [accepts] in *; [apply sfinal_relax, H|].
    destruct (sstep ms st n) as [st'|] eqn:E; [|discriminate]. rewrite (sstep_relax _ _ _ E). apply IH, H.
  Qed.

  Lemma in_space_relax m : in_space ms m = true -> in_space ms' m = true.
  Proof.
    destruct Hmodel as [Hs Hb]. unfold in_space, in_body, fits, top, fuel, init_state, bpvf. rewrite Hs, Hb.
    destruct (list_eq_dec node_eq_dec _ _); [|discriminate]. cbn [andb]. intro H. rewrite !andb_true_iff in H. destruct H as [[A B] C].
    rewrite (accepts_relax _ _ A), B. cbn [andb]. eapply accepted_sizes; eassumption.
  Qed.

  Lemma objective_relax mt m : objective ms' mt m = objective ms mt m.
  Proof. destruct Hmodel as [Hs _]. unfold objective. rewrite Hs. reflexivity. Qed.
End Relax.
