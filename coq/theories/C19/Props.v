(* C19 — property theorems only.  Proved: the energy clause and the throughput clause.  The n_instances clause is checked on the
   real mapper only (it is outside the single-Einsum model), hence the _partial name of the summary theorem. *)
From Coq Require Import ZArith QArith List Bool Lia.
Import ListNotations.
From AF Require Import Lib.MiniForge C06.Model Lib.MiniSpace C19.Proofs C19.Thr.
Open Scope Q_scope.

(* multiplying every per-action energy and every leak power by k multiplies the energy of EVERY mapping by k, under the model
   and under execution alike (any counting function), and leaves its latency unchanged *)
Theorem C19_energy_of_every_mapping : forall counts k sp m,
  energy counts (scale_energy k sp) m == k * energy counts sp m /\ latency counts (scale_energy k sp) m = latency counts sp m.
Proof. intros. split; [apply energy_scale|apply latency_scale]. Qed.
Print Assumptions C19_energy_of_every_mapping.

(* the mapspace (validity included) does not depend on the energy parameters *)
Theorem C19_space_unchanged : forall k ms, space (scale_mspec k ms) = space ms.
Proof. exact space_scale. Qed.
Print Assumptions C19_space_unchanged.

(* hence the optimal energy is multiplied by k (k > 0) and the optimal latency is unchanged *)
Theorem C19_energy_scale_partial : forall k ms v, 0 < k -> opt ms MEnergy = Some v ->
  (exists v', opt (scale_mspec k ms) MEnergy = Some v' /\ v' == k * v) /\ opt (scale_mspec k ms) MLatency = opt ms MLatency.
Proof. intros k ms v Hk O. split; [apply opt_energy_scale; assumption|apply opt_latency_unscaled]. Qed.
Print Assumptions C19_energy_scale_partial.

(* multiplying every throughput (memories and compute) by k > 0 divides the latency of EVERY mapping by k, under the model and
   under execution alike; the mapspace is unchanged; hence the optimal latency is divided by k *)
Theorem C19_latency_of_every_mapping : forall counts k sp m, 0 < k -> latency counts (scale_thr k sp) m == / k * latency counts sp m.
Proof. intros. apply latency_thr. assumption. Qed.
Print Assumptions C19_latency_of_every_mapping.

Theorem C19_throughput_scale : forall k ms v, 0 < k -> opt ms MLatency = Some v ->
  space (thr_mspec k ms) = space ms /\ exists v', opt (thr_mspec k ms) MLatency = Some v' /\ v' == / k * v.
Proof. intros k ms v Hk O. split; [apply space_thr|apply opt_latency_thr; assumption]. Qed.
Print Assumptions C19_throughput_scale.
