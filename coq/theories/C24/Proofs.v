(* C24 proofs. *)
From Coq Require Import ZArith List Bool Lia Arith.
Import ListNotations.
Require Import AF.Base.ListAux AF.C24.Model.
Open Scope Z_scope.

(* ------------------------------------------------------------------ the enumerated iteration space *)
Definition in_box (p : point) (bs : list nat) : Prop := Forall2 (fun x b => 0 <= x < Z.of_nat b) p bs.

Lemma points_in : forall bs p, In p (points bs) <-> in_box p bs.
Proof.
  induction bs as [|b bs IH]; intro p; simpl.
  - split.
    + intros [<-|[]]. constructor.
    + intro H. inversion H. left. reflexivity.
  - rewrite in_flat_map. split.
    + intros [x [Hx Hp]]. apply in_map_iff in Hp. destruct Hp as [q [<- Hq]]. apply in_seq in Hx.
      constructor; [lia|]. apply IH. exact Hq.
    + intro H. inversion H as [|x b' q bs' Hx Hq]; subst. exists (Z.to_nat x). split.
      * apply in_seq. lia.
      * apply in_map_iff. exists q. split; [f_equal; lia|apply IH; exact Hq].
Qed.

Lemma flat_map_length_const {A B} (f : A -> list B) (l : list A) n :
  (forall a, length (f a) = n) -> length (flat_map f l) = (length l * n)%nat.
Proof. intro H. induction l as [|a l IH]; simpl; [reflexivity|]. rewrite app_length, H, IH. reflexivity. Qed.

Lemma points_length : forall bs, Z.of_nat (length (points bs)) = n_computes bs.
Proof.
  induction bs as [|b bs IH]; [reflexivity|]. unfold n_computes in *. cbn [points map fold_right]. rewrite <- IH.
  rewrite (flat_map_length_const _ _ (length (points bs))) by (intro a; apply map_length).
  rewrite seq_length, Nat2Z.inj_mul. reflexivity.
Qed.

Lemma NoDup_flat_map_disjoint {A B} (f : A -> list B) (l : list A) :
  NoDup l -> (forall a, In a l -> NoDup (f a)) ->
  (forall a a' x, In a l -> In a' l -> In x (f a) -> In x (f a') -> a = a') -> NoDup (flat_map f l).
Proof.
  induction l as [|a l IH]; intros Hl Hf Hd; simpl; [constructor|].
  inversion Hl; subst. apply NoDup_app_intro.
  - apply Hf. left. reflexivity.
  - apply IH; [assumption|intros; apply Hf; right; assumption|intros; eapply Hd; eauto; right; assumption].
  - intros x Hx Hx'. apply in_flat_map in Hx'. destruct Hx' as [a' [Ha' Hxa']].
    assert (a = a') by (eapply Hd; eauto; [left; reflexivity|right; assumption]). subst. contradiction.
Qed.

Lemma NoDup_map_cons {A} (x : A) (l : list (list A)) : NoDup l -> NoDup (map (cons x) l).
Proof.
  induction l as [|a l IH]; intro H; simpl; [constructor|]. inversion H; subst. constructor; [|apply IH; assumption].
  intro Hin. apply in_map_iff in Hin. destruct Hin as [b [Hb Hbl]]. inversion Hb; subst. contradiction.
Qed.

Lemma points_nodup : forall bs, NoDup (points bs).
Proof.
  induction bs as [|b bs IH]; simpl; [constructor; [intros []|constructor]|].
  apply NoDup_flat_map_disjoint.
  - apply seq_NoDup.
  - intros a _. apply NoDup_map_cons. exact IH.
  - intros a a' x _ _ H1 H2. apply in_map_iff in H1, H2. destruct H1 as [q [<- _]]. destruct H2 as [q' [E _]].
    inversion E. lia.
Qed.

(* ------------------------------------------------------------------ min / max *)
Lemma zmin_list_le d l : zmin_list d l <= d /\ forall y, In y l -> zmin_list d l <= y.
Proof.
  unfold zmin_list. revert d. induction l as [|x l IH]; intro d; simpl; [split; [lia|intros y []]|].
  destruct (IH (Z.min d x)) as [H1 H2]. split; [lia|]. intros y [<-|Hy]; [lia|apply H2, Hy].
Qed.
Lemma zmin_list_in d l : zmin_list d l = d \/ In (zmin_list d l) l.
Proof.
  unfold zmin_list. revert d. induction l as [|x l IH]; intro d; simpl; [left; reflexivity|].
  destruct (IH (Z.min d x)) as [H|H]; [|right; right; exact H].
  rewrite H. destruct (Z.min_spec d x) as [[_ ->]|[_ ->]]; [left; reflexivity|right; left; reflexivity].
Qed.
Lemma zmax_list_ge d l : d <= zmax_list d l /\ forall y, In y l -> y <= zmax_list d l.
Proof.
  unfold zmax_list. revert d. induction l as [|x l IH]; intro d; simpl; [split; [lia|intros y []]|].
  destruct (IH (Z.max d x)) as [H1 H2]. split; [lia|]. intros y [<-|Hy]; [lia|apply H2, Hy].
Qed.
Lemma zmax_list_in d l : zmax_list d l = d \/ In (zmax_list d l) l.
Proof.
  unfold zmax_list. revert d. induction l as [|x l IH]; intro d; simpl; [left; reflexivity|].
  destruct (IH (Z.max d x)) as [H|H]; [|right; right; exact H].
  rewrite H. destruct (Z.max_spec d x) as [[_ ->]|[_ ->]]; [right; left; reflexivity|left; reflexivity].
Qed.

Lemma dim_bounds i pts p : In p pts -> dim_min i pts <= nth i p 0 <= dim_max i pts.
Proof.
  intro H. unfold dim_min, dim_max. assert (Hc : In (nth i p 0) (column i pts)) by (unfold column; apply in_map_iff; eauto).
  destruct (column i pts) as [|x l]; [destruct Hc|].
  destruct (zmin_list_le x l) as [A1 A2]. destruct (zmax_list_ge x l) as [B1 B2].
  destruct Hc as [<-|Hc]; [lia|]. specialize (A2 _ Hc). specialize (B2 _ Hc). lia.
Qed.

Lemma dim_min_max_char i pts lo hi :
  (forall p, In p pts -> lo <= nth i p 0 <= hi) ->
  (exists p, In p pts /\ nth i p 0 = lo) -> (exists p, In p pts /\ nth i p 0 = hi) ->
  dim_min i pts = lo /\ dim_max i pts = hi.
Proof.
  intros Hall [p1 [H1 E1]] [p2 [H2 E2]].
  pose proof (dim_bounds i pts p1 H1) as B1. pose proof (dim_bounds i pts p2 H2) as B2.
  assert (Hmin : exists q, In q pts /\ nth i q 0 = dim_min i pts).
  { unfold dim_min. assert (Hc : column i pts <> []) by (unfold column; destruct pts; [destruct H1|discriminate]).
    destruct (column i pts) as [|x l] eqn:E; [congruence|].
    assert (In (zmin_list x l) (column i pts)) by (rewrite E; destruct (zmin_list_in x l) as [->|H]; [left; reflexivity|right; exact H]).
    unfold column in H. apply in_map_iff in H. destruct H as [q [Hq Hin]]. exists q. auto. }
  assert (Hmax : exists q, In q pts /\ nth i q 0 = dim_max i pts).
  { unfold dim_max. assert (Hc : column i pts <> []) by (unfold column; destruct pts; [destruct H1|discriminate]).
    destruct (column i pts) as [|x l] eqn:E; [congruence|].
    assert (In (zmax_list x l) (column i pts)) by (rewrite E; destruct (zmax_list_in x l) as [->|H]; [left; reflexivity|right; exact H]).
    unfold column in H. apply in_map_iff in H. destruct H as [q [Hq Hin]]. exists q. auto. }
  destruct Hmin as [q1 [Hq1 Eq1]]. destruct Hmax as [q2 [Hq2 Eq2]].
  pose proof (Hall _ Hq1). pose proof (Hall _ Hq2). lia.
Qed.

(* ------------------------------------------------------------------ rank-variable bounds of a box *)
Lemma in_box_nth i p bs : in_box p bs -> (i < length bs)%nat -> 0 <= nth i p 0 < Z.of_nat (nth i bs 0%nat).
Proof.
  intro H. revert i. induction H as [|x b p bs Hx H IH]; intros i Hi; simpl in *; [lia|].
  destruct i; [exact Hx|]. apply IH. lia.
Qed.

Lemma zeros_in_box bs : Forall (fun b => (1 <= b)%nat) bs -> in_box (map (fun _ => 0) bs) bs.
Proof. induction 1; simpl; constructor; [lia|assumption]. Qed.
Lemma last_in_box bs : Forall (fun b => (1 <= b)%nat) bs -> in_box (last_point bs) bs.
Proof. unfold last_point. induction 1; simpl; constructor; [lia|assumption]. Qed.

Lemma nth_map_const {A} i (l : list A) : nth i (map (fun _ => 0) l) 0 = 0.
Proof. revert i. induction l; destruct i; simpl; auto. Qed.
Lemma nth_last_point i bs : (i < length bs)%nat -> nth i (last_point bs) 0 = Z.of_nat (nth i bs 0%nat) - 1.
Proof. unfold last_point. revert i. induction bs; intros i Hi; simpl in *; [lia|]. destruct i; [reflexivity|apply IHbs; lia]. Qed.

Lemma bound_is_size i bs : Forall (fun b => (1 <= b)%nat) bs -> (i < length bs)%nat ->
  rank_variable_bound i bs = Z.of_nat (nth i bs 0%nat).
Proof.
  intros Hpos Hi. unfold rank_variable_bound, extent.
  destruct (dim_min_max_char i (points bs) 0 (Z.of_nat (nth i bs 0%nat) - 1)) as [-> ->]; [| | |lia].
  - intros p Hp. apply points_in in Hp. pose proof (in_box_nth i p bs Hp Hi). lia.
  - exists (map (fun _ => 0) bs). split; [apply points_in, zeros_in_box, Hpos|apply nth_map_const].
  - exists (last_point bs). split; [apply points_in, last_in_box, Hpos|apply nth_last_point, Hi].
Qed.

(* ------------------------------------------------------------------ boxes *)
Lemma zrange_in lo n x : In x (zrange lo n) <-> lo <= x < lo + Z.of_nat n.
Proof.
  revert lo. induction n as [|n IH]; intro lo; simpl; [lia|]. rewrite IH. lia.
Qed.
Lemma zrange_nodup lo n : NoDup (zrange lo n).
Proof.
  revert lo. induction n as [|n IH]; intro lo; simpl; constructor; [|apply IH].
  rewrite zrange_in. lia.
Qed.
Lemma zrange_length lo n : length (zrange lo n) = n.
Proof. revert lo. induction n; intro lo; simpl; auto. Qed.

Lemma box_from_in ranges p : In p (box_from ranges) <-> Forall2 (fun x r => In x r) p ranges.
Proof.
  revert p. induction ranges as [|r t IH]; intro p; simpl.
  - split; [intros [<-|[]]; constructor|intro H; inversion H; left; reflexivity].
  - rewrite in_flat_map. split.
    + intros [x [Hx Hp]]. apply in_map_iff in Hp. destruct Hp as [q [<- Hq]]. constructor; [exact Hx|apply IH, Hq].
    + intro H. inversion H as [|x r' q t' Hx Hq]; subst. exists x. split; [exact Hx|]. apply in_map_iff. exists q. split; [reflexivity|apply IH, Hq].
Qed.
Lemma box_from_nodup ranges : Forall (@NoDup Z) ranges -> NoDup (box_from ranges).
Proof.
  induction 1 as [|r t Hr Ht IH]; simpl; [constructor; [intros []|constructor]|].
  apply NoDup_flat_map_disjoint; [exact Hr|intros; apply NoDup_map_cons; exact IH|].
  intros a a' x _ _ H1 H2. apply in_map_iff in H1, H2. destruct H1 as [q [<- _]]. destruct H2 as [q' [E _]]. inversion E. reflexivity.
Qed.
Lemma box_from_length ranges : length (box_from ranges) = fold_right Nat.mul 1%nat (map (@length Z) ranges).
Proof.
  induction ranges as [|r t IH]; [reflexivity|]. cbn [box_from map fold_right]. rewrite <- IH.
  apply flat_map_length_const. intro a. apply map_length.
Qed.

Lemma extent_pos i pts p : In p pts -> 1 <= extent i pts.
Proof. intro H. pose proof (dim_bounds i pts p H). unfold extent. lia. Qed.

Lemma in_bbox n pts p : In p pts -> length p = n -> In p (bbox n pts).
Proof.
  intros Hp Hl. unfold bbox. apply box_from_in. unfold ranges_of.
  assert (G : forall k s, length p = k -> (forall j, (j < k)%nat -> dim_min (s + j) pts <= nth j p 0 <= dim_max (s + j) pts) ->
                          Forall2 (fun x r => In x r) p (map (fun i => zrange (dim_min i pts) (Z.to_nat (extent i pts))) (seq s k))).
  { clear Hl. revert p Hp. intros p0 _. revert p0. induction p0 as [|x q IHq]; intros k s Hk Hb; subst k; simpl; constructor.
    - apply zrange_in. specialize (Hb 0%nat ltac:(simpl; lia)). rewrite Nat.add_0_r in Hb. simpl in Hb. unfold extent. lia.
    - apply IHq; [reflexivity|]. intros j Hj. specialize (Hb (S j) ltac:(simpl; lia)). simpl in Hb. rewrite Nat.add_succ_r in Hb. exact Hb. }
  apply G; [exact Hl|]. intros j _. simpl. apply dim_bounds, Hp.
Qed.

Lemma bbox_nodup n pts : NoDup (bbox n pts).
Proof.
  unfold bbox, ranges_of. apply box_from_nodup. apply Forall_forall. intros r Hr. apply in_map_iff in Hr.
  destruct Hr as [i [<- _]]. apply zrange_nodup.
Qed.

Lemma ranges_prod pts p : In p pts -> forall n s,
  Z.of_nat (fold_right Nat.mul 1%nat (map (fun i => length (zrange (dim_min i pts) (Z.to_nat (extent i pts)))) (seq s n)))
  = fold_right Z.mul 1 (map (fun i => extent i pts) (seq s n)).
Proof.
  intro Hp. induction n as [|n IH]; intro s; [reflexivity|]. cbn [seq map fold_right].
  rewrite Nat2Z.inj_mul, IH, zrange_length. pose proof (extent_pos s pts p Hp). rewrite Z2Nat.id by lia. reflexivity.
Qed.

Lemma bbox_length n pts p : In p pts ->
  Z.of_nat (length (bbox n pts)) = fold_right Z.mul 1 (map (fun i => extent i pts) (seq 0 n)).
Proof.
  intro Hp. unfold bbox, ranges_of. rewrite box_from_length, map_map. apply (ranges_prod pts p Hp).
Qed.

Lemma pt_eqb_true p q : pt_eqb p q = true <-> p = q.
Proof. unfold pt_eqb. destruct (list_eq_dec Z.eq_dec p q); split; congruence. Qed.

Lemma size_is_count n pts s :
  NoDup pts -> (forall p, In p pts -> length p = n) -> tensor_size n pts = Some s -> s = Z.of_nat (length pts).
Proof.
  intros Hnd Hdim. unfold tensor_size. destruct (is_box n pts) eqn:B; [|discriminate]. intro E. inversion E; subst s. clear E.
  unfold is_box in B. destruct pts as [|p0 pts']; [discriminate|]. set (pts := p0 :: pts') in *.
  rewrite <- (bbox_length n pts p0) by (left; reflexivity). f_equal.
  apply Nat.le_antisymm.
  - apply NoDup_incl_length; [apply bbox_nodup|]. intros q Hq. rewrite forallb_forall in B. specialize (B q Hq).
    apply existsb_exists in B. destruct B as [r [Hr E]]. apply pt_eqb_true in E. subst. exact Hr.
  - apply NoDup_incl_length; [exact Hnd|]. intros q Hq. apply in_bbox; [exact Hq|apply Hdim, Hq].
Qed.

Lemma image_nodup acc bs : NoDup (image acc bs).
Proof. apply NoDup_nodup. Qed.
Lemma image_dim acc bs p : In p (image acc bs) -> length p = length acc.
Proof.
  unfold image. rewrite nodup_In. intro H. apply in_map_iff in H. destruct H as [q [<- _]]. unfold proj. apply map_length.
Qed.
Lemma image_in acc bs q : In q (image acc bs) <-> exists p, in_box p bs /\ proj acc p = q.
Proof.
  unfold image. rewrite nodup_In, in_map_iff. split; intros [p [H1 H2]]; exists p; [rewrite <- points_in|rewrite points_in]; tauto.
Qed.

Lemma data_space_nodup canon : NoDup (data_space canon).
Proof.
  induction canon as [|[acc bs] rest IH]; simpl; [constructor|]. destruct rest; [apply image_nodup|apply NoDup_filter, image_nodup].
Qed.
Lemma data_space_dim n canon p : (forall c, In c canon -> length (fst c) = n) -> In p (data_space canon) -> length p = n.
Proof.
  intros Hn. destruct canon as [|[acc bs] rest]; simpl; [intros []|]. intro H.
  assert (In p (image acc bs)) by (destruct rest; [exact H|apply filter_In in H; tauto]).
  rewrite (image_dim _ _ _ H0). apply (Hn (acc, bs)). left. reflexivity.
Qed.
(* the data space is the intersection of the canonical Einsums' projected iteration spaces *)
Lemma data_space_in canon q : canon <> [] ->
  (In q (data_space canon) <-> forall c, In c canon -> exists p, in_box p (snd c) /\ proj (fst c) p = q).
Proof.
  induction canon as [|[acc bs] rest IH]; [congruence|]. intros _. simpl. destruct rest as [|c2 rest'].
  - rewrite image_in. split; [intros H c [<-|[]]; exact H|intro H; apply (H (acc, bs)); left; reflexivity].
  - set (rest := c2 :: rest') in *. rewrite filter_In, image_in. rewrite existsb_exists.
    assert (Hr : rest <> []) by discriminate. specialize (IH Hr). split.
    + intros [H1 [r [Hr1 Hr2]]] c [<-|Hc]; [exact H1|]. apply pt_eqb_true in Hr2. subst r. apply IH; assumption.
    + intro H. split; [apply (H (acc, bs)); left; reflexivity|]. exists q. split; [|apply pt_eqb_true; reflexivity].
      apply IH. intros c Hc. apply H. right. exact Hc.
Qed.

(* ------------------------------------------------------------------ stride and halo *)
Lemma dot_set_nth a : forall i p v, (i < length p)%nat -> dot a (set_nth i v p) = dot a (set_nth i 0 p) + nth i a 0 * v.
Proof.
  induction a as [|x a IH]; intros i p v Hi.
  - simpl. destruct i; simpl; lia.
  - destruct p as [|y p]; [simpl in Hi; lia|]. destruct i; simpl.
    + lia.
    + rewrite (IH i p v) by (simpl in Hi; lia). lia.
Qed.

Lemma set_nth_same i p : set_nth i (nth i p 0) p = p.
Proof. revert i. induction p as [|x p IH]; destruct i; simpl; try reflexivity. rewrite IH. reflexivity. Qed.

(* moving one step along variable i moves the rank coordinate by exactly the stride, wherever the other variables are *)
Lemma stride_is_step a i p v : (i < length p)%nat ->
  proj1 a (set_nth i (v + 1) p) - proj1 a (set_nth i v p) = stride a i.
Proof.
  intro Hi. unfold proj1, stride. rewrite (dot_set_nth (fst a) i p (v + 1) Hi), (dot_set_nth (fst a) i p v Hi). lia.
Qed.

Lemma dot_mono a : Forall (fun x => 0 <= x) a -> forall p q, Forall2 Z.le p q -> dot a p <= dot a q.
Proof.
  induction 1 as [|x a Hx Ha IH]; intros p q Hpq; [destruct p; simpl; lia|].
  destruct Hpq as [|y z p q Hyz Hpq]; simpl; [lia|]. specialize (IH p q Hpq). nia.
Qed.

Lemma in_box_le_last p bs : in_box p bs -> Forall2 Z.le p (last_point bs).
Proof. unfold last_point. induction 1; simpl; constructor; [lia|assumption]. Qed.

Lemma set_nth_le i p bs : in_box p bs -> nth i p 0 = 0 -> Forall2 Z.le p (set_nth i 0 (last_point bs)).
Proof.
  intro H. revert i. unfold last_point. induction H as [|x b p bs Hx H IH]; intros i Hz.
  - destruct i; constructor.
  - destruct i; cbn [map set_nth nth] in *.
    + constructor; [lia|apply in_box_le_last, H].
    + constructor; [lia|apply IH, Hz].
Qed.

Lemma set_nth_in_box i v p bs : in_box p bs -> (i < length bs)%nat -> 0 <= v < Z.of_nat (nth i bs 0%nat) -> in_box (set_nth i v p) bs.
Proof.
  intro H. revert i. induction H as [|x b p bs Hx H IH]; intros i Hi Hv; simpl in *; [lia|].
  destruct i; constructor; try assumption. apply IH; [lia|exact Hv].
Qed.

(* halo = the largest rank coordinate reached while variable i stays at 0 *)
Lemma halo_is_max a i bs p : Forall (fun x => 0 <= x) (fst a) -> in_box p bs -> nth i p 0 = 0 -> proj1 a p <= halo a i bs.
Proof.
  intros Ha Hp Hz. unfold halo, proj1. pose proof (dot_mono (fst a) Ha p _ (set_nth_le i p bs Hp Hz)). lia.
Qed.
Lemma halo_attained i bs : Forall (fun b => (1 <= b)%nat) bs -> (i < length bs)%nat ->
  in_box (set_nth i 0 (last_point bs)) bs /\ nth i (set_nth i 0 (last_point bs)) 0 = 0.
Proof.
  intros Hpos Hi. split.
  - apply set_nth_in_box; [apply last_in_box, Hpos|exact Hi|]. rewrite Forall_forall in Hpos.
    specialize (Hpos (nth i bs 0%nat) (nth_In _ _ Hi)). lia.
  - assert (Hl : (i < length (last_point bs))%nat) by (unfold last_point; rewrite map_length; exact Hi).
    revert Hl. generalize (last_point bs). intro l. clear Hi Hpos. revert i. induction l; intros i Hi; simpl in *; [lia|].
    destruct i; simpl; [reflexivity|apply IHl; lia].
Qed.
