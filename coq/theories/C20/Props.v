(* C20 — property theorems only.  What makes the result independent of the order in which parallel jobs finish: the final front
   is a function of the SET of candidate vectors (any permutation of the job results gives the same front as a set, and a front
   computed piecewise over any split of the candidates and re-filtered is the front of the whole), and results are collected by
   job index (C32).  Process pools, pickling, PYTHONHASHSEED and the on-disk cache are runtime behaviour covered only by the
   differential runs (partial). *)
From AF Require Import Base.Tactics Lib.Pareto Lib.Front.
Open Scope Z_scope.

Theorem C20_order_independent : forall G G', Permutation G G' -> forall f, In f (front G) <-> In f (front G').
Proof.
  intros G G' P f. rewrite !front_in. split; intros [H1 H2]; (split; [eapply Permutation_in; [|exact H1]; [exact P || apply Permutation_sym, P]|]).
  - intros x Hx. apply H2. eapply Permutation_in; [apply Permutation_sym, P|exact Hx].
  - intros x Hx. apply H2. eapply Permutation_in; [exact P|exact Hx].
Qed.
Print Assumptions C20_order_independent.

(* filtering the halves first and the union afterwards loses nothing and adds nothing *)
Theorem C20_split : forall A B f, In f (front (front A ++ front B)) <-> In f (front (A ++ B)).
Proof.
  intros A B f. rewrite !front_in. split.
  - intros [Hin Hnd]. apply in_app_iff in Hin. split.
    + apply in_app_iff. destruct Hin as [H|H]; [left|right]; eapply front_subset; exact H.
    + intros x Hx. destruct (dom x f) eqn:D; [|reflexivity]. exfalso.
      apply in_app_iff in Hx. destruct Hx as [Hx|Hx].
      * destruct (front_complete A x Hx) as [y [Hy Ly]]. assert (dom y f = true).
        { apply dom_iff in D. destruct D as [D1 D2]. apply dom_iff. split; [eapply vle_trans; eassumption|].
          destruct (vle f y) eqn:E; [|reflexivity]. rewrite (vle_trans _ _ _ E Ly) in D2. discriminate. }
        rewrite (Hnd y) in H; [discriminate|apply in_app_iff; left; exact Hy].
      * destruct (front_complete B x Hx) as [y [Hy Ly]]. assert (dom y f = true).
        { apply dom_iff in D. destruct D as [D1 D2]. apply dom_iff. split; [eapply vle_trans; eassumption|].
          destruct (vle f y) eqn:E; [|reflexivity]. rewrite (vle_trans _ _ _ E Ly) in D2. discriminate. }
        rewrite (Hnd y) in H; [discriminate|apply in_app_iff; right; exact Hy].
  - intros [Hin Hnd]. apply in_app_iff in Hin. split.
    + apply in_app_iff. destruct Hin as [H|H]; [left|right]; apply front_in; (split; [exact H|]); intros x Hx; apply Hnd, in_app_iff; [left|right]; exact Hx.
    + intros x Hx. apply Hnd. apply in_app_iff in Hx. apply in_app_iff. destruct Hx as [Hx|Hx]; [left|right]; eapply front_subset; exact Hx.
Qed.
Print Assumptions C20_split.
