(* C31 — property theorems only. *)
From Coq Require Import ZArith List Bool Lia.
Import ListNotations.
From AF Require Import Lib.MiniForge C05.Proofs C31.Model C31.Proofs.
Open Scope Z_scope.

(* pass-through: with every Toll below some Memory holder, what the holder above sees and every Memory level's action totals
   are exactly those of the nest with the Tolls erased (for which C05 proves model = execution) *)
Theorem C31_transparent : forall out skipc c hp, tolls_below_memory c hp ->
  fst (tmodel out skipc c hp) = model out skipc (erase c) hp.
Proof. exact toll_transparent. Qed.
Print Assumptions C31_transparent.

(* a Toll never contributes write actions *)
Theorem C31_no_writes : forall out skipc c hp a, In a (snd (tmodel out skipc c hp)) -> a_w a = 0 /\ a_ws a = 0.
Proof. exact toll_no_writes. Qed.
Print Assumptions C31_no_writes.

(* it charges, as reads, exactly the values crossing it in its configured direction: the write-backs of the nest below
   when "up" is enabled plus its (non-elided) fetches when "down" is enabled - and only then *)
Theorem C31_reads : forall out skipc lvl u d rest, tolls_below_memory rest true ->
  exists l tl, tmodel out skipc (TToll lvl u d :: rest) true
    = (fst (model out skipc (erase rest) true), l,
       mkA lvl ((if u then uW (fst (model out skipc (erase rest) true)) else 0) + (if d then uR (fst (model out skipc (erase rest) true)) else 0))
               (if d then uS (fst (model out skipc (erase rest) true)) else 0) 0 0 :: tl).
Proof. exact toll_charge. Qed.
Print Assumptions C31_reads.

Theorem C31_only_in_direction : forall out skipc lvl rest hp, exists ch l tl,
  tmodel out skipc (TToll lvl false false :: rest) hp = (ch, l, mkA lvl 0 0 0 0 :: tl).
Proof. exact toll_wrong_direction. Qed.
Print Assumptions C31_only_in_direction.
