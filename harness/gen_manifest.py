"""Regenerates /verif/MANIFEST.json from the table below (keeps it schema-valid at all times)."""
import json
from pathlib import Path

ROOT = Path(__file__).resolve().parent.parent

# pid -> (technique, level text, level note)
CLAIMED = {
    "C10": ("Coq proof (divisor-set / candidate-set / chain-count theorems by induction) + exhaustive model-vs-code correspondence",
            "Theorems over the Gallina model of _factorize / get_possible_factor_sizes / _count_factorizations for every positive size and every pattern; "
            "the model is evaluated with vm_compute and diffed against the real functions on the full enumerated range, the property's right-hand side is checked directly on the code's output.",
            "Coq kernel; hand-written model + correspondence harness; float sqrt modelled by exact Z.sqrt_up; coarseness=1"),
    "C11": ("Coq proof (impl_mask = spec_mask for every matrix, goal vector and monotone sort key; SFS invariant, 2-D sweep, grouping, dedup) + differential correspondence with rank-encoded matrices",
            "C11_mask_exact proves the modelled algorithm (as repaired by two fix: commits) equal to the declarative non-dominated/first-duplicate mask for all inputs; "
            "the real fast_pareto_mask and makepareto_numpy are diffed against the vm_compute-evaluated model and against an O(n^2) oracle on generated and exhaustive small matrices.",
            "Coq kernel; float order abstracted by ranks; float32 sort key abstracted as any dominance-monotone key; *_per_prime_factor goals oracle-only; numba/numpy runtime"),
    "C15": ("Coq proof (round-trip theorem for every list of sub-tables and id multiset, dict-overwrite invariant, descending walk) + differential correspondence on real PmappingGroups",
            "C15_roundtrip: decompress(build Ts) ids returns exactly the payload of row ids[k] of concat Ts for all Ts (empty sub-tables anywhere) and all id lists; "
            "the real compress_einsum2pmappings/decompress_pmappings are run on generated tables and every non-joining column of every result row is compared with its source row and with the model.",
            "Coq kernel; one payload per row in the model; pandas merge/concat semantics covered only by the correspondence"),
    "C25": ("Coq proof (flatten = pruned document-order path, by mutual induction over trees) + differential correspondence on random Arch objects",
            "C25_flatten_path/C25_shape/C25_missing hold for every tree and every compute name; the real Spec._get_flattened_architecture is compared with the vm_compute-evaluated model and with a Python oracle of the path.",
            "Coq kernel; Array/Network nodes outside the model; pydantic construction and duplicate-name check covered by correspondence only"),
    "C26": ("Coq proof (instance count = own fanout x fanouts of non-compute leaves above on the path, for every tree with distinct names) + differential correspondence",
            "C26_totals proves the repaired traversal equal to the declarative instance count for all trees; C26_unrepaired_refuted records the defect; the real calculate_component_costs totals are compared with the model and oracle.",
            "Coq kernel; explicit area/leak values (hwcomponents bypassed); Array/Network outside the model"),
    "C27": ("Coq proof (value after any call history = base x factor exactly once; idempotence) + differential correspondence over call histories",
            "C27_history_value / C27_idempotent for all components, flag sets and histories; C27_unrepaired_refuted records the defect; the real spec is costed 1-3 times with random flags and every value compared exactly with the model.",
            "Coq kernel; explicit values, dyadic scales (exact float arithmetic); hwcomponents bypassed"),
    "C30": ("Coq proof (closed forms = explicit route enumeration, by induction on the fanout, any stride) + exhaustive correspondence over the property's whole quantifier range",
            "C30_mesh_multicast / C30_mesh_unicast / C30_switch for every fanout and stride; the real per_loop_transfer_cost is run on fanout 1..32 x stride 1..8 x 3 volumes x both relevancies x both topologies and compared with the model and with explicit routing. Degenerate fanout 1 is known finding F6 (C30_fanout1_refuted).",
            "Coq kernel; non-distributed source only; per-unit-volume model (linearity in volume checked by correspondence)"),
    "C32": ("Coq proof (index-tagged collection is order-independent: for every permutation of arrivals) + differential runs of the real runner with hook-forced completion orders",
            "C32_list / C32_dict hold for every arrival permutation, i.e. every worker count and completion order; the real parallel() is run with 1-16 workers, random sleeps and hook H1 forcing reversed/rotated/shuffled submission and arrival orders. Partial: process pools, pickling and OS scheduling are runtime behaviour outside the model.",
            "Coq kernel; joblib abstracted as exactly-once delivery in arbitrary order; hook H1"),
    "C21": ("Coq proof (worklist order is topological and complete; evaluation sound for a declarative big-step semantics; denotation unique hence key-order independent) + differential correspondence over three scope levels",
            "C21_order_topological, C21_cycle_iff, C21_value_and_scoping, C21_denotation_unique, C21_key_order_irrelevant for every object of integer definitions; the real Spec evaluation is run on random DAGs/cycles in Spec.variables, arch.variables and component attributes and compared with the model and a Python oracle.",
            "Coq kernel; integer arithmetic fragment; Python eval trusted; self-reference resolves to the enclosing scope (documented reading)"),
    "C22": ("Coq proof (InvertibleSet evaluation = set algebra with complement within the Einsum's tensors, for every expression tree; Other-key dictionaries disjoint and covering) + differential correspondence",
            "C22_algebra, C22_closed, C22_named_sets, C22_other_partition for all expressions/workloads; the real eval_set_expression / eval_set_expression_dict / tensors.keep evaluation are compared with the model and a set-algebra oracle on random workloads and trees, two renderings per tree.",
            "Coq kernel; Python eval and operator precedence trusted (both renderings compared); rank-variable spaces outside the model"),
    "C29": ("Coq proof (merged rename list = priority lookup local > per-Einsum top-level > default; expected_count mismatch rejected) + differential correspondence",
            "C29_resolve / C29_value / C29_expected_count for all rename tables; C29_unrepaired_refuted records the defect; the real Spec evaluation is run on random rename tables in all three places (default entry first or last) and compared with the model and oracle.",
            "Coq kernel; tensor renames with named-set sources only; rank-variable renames and rename-to-rename references outside the model"),
    "C23": ("Coq proof (print-then-parse round trip for every well-formed Einsum and every whitespace placement; rejection lemmas for each malformed class) + differential correspondence on generated and malformed strings",
            "C23_roundtrip: any string whose whitespace-stripped form is the concise rendering of a well-formed Einsum (any number of inputs and rank entries, shorthand and 'Rank: expression' entries, any non-word separators) parses to exactly its verbose form; C23_reject_* cover '=' count, empty projection/entry, upper-case shorthand, lower-case key, two colons, duplicate ranks. The real _parse_einsum_string / Einsum construction (concise entry with extra attributes vs verbose form) are compared with the vm_compute-evaluated model on random and malformed strings; every generated valid case is checked inside Coq to satisfy the theorem's hypotheses.",
            "Coq kernel; Python's re engine replaced by explicit scanners (tied by correspondence); attribute merge and pydantic construction correspondence-only; ASCII"),
    "C24": ("Coq proof (enumerated iteration space = box, counts, bounds, data space = intersection of projected spaces, reported size = number of projected points whenever a size is reported, stride = step, halo = extreme of the slice) + differential correspondence against ISL-backed code",
            "C24_iteration_space, C24_ops, C24_bounds, C24_data_space, C24_size_or_error, C24_stride, C24_halo for all boxes and affine accesses; the real n_computes / get_rank_variable_bounds / get_tensor_size (value or error) / get_stride_and_halo_of_einsum are compared with the vm_compute-evaluated model and a brute-force enumeration on random workloads (strided, diagonal, convolution-like and constant-offset accesses, intermediate and multiply-read tensors).",
            "Coq kernel; ISL not modelled (tied by correspondence); non-negative coefficients; halo read as the docstring's 'initial delta' (constant term included)"),
    "C28": ("Coq proof (regrouping a key-indexed breakdown by any subset of key positions preserves the total and gives each key the sum of its members; per-Einsum latency is the maximum over components, latency() the sum of these maxima) + differential correspondence on real and synthetic result tables",
            "C28_breakdown_total / C28_breakdown_value (all 16 energy and 8 action flag combinations are instances), C28_energy_scalar, C28_latency; the real Mappings.energy/actions/latency/resource_usage are run for every flag combination (twice, mutation check) on real mapper results and on synthetic tables and compared with the vm_compute-evaluated token-level model (column-name surgery included) and with the Total columns. Partial: that the collected dictionary covers every per-Einsum energy column (the <SEP> key surgery) is tied by the correspondence, not proved.",
            "Coq kernel; integer-valued tables; pandas arithmetic correspondence-only; Total columns are C04's business; component names never equal tensor names (shared namespace in set expressions)"),
    "C05": ("Coq proof (the code's analytical recursion = loop-nest execution, by induction over the nest with an invariant over parent holder and freshness; closed form; freshness = never visited before) + differential correspondence of evaluate_mapping against the model and a brute-force execution",
            "C05_reads_writes / C05_invariant: for every chain of loops and holders (any depth, counts, skip flags) the per-level read and write counts of the modelled analyze_storage/analyze_temporal/analyze_compute recursion equal the counts of an execution that iterates every loop; C05_closed_form; C05_fresh_iff_unwritten; C05_energy_latency lifts this to actions, per-component latency, max-latency and energy of whole mappings. The real evaluate_mapping is run on random specs and concrete mappings and every action count, latency and energy column is compared with the vm_compute-evaluated model and with an independent Python execution.",
            "Coq kernel; class: one Einsum, temporal loops, Memory levels, dense one-variable-per-rank projections, perfect factorisation (spatial loops, Tolls -> C31, imperfect factorisation, copy Einsums outside); value->action scale factors computed by the harness with the documented precedence and checked through the correspondence"),
    "C06": ("Coq proof (reported usage = execution-time peak of live tiles whenever no holder's run of relevant loops is cut by another tensor's holder node; never below the peak in any valid mapping; over-subscription rejected iff some finite memory is exceeded; refuted witness for the order-dependent case = finding F9) + differential correspondence; the closed-form peak is validated against explicit first-use/last-use traces",
            "C06_single, C06_never_under_reports, C06_reject, C06_order_dependent_refuted over the model of insert_reservation_nodes / analyze_reservation / run_model for single-Einsum mappings; evaluate_mapping's resource_usage() and acceptance are compared with the vm_compute-evaluated model and with the execution-time peak occupancy on random mappings with comfortable / exact / too-small memories. PARTIAL: fused multi-Einsum mappings (the joiner's reservation algebra) and persistent tensors x n_instances are not modelled.",
            "Coq kernel; single Einsum, temporal loops; tile-granular liveness with streaming as reference (validated by brute-force traces in the harness); known finding F9"),
    "C31": ("Coq proof (Toll transparency: erasing Tolls below a Memory changes no Memory count and no upward traffic, hence by C05 equals execution; no write actions; charge = crossing traffic filtered by direction) + differential correspondence of evaluate_mapping on mappings with Toll holders + mapper runs on a Toll architecture",
            "C31_transparent, C31_no_writes, C31_reads, C31_only_in_direction over the model of analyze_toll; evaluate_mapping on random specs with a Toll level (per-tensor directions) is compared with a forwarding execution and with the vm_compute-evaluated model (every action, latency, energy column; no Toll writes / occupancy); real map_workload_to_arch runs on a two-Einsum Toll architecture check that no returned mapping has a Toll as outermost holder of the shared tensor. The mapper's template generation is not modelled (clause 3 is oracle-only).",
            "Coq kernel; MiniForge class (single Einsum, temporal loops) for the accounting; clause 3 checked on mapper outputs only"),
    "C01": ("Coq proof (exhaustive enumerator = declarative mapspace; reference optimum is a lower bound over every valid mapping and is attained; infeasibility) over the MiniForge cost model proved equal to execution (C05) + comparison of the real mapper's optimum with the proven optimum",
            "C01_space_exact, C01_opt_is_lower_bound, C01_opt_attained, C01_infeasible for every MiniForge spec; map_workload_to_arch is run with ENERGY, LATENCY and EDP on random single-Einsum specs (keep/may_keep sets, finite memories, overrides) and its best objective compared with the exhaustively enumerated optimum (python twin on every case, the Coq opt by vm_compute where the space is small, twin = Coq checked); a better reference mapping is confirmed with the real evaluate_mapping before it is reported; plus two witness streams judged by the real model: concrete fused mappings of 2-matmul chains (fused loops over m and / or n1, every divisor tile) must not beat the mapper, and on spatial-array specs with a loop-bound constraint a mapper exception is a violation when the unconstrained optimum satisfies the constraint. PARTIAL: the theorem covers one Einsum (no fusion), no spatial fanout; fused and constrained mapspaces are covered by witnesses only.",
            "Coq kernel; MiniForge/MiniSpace class; capacity = accelforge's own usage computation; fix: commits F10 (constant templates skipped validity checks / aborted the mapper) and F14 (constant loop-bound objectives crashed tile-shape exploration) found by this check"),
    "C02": ("Coq proof (front of a finite set of objective vectors is complete, minimal, duplicate-free and achieved) + comparison of the real mapper's returned front with the front of the exhaustively enumerated mapspace",
            "C02_complete, C02_minimal, C02_distinct (AF.Lib.Front); map_workload_to_arch with ENERGY|LATENCY (and RESOURCE_USAGE) on random single-Einsum specs: returned vectors mutually non-dominated, distinct, and every point of the reference front weakly dominated by a returned mapping; the Coq front is evaluated on the scaled vectors of the enumerated space and compared with the twin. PARTIAL: MiniForge class (one Einsum).",
            "Coq kernel; objective vectors scaled to integers by the harness"),
    "C03": ("Coq proof (the verified checker in_space certifies perfect factorisation, full iteration of every rank variable, one compute per iteration point, keep sets satisfied, capacity) + certified checking of every mapping the real mapper returns",
            "C03_valid, C03_compute_once, C03_capacity; every mapping returned by map_workload_to_arch (four metric sets, eval_in_detail on/off) on random specs is converted to MiniForge nodes, checked by in_space inside Coq and by its twin, and re-evaluated by the real evaluate_mapping; a second stream maps spatial-array specs with random loop-bound constraints (>=, >, <=, <, ==) and checks every returned LoopTree structurally (perfect factorisation, full iteration, one compute, fanout, the constraint). PARTIAL: loop-bound constraints and spatial fanouts are checked by the harness, not by the Coq checker; fused-loop limits are not checked.",
            "Coq kernel; the Mapping-object -> MiniForge printer is glue (cross-checked by the real model's own validity check)"),
    "C04": ("Coq proof (model = execution per Einsum from C05; totals compose additively, EDP is the product of totals) + three-way differential check per returned mapping",
            "C04_totals_additive, C04_single, C04_edp_is_product_of_totals; for every returned mapping the joiner's columns, the eval_in_detail re-evaluation, a standalone evaluate_mapping of the reconstructed mapping and (single Einsum) the Coq MiniForge model are compared; 2-3-Einsum matmul chains (fused/unfused, with RESOURCE_USAGE so that front rows share templates) joiner vs model, and chains on generated architectures with an Einsum-dependent attribute joiner vs STANDALONE evaluate_mapping of the mapping each row denotes. PARTIAL: fused mappings are compared code-vs-code only.",
            "Coq kernel; float32 tolerance 2e-5"),
    "C17": ("Coq proof (coordinate optima and the optimum of the product of two non-negative coordinates are attained on the Pareto front; the front lies within the set) + four mapper runs per spec",
            "C17_coordinate_optima, C17_front_within_space, C17_edp (AF.Lib.Front); ENERGY, LATENCY, ENERGY|LATENCY and EDP runs of the real mapper on random specs: the three equalities of the property, EDP column = energy x latency on every row, each optimum also against the exhaustive reference. PARTIAL: MiniForge class.",
            "Coq kernel"),
    "C18": ("Coq proof (optimum is monotone under any mapspace enlargement that preserves costs; larger memories / larger may_keep / smaller keep are such enlargements and preserve feasibility) + pairs of mapper runs",
            "C18_monotone, C18_relaxations; (constrained spec, relaxed spec) pairs x {ENERGY, LATENCY, EDP} on the real mapper: the relaxed optimum never exceeds the tight one, both also equal to the exhaustive reference when the relaxation is in the model; imperfect temporal factorisation and the fused-loop limit are mapper-only relaxations. PARTIAL: loop-bound and min_usage relaxations need spatial fanouts (outside the class).",
            "Coq kernel; MiniForge class"),
    "C19": ("Coq proof (energy clause: scaling every per-action energy and leak power by k scales the energy of every mapping by k under model and execution, leaves latency and the mapspace unchanged, hence scales the optimum; throughput clause: scaling every throughput by k > 0 divides the latency of every mapping, hence the optimal latency, by k) + scaled mapper runs",
            "C19_energy_of_every_mapping, C19_space_unchanged, C19_energy_scale_partial, C19_latency_of_every_mapping, C19_throughput_scale; the real mapper is run on (spec, scaled spec) pairs for k in {2^-20 ... 2^40, 1e20} (energies, throughputs) and with workload / Einsum n_instances; oracle: optimal energy x k, optimal latency / k, totals x n_instances, feasibility unchanged. PARTIAL: the n_instances clause is mapper-only (outside the single-Einsum model).",
            "Coq kernel; MiniForge class; fix F11 (int64 overflow) found by this check"),
    "C16": ("Coq proof (what a (1+t)-covering pruning that keeps only real candidates guarantees: optimum <= best kept <= (1+t) optimum; no compounding under a transitive cover relation) + end-to-end tolerance runs of the real mapper against the exact enumerated optimum",
            "C16_never_below, C16_objective_bound, C16_no_compounding; map_workload_to_arch with objective_tolerance in {0.01, 0.1, 0.5} and resource_usage_tolerance in {0, 0.01, 0.1, 0.5} on random specs (most capacity-bound): exact optimum <= best returned <= (1+t) x exact optimum, every returned mapping valid (verified checker's twin + real model). PARTIAL: that each pruning site satisfies the covering premise is checked end to end, not proved.",
            "Coq kernel; exact optimum from AF.Lib.MiniSpace"),
    "C20": ("Coq proof (the front is a function of the set of candidates: permutation invariance; filtering pieces before the union loses nothing; index-tagged collection from C32) + differential mapper runs across worker counts, forced arrival orders, hash seeds and cache states",
            "C20_order_independent, C20_split; map_workload_to_arch is run in separate processes with 1/4/16 workers, hook H1 permuting job arrival, PYTHONHASHSEED 0/1/12345, cold and warm cache_dir; sorted objective vectors and mapping structures must be identical. PARTIAL: process pools, pickling, OS scheduling and the disk cache are runtime behaviour outside any Gallina model.",
            "Coq kernel; hook H1; fix F12 (tie-break depended on job completion order) found by this check"),
    "C09": ("Coq proof (the verdict table, the Min/Max any/all rules and ComparisonResult.__or__ are sound pointwise for sound leaf answers; UNKNOWN always allowed; refuted witnesses for ceiling erasure, uniform Heaviside substitution and corner plugging) + the real comparator against brute-force evaluation on every integer point",
            "C09_table_sound, C09_min_max_sound, C09_or_sound, C09_unknown_allowed, C09_ceiling_erasure_refuted, C09_heaviside_refuted, C09_unsound_leaf_refuted, C09_corner_needs_sign_constant_formula; the real geq_leq_zero / diff_geq_leq_zero are run on random formulas of the kinds the cost model emits over integer boxes and every non-UNKNOWN verdict is checked at every integer point (finite differences for derivative verdicts). Known findings F5 (ceiling erasure), F13 (one substitution for all Heaviside terms) and F15 (sympy's own relational evaluation under the symbols' assumptions is wrong for a constant plus a reciprocal of a product of symbols, and the comparator trusts it). Fix F16 (accelforge's cached replacement of sympy's Min/Max connectivity test mis-oriented pairs) found through this property's seeding. PARTIAL: sympy's function_range / relational evaluation are oracles.",
            "Coq kernel; formulas as value functions over the box; sympy trusted as leaf oracle and checked end to end"),
    "C12": ("Coq proof (pruning with constant columns skipped = the declarative mask over all objective / reservation columns with fused-loop tile shapes required equal, built on C11's verified mask; deleting agreed columns never changes the mask; column classification; order-faithful rounding gives the (1+t) bound) + differential correspondence with the real makepareto",
            "C12_zero_tol_exact, C12_const_cols, C12_classify, C12_tol_bound; the real makepareto is run on random pmapping tables (objective, reservation, fused-loop, n_iterations, tensor, per-Einsum and mapping columns, constant columns, shuffled order): at zero tolerance the kept index set equals the vm_compute-evaluated model and the declarative oracle, with tolerances every dropped row is (1+t)-dominated by a kept row with equal fused shapes; the rounding hypothesis is validated on numpy's log-grid rounding.",
            "Coq kernel; values as ranks; numpy rounding outside the model (hypothesis of C12_tol_bound)"),
    "C07": ("Coq proof (a symbolic evaluator over an expression language mirrors the analytical model node for node; its formulas denote, under every assignment, the concrete model's and - on perfect assignments - the brute-force execution's counts of the instantiated mapping; same for holder occupancies) + the real run_model formulas, captured inside a real mapper run, against concrete evaluation at every perfect assignment",
            "C07_symbolic_is_concrete, C07_symbolic_is_execution, C07_symbolic_occupancy; every pmapping template the real mapper builds for random single-Einsum specs is captured together with run_model's formulas; at every perfect assignment (capped per template) every formula (latency, dynamic / leak energy, per-component actions, per-memory usage) is evaluated by exact substitution and by the code's own compile_dict path and compared with the concrete evaluation of the instantiated mapping (python twin of MiniForge for all, real evaluate_mapping for a sample); the rows of the table _make_tile_shapes emits are compared the same way; the Coq symbolic evaluator is run on the same templates; on architectures with spatial fanouts (outside MiniForge) the compiled-formula values of every returned mapping are compared with the standalone concrete evaluation of that mapping by the real model. PARTIAL: the theorem covers single Einsum, temporal loops and memories (MiniForge class); sympy / symengine / lambdify are oracles.",
            "Coq kernel; MiniForge modelled class; sympy arithmetic trusted as oracle and checked end to end"),
    "C08": ("Coq proof (symbol-by-symbol enumeration with Pareto pruning of partial assignments on a criteria vector emits, after Pareto filtering, exactly the objective vectors of the Pareto-filtered exhaustive enumeration - any number of symbols, prefix-dependent candidates, any validity and objectives - under soundness of the criteria; a boolean check decides that hypothesis on concrete spaces; unsound criteria refuted by witness) + the real _make_tile_shapes table against exhaustive enumeration of every perfect assignment of every captured template",
            "C08_pruned_front_exact, C08_pruned_subset, C08_checked_instance, C08_monotone_terms_exact (criteria built from terms in which objectives and validity are monotone are sound), C08_unsound_criteria_refuted; for every pmapping template of real mapper runs on random single-Einsum specs (bounds up to 36, up to 5 symbols, finite buffers) the Pareto front of the emitted table equals the front over ALL valid perfect assignments (validity and objectives from the template's own formulas, cross-checked against the python twin; formulas tied to concrete evaluation by C07). PARTIAL: the soundness of the real criteria (built from C09's verdicts inside get_tile_shape_choices) is the theorem's hypothesis, tested not proved; single Einsum, temporal loops and memories.",
            "Coq kernel; criteria soundness is a hypothesis, exercised by the correspondence"),
    "C13": ("Coq proof (abstract join algebra: for ANY key-compatibility function, ANY monotone combination of vectors, ANY downward-closed capacity test and ANY number of tables the step-by-step join with per-key Pareto pruning of every table and every partial result emits only exhaustive combinations and covers each of them key by key, hence has the same front; pair semantics; hypothesis-free instance) + the real table join against combinations of single pmappings",
            "C13_staged_is_exhaustive, C13_pair, C13_instance; on real per-Einsum pmapping tables of random 2-3 Einsum chains (fused and unfused, tight buffers, tensors living across Einsums, max_fused_loops variations) every front row of the table-level join is reproduced by joining exactly its constituent single pmappings with objectives equal to the sums of the parts, and no combination of single pmappings (all of them when few, a random sample otherwise) beats the returned front; the GlobalBuffer usage every joined row reports is bounded by the sum of the full tiles of the storage nodes on a path of the joined LoopTree. PARTIAL: that Compatibility.merge_next / PmappingDataframe.merge_next form a compatibility function and a monotone combination is the theorem's hypothesis; the pair primitives are shared by both sides of the correspondence (reservation arithmetic of a single pair is checked only through C06 for one Einsum); join orders other than workload order are not explored.",
            "Coq kernel; pair-merge primitives trusted (shared by both sides)"),
    "C14": ("Coq proof (over the same join algebra: optimality-threshold row filtering on an achievable solution keeps the objective front for any number of tables; a relaxed-capacity join whose result is valid has exactly the valid front, and the validity check / retry is necessary (witness); a capacity test that is never decisive can be skipped) + the public staged join against one exact join of the current source with every acceleration off",
            "C14_threshold_filter_exact, C14_relaxed_join_exact, C14_retry_needed, C14_untracked_memory, C14_instance; on real pmapping tables of random 2-3 Einsum chains under five metric sets (with and without RESOURCE_USAGE, EDP) the front of join_pmappings (dirty rounds, thresholds, optimality filter, lookahead, untracked memories, combined reservations) equals the front of ONE direct join on tables made with every memory tracked (RESOURCE_USAGE metrics, can_combine_multiple_runs), reservations not combined and lookahead switched off by an in-process source transformation; the generator includes tapering chains whose buffer fits the last Einsum but not the workload. PARTIAL: that the real thresholds come from achievable solutions and that untracked memories are never decisive are hypotheses, tested not proved; the oversubscription-retry path is rarely reached by the generator (counted in the evidence).",
            "Coq kernel; exact reference = current join_pmappings source run once without accelerations"),
}

PENDING_REASON = "check not built yet in this round (planned, see DESIGN.md section 6); not claimed until its proof and correspondence exist"


def main():
    props = [json.loads(l) for l in (ROOT / "properties.jsonl").read_text().splitlines() if l.strip()]
    checks, na = [], []
    for p in props:
        pid = p["id"]
        if pid in CLAIMED:
            tech, text, note = CLAIMED[pid]
            checks.append({
                "property_id": pid,
                "quick_cmd": f"./check {pid} --tier quick",
                "thorough_cmd": f"./check {pid} --tier thorough",
                "evidence_file": f"/verif/evidence/{pid}.json",
                "replay_cmd_template": f"./check {pid} --replay {{path}}",
                "engine": "coq-model+correspondence",
                "level_claimed": {"category": "proof", "text": text, "design_ref": f"DESIGN.md section 6, {pid}"},
                "level_note": note,
                "technique": tech,
            })
        else:
            na.append({"property_id": pid, "reason": NA.get(pid, PENDING_REASON)})
    man = {
        "version": 1,
        "setup_cmd": "./setup.sh",
        "hooks": {
            "guard": "ACCELFORGE_VERIF",
            "enable": "checks run the implementation from /repo's working tree with ACCELFORGE_VERIF=1 in the environment (PYTHONPATH=/repo)",
            "baseline_off_cmd": "cd /repo && env -u ACCELFORGE_VERIF /venv/bin/python -m pytest -ra -q -p no:cacheprovider --timeout=900 --continue-on-collection-errors",
            "source_commits": HOOK_COMMITS,
            "add_only": True,
        },
        "engines": [{
            "name": "coq-model+correspondence", "path": "/verif/coq + /verif/harness",
            "serves_properties": sorted(CLAIMED),
            "kind_free_text": "Coq 8.16.1 development (theories/Cxx/{Model,Proofs,Props}.v) + Python correspondence/oracle harness evaluating the model with vm_compute or extracted OCaml against the real accelforge code",
        }],
        "checks": checks,
        "notes": "See DESIGN.md. known_findings.json lists genuine defects (open -> KNOWN-FINDING lines, fixed -> informational).",
        "not_applicable": na,
    }
    (ROOT / "MANIFEST.json").write_text(json.dumps(man, indent=1) + "\n")
    try:
        import jsonschema
        jsonschema.validate(man, json.loads(Path("/root/.vp/MANIFEST.schema.json").read_text()))
        print("MANIFEST.json valid;", len(checks), "checks,", len(na), "not claimed")
    except ImportError:
        pass


NA = {}
HOOK_COMMITS = ["5bbb6bd"]

if __name__ == "__main__":
    main()
