From AF Require Import Base.Tactics Lib.ArchTree C25.Model.
Open Scope Z_scope.
Definition L k n := ALeaf (mkleaf k n 1).
(* MainMemory(0); Fork[ ScalarBuf(1); Scalar(2,compute) ]; Hier[ GLB(3); Other(4,compute) ]; Fork[ X(5); Hier[ MAC(6,compute); Y(7) ] ]; Z(8) *)
Definition ex : forest :=
  FCons (L KMem 0) (FCons (AHier true (FCons (L KMem 1) (FCons (L KComp 2) FNil)))
  (FCons (AHier false (FCons (L KMem 3) (FCons (L KComp 4) FNil)))
  (FCons (AHier true (FCons (L KToll 5) (FCons (AHier false (FCons (L KComp 6) (FCons (L KMem 7) FNil))) FNil)))
  (FCons (L KMem 8) FNil)))).
Example ex_mac : map ln (fst (flattenF 6 ex)) = [0; 3; 5; 6]%nat /\ snd (flattenF 6 ex) = true.
Proof. vm_compute. split; reflexivity. Qed.
Example ex_scalar : map ln (fst (flattenF 2 ex)) = [0; 1; 2]%nat.
Proof. vm_compute. reflexivity. Qed.
Example ex_missing : flatten_or_error 9 ex = None.
Proof. vm_compute. reflexivity. Qed.
