From AF Require Import Base.Tactics Lib.Pareto Lib.Front C08.Model C08.Proofs.
Open Scope Z_scope.
(* two symbols with candidates 1, 2, 4; objectives (x0 + x1, x0 + 4 / x1); criteria after the first symbol: x0 *)
Definition ex_next (p : list Z) : list Z := if Nat.ltb (length p) 2 then [1; 2; 4] else [].
Definition ex_obj (a : list Z) : vec := match a with [x0; x1] => [x0 + x1; x0 + 4 / x1] | _ => [] end.
Definition ex_valid (a : list Z) : bool := match a with [x0; x1] => x0 * x1 <=? 8 | _ => true end.
Definition ex_crit (p : list Z) : vec := match p with [x0] => [x0] | [x0; x1] => ex_obj [x0; x1] | _ => [] end.
(* the hypothesis of C08_pruned_front_exact holds on this space ... *)
Example ex_sound : sound_b ex_next ex_valid ex_obj ex_crit 2 = true. Proof. vm_compute. reflexivity. Qed.
(* ... pruning really removes assignments (9 exhaustive, 3 emitted) ... *)
Example ex_pruned : (length (exts ex_next 2 []), length (stages ex_next ex_crit 2 [[]])) = (9%nat, 3%nat). Proof. vm_compute. reflexivity. Qed.
(* ... and the fronts coincide *)
Example ex_fronts : front (pruned_vectors ex_next ex_valid ex_obj ex_crit 2) = [[2; 5]; [3; 3]; [5; 2]] /\ front (exhaustive_vectors ex_next ex_valid ex_obj 2) = [[2; 5]; [3; 3]; [5; 2]].
Proof. vm_compute. split; reflexivity. Qed.
(* the hypotheses of C08_monotone_terms_exact are satisfiable: two symbols with candidates 1, 2, objective vector = the assignment itself, criteria = the prefix *)
Definition ex2_next (p : list Z) : list Z := if Nat.ltb (length p) 2 then [1; 2] else [].
Example ex2_suffixes : forall j k p q a, (j + k = 2)%nat -> In p (exts ex2_next j []) -> In q (exts ex2_next j []) -> In a (exts ex2_next k p) ->
  exists c, a = p ++ c /\ In (q ++ c) (exts ex2_next k q).
Proof.
  intros j k p q a _ Hp Hq Ha. apply exts_suffix; [intros x y E; unfold ex2_next; rewrite E; reflexivity| |exact Ha].
  apply exts_length in Hp, Hq. cbn in Hp, Hq. lia.
Qed.
Example ex2_monotone : forall p q c : list Z, length p = length q -> vle ((fun x => x) q) ((fun x => x) p) = true ->
  vle ((fun x => x) (q ++ c)) ((fun x => x) (p ++ c)) = true /\ ((fun _ : list Z => true) (p ++ c) = true -> (fun _ : list Z => true) (q ++ c) = true).
Proof. intros p q c _ H. split; [apply vle_app_same, H|reflexivity]. Qed.
Example ex2_pruned : (length (exts ex2_next 2 []), length (stages ex2_next (fun x => x) 2 [[]])) = (4%nat, 1%nat). Proof. vm_compute. reflexivity. Qed.
