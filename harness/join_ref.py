"""Multi-Einsum specs, the staged join, one exact join with the accelerations off, and joins of single pmappings (C13, C14)."""
import copy
import inspect
import math

import common

ARCH = """arch:
  nodes:
  - !Memory
    name: MainMemory
    size: inf
    leak_power: 0
    area: 0
    tensors: {{keep: ~Intermediates, may_keep: All}}
    actions:
    - {{name: read, energy: {mme}, throughput: {mthr}}}
    - {{name: write, energy: {mme}, throughput: {mthr}}}
  - !Memory
    name: GlobalBuffer
    size: {glb}
    leak_power: 0
    area: 0
    tensors: {{keep: {glbkeep}, may_keep: All}}
{gbpv}    actions:
    - {{name: read, energy: {ge}, throughput: {gthr}}}
    - {{name: write, energy: {ge}, throughput: {gthr}}}
{local}  - !Compute
    name: MAC
    leak_power: 0
    area: 0
    actions:
    - {{name: compute, energy: 1, throughput: 1}}
"""
LOCAL = """  - !Memory
    name: LocalBuffer
    size: {lsz}
    leak_power: 0
    area: 0
    tensors: {{may_keep: {lkeep}}}
    actions:
    - {{name: read, energy: 0.25, throughput: inf}}
    - {{name: write, energy: 0.25, throughput: inf}}
"""


def gen_spec(rng, max_einsums=3, allow_three=True):
    n = rng.choice([2, 2, 3][:max_einsums])
    M = rng.choice([2, 4, 4, 6])
    ns = [rng.choice([2, 3, 4, 4, 6]) for _ in range(n + 1)]
    three = rng.random() < 0.15 and allow_three
    p = {"n": n, "M": M, "ns": ns, "glb": rng.choice([16, 24, 32, 48, 64, 96, 128, 256, "inf"]), "mme": rng.choice([1, 4, 10, 100]),
         "ge": rng.choice([1, 2]), "gthr": rng.choice(["inf", 1, 2, 8]), "mthr": rng.choice(["inf", 0.5, 1, 2]), "lkeep": rng.choice(["All", "weight", "input | output"]), "three": three, "lsz": rng.choice([8, 16, 32, 64]),
         "long_lived": n == 3 and rng.random() < 0.3, "bpv": rng.choice([8, 8, 4, 16]),
         "max_fused_loops": rng.choice([None, None, 1, 2]), "max_fused_loops_per_rank_variable": rng.choice([1, 1, 2])}
    p["gbpv"] = rng.choice([None, None, None, "weight: 16", "input: 4", "output: 16"])      # an Einsum-dependent attribute (renames resolve per Einsum)
    if rng.random() < 0.25:
        # tapering chain: the last Einsum is tiny and the GlobalBuffer holds all of ITS tensors but not the workload's
        p["ns"] = [rng.choice([4, 6]), rng.choice([4, 6])] + [rng.choice([1, 1, 2]) for _ in range(n - 1)]
        a, b = p["ns"][n - 1], p["ns"][n]
        p["glb"] = p["bpv"] * (M * a + a * b + M * b) + rng.choice([0, 8, 16])
        p["mme"] = rng.choice([10, 100])
        p["long_lived"], p["gbpv"], p["three"] = False, None, False
    return p


def yaml_text(p):
    glbkeep = "~MainMemory"
    arch = ARCH.format(gbpv=("    bits_per_value: {" + p["gbpv"] + "}\n") if p.get("gbpv") else "", mme=p["mme"], mthr=p.get("mthr", "inf"), glb=p["glb"], ge=p["ge"], gthr=p["gthr"], glbkeep=glbkeep, local=LOCAL.format(lsz=p["lsz"], lkeep=p.get("lkeep", "All")) if p["three"] else "")
    w = ["workload:", "  iteration_space_shape:", f"    m: 0 <= m < {p['M']}"]
    for i, x in enumerate(p["ns"]):
        w.append(f"    n{i}: 0 <= n{i} < {x}")
    w += [f"  bits_per_value: {{All: {p['bpv']}}}", "  einsums:"]
    for i in range(p["n"]):
        w.append(f"  - name: Matmul{i}")
        w.append("    tensor_accesses:")
        w.append(f"    - {{name: T{i}, projection: [m, n{i}]}}")
        w.append(f"    - {{name: W{i}, projection: [n{i}, n{i + 1}]}}")
        if p["long_lived"] and i == p["n"] - 1:
            w.append("    - {name: T0, projection: [m, n0]}")
        w.append(f"    - {{name: T{i + 1}, projection: [m, n{i + 1}], output: True}}")
        w.append(f"    renames: {{weight: W{i}, input: T{i}, output: T{i + 1}}}")
    return arch, "\n".join(w) + "\n"


def load_spec(af, p, d, metrics):
    a, w = yaml_text(p)
    (d / "ja.yaml").write_text(a)
    (d / "jw.yaml").write_text(w)
    s = af.Spec.from_yaml(str(d / "ja.yaml"), str(d / "jw.yaml"))
    s.mapper.metrics = metrics
    if p["max_fused_loops"] is not None:
        s.mapper.max_fused_loops = p["max_fused_loops"]
    s.mapper.max_fused_loops_per_rank_variable = p["max_fused_loops_per_rank_variable"]
    return s


_EXACT = {}


def exact_join_fn():
    """join_pmappings of the current source with the lookahead elimination switched off (source transformation in this process only)"""
    from accelforge.mapper.FFM._join_pmappings import join_pmappings as J
    if "fn" not in _EXACT:
        src = inspect.getsource(J.join_pmappings)
        pat = "        lookahead_filter = True\n"
        if pat in src:
            src2 = src.replace(pat, "        lookahead_filter = False\n").replace("def join_pmappings(", "def _verif_join_pmappings_exact(", 1)
            ns = dict(J.__dict__)
            exec(compile(src2, "<verif-exact-join>", "exec"), ns)
            _EXACT["fn"], _EXACT["lookahead_off"] = ns["_verif_join_pmappings_exact"], True
        else:
            _EXACT["fn"], _EXACT["lookahead_off"] = J.join_pmappings, False
    return _EXACT["fn"], _EXACT["lookahead_off"]


def exact_join(af, pm, metrics, e2p=None, combine=False):
    """one direct join: no dirty rounds, no thresholds, no optimality filter, no lookahead elimination, every memory tracked
       (RESOURCE_USAGE in the metrics keeps every reservation column), reservations not combined.  -> DataFrame or raises"""
    from accelforge.mapper.FFM._join_pmappings import join_pmappings as J
    fn, _ = exact_join_fn()
    spec = pm.spec
    old = spec.mapper._combine_reservations
    spec.mapper._combine_reservations = combine
    try:
        if e2p is None:
            e2p = {k: v for k, v in pm.einsum2pmappings.items() if k in pm.einsums_with_pmappings_generated}
        compressed, dd = J.compress_einsum2pmappings(copy.deepcopy(e2p), False)
        for _, p in compressed.items():
            for pg in p:
                pg.mappings.drop_valid_reservations = not (af.Metrics.RESOURCE_USAGE & metrics)
        joined = fn(compressed, spec, print_progress=False, metrics=metrics)
        joined = J.decompress_pmappings(joined, dd)
        return joined.data
    finally:
        spec.mapper._combine_reservations = old


def staged_join(af, pm, metrics):
    from accelforge.mapper.FFM import main as MM
    return MM.join_pmappings(pm, metrics=metrics, require_all_einsums=False, print_progress=False).data


def obj_cols(df, with_usage):
    cols = [c for c in df.columns if c.startswith("Total<SEP>") and "mapping" not in c]
    if with_usage:
        cols += sorted(c for c in df.columns if c.startswith("reservation<SEP>"))
    return cols


def vectors(df, cols):
    out = []
    for i in range(len(df)):
        out.append(tuple(float(df[c].iloc[i]) if c in df.columns and not (isinstance(df[c].iloc[i], float) and math.isnan(df[c].iloc[i])) else 0.0 for c in cols))
    return out


def pfront(vecs):
    vs = sorted(set(vecs))
    return [v for v in vs if not any(w != v and all(x <= y for x, y in zip(w, v)) for w in vs)]


def near(a, b, tol=1e-6):
    return len(a) == len(b) and all(abs(x - y) <= tol * max(1.0, abs(y)) for x, y in zip(a, b))


def same_front(a, b, tol=1e-6):
    lost = [v for v in b if not any(near(g, v, tol) for g in a)]
    extra = [g for g in a if not any(near(g, v, tol) for v in b)]
    return lost, extra


def singles(pm):
    """every pmapping of every Einsum as a one-row PmappingGroup: {einsum: [(group index, row index, PmappingGroup)]}"""
    from accelforge.mapper.FFM._join_pmappings.pmapping_group import PmappingGroup
    out = {}
    for e, gs in pm.einsum2pmappings.items():
        if e not in pm.einsums_with_pmappings_generated:
            continue
        lst = []
        for gi, g in enumerate(gs):
            for ri in range(len(g.mappings.data)):
                data = g.mappings.data.iloc[[ri]].copy()
                lst.append((gi, ri, PmappingGroup(g.compatibility, g.mappings.update(data=data, skip_pareto=True))))
        out[e] = lst
    return out


# ---------------------------------------------------------------- fused witness family (C01): concrete fused mappings of a 2-matmul chain
def fused_family(rng, p, cap=40):
    """concrete mappings that keep the intermediate T1 only in the GlobalBuffer under fused loops over m and / or n1
       (tile shapes = divisors), with optional GlobalBuffer holders for the other tensors and random inner loop orders"""
    def divs(x):
        return [k for k in range(1, x + 1) if x % k == 0]
    M, n0, n1, n2 = p["M"], p["ns"][0], p["ns"][1], p["ns"][2]
    fam = []
    for mt in divs(M):
        for nt in divs(n1):
            for t0 in (False, True):
                for t2 in (False, True):
                    fam.append((mt, nt, t0, rng.random() < 0.25, t2, rng.random() < 0.25, rng.random() < 0.3, rng.random() < 0.3))
    rng.shuffle(fam)
    out = []
    for mt, nt, t0, w0, t2, w1, o0, o1 in fam[:cap]:
        def branch(e, ra, rb, hold_a, hold_w, order):
            loops = [f"      - !Temporal {{rank_variable: m, tile_shape: 1}}", f"      - !Temporal {{rank_variable: {ra}, tile_shape: 1}}"]
            if order:
                loops.reverse()
            lines = ["    - !Nested", "      nodes:"] + loops
            if hold_a:
                lines.append(f"      - !Storage {{tensors: [{hold_a}], component: GlobalBuffer}}")
            if hold_w:
                lines.append(f"      - !Storage {{tensors: [{hold_w}], component: GlobalBuffer}}")
            lines.append(f"      - !Temporal {{rank_variable: {rb}, tile_shape: 1}}")
            lines.append(f"      - !Compute {{einsum: {e}, component: MAC}}")
            return lines
        y = ["mapping:", "  nodes:", "  - !Storage {tensors: [T0, W0, W1, T2], component: MainMemory}",
             f"  - !Temporal {{rank_variable: m, tile_shape: {mt}}}", f"  - !Temporal {{rank_variable: n1, tile_shape: {nt}}}",
             "  - !Storage {tensors: [T1], component: GlobalBuffer}", "  - !Sequential", "    nodes:"]
        y += branch("Matmul0", "n0", "n1", "T0" if t0 else None, "W0" if w0 else None, o0)
        y += branch("Matmul1", "n2", "n1", "T2" if t2 else None, "W1" if w1 else None, o1)
        out.append(({"m_tile": mt, "n1_tile": nt, "T0_in_GLB": t0, "W0_in_GLB": w0, "T2_in_GLB": t2, "W1_in_GLB": w1}, "\n".join(y) + "\n"))
    return out


def evaluate_family(af, evaluate_mapping, p, d, fam):
    """-> list of (desc, yaml, energy, latency) for the members the real model accepts (valid structure, within every capacity)"""
    a, w = yaml_text(p)
    (d / "fa.yaml").write_text(a)
    (d / "fw.yaml").write_text(w)
    out, rejected = [], 0
    for desc, y in fam:
        (d / "fm.yaml").write_text(y)
        try:
            s = af.Spec.from_yaml(str(d / "fa.yaml"), str(d / "fw.yaml"), str(d / "fm.yaml"))
            r = evaluate_mapping(s)
            if any(v > 1 + 1e-9 for v in r.resource_usage().values()):
                rejected += 1
                continue
            out.append((desc, y, float(r.energy()), float(r.latency())))
        except Exception:  # noqa
            rejected += 1
    return out, rejected


def row_mapping(pm, row):
    """the concrete joined mapping a row of an (exact / staged, decompressed) join result denotes"""
    from accelforge.mapper.FFM._join_pmappings import join_pmappings as J
    names = [e for e in pm.einsum2pmappings if e in pm.einsums_with_pmappings_generated]
    r = row.copy()
    for e in names:
        col = f"{e}<SEP>{J.MAPPING_COLUMN}"
        v = r[col]
        if not hasattr(v, "nodes") and not callable(v):
            r[col] = pm.pmapping_objects[e][v]
    rvb = J.get_rank_variable_bounds_for_all_einsums(pm.spec)
    return J.MappingFromRow(r, rvb, names)(_for_model=True)
