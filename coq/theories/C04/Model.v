(* C04 model — how the joiner's totals are composed from per-Einsum results: energy and latency of the Einsums of a
   (sequentially executed) workload add up, the energy-delay product is the product of the two totals. *)
From Coq Require Import QArith List.
Import ListNotations.
Open Scope Q_scope.
Definition sumQ (l : list Q) : Q := fold_right Qplus 0 l.
Definition total_energy (rs : list (Q * Q)) : Q := sumQ (map fst rs).
Definition total_latency (rs : list (Q * Q)) : Q := sumQ (map snd rs).
Definition total_edp (rs : list (Q * Q)) : Q := total_energy rs * total_latency rs.
