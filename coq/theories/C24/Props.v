(* C24 — property theorems only. *)
From Coq Require Import ZArith List Bool Lia.
Import ListNotations.
From AF Require Import C24.Model C24.Proofs.
Open Scope Z_scope.

(* the enumerated iteration space is exactly the box, each point once *)
Theorem C24_iteration_space : forall bs, NoDup (points bs) /\ forall p, In p (points bs) <-> in_box p bs.
Proof. intro bs. split; [apply points_nodup|apply points_in]. Qed.
Print Assumptions C24_iteration_space.

(* operation count = number of enumerated points *)
Theorem C24_ops : forall bs, n_computes bs = Z.of_nat (length (points bs)).
Proof. intro bs. symmetry. apply points_length. Qed.
Print Assumptions C24_ops.

(* reported bound of rank variable i (max - min + 1 over the enumerated space) = its size *)
Theorem C24_bounds : forall i bs, Forall (fun b => (1 <= b)%nat) bs -> (i < length bs)%nat ->
  rank_variable_bound i bs = Z.of_nat (nth i bs 0%nat).
Proof. exact bound_is_size. Qed.
Print Assumptions C24_bounds.

(* the data space is the intersection, over the canonical Einsums, of the iteration space projected through the access *)
Theorem C24_data_space : forall canon q, canon <> [] ->
  (In q (data_space canon) <-> forall c, In c canon -> exists p, in_box p (snd c) /\ proj (fst c) p = q)
  /\ NoDup (data_space canon).
Proof. intros canon q H. split; [apply data_space_in, H|apply data_space_nodup]. Qed.
Print Assumptions C24_data_space.

(* a size is reported only when the data space is a box, and then it is the number of projected points;
   otherwise the model (like the code) reports an error, never a number *)
Theorem C24_size_or_error : forall n canon s, (forall c, In c canon -> length (fst c) = n) ->
  tensor_size n (data_space canon) = Some s -> s = Z.of_nat (length (data_space canon)).
Proof.
  intros n canon s Hn H. apply (size_is_count n); [apply data_space_nodup| |exact H].
  intros p Hp. apply (data_space_dim n canon p Hn Hp).
Qed.
Print Assumptions C24_size_or_error.

(* stride: one step of variable i moves the rank coordinate by the coefficient, wherever the other variables stand *)
Theorem C24_stride : forall a i p v, (i < length p)%nat ->
  proj1 a (set_nth i (v + 1) p) - proj1 a (set_nth i v p) = stride a i.
Proof. exact stride_is_step. Qed.
Print Assumptions C24_stride.

(* halo: the largest rank coordinate reached while variable i is at 0 (non-negative coefficients), and it is reached *)
Theorem C24_halo : forall a i bs, Forall (fun x => 0 <= x) (fst a) -> Forall (fun b => (1 <= b)%nat) bs -> (i < length bs)%nat ->
  (forall p, in_box p bs -> nth i p 0 = 0 -> proj1 a p <= halo a i bs)
  /\ exists p, in_box p bs /\ nth i p 0 = 0 /\ proj1 a p = halo a i bs.
Proof.
  intros a i bs Ha Hb Hi. split.
  - intros p Hp Hz. apply halo_is_max; assumption.
  - exists (set_nth i 0 (last_point bs)). destruct (halo_attained i bs Hb Hi) as [H1 H2]. repeat split; assumption.
Qed.
Print Assumptions C24_halo.
