(* Joining pmapping tables: rows carry a compatibility key and a vector (objectives and reservations); two rows join when
   their keys are compatible and the combined vector fits; tables are Pareto-pruned per key between joins. *)
From AF Require Import Base.Tactics Lib.Pareto Lib.Front.
Open Scope Z_scope.

Record row := mkRow { key : nat; rvec : vec }.

(* two sets, one inside the other and weakly covering it, have the same front *)
Lemma vle_dom_trans a b c : vle a b = true -> dom b c = true -> dom a c = true.
Proof.
  intros H1 H2. apply dom_iff in H2. destruct H2 as [H2 H3]. apply dom_iff. split; [eapply vle_trans; eassumption|].
  destruct (vle c a) eqn:E; [|reflexivity]. rewrite (vle_trans _ _ _ E H1) in H3. discriminate.
Qed.
Lemma front_cover (G' G : list vec) :
  (forall x, In x G' -> In x G) -> (forall x, In x G -> exists y, In y G' /\ vle y x = true) ->
  forall f, In f (front G') <-> In f (front G).
Proof.
  intros Hsub Hcov f. rewrite !front_in. split; intros [Hf Hn].
  - split; [apply Hsub, Hf|]. intros x Hx. destruct (dom x f) eqn:E; [|reflexivity].
    destruct (Hcov x Hx) as [y [Hy Hyx]]. rewrite <- (Hn y Hy). symmetry. eapply vle_dom_trans; eassumption.
  - destruct (Hcov f Hf) as [y [Hy Hyf]]. pose proof (Hn y (Hsub y Hy)) as Nd.
    assert (vle f y = true) as Hfy.
    { destruct (vle f y) eqn:E; [reflexivity|]. assert (dom y f = true) by (apply dom_iff; split; assumption). congruence. }
    rewrite (vle_antisym _ _ Hfy Hyf). split; [exact Hy|]. rewrite <- (vle_antisym _ _ Hfy Hyf). intros x Hx. apply Hn, Hsub, Hx.
Qed.
(* removing members that are dominated by a member never changes the front *)
Lemma front_remove_dominated (G' G : list vec) :
  (forall x, In x G' -> In x G) -> (forall x, In x G -> In x G' \/ exists c, In c G /\ dom c x = true) ->
  forall f, In f (front G') <-> In f (front G).
Proof.
  intros Hsub Hrem. apply front_cover; [exact Hsub|]. intros x Hx.
  assert (forall y, In y G -> (forall z, In z G -> dom z y = false) -> In y G') as Hnd.
  { intros y Hy Hn. destruct (Hrem y Hy) as [H|[c [Hc Dc]]]; [exact H|]. rewrite (Hn c Hc) in Dc. discriminate. }
  destruct (existsb (fun z => dom z x) G) eqn:E.
  - apply existsb_exists in E. destruct E as [z [Hz Dz]]. destruct (exists_nondominated_dominator G x z Hz Dz) as [g [G1 [G2 G3]]].
    exists g. split; [apply Hnd; assumption|]. apply dom_iff in G2. apply G2.
  - exists x. split; [|apply vle_refl]. apply Hnd; [exact Hx|]. intros z Hz. destruct (dom z x) eqn:F; [|reflexivity].
    assert (existsb (fun z => dom z x) G = true) by (apply existsb_exists; exists z; tauto). congruence.
Qed.

Section Join.
  Variable compat : nat -> nat -> option nat.      (* Compatibility.merge_next on keys: None = incompatible *)
  Variable comb : vec -> vec -> vec.               (* objectives summed, reservations combined by lifetime *)
  Variable fits : vec -> bool.                     (* within every capacity *)

  Definition join1 (a b : row) : list row :=
    match compat (key a) (key b) with
    | Some k => if fits (comb (rvec a) (rvec b)) then [mkRow k (comb (rvec a) (rvec b))] else []
    | None => []
    end.
  Definition join (A B : list row) : list row := flat_map (fun a => flat_map (join1 a) B) A.

  (* Pareto pruning inside every key group *)
  Definition rdom (r' r : row) : bool := Nat.eqb (key r') (key r) && dom (rvec r') (rvec r).
  Definition gprune (T : list row) : list row := filter (fun r => negb (existsb (fun r' => rdom r' r) T)) T.

  Definition covers (T' T : list row) : Prop :=
    forall r, In r T -> exists r', In r' T' /\ key r' = key r /\ vle (rvec r') (rvec r) = true.

  (* every combination of one row per table, in join order *)
  Definition exhaustive (T1 : list row) (rest : list (list row)) : list row := fold_left join rest T1.
  (* the staged join: prune every table, prune after every step *)
  Definition staged (T1 : list row) (rest : list (list row)) : list row :=
    fold_left (fun acc T => gprune (join acc (gprune T))) rest (gprune T1).

  Lemma join_in A B x : In x (join A B) <-> exists a b, In a A /\ In b B /\ In x (join1 a b).
  Proof.
    unfold join. rewrite in_flat_map. split.
    - intros [a [Ha H]]. apply in_flat_map in H. destruct H as [b [Hb H]]. exists a, b. tauto.
    - intros [a [b [Ha [Hb H]]]]. exists a. split; [exact Ha|]. apply in_flat_map. exists b. tauto.
  Qed.

  Lemma gprune_incl T r : In r (gprune T) -> In r T.
  Proof. unfold gprune. rewrite filter_In. tauto. Qed.

  Lemma covers_refl T : covers T T.
  Proof. intros r Hr. exists r. split; [exact Hr|]. split; [reflexivity|apply vle_refl]. Qed.
  Lemma covers_trans A B C : covers A B -> covers B C -> covers A C.
  Proof.
    intros H1 H2 r Hr. destruct (H2 r Hr) as [r1 [I1 [K1 L1]]]. destruct (H1 r1 I1) as [r2 [I2 [K2 L2]]].
    exists r2. split; [exact I2|]. split; [congruence|eapply vle_trans; eassumption].
  Qed.

  Lemma gprune_covers T : covers (gprune T) T.
  Proof.
    intros r Hr. set (Gk := filter (fun x => Nat.eqb (key x) (key r)) T).
    assert (HG : forall v, In v (map rvec Gk) <-> exists x, In x T /\ key x = key r /\ rvec x = v).
    { intro v. rewrite in_map_iff. split.
      - intros [x [<- Hx]]. apply filter_In in Hx. destruct Hx as [Hx Hk]. apply Nat.eqb_eq in Hk. exists x. tauto.
      - intros [x [Hx [Hk <-]]]. exists x. split; [reflexivity|]. apply filter_In. split; [exact Hx|]. apply Nat.eqb_eq, Hk. }
    assert (exists g, In g (map rvec Gk) /\ vle g (rvec r) = true /\ forall z, In z (map rvec Gk) -> dom z g = false) as [g [Hg [Hle Hn]]].
    { destruct (existsb (fun z => dom z (rvec r)) (map rvec Gk)) eqn:E.
      - apply existsb_exists in E. destruct E as [z [Hz Dz]]. destruct (exists_nondominated_dominator _ _ z Hz Dz) as [g [G1 [G2 G3]]].
        exists g. split; [exact G1|]. split; [apply dom_iff in G2; apply G2|exact G3].
      - exists (rvec r). split; [apply HG; exists r; tauto|]. split; [apply vle_refl|]. intros z Hz. destruct (dom z (rvec r)) eqn:F; [|reflexivity].
        assert (existsb (fun z => dom z (rvec r)) (map rvec Gk) = true) by (apply existsb_exists; exists z; tauto). congruence. }
    apply HG in Hg. destruct Hg as [x [Hx [Hk Hv]]]. exists x. split; [|split; [exact Hk|rewrite Hv; exact Hle]].
    unfold gprune. apply filter_In. split; [exact Hx|]. apply negb_true_iff. destruct (existsb _ T) eqn:E; [|reflexivity].
    apply existsb_exists in E. destruct E as [y [Hy Dy]]. unfold rdom in Dy. apply andb_true_iff in Dy. destruct Dy as [Ky Dy]. apply Nat.eqb_eq in Ky.
    rewrite Hv, (Hn (rvec y)) in Dy; [discriminate|]. apply HG. exists y. split; [exact Hy|]. split; [congruence|reflexivity].
  Qed.

  Lemma join_incl A' A B' B : incl A' A -> incl B' B -> incl (join A' B') (join A B).
  Proof. intros HA HB x Hx. apply join_in in Hx. destruct Hx as [a [b [Ha [Hb H]]]]. apply join_in. exists a, b. split; [apply HA, Ha|]. split; [apply HB, Hb|exact H]. Qed.

  Hypothesis comb_mono : forall a a' b b', vle a a' = true -> vle b b' = true -> vle (comb a b) (comb a' b') = true.
  Hypothesis fits_down : forall a b, vle a b = true -> fits b = true -> fits a = true.

  Lemma join_covers A' A B' B : covers A' A -> covers B' B -> covers (join A' B') (join A B).
  Proof.
    intros HA HB x Hx. apply join_in in Hx. destruct Hx as [a [b [Ha [Hb H]]]].
    destruct (HA a Ha) as [a' [Ia [Ka La]]]. destruct (HB b Hb) as [b' [Ib [Kb Lb]]].
    unfold join1 in H. destruct (compat (key a) (key b)) as [k|] eqn:C; [|destruct H].
    destruct (fits (comb (rvec a) (rvec b))) eqn:F; [|destruct H]. destruct H as [<-|[]].
    pose proof (comb_mono _ _ _ _ La Lb) as L. exists (mkRow k (comb (rvec a') (rvec b'))). split; [|split; [reflexivity|exact L]].
    apply join_in. exists a', b'. split; [exact Ia|]. split; [exact Ib|]. unfold join1. rewrite Ka, Kb, C, (fits_down _ _ L F). left. reflexivity.
  Qed.

  Lemma staged_exhaustive_aux rest : forall acc' acc, incl acc' acc -> covers acc' acc ->
    incl (fold_left (fun acc T => gprune (join acc (gprune T))) rest acc') (fold_left join rest acc)
    /\ covers (fold_left (fun acc T => gprune (join acc (gprune T))) rest acc') (fold_left join rest acc).
  Proof.
    induction rest as [|T rest IH]; intros acc' acc Hi Hc; [split; assumption|]. cbn [fold_left]. apply IH.
    - intros x Hx. apply gprune_incl in Hx. eapply join_incl; [exact Hi| |exact Hx]. intros y Hy. apply gprune_incl in Hy. exact Hy.
    - eapply covers_trans; [apply gprune_covers|]. apply join_covers; [exact Hc|apply gprune_covers].
  Qed.

  (* the staged join emits only real combinations and covers every combination, key by key *)
  Theorem staged_exhaustive T1 rest : incl (staged T1 rest) (exhaustive T1 rest) /\ covers (staged T1 rest) (exhaustive T1 rest).
  Proof. apply staged_exhaustive_aux; [intros x Hx; apply gprune_incl in Hx; exact Hx|apply gprune_covers]. Qed.

  Theorem staged_front T1 rest : forall f, In f (front (map rvec (staged T1 rest))) <-> In f (front (map rvec (exhaustive T1 rest))).
  Proof.
    destruct (staged_exhaustive T1 rest) as [Hi Hc]. apply front_cover.
    - intros x Hx. apply in_map_iff in Hx. destruct Hx as [r [<- Hr]]. apply in_map, Hi, Hr.
    - intros x Hx. apply in_map_iff in Hx. destruct Hx as [r [<- Hr]]. destruct (Hc r Hr) as [r' [I [_ L]]]. exists (rvec r'). split; [apply in_map, I|exact L].
  Qed.

End Join.

Section Threshold.
  Variable compat : nat -> nat -> option nat.
  Variable comb : vec -> vec -> vec.
  Variable fits : vec -> bool.
  Notation join := (join compat comb fits).
  Notation join1 := (join1 compat comb fits).
  Notation exhaustive := (exhaustive compat comb fits).
  (* ---------------------------------------------------------------- optimality-threshold row filtering *)
  Variable oproj : vec -> vec.                     (* the objective coordinates *)
  Hypothesis oproj_left : forall a b, vle (oproj a) (oproj (comb a b)) = true.
  Hypothesis oproj_right : forall a b, vle (oproj b) (oproj (comb a b)) = true.

  Fixpoint all_gt (v c : vec) : bool :=
    match v, c with
    | x :: v', y :: c' => (y <? x) && all_gt v' c'
    | [], [] => true
    | _, _ => false
    end.
  Lemma all_gt_vle v : forall c w, all_gt v c = true -> vle v w = true -> all_gt w c = true.
  Proof.
    induction v as [|x v IH]; intros [|y c] [|z w] H L; cbn in *; try discriminate; [reflexivity|].
    apply andb_true_iff in H. destruct H as [H1 H2]. apply andb_true_iff in L. destruct L as [L1 L2]. rewrite (IH _ _ H2 L2). lia.
  Qed.
  Lemma all_gt_dom v : forall c, c <> [] -> all_gt v c = true -> dom c v = true.
  Proof.
    assert (forall u c, all_gt u c = true -> vle c u = true) as Hle.
    { induction u as [|x v' IH]; intros [|y c] H; cbn in *; try discriminate; [reflexivity|]. apply andb_true_iff in H. destruct H as [H1 H2]. rewrite (IH _ H2). lia. }
    intros c Hc H. apply dom_iff. split; [apply Hle, H|]. destruct v as [|x v'], c as [|y c']; cbn in *; try discriminate; [congruence|].
    apply andb_true_iff in H. destruct H as [H1 _]. destruct (x <=? y) eqn:E; [lia|reflexivity].
  Qed.

  Definition tfilter (c : vec) (T : list row) : list row := filter (fun r => negb (all_gt (oproj (rvec r)) c)) T.

  Lemma join_filter c A B x : In x (join A B) -> In x (join (tfilter c A) (tfilter c B)) \/ all_gt (oproj (rvec x)) c = true.
  Proof.
    intro Hx. apply (join_in compat comb fits) in Hx. destruct Hx as [a [b [Ha [Hb H]]]].
    destruct (all_gt (oproj (rvec a)) c) eqn:Ea; [right|destruct (all_gt (oproj (rvec b)) c) eqn:Eb; [right|left]].
    - unfold Join.join1 in H. destruct (compat _ _); [|destruct H]. destruct (fits _); [|destruct H]. destruct H as [<-|[]]. cbn. eapply all_gt_vle; [exact Ea|apply oproj_left].
    - unfold Join.join1 in H. destruct (compat _ _); [|destruct H]. destruct (fits _); [|destruct H]. destruct H as [<-|[]]. cbn. eapply all_gt_vle; [exact Eb|apply oproj_right].
    - apply (join_in compat comb fits). exists a, b. unfold tfilter. rewrite !filter_In, Ea, Eb. tauto.
  Qed.

  Lemma join_worse c A B x : In x (join A B) -> (forall a, In a A -> all_gt (oproj (rvec a)) c = true) -> all_gt (oproj (rvec x)) c = true.
  Proof.
    intros Hx HA. apply (join_in compat comb fits) in Hx. destruct Hx as [a [b [Ha [Hb H]]]]. unfold Join.join1 in H. destruct (compat _ _); [|destruct H]. destruct (fits _); [|destruct H].
    destruct H as [<-|[]]. cbn. eapply all_gt_vle; [apply HA, Ha|apply oproj_left].
  Qed.

  Lemma exhaustive_filter c rest : forall acc' acc, incl acc' acc -> (forall x, In x acc -> In x acc' \/ all_gt (oproj (rvec x)) c = true) ->
    incl (fold_left join (map (tfilter c) rest) acc') (fold_left join rest acc)
    /\ forall x, In x (fold_left join rest acc) -> In x (fold_left join (map (tfilter c) rest) acc') \/ all_gt (oproj (rvec x)) c = true.
  Proof.
    induction rest as [|T rest IH]; intros acc' acc Hi Hc; [split; assumption|]. cbn [map fold_left]. apply IH.
    - apply (join_incl compat comb fits); [exact Hi|]. intros y Hy. unfold tfilter in Hy. apply filter_In in Hy. apply Hy.
    - intros x Hx. apply (join_in compat comb fits) in Hx. destruct Hx as [a [b [Ha [Hb H]]]]. destruct (Hc a Ha) as [Ha'|Wa].
      + destruct (all_gt (oproj (rvec b)) c) eqn:Eb.
        * right. unfold Join.join1 in H. destruct (compat _ _); [|destruct H]. destruct (fits _); [|destruct H]. destruct H as [<-|[]]. cbn. eapply all_gt_vle; [exact Eb|apply oproj_right].
        * left. apply (join_in compat comb fits). exists a, b. split; [exact Ha'|]. split; [|exact H]. unfold tfilter. apply filter_In. rewrite Eb. tauto.
      + right. unfold Join.join1 in H. destruct (compat _ _); [|destruct H]. destruct (fits _); [|destruct H]. destruct H as [<-|[]]. cbn. eapply all_gt_vle; [exact Wa|apply oproj_left].
  Qed.

  (* dropping, from every table, the rows already worse on every objective than an achievable full solution c
     leaves the objective front of the exhaustive combination unchanged *)
  Theorem threshold_filter_exact c T1 rest : c <> [] -> In c (map (fun r => oproj (rvec r)) (exhaustive T1 rest)) ->
    forall f, In f (front (map (fun r => oproj (rvec r)) (exhaustive (tfilter c T1) (map (tfilter c) rest))))
          <-> In f (front (map (fun r => oproj (rvec r)) (exhaustive T1 rest))).
  Proof.
    intros Hc Hin. destruct (exhaustive_filter c rest (tfilter c T1) T1) as [Hi Hr].
    - intros y Hy. unfold tfilter in Hy. apply filter_In in Hy. apply Hy.
    - intros x Hx. destruct (all_gt (oproj (rvec x)) c) eqn:E; [right; reflexivity|left]. unfold tfilter. apply filter_In. rewrite E. tauto.
    - apply front_remove_dominated.
      + intros x Hx. apply in_map_iff in Hx. destruct Hx as [r [<- Hr']]. apply (in_map (fun r => oproj (rvec r))), Hi, Hr'.
      + intros x Hx. apply in_map_iff in Hx. destruct Hx as [r [<- Hr']]. destruct (Hr r Hr') as [H|H].
        * left. apply (in_map (fun r => oproj (rvec r))), H.
        * right. exists c. split; [exact Hin|]. apply all_gt_dom; assumption.
  Qed.
End Threshold.
