(* C29 model — renames.py:Renames.get_renames_for_einsum and the merging done by
   workload.py:Einsum._eval_expressions (as repaired: the Einsum's own top-level entry is used,
   with the "default" entry layered underneath).  Sources are C22 set expressions. *)
From Coq Require Import List Arith Bool Lia.
Import ListNotations.
From AF Require Import C22.Model.

Record rename := mkren { rn : nat; src : sexp; cnt : option nat }.

Fixpoint lookup_ren (n : nat) (l : list rename) : option rename :=
  match l with [] => None | r :: t => if Nat.eqb n (rn r) then Some r else lookup_ren n t end.

Definition has_ren (n : nat) (l : list rename) : bool :=
  match lookup_ren n l with Some _ => true | None => false end.

(* for r in extra: if r.name not in cur: cur.append(r) *)
Definition append_missing (cur extra : list rename) : list rename :=
  fold_left (fun acc r => if has_ren (rn r) acc then acc else acc ++ [r]) extra cur.

(* get_renames_for_einsum(name): the Einsum's entry (if any) plus the defaults it does not override *)
Definition renames_for (top_e top_default : list rename) : list rename := append_missing top_e top_default.

(* Einsum._eval_expressions: the Einsum's own renames, then whatever the top level adds *)
Definition merged (local top_e top_default : list rename) : list rename :=
  append_missing local (renames_for top_e top_default).

Fixpoint dedup (l : list nat) : list nat :=
  match l with [] => [] | x :: t => if mem x t then dedup t else x :: dedup t end.

(* evaluation of one rename: its source as a set, checked against expected_count *)
Definition eval_rename (w : workload) (e : einsum) (r : rename) : option (list nat) :=
  let s := inst (impl_eval (env_of w e []) (src r)) in
  match cnt r with
  | Some k => if Nat.eqb (length (dedup s)) k then Some s else None
  | None => Some s
  end.

Inductive res := Unbound | Bad | Val (s : list nat).

(* what a name resolves to for Einsum e; Bad = EvaluationError (some merged rename fails its expected_count) *)
Definition resolve (w : workload) (e : einsum) (local top_e top_default : list rename) (n : nat) : res :=
  let m := merged local top_e top_default in
  if forallb (fun r => match eval_rename w e r with Some _ => true | None => false end) m then
    match lookup_ren n m with
    | Some r => match eval_rename w e r with Some s => Val s | None => Bad end
    | None => Unbound
    end
  else Bad.

(* reference: priority lookup *)
Definition first_defined (n : nat) (local top_e top_default : list rename) : option rename :=
  match lookup_ren n local with
  | Some r => Some r
  | None => match lookup_ren n top_e with Some r => Some r | None => lookup_ren n top_default end
  end.
