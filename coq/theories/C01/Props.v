(* C01 — property theorems only (reference side: what "optimal over the whole mapspace" is, for the MiniForge class). *)
From Coq Require Import ZArith QArith List Bool Lia.
Import ListNotations.
From AF Require Import Lib.MiniForge C06.Model Lib.MiniSpace C01.Proofs.
Open Scope Z_scope.

(* the enumerator misses no mapping of the space (any storage placement allowed by keep / may_keep and the hierarchy,
   any loop order, any perfect factor chain) and produces nothing outside it *)
Theorem C01_space_exact : forall ms m, In m (space ms) <-> in_space ms m = true.
Proof. intros ms m. split; [apply space_in_space|apply in_space_in]. Qed.
Print Assumptions C01_space_exact.

(* no valid mapping is strictly better than the reference optimum ... *)
Theorem C01_opt_is_lower_bound : forall ms mt m v, in_space ms m = true -> opt ms mt = Some v -> (v <= objective ms mt m)%Q.
Proof. exact opt_lower_bound. Qed.
Print Assumptions C01_opt_is_lower_bound.

(* ... and some valid mapping attains it *)
Theorem C01_opt_attained : forall ms mt v, opt ms mt = Some v -> exists m, in_space ms m = true /\ objective ms mt m = v.
Proof. exact opt_attained. Qed.
Print Assumptions C01_opt_attained.

Theorem C01_infeasible : forall ms mt, opt ms mt = None <-> forall m, in_space ms m = false.
Proof. exact opt_none. Qed.
Print Assumptions C01_infeasible.
