(* C25 — property theorems only. *)
From AF Require Import Base.Tactics Lib.ArchTree C25.Model C25.Proofs.

(* Flattening (recursive descent with early exit, fork skipping) equals: the document-order
   leaves of the tree pruned of the forks that do not contain the compute, cut at the
   compute, minus all other computes — for every tree and every name. *)
Theorem C25_flatten_path : forall c f, flattenF c f = spec_path c f.
Proof. exact flatten_is_path. Qed.
Print Assumptions C25_flatten_path.

Theorem C25_path_declarative : forall c L,
  path c L = (filter (fun l => negb (is_comp l)) (take_until c L)
              ++ match find (target c) L with Some l => [l] | None => [] end,
              existsb (target c) L).
Proof. exact path_declarative. Qed.
Print Assumptions C25_path_declarative.

(* when the compute is reached the result is non-compute leaves followed by the compute;
   no other compute ever appears *)
Theorem C25_shape : forall c f r, flattenF c f = (r, true) ->
  exists r' l, r = r' ++ [l] /\ target c l = true /\ forall x, In x r' -> is_comp x = false.
Proof. intros c f r H. rewrite flatten_is_path in H. eapply path_last; eassumption. Qed.
Print Assumptions C25_shape.

(* the compute is missing from the pruned tree  <->  flattening reports "not found" (the code raises) *)
Theorem C25_missing : forall c f,
  flatten_or_error c f = None <-> existsb (target c) (pleaves c f) = false.
Proof.
  intros c f. unfold flatten_or_error. rewrite flatten_is_path. unfold spec_path. rewrite path_declarative.
  destruct (existsb (target c) (pleaves c f)); split; congruence.
Qed.
Print Assumptions C25_missing.
