From Coq Require Import ZArith QArith List Bool Lia.
Import ListNotations.
Require Import AF.Lib.MiniForge AF.C06.Model AF.Lib.MiniSpace.
Open Scope Z_scope.

Lemma paths_length {state nd} step final cands : forall fuel (st : state) (m : list nd),
  In m (paths state nd step final cands fuel st) -> (length m <= fuel)%nat.
Proof.
  induction fuel as [|f IH]; intros st m H; cbn [paths] in H; apply in_app_iff in H; destruct H as [H|H].
  - destruct (final st); [|destruct H]. destruct H as [<-|[]]. simpl. lia.
  - destruct H.
  - destruct (final st); [|destruct H]. destruct H as [<-|[]]. simpl. lia.
  - apply in_flat_map in H. destruct H as [n [_ H]]. destruct (step st n) as [st'|]; [|destruct H].
    apply in_map_iff in H. destruct H as [r [<- Hr]]. specialize (IH _ _ Hr). simpl. lia.
Qed.

Section S.
  Variable ms : mspec.
  Let nt := length (s_tensors (m_spec ms)).

  Lemma top_length : length (top ms) = nt.
  Proof. unfold top. rewrite map_length, seq_length. reflexivity. Qed.

  Lemma in_space_split m : in_space ms m = true ->
    m = top ms ++ skipn nt m /\ in_body ms (skipn nt m) = true /\ fits ms m = true.
  Proof.
    unfold in_space. fold nt. destruct (list_eq_dec node_eq_dec (firstn nt m) (top ms)) as [E|E]; [|discriminate].
    intro H. cbn [andb] in H. apply andb_true_iff in H. destruct H as [H1 H2]. split; [|split; assumption].
    rewrite <- E. symmetry. apply firstn_skipn.
  Qed.

  Lemma in_space_in m : in_space ms m = true -> In m (space ms).
  Proof.
    intro H. destruct (in_space_split m H) as (E & B & F). unfold space. apply filter_In. split; [|exact F].
    rewrite E. apply in_map_iff. exists (skipn nt m). split; [reflexivity|]. apply bodies_complete, B.
  Qed.

  Lemma space_in_space m : In m (space ms) -> in_space ms m = true.
  Proof.
    unfold space. intro H. apply filter_In in H. destruct H as [H F]. apply in_map_iff in H. destruct H as [b [<- Hb]].
    unfold in_space. fold nt. rewrite <- top_length. rewrite firstn_app, Nat.sub_diag, firstn_all, firstn_O, app_nil_r.
    rewrite skipn_app, Nat.sub_diag, skipn_all. cbn [skipn app].
    destruct (list_eq_dec node_eq_dec (top ms) (top ms)) as [_|N]; [|congruence]. cbn [andb]. rewrite F, andb_true_r.
    unfold in_body. rewrite (bodies_sound ms b Hb). cbn [andb]. apply Nat.leb_le. eapply paths_length. exact Hb.
  Qed.

  Lemma opt_lower_bound mt m v : in_space ms m = true -> opt ms mt = Some v -> (v <= objective ms mt m)%Q.
  Proof.
    intros H O. unfold opt in O. apply qmin_list_spec in O. destruct O as [A _]. apply A. apply in_map. apply in_space_in, H.
  Qed.

  Lemma opt_attained mt v : opt ms mt = Some v -> exists m, in_space ms m = true /\ objective ms mt m = v.
  Proof.
    intro O. unfold opt in O. apply qmin_list_spec in O. destruct O as [_ [x [Hx <-]]]. apply in_map_iff in Hx.
    destruct Hx as [m [<- Hm]]. exists m. split; [apply space_in_space, Hm|reflexivity].
  Qed.

  Lemma opt_none mt : opt ms mt = None <-> forall m, in_space ms m = false.
  Proof.
    split.
    - intros O m. destruct (in_space ms m) eqn:E; [|reflexivity]. apply in_space_in in E. unfold opt in O. apply qmin_list_none in O.
      apply (in_map (objective ms mt)) in E. rewrite O in E. destruct E.
    - intro H. unfold opt. destruct (space ms) as [|m r] eqn:E; [reflexivity|].
      assert (In m (space ms)) by (rewrite E; left; reflexivity). apply space_in_space in H0. rewrite H in H0. discriminate.
  Qed.
End S.
