(* C28 model — mappings.py: Mappings._get_cols / access / energy / actions / latency / resource_usage.
   A column name is the list of its <SEP>-separated tokens (token = nat id); a result row is a list of
   (column, value).  Values are integers (the harness uses integer-valued tables). *)
From Coq Require Import ZArith List Bool Lia.
Import ListNotations.
Open Scope Z_scope.

Definition col := list nat.
Definition table := list (col * Z).

(* reserved tokens *)
Definition ENERGY := 0%nat. Definition ACTION := 1%nat. Definition LATENCY := 2%nat. Definition RESERVATION := 3%nat.
Definition LEAK := 4%nat. Definition NONE := 5%nat. Definition TOTAL := 6%nat.

Fixpoint index_of (k : nat) (c : col) : option nat :=
  match c with
  | [] => None
  | x :: t => if Nat.eqb x k then Some 0%nat else option_map S (index_of k t)
  end.
Fixpoint remove_nth (i : nat) (c : col) : col :=
  match c, i with
  | [], _ => []
  | _ :: t, O => t
  | x :: t, S j => x :: remove_nth j t
  end.
Definition count_tok (k : nat) (c : col) : nat := length (filter (Nat.eqb k) c).

(* access(key, col_idx=Some i): keep the columns whose FIRST occurrence of key is at position i; drop that position *)
Definition access_at (k i : nat) (t : table) : table :=
  flat_map (fun cv => match index_of k (fst cv) with
                      | Some j => if Nat.eqb j i then [(remove_nth i (fst cv), snd cv)] else []
                      | None => [] end) t.

(* access(key, col_idx=None): error if the key occurs twice in a column or at varying positions *)
Fixpoint found_index (k : nat) (t : table) (cur : option nat) : option (option nat) :=
  match t with
  | [] => Some cur
  | (c, _) :: rest =>
      match index_of k c with
      | None => found_index k rest cur
      | Some j => if Nat.ltb 1 (count_tok k c) then None
                  else match cur with
                       | Some i => if Nat.eqb i j then found_index k rest cur else None
                       | None => found_index k rest (Some j)
                       end
      end
  end.
Definition access_any (k : nat) (t : table) : option table :=
  match found_index k t None with
  | None => None
  | Some None => Some []
  | Some (Some i) => Some (access_at k i t)
  end.

(* result dictionaries: key tuple -> value, assignment overwrites, insertion order kept *)
Definition key := list nat.
Fixpoint key_eqb (a b : key) : bool :=
  match a, b with [], [] => true | x :: a', y :: b' => Nat.eqb x y && key_eqb a' b' | _, _ => false end.
Fixpoint dict_set (k : key) (v : Z) (d : list (key * Z)) : list (key * Z) :=
  match d with
  | [] => [(k, v)]
  | (k', v') :: t => if key_eqb k k' then (k', v) :: t else (k', v') :: dict_set k v t
  end.
Fixpoint dict_add (k : key) (v : Z) (d : list (key * Z)) : list (key * Z) :=
  match d with
  | [] => [(k, v)]
  | (k', v') :: t => if key_eqb k k' then (k', v' + v) :: t else (k', v') :: dict_add k v t
  end.

Definition cols_of_length (n : nat) (t : table) : table := filter (fun cv => Nat.eqb (length (fst cv)) n) t.

(* the (einsum, component, tensor, action) dictionary built by energy() (with_leak = true) and actions() (false) *)
Definition collect (what : nat) (with_leak : bool) (einsums : list (nat * list nat)) (t : table) : option (list (key * Z)) :=
  match access_any what t with
  | None => None
  | Some en =>
      Some (fold_left (fun res (et : nat * list nat) =>
              let '(e, tensors) := et in
              let ea := access_at e 0 en in
              let res1 := fold_left (fun r tn =>
                             fold_left (fun r' cv => match fst cv with
                                                     | [comp; act] => dict_set [e; comp; tn; act] (snd cv) r'
                                                     | _ => r' end)
                                       (cols_of_length 2 (access_at tn 1 ea)) r)
                           (tensors ++ [NONE]) res in
              if with_leak then
                fold_left (fun r cv => match fst cv with
                                       | [comp; act] => if Nat.eqb act LEAK then dict_set [e; comp; NONE; act] (snd cv) r else r
                                       | _ => r end)
                          (cols_of_length 2 ea) res1
              else res1) einsums [])
  end.

Definition select (idx : list nat) (k : key) : key := map (fun i => nth i k 0%nat) idx.
Definition group (idx : list nat) (d : list (key * Z)) : list (key * Z) :=
  fold_left (fun acc kv => dict_add (select idx (fst kv)) (snd kv) acc) d [].
Definition flags_idx (flags : list bool) : list nat :=
  map fst (filter snd (combine (seq 0 (length flags)) flags)).
Definition total (d : list (key * Z)) : Z := fold_right Z.add 0 (map snd d).

(* energy(per_einsum, per_component, per_tensor, per_action) / actions(per_einsum, per_component, per_tensor) [action always kept] *)
Definition energy (flags : list bool) einsums t := option_map (group (flags_idx flags)) (collect ENERGY true einsums t).
Definition actions (flags : list bool) einsums t := option_map (group (flags_idx (flags ++ [true]))) (collect ACTION false einsums t).

(* latency *)
Definition lat_entries (einsums : list (nat * list nat)) (t : table) : option (list (key * Z)) :=
  match access_any LATENCY t with
  | None => None
  | Some la =>
      Some (fold_left (fun res (et : nat * list nat) =>
              fold_left (fun r cv => match fst cv with [comp] => dict_set [fst et; comp] (snd cv) r | _ => r end)
                        (cols_of_length 1 (access_at (fst et) 0 la)) res) einsums [])
  end.
Fixpoint dict_max (k : key) (v : Z) (d : list (key * Z)) : list (key * Z) :=
  match d with
  | [] => [(k, v)]
  | (k', v') :: t => if key_eqb k k' then (k', Z.max v' v) :: t else (k', v') :: dict_max k v t
  end.
Definition per_einsum_latency (d : list (key * Z)) := fold_left (fun acc kv => dict_max (select [0%nat] (fst kv)) (snd kv) acc) d [].
Definition latency (per_einsum per_component : bool) einsums t : option (list (key * Z)) :=
  option_map (fun d =>
    match per_einsum, per_component with
    | true, true => d
    | true, false => per_einsum_latency d
    | false, true => group [1%nat] d
    | false, false => [([], total (per_einsum_latency d))]
    end) (lat_entries einsums t).

(* resource_usage: max over the 3-token reservation columns of each resource *)
Definition resource_usage (t : table) : option (list (key * Z)) :=
  option_map (fun r => fold_left (fun acc cv => match fst cv with
                                                | [res; _; _] => dict_max [res] (Z.max 0 (snd cv)) acc
                                                | _ => acc end) (cols_of_length 3 r) [])
             (access_any RESERVATION t).
