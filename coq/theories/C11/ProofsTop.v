(* C11 proofs, part 3: column masks, grouping, dedup, and the main theorem. *)
From AF Require Import Base.Tactics Base.ListAux Lib.Pareto C11.Model C11.ProofsSfs C11.ProofsLow.
Open Scope Z_scope.

(* ---------------------------------------------------------------- varying-column masks *)
Lemma varying_mask_length v0 : forall vs, length (varying_mask v0 vs) = length v0.
Proof. induction v0 as [|x v0 IH]; intros vs; simpl; [reflexivity|]. rewrite IH. reflexivity. Qed.

Lemma vm_agree v0 : forall vs a, In a vs -> length a = length v0 -> agree_off (varying_mask v0 vs) v0 a.
Proof.
  induction v0 as [|x v0 IH]; intros vs [|y a] Ha Hl; simpl in *; try discriminate; [exact I|].
  split.
  - intros E. apply negb_false_iff in E. rewrite forallb_forall in E. specialize (E _ Ha). simpl in E. lia.
  - apply IH; [|lia]. apply in_map_iff. exists (y :: a). split; [reflexivity|exact Ha].
Qed.

Lemma agree_off_trans m : forall v a b, agree_off m v a -> agree_off m v b -> agree_off m a b.
Proof.
  induction m as [|k m IH]; intros [|z v] [|x a] [|y b]; simpl; try tauto.
  intros [H1 H2] [H3 H4]. split; [intro E; rewrite <- H1, <- H3 by exact E; reflexivity|eapply IH; eassumption].
Qed.

Lemma select_length m : forall v, length v = length m -> length (select m v) = count_true m.
Proof.
  unfold count_true. induction m as [|k m IH]; intros [|x v] Hl; simpl in *; try discriminate; [reflexivity|].
  destruct k; simpl; rewrite IH by lia; reflexivity.
Qed.

(* all vectors of a list have length d: dropping the non-varying columns preserves dominance *)
Lemma dom_select_varying (vs : list vec) v0 a b :
  In a vs -> In b vs -> length a = length v0 -> length b = length v0 ->
  dom (select (varying_mask v0 vs) a) (select (varying_mask v0 vs) b) = dom a b.
Proof.
  intros Ha Hb La Lb. apply dom_select. eapply agree_off_trans; apply vm_agree; eassumption.
Qed.

(* ---------------------------------------------------------------- per-group kernel *)
Section Core.
Variable key : vec -> Z.
Hypothesis key_mono : forall a b, dom a b = true -> key a <= key b.

Definition nd_in (G : list trow) (t : trow) : Prop := forall s, In s G -> dom (eff s) (eff t) = false.

Lemma path_translate (G : list trow) m (path : list (nat * list Z) -> list nat) d :
  (forall t, In t G -> length (eff t) = d) ->
  (forall s t, In s G -> In t G -> dom (select m (eff s)) (select m (eff t)) = dom (eff s) (eff t)) ->
  let L := map (fun t => (tg t, select m (eff t))) G in
  (forall i, In i (path L) <-> exists v, In (i, v) L /\ nondom_in L v) ->
  forall i, In i (path L) <-> exists t, In t G /\ tg t = i /\ nd_in G t.
Proof.
  intros Hd Hsel L Hpath i. rewrite Hpath. split.
  - intros [v [Hv Hn]]. apply in_map_iff in Hv. destruct Hv as [t [Ht HtG]]. inversion Ht; subst.
    exists t. split; [exact HtG|]. split; [reflexivity|]. intros s Hs.
    rewrite <- Hsel by assumption. apply (Hn (tg s, select m (eff s))). apply in_map_iff. exists s. tauto.
  - intros [t [HtG [<- Hn]]]. exists (select m (eff t)). split; [apply in_map_iff; exists t; tauto|].
    intros q Hq. apply in_map_iff in Hq. destruct Hq as [s [<- Hs]]. simpl. rewrite Hsel by assumption. apply Hn, Hs.
Qed.

Lemma core_correct (G : list trow) d i :
  NoDup (map tg G) -> (forall t, In t G -> length (eff t) = d) ->
  (In i (core key G) <-> exists t, In t G /\ tg t = i /\ nd_in G t).
Proof.
  intros Hnd Hd. destruct G as [|t0 [|t1 G']].
  - simpl. split; [intros []|intros [t [[] _]]].
  - simpl. split.
    + intros [<-|[]]. exists t0. split; [left; reflexivity|]. split; [reflexivity|]. intros s [<-|[]]. apply dom_irrefl.
    + intros [t [[<-|[]] [<- _]]]. left; reflexivity.
  - set (G := t0 :: t1 :: G') in *.
    set (m := varying_mask (eff t0) (map eff G)).
    assert (Hsel : forall s t, In s G -> In t G -> dom (select m (eff s)) (select m (eff t)) = dom (eff s) (eff t)).
    { intros s t Hs Ht. apply dom_select_varying; try (apply in_map; assumption);
        rewrite !Hd; try reflexivity; try assumption; left; reflexivity. }
    assert (Hlen : forall p, In p (map (fun t => (tg t, select m (eff t))) G) -> length (snd p) = count_true m).
    { intros p Hp. apply in_map_iff in Hp. destruct Hp as [t [<- Ht]]. simpl. apply select_length.
      unfold m. rewrite varying_mask_length, !Hd; [reflexivity|left; reflexivity|exact Ht]. }
    change (core key G) with
      (let L := map (fun t => (tg t, select m (eff t))) G in
       match count_true m with O => map fst L | 1%nat => min_path L | 2%nat => sweep2 L | _ => sfs key L end).
    cbv zeta. set (L := map (fun t => (tg t, select m (eff t))) G) in *.
    destruct (count_true m) as [|[|[|c]]] eqn:Ec.
    + apply (path_translate G m (fun L => map fst L) d Hd Hsel). intros j. split.
      * intros Hj. apply in_map_iff in Hj. destruct Hj as [[j' v] [<- Hv]]. exists v. split; [exact Hv|].
        intros q Hq. pose proof (Hlen _ Hq) as E1. pose proof (Hlen _ Hv) as E2. simpl in E2.
        destruct (snd q); [|discriminate]. destruct v; [|discriminate]. reflexivity.
      * intros [v [Hv _]]. apply in_map_iff. exists (j, v). tauto.
    + apply (path_translate G m min_path d Hd Hsel). intros j. apply min_path_correct. exact Hlen.
    + apply (path_translate G m sweep2 d Hd Hsel). intros j. apply sweep2_correct. exact Hlen.
    + apply (path_translate G m (sfs key) d Hd Hsel). intros j. apply sfs_correct; [exact key_mono|].
      unfold L. rewrite map_map. simpl. exact Hnd.
Qed.

(* ---------------------------------------------------------------- grouping *)
Lemma first_keys_in l : forall seen t, In t l -> existsb (veq (dkey t)) seen = false -> In (dkey t) (first_keys seen l).
Proof.
  induction l as [|a l IH]; intros seen t Ht Hs; [destruct Ht|]. simpl.
  destruct Ht as [->|Ht].
  - rewrite Hs. left; reflexivity.
  - destruct (existsb (veq (dkey a)) seen) eqn:E; [apply IH; assumption|].
    destruct (veq (dkey t) (dkey a)) eqn:F.
    + apply veq_eq in F. left. congruence.
    + right. apply IH; [exact Ht|]. simpl. rewrite F, Hs. reflexivity.
Qed.

Lemma NoDup_map_filter {A B} (f : A -> B) (p : A -> bool) l : NoDup (map f l) -> NoDup (map f (filter p l)).
Proof.
  induction l as [|a l IH]; simpl; intros H; [constructor|]. inversion H; subst.
  destruct (p a); simpl; [|apply IH; assumption]. constructor; [|apply IH; assumption].
  intro Hin. apply H2. apply in_map_iff in Hin. destruct Hin as [x [Hx1 Hx2]]. apply filter_In in Hx2.
  apply in_map_iff. exists x. tauto.
Qed.

Definition nd_grp (T : list trow) (t : trow) : Prop :=
  forall s, In s T -> dkey s = dkey t -> dom (eff s) (eff t) = false.

Lemma groups_correct (T : list trow) d i :
  NoDup (map tg T) -> (forall t, In t T -> length (eff t) = d) ->
  (In i (flat_map (core key) (groups T)) <-> exists t, In t T /\ tg t = i /\ nd_grp T t).
Proof.
  intros Hnd Hd. unfold groups. rewrite in_flat_map. split.
  - intros [G [HG Hi]]. apply in_map_iff in HG. destruct HG as [k [<- _]].
    apply (core_correct _ d) in Hi; [|apply NoDup_map_filter, Hnd|intros t Ht; apply filter_In in Ht; apply Hd, Ht].
    destruct Hi as [t [Ht [<- Hn]]]. apply filter_In in Ht. destruct Ht as [Ht Hk]. apply veq_eq in Hk.
    exists t. split; [exact Ht|]. split; [reflexivity|]. intros s Hs E. apply Hn. apply filter_In. split; [exact Hs|].
    apply veq_eq. congruence.
  - intros [t [Ht [<- Hn]]]. exists (filter (fun s => veq (dkey s) (dkey t)) T). split.
    + apply in_map_iff. exists (dkey t). split; [reflexivity|]. apply first_keys_in; [exact Ht|reflexivity].
    + apply (core_correct _ d); [apply NoDup_map_filter, Hnd|intros s Hs; apply filter_In in Hs; apply Hd, Hs|].
      exists t. split; [apply filter_In; split; [exact Ht|apply veq_refl]|]. split; [reflexivity|].
      intros s Hs. apply filter_In in Hs. destruct Hs as [Hs E]. apply veq_eq in E. apply Hn; assumption.
Qed.
End Core.

(* ---------------------------------------------------------------- tagging *)
Lemma combine_seq_in n : forall (rows : list (list Z)) k i r,
  In (i, r) (combine (seq k n) rows) -> (k <= i)%nat /\ nth_error rows (i - k) = Some r.
Proof.
  induction n as [|n IH]; intros rows k i r Hin; [destruct Hin|].
  destruct rows as [|r0 rows]; [destruct Hin|]. simpl in Hin. destruct Hin as [Hin|Hin].
  - inversion Hin; subst. rewrite Nat.sub_diag. split; [lia|reflexivity].
  - destruct (IH rows (S k) i r Hin) as [H1 H2]. split; [lia|].
    replace (i - k)%nat with (S (i - S k)) by lia. exact H2.
Qed.

Lemma combine_seq_in_rev i : forall (rows : list (list Z)) r k n,
  nth_error rows i = Some r -> (i < n)%nat -> In ((k + i)%nat, r) (combine (seq k n) rows).
Proof.
  induction i as [|i IH]; intros rows r k n Hn Hlt; destruct rows as [|r0 rows]; try discriminate;
    (destruct n as [|n]; [lia|]); simpl in *.
  - inversion Hn; subst. left. f_equal. lia.
  - right. replace (k + S i)%nat with (S k + i)%nat by lia. apply IH; [exact Hn|lia].
Qed.

Lemma tagrows_in gs rows t :
  In t (tagrows gs rows) <-> exists i r, nth_error rows i = Some r /\ t = mk i r (diff_part gs r) (opt_part gs r).
Proof.
  unfold tagrows. rewrite in_map_iff. split.
  - intros [[i r] [<- H]]. exists i, r. split; [|reflexivity].
    apply combine_seq_in in H. destruct H as [_ H]. rewrite Nat.sub_0_r in H. exact H.
  - intros [i [r [Hn ->]]]. exists (i, r). split; [reflexivity|].
    apply (combine_seq_in_rev i rows r 0%nat); [exact Hn|]. apply nth_error_Some. congruence.
Qed.

Lemma map_fst_combine {A B} (l1 : list A) : forall (l2 : list B), length l1 = length l2 -> map fst (combine l1 l2) = l1.
Proof.
  induction l1 as [|a l1 IH]; intros [|b l2] H; simpl in *; try discriminate; [reflexivity|]. f_equal. apply IH. lia.
Qed.

Lemma tagrows_tags gs rows : map tg (tagrows gs rows) = seq 0 (length rows).
Proof.
  unfold tagrows. rewrite map_map. simpl. rewrite <- (map_fst_combine (seq 0 (length rows)) rows) at 2; [reflexivity|].
  apply seq_length.
Qed.

Lemma opt_part_length gs : forall r1 r2, length r1 = length gs -> length r2 = length gs ->
  length (opt_part gs r1) = length (opt_part gs r2).
Proof.
  unfold opt_part. induction gs as [|g gs IH]; intros [|x r1] [|y r2] H1 H2; simpl in *; try discriminate; [reflexivity|].
  rewrite !app_length. rewrite (IH r1 r2) by lia. destruct g; reflexivity.
Qed.

Lemma memnat_In i l : memnat i l = true <-> In i l.
Proof.
  induction l as [|j l IH]; simpl; [split; [discriminate|tauto]|].
  rewrite orb_true_iff, IH, Nat.eqb_eq. split; intros [H|H]; auto.
Qed.

Lemma map_seq_ext {B} (f : nat -> B) (g : list Z -> B) : forall (l : list (list Z)) k,
  (forall i r, nth_error l i = Some r -> f (k + i)%nat = g r) ->
  map f (seq k (length l)) = map g l.
Proof.
  induction l as [|r l IH]; intros k H; simpl; [reflexivity|]. f_equal.
  - rewrite <- (H 0%nat r eq_refl). f_equal. lia.
  - apply IH. intros i r' Hi. rewrite <- (H (S i) r' Hi). f_equal. lia.
Qed.

(* ---------------------------------------------------------------- dedup *)
Lemma dedup_spec gs all : forall rest seen seenK,
  (forall x, memrow x seenK = memrow x seen && negb (dominated_in gs all x)) ->
  dedup_kept seenK rest (map (fun r => negb (dominated_in gs all r)) rest) = spec_aux gs all seen rest.
Proof.
  induction rest as [|r t IH]; intros seen seenK Hinv; simpl; [reflexivity|].
  destruct (dominated_in gs all r) eqn:Ed; simpl.
  - f_equal. apply IH. intros x. simpl. rewrite Hinv. destruct (veq x r) eqn:E; simpl; [|reflexivity].
    apply veq_eq in E. subst x. rewrite Ed. simpl. rewrite andb_false_r. reflexivity.
  - rewrite (Hinv r), Ed. simpl. rewrite andb_true_r. destruct (memrow r seen) eqn:Em; simpl; f_equal; apply IH; intros x; simpl.
    + rewrite Hinv. destruct (veq x r) eqn:E; simpl; [|reflexivity]. apply veq_eq in E. subst x. rewrite Em, Ed. reflexivity.
    + rewrite Hinv. destruct (veq x r) eqn:E; simpl; [|reflexivity]. apply veq_eq in E. subst x. rewrite Ed. reflexivity.
Qed.

(* ---------------------------------------------------------------- main theorem *)
Section Main.
Variable key : vec -> Z.
Hypothesis key_mono : forall a b, dom a b = true -> key a <= key b.

Theorem mask_exact gs rows :
  (forall r, In r rows -> length r = length gs) ->
  impl_mask key gs rows = spec_mask gs rows.
Proof.
  intros Hwf. unfold impl_mask, spec_mask.
  destruct (length rows <=? 1)%nat eqn:En.
  - apply Nat.leb_le in En. destruct rows as [|r [|r' rows]]; simpl in *; try lia; [reflexivity|].
    unfold dominated_in. simpl. rewrite dom_irrefl, andb_false_r. reflexivity.
  - apply Nat.leb_gt in En.
    destruct (tagrows gs rows) as [|t0 Tt] eqn:ET.
    { pose proof (tagrows_tags gs rows) as H. rewrite ET in H. simpl in H. destruct rows; simpl in *; [lia|discriminate]. }
    rewrite <- ET. set (T0 := tagrows gs rows) in *.
    set (gm := varying_mask (eff t0) (map eff T0)).
    set (T := map (fun t => mk (tg t) (full t) (dkey t) (select gm (eff t))) T0).
    set (kept := if (count_true gm =? 0)%nat then map tg T else flat_map (core key) (groups T)).
    assert (Ht0 : In t0 T0) by (rewrite ET; left; reflexivity).
    (* all optimised vectors have the length of t0's *)
    assert (Hlen0 : forall t, In t T0 -> length (eff t) = length (eff t0)).
    { intros t Ht. apply tagrows_in in Ht. apply tagrows_in in Ht0.
      destruct Ht as [i [r [Hi ->]]], Ht0 as [i0 [r0 [Hi0 ->]]]. simpl.
      apply opt_part_length; apply Hwf; eapply nth_error_In; eassumption. }
    assert (Hsel : forall s t, In s T0 -> In t T0 -> dom (select gm (eff s)) (select gm (eff t)) = dom (eff s) (eff t)).
    { intros s t Hs Ht. apply dom_select_varying; try (apply in_map; assumption); apply Hlen0; assumption. }
    assert (HlenT : forall t, In t T -> length (eff t) = count_true gm).
    { intros t Ht. apply in_map_iff in Ht. destruct Ht as [s [<- Hs]]. simpl. apply select_length.
      unfold gm. rewrite varying_mask_length. apply Hlen0, Hs. }
    assert (HtagsT : map tg T = seq 0 (length rows)).
    { unfold T. rewrite map_map. simpl. apply tagrows_tags. }
    (* the kept tags are exactly the non-dominated rows *)
    assert (HK : forall i r, nth_error rows i = Some r -> memnat i kept = negb (dominated_in gs rows r)).
    { intros i r Hi.
      assert (HtT0 : In (mk i r (diff_part gs r) (opt_part gs r)) T0) by (apply tagrows_in; exists i, r; tauto).
      assert (Hdomchar : dominated_in gs rows r = false <->
                forall s, In s T0 -> dkey s = diff_part gs r -> dom (select gm (eff s)) (select gm (opt_part gs r)) = false).
      { unfold dominated_in. split.
        - intros H s Hs Ek. pose proof Hs as Hs'. apply tagrows_in in Hs. destruct Hs as [j [rs [Hj ->]]]. simpl in *.
          pose proof (existsb_false_forall _ _ H rs (nth_error_In _ _ Hj)) as F. simpl in F.
          rewrite (proj2 (veq_eq _ _) Ek) in F. simpl in F.
          pose proof (Hsel _ _ Hs' HtT0) as Q. simpl in Q. rewrite Q. exact F.
        - intros H. destruct (existsb _ rows) eqn:F; [|reflexivity]. exfalso.
          apply existsb_exists in F. destruct F as [rs [Hrs F]]. apply andb_true_iff in F. destruct F as [F1 F2].
          apply veq_eq in F1. apply In_nth_error in Hrs. destruct Hrs as [j Hj].
          assert (Hs : In (mk j rs (diff_part gs rs) (opt_part gs rs)) T0) by (apply tagrows_in; exists j, rs; tauto).
          specialize (H _ Hs F1). pose proof (Hsel _ _ Hs HtT0) as Q. simpl in Q, H. rewrite Q in H. congruence. }
      unfold kept. destruct (count_true gm =? 0)%nat eqn:Ec.
      - apply Nat.eqb_eq in Ec.
        assert (E1 : memnat i (map tg T) = true).
        { apply memnat_In. rewrite HtagsT. apply in_seq. split; [lia|]. simpl. apply nth_error_Some. congruence. }
        rewrite E1. symmetry. apply negb_true_iff. apply Hdomchar. intros s Hs _.
        assert (L1 : length (select gm (eff s)) = 0%nat).
        { rewrite <- Ec. apply (HlenT (mk (tg s) (full s) (dkey s) (select gm (eff s)))). apply in_map_iff. exists s. tauto. }
        assert (L2 : length (select gm (opt_part gs r)) = 0%nat).
        { rewrite <- Ec. apply (HlenT (mk i r (diff_part gs r) (select gm (opt_part gs r)))). apply in_map_iff.
          exists (mk i r (diff_part gs r) (opt_part gs r)). tauto. }
        destruct (select gm (eff s)); [|discriminate]. destruct (select gm (opt_part gs r)); [|discriminate]. reflexivity.
      - destruct (dominated_in gs rows r) eqn:Ed; simpl.
        + (* dominated: not kept *)
          destruct (memnat i (flat_map (core key) (groups T))) eqn:Em; [|reflexivity]. exfalso.
          apply memnat_In in Em. apply (groups_correct key key_mono T (count_true gm)) in Em;
            [|rewrite HtagsT; apply seq_NoDup|exact HlenT].
          destruct Em as [t [Ht [Hti Hn]]].
          apply in_map_iff in Ht. destruct Ht as [t' [<- Ht']]. simpl in Hti.
          pose proof Ht' as Ht''. apply tagrows_in in Ht'. destruct Ht' as [i' [r' [Hi' ->]]]. simpl in *. subst i'.
          assert (r' = r) by congruence. subst r'.
          assert (true = false); [|discriminate].
          apply Hdomchar. intros s Hs Ek.
          apply (Hn (mk (tg s) (full s) (dkey s) (select gm (eff s)))); [apply in_map_iff; exists s; tauto|exact Ek].
        + apply memnat_In. apply (groups_correct key key_mono T (count_true gm));
            [rewrite HtagsT; apply seq_NoDup|exact HlenT|].
          exists (mk i r (diff_part gs r) (select gm (opt_part gs r))). split.
          * apply in_map_iff. exists (mk i r (diff_part gs r) (opt_part gs r)). tauto.
          * split; [reflexivity|]. intros s Hs Ek. apply in_map_iff in Hs. destruct Hs as [s' [<- Hs']]. simpl in *.
            apply (proj1 Hdomchar eq_refl s' Hs' Ek). }
    rewrite (map_seq_ext (fun i => memnat i kept) (fun r => negb (dominated_in gs rows r)) rows 0%nat HK).
    apply dedup_spec. intros x. reflexivity.
Qed.
End Main.

(* the plain sum is an admissible key *)
Lemma vsum_mono a b : dom a b = true -> vsum a <= vsum b.
Proof. intros H. pose proof (dom_sum a b H). lia. Qed.
