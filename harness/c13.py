"""C13 — joining pmapping tables = exhaustive combination of compatible pmappings (one per Einsum), capacity-filtered and Pareto-filtered."""
import itertools
import json
import math
import os

import common
import join_ref as JR

TRUSTED = [
    "Coq (Lib/Join.v, C13/Props.v): over an abstract join algebra (rows = compatibility key + vector; ANY key-compatibility function, ANY monotone combination of vectors, ANY downward-closed "
    "capacity test, ANY number of tables) the step-by-step join with per-key Pareto pruning of every table and of every partial result emits only exhaustive combinations and covers each of "
    "them key by key, hence has the same front; instantiated without hypotheses for summed non-negative objectives + max reservation + capacity",
    "that Compatibility.merge_next / PmappingDataframe.merge_next (loop and tile-shape agreement of shared tensors, equivalent loop permutations, reservation lifetimes) are a compatibility "
    "function and a monotone combination is NOT proved; the correspondence run ties the table-level join (grouping, consolidation, bucket keys, permutations, pruning between steps, "
    "capacity limiting) to combinations of SINGLE pmappings joined by the same pair primitives, and checks the objective arithmetic of every front row independently (sums of the "
    "constituent rows)",
    "both sides use the join_pmappings of the current source with the lookahead elimination switched off by an in-process source transformation (C14 covers the accelerations)",
]


def constituent(df_row, e, table_rows):
    """index of the pmapping of Einsum e used by a joined row: match on every column '<e><SEP>...' the two share"""
    hits = []
    for idx, (gi, ri, pg) in enumerate(table_rows):
        data = pg.mappings.data
        cols = [c for c in data.columns if c.startswith(e + "<SEP>") and c in df_row.index]
        ok = bool(cols)
        for c in cols:
            a, b = data[c].iloc[0], df_row[c]
            try:
                fa, fb = float(a), float(b)
                if math.isnan(fa) and math.isnan(fb):
                    continue
                if abs(fa - fb) > 1e-9 * max(1.0, abs(fb)):
                    ok = False
                    break
            except (TypeError, ValueError):
                if a != b:
                    ok = False
                    break
        if ok:
            hits.append(idx)
    return hits


def naive_usage_bits(mapping, p):
    """upper bound on what any lifetime analysis may report: for every root -> compute path of the LoopTree, the sum of the FULL tiles of the
       storage nodes on it (per memory), maximised over the paths.  Dense projections T_i[m, n_i], W_i[n_i, n_(i+1)]."""
    import c03
    from accelforge.frontend.mapping.mapping import Loop
    ranks = {"m": p["M"]}
    for i, x in enumerate(p["ns"]):
        ranks[f"n{i}"] = x
    proj = {}
    for i in range(p["n"] + 1):
        proj[f"T{i}"] = ["m", f"n{i}"]
    for i in range(p["n"]):
        proj[f"W{i}"] = [f"n{i}", f"n{i + 1}"]
    best = {}
    for path in c03.tree_paths(mapping):
        tile = dict(ranks)
        tot = {}
        for n in path:
            if isinstance(n, Loop):
                try:
                    tile[str(n.rank_variable)] = int(n.tile_shape)
                except Exception:  # noqa
                    return None
            elif type(n).__name__ in ("Storage", "Toll"):
                for t in n.tensors:
                    occ = 1
                    for r in proj.get(str(t), []):
                        occ *= tile[r]
                    tot[str(n.component)] = tot.get(str(n.component), 0) + occ * p["bpv"]
        for k, v in tot.items():
            best[k] = max(best.get(k, 0), v)
    return best


# ---------------------------------------------------------------- independent witness for pairs the join rejects (2-Einsum chains)
def concrete_nodes(pm, e, single):
    """the single pmapping as [('sto', component, [tensors]) | ('loop', rank variable, tile)] with its row's tile shapes; None if outside the class"""
    data = single.mappings.data
    obj = pm.pmapping_objects[e][data[f"{e}<SEP>mapping"].iloc[0]]
    out = []
    for n in obj.nodes:
        cls = type(n).__name__
        if cls == "Storage":
            out.append(("sto", str(n.component), [str(t) for t in n.tensors]))
        elif cls == "Temporal":
            ts = n.tile_shape
            try:
                ts = int(ts)
            except Exception:  # noqa
                col = f"{e}<SEP>{getattr(ts, 'name', str(ts))}"
                if col not in data.columns:
                    return None
                ts = int(round(float(data[col].iloc[0])))
            out.append(("loop", str(n.rank_variable), ts))
        elif cls in ("Reservation", "Compute"):
            continue
        else:
            return None
    return out


def split_at_shared(nodes, shared, ranks):
    """(top, bottom) around the FIRST non-MainMemory holder of the shared tensor; trivial (one-iteration) loops removed; None if the
       shared tensor is first held in MainMemory or never held in a buffer"""
    tile = dict(ranks)
    clean = []
    for n in nodes:
        if n[0] == "loop":
            if n[2] == tile[n[1]]:
                continue
            tile[n[1]] = n[2]
        clean.append(n)
    for i, n in enumerate(clean):
        if n[0] == "sto" and shared in n[2]:
            if n[1] == "MainMemory":
                continue
            if len(n[2]) != 1:
                return None
            if any(x[0] == "sto" and x[1] == "MainMemory" and shared in x[2] for x in clean[:i]):
                return None           # backed by MainMemory: unfused
            return clean[:i], clean[i + 1:], n[1]
    return None


def witness_yaml(p, a_nodes, b_nodes):
    """canonical fused mapping of a pair whose fused loops above the shared tensor agree as multisets (only when at most one side has
       other holders between its fused loops); None when the rule does not apply"""
    ranks = {"m": p["M"], "n0": p["ns"][0], "n1": p["ns"][1], "n2": p["ns"][2]}
    sa, sb = split_at_shared(a_nodes, "T1", ranks), split_at_shared(b_nodes, "T1", ranks)
    if sa is None or sb is None or sa[2] != sb[2]:
        return None
    (ta, ba, mem), (tb, bb, _) = sa, sb
    la, lb = [n for n in ta if n[0] == "loop"], [n for n in tb if n[0] == "loop"]
    if not la or sorted(la) != sorted(lb):
        return None
    inner = lambda t: [n for n in t if n[0] == "sto" and n[1] != "MainMemory"]  # noqa
    if inner(ta) and inner(tb):
        return None
    if any(n[0] == "sto" and n[1] == "MainMemory" for n in ba + bb):
        return None
    top = tb if inner(tb) else ta
    other = ta if top is tb else tb
    mm = sorted({t for n in ta + tb if n[0] == "sto" and n[1] == "MainMemory" for t in n[2]})
    lines = ["mapping:", "  nodes:", f"  - !Storage {{tensors: [{', '.join(mm)}], component: MainMemory}}"]
    for n in top:
        if n[0] == "loop":
            lines.append(f"  - !Temporal {{rank_variable: {n[1]}, tile_shape: {n[2]}}}")
        elif n[1] != "MainMemory":
            lines.append(f"  - !Storage {{tensors: [{', '.join(n[2])}], component: {n[1]}}}")
    lines += [f"  - !Storage {{tensors: [T1], component: {mem}}}", "  - !Sequential", "    nodes:"]
    for e, bottom in (("Matmul0", ba), ("Matmul1", bb)):
        lines += ["    - !Nested", "      nodes:"]
        for n in bottom:
            if n[0] == "loop":
                lines.append(f"      - !Temporal {{rank_variable: {n[1]}, tile_shape: {n[2]}}}")
            else:
                lines.append(f"      - !Storage {{tensors: [{', '.join(n[2])}], component: {n[1]}}}")
        lines.append(f"      - !Compute {{einsum: {e}, component: MAC}}")
    return "\n".join(lines) + "\n"


def evaluate_witness(af, evaluate_mapping, p, d, y):
    a, w = JR.yaml_text(p)
    (d / "wa.yaml").write_text(a)
    (d / "ww.yaml").write_text(w)
    (d / "wm.yaml").write_text(y)
    cwd = os.getcwd()
    os.chdir(d)
    try:
        r = evaluate_mapping(af.Spec.from_yaml(str(d / "wa.yaml"), str(d / "ww.yaml"), str(d / "wm.yaml")))
        if any(v > 1 + 1e-9 for v in r.resource_usage().values()):
            return None
        return float(r.energy()), float(r.latency())
    except Exception:  # noqa
        return None
    finally:
        os.chdir(cwd)


def run(ck):
    common.setup_impl_path()
    import accelforge as af
    from accelforge.mapper.FFM import main as MM
    af.set_n_parallel_jobs(1)
    ck.prove()
    rng = ck.rng("specs")
    d = common.BUILD / "run" / f"c13-{os.getpid()}"
    d.mkdir(parents=True, exist_ok=True)
    E, L, RU = af.Metrics.ENERGY, af.Metrics.LATENCY, af.Metrics.RESOURCE_USAGE
    metrics = E | L | RU
    dist = {"specs": 0, "einsums": {}, "combinations_joined": 0, "incompatible_or_over_capacity": 0, "valid_combinations": 0, "front_rows": 0, "front_rows_reproduced": 0,
            "exhaustive_specs": 0, "sampled_specs": 0, "table_rows": [], "ambiguous_constituents": 0, "fused_front_rows": 0, "make_errors": 0, "no_mapping_specs": 0}
    _, dist["lookahead_switched_off"] = JR.exact_join_fn()
    cap = ck.n(120, 1500)
    accepted_w, rejected_w = [], []
    for i in range(ck.n(9, 80)):
        p = JR.gen_spec(rng, allow_three=False)
        p["gbpv"] = None
        if i % 3 == 0:
            p["n"], p["ns"] = 2, p["ns"][:3]
            p["long_lived"] = False
        dist["specs"] += 1
        dist["einsums"][str(p["n"])] = dist["einsums"].get(str(p["n"]), 0) + 1
        try:
            spec = JR.load_spec(af, p, d, metrics)
            cwd = os.getcwd()
            os.chdir(d)
            try:
                pm = MM.make_pmappings(spec, print_progress=False)
            finally:
                os.chdir(cwd)
        except Exception:  # noqa
            dist["make_errors"] += 1
            continue
        sing = JR.singles(pm)
        names = list(sing.keys())
        dist["table_rows"].append(sum(len(v) for v in sing.values()))
        payload = {"params": p, "arch_yaml": JR.yaml_text(p)[0], "workload_yaml": JR.yaml_text(p)[1]}
        key = json.dumps(p, sort_keys=True, default=str)
        full = full_err = None
        try:
            full = JR.exact_join(af, pm, metrics)
        except Exception as ex:  # noqa
            full_err = f"{type(ex).__name__}: {str(ex)[:200]}"
        cols = None
        if full is not None:
            cols = JR.obj_cols(full, True)
            fvecs = JR.vectors(full, cols)
            front = JR.pfront(fvecs)
        else:
            front = []

        def join_combo(combo):
            e2p = {e: [sing[e][k][2]] for e, k in zip(names, combo)}
            try:
                df = JR.exact_join(af, pm, metrics, e2p=e2p)
            except Exception:  # noqa
                return None
            return df if len(df) else None
        # (a) every front row is the combination of its own constituents, with summed objectives
        bad = None
        for r_i in range(len(full) if full is not None else 0):
            row = full.iloc[r_i]
            v = fvecs[r_i]
            if not any(JR.near(v, f) for f in front):
                continue
            dist["front_rows"] += 1
            combo = []
            for e in names:
                h = constituent(row, e, sing[e])
                if len(h) != 1:
                    dist["ambiguous_constituents"] += 1
                combo.append(h[0] if h else None)
            if None in combo:
                bad = bad or ("front row names no pmapping of some Einsum", {"row": {c: v[k] for k, c in enumerate(cols)}})
                continue
            df = join_combo(combo)
            parts = [sing[e][k][2].mappings.data for e, k in zip(names, combo)]
            esum = sum(float(x["Total<SEP>energy"].iloc[0]) for x in parts)
            lsum = sum(float(x["Total<SEP>latency"].iloc[0]) for x in parts)
            dist["fused_front_rows"] += any(sing[e][k][2].compatibility.n_loops > 0 for e, k in zip(names, combo))
            ev, lv = float(row["Total<SEP>energy"]), float(row["Total<SEP>latency"])
            if df is None:
                bad = bad or ("a front row of the table join is not reproduced by joining its own constituent pmappings (they are incompatible or over capacity alone)",
                              {"row": {c: v[k] for k, c in enumerate(cols)}, "constituents": combo})
            elif not any(JR.near(w, v) for w in JR.vectors(df, cols)):
                bad = bad or ("joining the constituent pmappings of a front row gives different objectives / usage",
                              {"row": {c: v[k] for k, c in enumerate(cols)}, "constituents": combo, "single_join": [list(w) for w in JR.vectors(df, cols)]})
            elif not (abs(ev - esum) <= 1e-6 * max(1, abs(esum)) and abs(lv - lsum) <= 1e-6 * max(1, abs(lsum))):
                bad = bad or ("objectives of a joined row are not the sums of its constituents", {"energy": ev, "sum_of_parts": esum, "latency": lv, "latency_sum": lsum})
            else:
                dist["front_rows_reproduced"] += 1
            # reported usage can never exceed the sum of the full tiles of the storage nodes on a path of the joined mapping
            try:
                nb = naive_usage_bits(JR.row_mapping(pm, row), p)
            except Exception as ex:  # noqa
                nb = None
                dist["usage_bound_errors"] = dist.get("usage_bound_errors", 0) + 1
                dist.setdefault("usage_bound_error_sample", f"{type(ex).__name__}: {str(ex)[:200]}")
            if nb is not None and p["glb"] != "inf":
                dist["usage_bound_checked"] = dist.get("usage_bound_checked", 0) + 1
                for c in cols:
                    if c.startswith("reservation<SEP>GlobalBuffer<SEP>"):
                        rep = float(row[c]) * float(p["glb"])
                        if rep > nb.get("GlobalBuffer", 0) * (1 + 1e-6) + 1e-6:
                            bad = bad or ("the joined row reports more GlobalBuffer usage than the full tiles of all its storage nodes on any path add up to",
                                          {"reported_bits": rep, "sum_of_full_tiles_bits": nb.get("GlobalBuffer", 0), "constituents": combo})
        # (b) no combination beats the front
        sizes = [len(sing[e]) for e in names]
        total = math.prod(sizes)
        if total <= cap:
            combos = list(itertools.product(*[range(s) for s in sizes]))
            dist["exhaustive_specs"] += 1
        else:
            combos = [tuple(rng.randrange(s) for s in sizes) for _ in range(cap)]
            dist["sampled_specs"] += 1
        nvalid = 0
        two = p["n"] == 2 and not p["long_lived"]
        for combo in combos:
            dist["combinations_joined"] += 1
            df = join_combo(combo)
            if df is None:
                dist["incompatible_or_over_capacity"] += 1
                continue
            nvalid += 1
            dist["valid_combinations"] += 1
            if p["glb"] != "inf" and nvalid <= 60:
                for q in range(len(df)):
                    try:
                        nb = naive_usage_bits(JR.row_mapping(pm, df.iloc[q]), p)
                    except Exception:  # noqa
                        nb = None
                    if nb is None:
                        continue
                    dist["usage_bound_checked"] = dist.get("usage_bound_checked", 0) + 1
                    for c in (cols or JR.obj_cols(df, True)):
                        if c.startswith("reservation<SEP>GlobalBuffer<SEP>") and c in df.columns:
                            rep = float(df[c].iloc[q]) * float(p["glb"])
                            if rep > nb.get("GlobalBuffer", 0) * (1 + 1e-6) + 1e-6:
                                bad = bad or ("a combination of single pmappings reports more GlobalBuffer usage than the full tiles of all its storage nodes on any path add up to",
                                              {"reported_bits": rep, "sum_of_full_tiles_bits": nb.get("GlobalBuffer", 0), "combination": list(combo)})
            for w in JR.vectors(df, cols) if cols else [None]:
                if full is None:
                    bad = bad or (f"the table join failed ({full_err}) although single pmappings combine", {"combination": list(combo)})
                elif not any(all(f[k] <= w[k] + 1e-6 * max(1.0, abs(w[k])) for k in range(len(w))) for f in front):
                    bad = bad or ("a valid combination of single pmappings is not weakly dominated by any row the table join returned",
                                  {"combination": list(combo), "its_vector": dict(zip(cols, w)), "front": [list(f) for f in front[:6]]})
        if two:
            # (c) every pair whose fused loops above the shared tensor agree up to order (decided from the pmapping objects alone)
            cn = [[concrete_nodes(pm, e, x[2]) for x in sing[e]] for e in names]
            cand = []
            for ia, na in enumerate(cn[0]):
                for ib, nb_ in enumerate(cn[1]):
                    if na is not None and nb_ is not None:
                        y = witness_yaml(p, na, nb_)
                        if y is not None:
                            cand.append((ia, ib, y))
            rng.shuffle(cand)
            dist["rule_compatible_pairs"] = dist.get("rule_compatible_pairs", 0) + len(cand)
            for ia, ib, y in cand[:ck.n(40, 200)]:
                df = join_combo((ia, ib))
                if df is None:
                    rejected_w.append((p, [ia, ib], y, None))
                elif len(accepted_w) < ck.n(12, 60):
                    accepted_w.append((p, [ia, ib], y, JR.vectors(df, ["Total<SEP>energy", "Total<SEP>latency"])))
        if full is None and nvalid == 0:
            dist["no_mapping_specs"] += 1
        ck.case(key, nontrivial=nvalid >= 2 and len(front) >= 1,
                sample={"params": {k: p[k] for k in ("n", "M", "ns", "glb", "long_lived", "max_fused_loops")}, "table_sizes": sizes, "combinations": len(combos), "valid": nvalid,
                        "front": [list(f) for f in front[:3]]})
        if bad is not None:
            ck.failing_input(dict(payload, problem=bad[0], detail=bad[1], columns=cols), what=bad[0])
    # witnesses: first validate the constructor on pairs the join accepts, then use it on pairs the join rejects
    from accelforge.model.main import evaluate_mapping
    ws = {"constructor_agrees": 0, "constructor_disagrees": 0, "rejected_pairs_tried": 0, "rejected_pairs_with_valid_witness": 0}
    for (pp, combo, y, vecs) in accepted_w[:ck.n(30, 200)]:
        got = evaluate_witness(af, evaluate_mapping, pp, d, y)
        if got is not None and any(JR.near(got, v, 1e-5) for v in vecs):
            ws["constructor_agrees"] += 1
        else:
            ws["constructor_disagrees"] += 1
    if ws["constructor_agrees"] >= 3 and ws["constructor_disagrees"] == 0:
        for (pp, combo, y, _) in rejected_w[:ck.n(60, 400)]:
            ws["rejected_pairs_tried"] += 1
            got = evaluate_witness(af, evaluate_mapping, pp, d, y)
            if got is not None:
                ws["rejected_pairs_with_valid_witness"] += 1
                ck.failing_input({"params": pp, "combination": combo, "witness_mapping_yaml": y, "witness_energy_latency": list(got),
                                  "arch_yaml": JR.yaml_text(pp)[0], "workload_yaml": JR.yaml_text(pp)[1]},
                                 what="the join rejects a pair of pmappings whose fused loops above the shared tensor agree up to order, although the fused mapping built from them "
                                      f"is valid for the real model (energy, latency = {got})")
    dist["witness_stream"] = ws
    tr = dist.pop("table_rows")
    dist["table_rows"] = {"max": max(tr or [0]), "mean": sum(tr) / max(1, len(tr))}
    return ck.finish(
        rule="random chains of 2-3 matmuls (tight to infinite GlobalBuffer, optional tensor living across all Einsums, max_fused_loops None/1/2): the join of the real per-Einsum pmapping "
             "tables (ENERGY|LATENCY|RESOURCE_USAGE so that usage is part of the front) against combinations of one SINGLE pmapping per Einsum - all combinations when there are at most "
             "the cap, a random sample otherwise; every front row must be reproduced by its constituents with summed objectives, no valid combination may beat the front; "
             "non-trivial = at least two valid combinations",
        trusted=TRUSTED,
        extra={"input_distribution": dist,
               "source_fingerprint": [common.fingerprint("accelforge/mapper/FFM/_join_pmappings/join_pmappings.py", ["join_pmappings"]),
                                      common.fingerprint("accelforge/mapper/FFM/_join_pmappings/compatibility.py", ["Compatibility"]),
                                      common.fingerprint("accelforge/mapper/FFM/_join_pmappings/pmapping_group.py", ["PmappingGroup"]),
                                      common.fingerprint("accelforge/mapper/FFM/_join_pmappings/pmapping_dataframe.py", ["PmappingDataframe"])]})


def replay(ck, data):
    print("replay: the arch / workload YAML and the failing combination are in the replay file; re-run ./check C13 with the recorded seed")
    return 0
