(* C08 — property theorems only. *)
From AF Require Import Base.Tactics Lib.Pareto Lib.Front C08.Model C08.Proofs.
Open Scope Z_scope.

(* Symbol-by-symbol enumeration that prunes partial assignments on a criteria vector (keeping one of equals) emits, after
   Pareto filtering, exactly the objective vectors of the Pareto-filtered exhaustive enumeration - for any number of symbols,
   any (prefix-dependent) candidate sets, any validity predicate and any objectives - provided the criteria are sound: a
   partial assignment at least as good on the criteria can match every valid completion of the other with a valid
   completion at least as good on every objective (what the sign / monotonicity verdicts of C09 are used to establish). *)
Theorem C08_pruned_front_exact : forall next valid obj crit n,
  (forall j k p q, (j + k = n)%nat -> In p (exts next j []) -> In q (exts next j []) -> vle (crit q) (crit p) = true ->
     forall a, In a (exts next k p) -> valid a = true -> exists b, In b (exts next k q) /\ valid b = true /\ vle (obj b) (obj a) = true) ->
  forall f, In f (front (pruned_vectors next valid obj crit n)) <-> In f (front (exhaustive_vectors next valid obj n)).
Proof. exact pruned_front_exact. Qed.
Print Assumptions C08_pruned_front_exact.

(* nothing is invented: every emitted assignment is one of the exhaustive enumeration, whatever the criteria *)
Theorem C08_pruned_subset : forall next crit n a, In a (stages next crit n [[]]) -> In a (exts next n []).
Proof. intros next crit n a H. apply (stages_sub next crit n 0 [[]]); [intros p [<-|[]]; left; reflexivity|exact H]. Qed.
Print Assumptions C08_pruned_subset.

(* the soundness hypothesis is decidable on a concrete space: the boolean check implies it, so the front equality holds
   for every concrete instance on which the check evaluates to true *)
Theorem C08_checked_instance : forall next valid obj crit n, sound_b next valid obj crit n = true ->
  forall f, In f (front (pruned_vectors next valid obj crit n)) <-> In f (front (exhaustive_vectors next valid obj n)).
Proof. intros next valid obj crit n H. apply pruned_front_exact, sound_b_sound, H. Qed.
Print Assumptions C08_checked_instance.

(* unsound criteria do lose optimal points: one symbol with candidates 1, 2, objective (x, 3 - x), criteria ignoring the second objective *)
Theorem C08_unsound_criteria_refuted :
  let next := fun p : list Z => match p with [] => [1; 2] | _ => [] end in
  let obj := fun a : list Z => match a with [x] => [x; 3 - x] | _ => [] end in
  let crit := fun a : list Z => match a with [x] => [x] | _ => [] end in
  In [2; 1] (front (exhaustive_vectors next (fun _ => true) obj 1)) /\ ~ In [2; 1] (front (pruned_vectors next (fun _ => true) obj crit 1)).
Proof. vm_compute. split; [right; left; reflexivity|intros [H|[]]; discriminate]. Qed.
Print Assumptions C08_unsound_criteria_refuted.

(* where the soundness of the criteria comes from: if two prefixes of equal length allow the same suffixes, and objectives and
   validity depend on the prefix only through terms in which they are monotone (a prefix at least as good on those terms is at
   least as good, and at least as valid, under EVERY suffix), then those terms are sound criteria and the front is exact *)
Theorem C08_monotone_terms_exact : forall next valid obj crit n,
  (forall j k p q a, (j + k = n)%nat -> In p (exts next j []) -> In q (exts next j []) -> In a (exts next k p) ->
     exists c, a = p ++ c /\ In (q ++ c) (exts next k q)) ->
  (forall p q c, length p = length q -> vle (crit q) (crit p) = true ->
     vle (obj (q ++ c)) (obj (p ++ c)) = true /\ (valid (p ++ c) = true -> valid (q ++ c) = true)) ->
  forall f, In f (front (pruned_vectors next valid obj crit n)) <-> In f (front (exhaustive_vectors next valid obj n)).
Proof. intros next valid obj crit n H1 H2. apply pruned_front_exact. apply monotone_terms_sound; assumption. Qed.
Print Assumptions C08_monotone_terms_exact.
