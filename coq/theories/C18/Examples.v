From Coq Require Import ZArith QArith List Bool Lia.
Import ListNotations.
From AF Require Import Lib.MiniForge C06.Model Lib.MiniSpace C18.Proofs.
Open Scope Z_scope.
Definition sp0 : spec :=
  mkS [2; 4] [mkT [false; true] false; mkT [true; true] true]
      [mkL true 15 10 None None 2 [1#2; 1#2]%Q [2; 2]%Q; mkL true 8 3 (Some 8%Q) None 2 [1; 1#2]%Q [2; 1]%Q] false 4 (Some 1%Q) 0.
Definition tight : mspec := mkM sp0 [[true; true]; [true; false]] [[true; true]; [true; false]] [None; Some 16] [[16; 16]; [16; 8]].
Definition loose : mspec := mkM sp0 [[true; true]; [false; false]] [[true; true]; [true; true]] [None; Some 64] [[16; 16]; [16; 8]].
(* the hypotheses of C18_relaxations hold for a concrete pair, and the optimum indeed improves *)
Example ex_hyps : same_model tight loose /\ length (m_size tight) = length (m_size loose) /\ Forall2 size_le (m_size tight) (m_size loose).
Proof. repeat split. constructor; [exact I|]. constructor; [cbn; lia|constructor]. Qed.
Example ex_opts : exists a b, opt tight MEnergy = Some a /\ opt loose MEnergy = Some b /\ (b <= a)%Q.
Proof. eexists. eexists. split; [vm_compute; reflexivity|]. split; [vm_compute; reflexivity|]. vm_compute. discriminate. Qed.
