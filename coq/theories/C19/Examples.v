From Coq Require Import ZArith QArith List Bool.
Import ListNotations.
From AF Require Import Lib.MiniForge C06.Model Lib.MiniSpace C19.Proofs C19.Thr.
Open Scope Z_scope.
Definition sp0 : spec :=
  mkS [2; 4] [mkT [false; true] false; mkT [true; true] true]
      [mkL true 15 10 None None 2 [1#2; 1#2]%Q [2; 2]%Q; mkL true 8 3 (Some 8%Q) None 2 [1; 1#2]%Q [2; 1]%Q] false 4 (Some 1%Q) 0.
Definition ms0 : mspec := mkM sp0 [[true; true]; [false; false]] [[true; true]; [true; true]] [None; Some 16] [[16; 16]; [16; 8]].
Example ex : exists a b, opt ms0 MEnergy = Some a /\ opt (scale_mspec (15 # 2) ms0) MEnergy = Some b /\ (b == (15 # 2) * a)%Q.
Proof. eexists. eexists. split; [vm_compute; reflexivity|]. split; [vm_compute; reflexivity|]. vm_compute. reflexivity. Qed.
(* throughput x 4: the optimal latency exists and is divided by 4 *)
Example ex_thr : exists a b, opt ms0 MLatency = Some a /\ opt (thr_mspec 4 ms0) MLatency = Some b /\ (b == (1 # 4) * a)%Q.
Proof. eexists. eexists. split; [vm_compute; reflexivity|]. split; [vm_compute; reflexivity|]. vm_compute. reflexivity. Qed.
