From AF Require Import Base.Tactics Lib.Pareto Lib.Front.
Open Scope Z_scope.
(* min energy 3, min latency 4, min EDP 21 all occur on the front *)
Example ex : let F := front [[5; 5]; [3; 7]; [4; 6]; [6; 4]; [6; 6]] in
  (map c0 F, map c1 F, map (fun f => c0 f * c1 f) F) = ([5; 3; 4; 6], [5; 7; 6; 4], [25; 21; 24; 24]).
Proof. vm_compute. reflexivity. Qed.
