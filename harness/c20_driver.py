"""Subprocess driver for C20: one mapper run under a given scheduling / hashing / caching configuration; prints a canonical result."""
import json
import os
import sys

cfg = json.loads(sys.stdin.read())
sys.path.insert(0, os.environ["VERIF_REPO"])
import accelforge as af  # noqa: E402
from accelforge.mapper.FFM.main import map_workload_to_arch  # noqa: E402

af.set_n_parallel_jobs(cfg["workers"])
if cfg.get("jinja"):
    spec = af.Spec.from_yaml(af.examples.arches.simple, af.examples.workloads.basic.matmuls, jinja_parse_data=cfg["jinja"])
else:
    open("a.yaml", "w").write(cfg["arch"])
    open("w.yaml", "w").write(cfg["workload"])
    spec = af.Spec.from_yaml("a.yaml", "w.yaml")
mm = None
for name in cfg["metrics"]:
    mm = getattr(af.Metrics, name) if mm is None else mm | getattr(af.Metrics, name)
spec.mapper.metrics = mm
try:
    res = map_workload_to_arch(spec, einsum_names=cfg.get("einsum_names"), cache_dir=cfg.get("cache_dir"), print_progress=False)
    rows = []
    for i in range(len(res)):
        objs = {c: round(float(res.data[c].iloc[i]), 6) for c in res.columns if c.startswith("Total<SEP>") and "mapping" not in c}
        mp = res.data.iloc[i]["Total<SEP>mapping"]
        try:
            nodes = mp(_for_model=True).nodes if callable(mp) else mp.nodes
            struct = [n.compact_str() for n in nodes if hasattr(n, "compact_str")]
        except Exception as ex:  # noqa
            struct = [f"<{type(ex).__name__}>"]
        rows.append({"objectives": objs, "structure": struct})
    rows.sort(key=lambda r: json.dumps(r, sort_keys=True))
    out = {"rows": rows}
except Exception as ex:  # noqa
    out = {"error": f"{type(ex).__name__}: {str(ex)[:300]}"}
print("RESULT" + json.dumps(out, sort_keys=True))
