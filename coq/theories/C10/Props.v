(* C10 — property theorems only.  Each is closed by [exact] of a lemma of Proofs.v. *)
From AF Require Import Base.Tactics Base.SortedSet C10.Model C10.Proofs.
Open Scope Z_scope.

(* _factorize(n) is exactly the set of positive divisors of n, sorted, duplicate-free. *)
Theorem C10_factorize : forall n d, 0 < n -> (In d (factorize n) <-> 0 < d /\ (d | n)).
Proof. exact factorize_In. Qed.
Print Assumptions C10_factorize.

Theorem C10_factorize_sorted_nodup : forall n, inc (factorize n) /\ NoDup (factorize n).
Proof. intro n. split; [apply factorize_inc | apply inc_NoDup, factorize_inc]. Qed.
Print Assumptions C10_factorize_sorted_nodup.

(* perfect factorisation: candidates = multiples of inner that divide outer *)
Theorem C10_perfect : forall outer inner t, 0 < inner -> 0 < outer -> (inner | outer) ->
  (In t (factor_sizes outer false inner) <-> 0 < t /\ (inner | t) /\ (t | outer)).
Proof. exact perfect_exact. Qed.
Print Assumptions C10_perfect.

(* imperfect: for every tile count k achieved by some multiple m of inner (m <= outer),
   the smallest shape with k tiles — ceil(outer/k) — is a candidate, it does realise k
   tiles, and no smaller shape gives k tiles. *)
Theorem C10_imperfect_complete : forall outer inner m, 0 < inner -> 0 < outer ->
  0 < m <= outer -> (inner | m) ->
  let k := cdiv outer m in
  In (cdiv outer k) (factor_sizes outer true inner) /\
  cdiv outer (cdiv outer k) = k /\
  (forall t, 0 < t -> cdiv outer t = k -> cdiv outer k <= t).
Proof.
  intros outer inner m Hi Ho Hm Hd k. split; [apply imperfect_complete; assumption|].
  split; [apply cdiv_cdiv; lia|]. intros t Ht Hk. apply smallest_shape; assumption.
Qed.
Print Assumptions C10_imperfect_complete.

Theorem C10_imperfect_bounded : forall outer inner t, 0 < inner -> 0 < outer ->
  In t (factor_sizes outer true inner) -> 1 <= t <= outer.
Proof. exact imperfect_bounded. Qed.
Print Assumptions C10_imperfect_bounded.

(* the counter equals the number of distinct factorisation chains *)
Theorem C10_count_enumeration : forall n p, 0 < n ->
  count_fact n p = Z.of_nat (length (chains n p)) /\
  NoDup (chains n p) /\
  (forall c, In c (chains n p) <-> valid_chain n p c).
Proof.
  intros n p Hn. split; [apply count_fact_chains|]. split; [apply chains_NoDup|].
  intro c. apply chains_valid. assumption.
Qed.
Print Assumptions C10_count_enumeration.

(* all-perfect patterns: chains are the tuples of positive factors whose product divides n *)
Theorem C10_count_perfect_char : forall L n c, 0 < n ->
  (valid_chain n (repeat false (S L)) c <->
   length c = L /\ Forall (fun x => 0 < x) c /\ (zprod c | n)).
Proof. exact perfect_chain_char. Qed.
Print Assumptions C10_count_perfect_char.
