(* C13 model — a concrete instance of the join algebra (Lib/Join.v): rows carry (energy, latency, reservation);
   objectives are summed (they are non-negative: the code raises on negative energy / latency, the model clips at 0),
   the reservation of the joined row is the larger of the two, a row fits when the reservation is within the capacity. *)
From AF Require Import Base.Tactics Lib.Pareto Lib.Front Lib.Join.
Open Scope Z_scope.

Definition c0 (v : vec) := nth 0 v 0.
Definition c1 (v : vec) := nth 1 v 0.
Definition c2 (v : vec) := nth 2 v 0.
Definition comb3 (a b : vec) : vec := [Z.max (c0 a) 0 + Z.max (c0 b) 0; Z.max (c1 a) 0 + Z.max (c1 b) 0; Z.max (c2 a) (c2 b)].
Definition fits3 (cap : Z) (v : vec) : bool := c2 v <=? cap.
Definition oproj3 (v : vec) : vec := [c0 v; c1 v].

Lemma vle_nth a : forall b i, vle a b = true -> nth i a 0 <= nth i b 0.
Proof.
  induction a as [|x a IH]; intros [|y b] i H; cbn in H; try discriminate; [destruct i; cbn; lia|].
  apply andb_true_iff in H. destruct H as [H1 H2]. destruct i; cbn; [lia|apply IH, H2].
Qed.
Lemma comb3_mono a a' b b' : vle a a' = true -> vle b b' = true -> vle (comb3 a b) (comb3 a' b') = true.
Proof.
  intros Ha Hb. pose proof (vle_nth _ _ 0%nat Ha). pose proof (vle_nth _ _ 1%nat Ha). pose proof (vle_nth _ _ 2%nat Ha).
  pose proof (vle_nth _ _ 0%nat Hb). pose proof (vle_nth _ _ 1%nat Hb). pose proof (vle_nth _ _ 2%nat Hb).
  unfold comb3, c0, c1, c2. cbn [vle]. rewrite !andb_true_iff. repeat split; lia.
Qed.
Lemma fits3_down cap a b : vle a b = true -> fits3 cap b = true -> fits3 cap a = true.
Proof. intros H F. pose proof (vle_nth _ _ 2%nat H). unfold fits3, c2 in *. lia. Qed.
Lemma oproj3_left a b : vle (oproj3 a) (oproj3 (comb3 a b)) = true.
Proof. unfold oproj3, comb3, c0, c1. cbn [nth vle]. rewrite !andb_true_iff. repeat split; lia. Qed.
Lemma oproj3_right a b : vle (oproj3 b) (oproj3 (comb3 a b)) = true.
Proof. unfold oproj3, comb3, c0, c1. cbn [nth vle]. rewrite !andb_true_iff. repeat split; lia. Qed.
