"""C26 — component totals count every instance of the component."""
import json

import common
import gen_arch

TRUSTED = [
    "modelled: iterate_hierarchically (parent list threading, Fork copies) + the instance count of Spec.calculate_component_costs; Array/Network nodes outside the model",
    "hwcomponents is bypassed: every component has explicit area / leak_power / action energy / throughput",
]


def py_instances(t, x):
    """oracle: own fanout x fanouts of the non-compute leaves before x on x's path (forks not containing x pruned)"""
    def contains(nodes):
        return any((n[0] == "leaf" and n[2] == x) or (n[0] == "hier" and contains(n[2])) for n in nodes)

    def pleaves(nodes):
        out = []
        for n in nodes:
            if n[0] == "leaf":
                out.append(n)
            elif not (n[1] and not contains(n[2])):
                out += pleaves(n[2])
        return out
    prod = 1
    for l in pleaves(t):
        if l[2] == x:
            return prod * l[3]
        if l[1] != "KComp":
            prod *= l[3]
    raise KeyError(x)


def impl_totals(af, t, rng_vals):
    arch = gen_arch.to_arch(t, af, rng_vals)
    spec = af["Spec"](arch=arch, workload=gen_arch.simple_workload(af))
    s2 = spec.calculate_component_costs()
    return ({int(k[1:]): v for k, v in s2.arch.per_component_total_area.items()},
            {int(k[1:]): v for k, v in s2.arch.per_component_total_leak_power.items()},
            s2.arch.total_area, s2.arch.total_leak_power)


def run(ck):
    af = gen_arch.load()
    ck.prove()
    rng = ck.rng("trees")
    exprs, keys = [], []
    for _ in range(ck.n(150, 4000)):
        t = gen_arch.random_tree(rng)
        lv = gen_arch.leaves(t)
        vals = {l[2]: dict(area=rng.randint(0, 9), area_scale=1, leak=rng.randint(0, 5), leak_scale=1, npar=1, energy_scale=1, thr_scale=1,
                           actions={"read": (1, 1, 1, 1), "write": (1, 1, 1, 1), "compute": (1, 1, 1, 1)}) for l in lv}
        try:
            area, leak, tot_a, tot_l = impl_totals(af, t, vals)
        except Exception as e:  # noqa
            ck.failing_input({"tree": t, "why": f"exception {type(e).__name__}: {e}"}, what="calculate_component_costs raised")
            continue
        comps = [l for l in lv if l[1] != "KCont"]
        bad = None
        for l in comps:
            inst = py_instances(t, l[2])
            if area.get(l[2]) != vals[l[2]]["area"] * inst or leak.get(l[2]) != vals[l[2]]["leak"] * inst:
                bad = {"component": l[2], "fanout": l[3], "instances_expected": inst, "area_per_instance": vals[l[2]]["area"],
                       "total_area": area.get(l[2]), "leak_per_instance": vals[l[2]]["leak"], "total_leak": leak.get(l[2])}
        if bad is None and (tot_a != sum(area.values()) or tot_l != sum(leak.values())):
            bad = {"total_area": tot_a, "sum": sum(area.values())}
        multi = sum(1 for l in lv if l[3] > 1)
        ck.case(json.dumps(t), nontrivial=multi >= 2, sample={"tree": t, "total_area": area})
        if bad:
            ck.failing_input({"tree": t, **bad}, what="component total != per-instance value x number of instances")
        exprs.append(f"(map (fun lg => (ln (fst lg), snd lg)) (impl_totals {gen_arch.to_coq(t)}))")
        keys.append((t, {k: (v // vals[k]["area"] if vals[k]["area"] else None) for k, v in area.items()}))
    B = 20
    res = [v for b in common.run_coq_eval("C26", ["AF.Lib.ArchTree", "AF.C26.Model"],
                                          ["[" + "; ".join(exprs[k:k + B]) + "]" for k in range(0, len(exprs), B)], chunk=10) for v in b]
    mism = []
    for (t, inst), m in zip(keys, res):
        md = dict(m)
        for k, v in inst.items():
            if v is not None and md.get(k) != v:
                mism.append({"tree": t, "component": k, "impl_instances": v, "model_instances": md.get(k)})
    ck.count("model_vs_impl_compared", len(keys))
    ck.count("model_vs_impl_mismatches", len(mism))
    if mism and not ck.violations:
        ck.unexplained("broken-correspondence", {"mismatches": mism[:3]}, what="model instance counts != implementation")
    return ck.finish(
        rule="random trees with fanouts 1-5 on memories, tolls, containers and computes at any position (forks, nested hierarchies), "
             "random integer per-instance area and leak; per_component_total_area / _leak_power / total_area / total_leak_power checked; "
             "non-trivial = at least two nodes with fanout > 1",
        trusted=TRUSTED,
        extra={"source_fingerprint": [common.fingerprint("accelforge/frontend/spec.py", ["Spec"]),
                                      common.fingerprint("accelforge/frontend/arch/structure.py", ["ArchNode"])]})


def replay(ck, data):
    af = gen_arch.load()
    def tup(n):
        return ("leaf", n[1], n[2], n[3]) if n[0] == "leaf" else ("hier", n[1], [tup(x) for x in n[2]])
    t = [tup(n) for n in data["tree"]]
    vals = {l[2]: dict(area=1, area_scale=1, leak=1, leak_scale=1, npar=1, energy_scale=1, thr_scale=1,
                       actions={"read": (1, 1, 1, 1), "write": (1, 1, 1, 1), "compute": (1, 1, 1, 1)}) for l in gen_arch.leaves(t)}
    area, leak, _, _ = impl_totals(af, t, vals)
    for l in gen_arch.leaves(t):
        if l[1] != "KCont" and area.get(l[2]) != py_instances(t, l[2]):
            print("VIOLATION property=C26 replay=<replayed>")
            return 1
    print("replay: property holds on this input now")
    return 0
