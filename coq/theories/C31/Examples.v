From Coq Require Import ZArith List Bool.
Import ListNotations.
From AF Require Import Lib.MiniForge C31.Model.
Open Scope Z_scope.
(* output C[m,n] of a 4x6x2 matmul: MainMemory; for m(2); Toll(up only); for k(3); GLB; for n,m,k: the Toll charges the 16 written-back values, not the 8 fetched ones *)
Definition ex : list titem := [TBase (IHold 0 true 8); TBase (ILoop 2 true); TToll 9 true false; TBase (ILoop 2 false); TBase (IHold 1 true 4);
                               TBase (ILoop 2 true); TBase (ILoop 2 true); TBase (ILoop 3 false)].
Example ex_ok : tolls_below_memory ex false. Proof. cbn. auto. Qed.
Example ex_toll : tnet (snd (tmodel true true ex false)) 9 = (16, 0). Proof. vm_compute. reflexivity. Qed.
Example ex_main : tnet (snd (fst (tmodel true true ex false))) 0 = (8, 16). Proof. vm_compute. reflexivity. Qed.
