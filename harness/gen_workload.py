"""Random workloads shared by C22 / C29: Python repr <-> accelforge Workload <-> Coq literal."""


def random_workload(rng, max_einsums=4, n_tensors=8):
    """list of einsums; einsum = list of (tensor, is_out, persistent); element-wise 2-D tensors"""
    n = rng.randint(1, max_einsums)
    pers = {t: rng.random() < 0.25 for t in range(n_tensors)}  # persistence must be consistent across Einsums
    w, produced, fresh = [], [], list(range(n_tensors))
    rng.shuffle(fresh)
    for _ in range(n):
        if not fresh:
            break
        out = fresh.pop()
        k = rng.randint(1, 3)
        cands = produced + fresh[: 2]
        ins = []
        for _ in range(k):
            c = [t for t in cands if t not in ins and t != out]
            if not c:
                break
            t = rng.choice(c) if not (produced and rng.random() < 0.5) else rng.choice([p for p in produced if p not in ins] or c)
            ins.append(t)
            if t in fresh:
                fresh.remove(t)
        if not ins:
            continue
        e = [(t, False, pers[t]) for t in ins] + [(out, True, pers[out])]
        w.append(e)
        produced.append(out)
    return w or [[(0, False, False), (1, True, False)]]


def tname(t):
    return f"T{t}"


def to_workload(w, af, renames=None, extra=None):
    einsums = []
    for i, e in enumerate(w):
        d = {"name": f"E{i}", "tensor_accesses": [
            {"name": tname(t), "projection": ["m", "n"], "output": bool(o), "persistent": bool(p)} for t, o, p in e]}
        if renames and renames.get(i) is not None:
            d["renames"] = renames[i]
        einsums.append(d)
    kw = dict(rank_sizes={"M": 2, "N": 2}, bits_per_value={"All": 8}, einsums=einsums)
    if extra:
        kw.update(extra)
    return af["Workload"](**kw)


def to_coq(w):
    def acc(a):
        return f"(mkacc {a[0]}%nat {'true' if a[1] else 'false'} {'true' if a[2] else 'false'})"
    return "[" + "; ".join("[" + "; ".join(acc(a) for a in e) + "]" for e in w) + "]"
