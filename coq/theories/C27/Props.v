(* C27 — property theorems only. *)
From Coq Require Import QArith List Bool.
Import ListNotations.
From AF Require Import C27.Model C27.Proofs.

(* After any history of calculate_component_costs calls (any flag sets), every quantity that some
   call asked for equals base x scale factors exactly once; the others are untouched.
   In particular a repeated call changes nothing. *)
Theorem C27_history_value : forall hist c,
  run hist (quantities c) =
  map (fun q => if existsb (fun fl => fl (qk q)) hist then mkq (qk q) (cur q * factor q) (factor q) true else q)
      (quantities c).
Proof. exact history_value. Qed.
Print Assumptions C27_history_value.

Theorem C27_idempotent : forall fl hist qs,
  map (step_q fl) (map (step_q fl) (run hist qs)) = map (step_q fl) (run hist qs).
Proof. exact recompute_idempotent. Qed.
Print Assumptions C27_idempotent.

(* the unrepaired behaviour: area 3, area_scale 2, 2 parallel instances -> 12, 48, 192 *)
Theorem C27_unrepaired_refuted :
  let c := mkc 3 2 1 1 2 1 1 [] in
  let all := fun _ : qkind => true in
  map (fun h => qout (cur (hd (mkq QArea 0 0 false) (run_old h (quantities c))))) [[all]; [all; all]; [all; all; all]]
    = [(12, 1); (48, 1); (192, 1)]%Z /\
  map (fun h => qout (cur (hd (mkq QArea 0 0 false) (run h (quantities c))))) [[all]; [all; all]; [all; all; all]]
    = [(12, 1); (12, 1); (12, 1)]%Z.
Proof. vm_compute. split; reflexivity. Qed.
Print Assumptions C27_unrepaired_refuted.
