#!/bin/bash
# Confirms "the existing tests still pass" for the kept seeds: applies the seed patches in groups (greedy: a patch that does not
# apply on top of the group goes to the next group) to a scratch worktree of /repo, runs the full pinned suite per group and
# compares with BASELINE.json's stable_pass list.  Writes /verif/seeded/TESTS.md.  usage: seed_tests.sh [worktree]
WT=${1:-/tmp/wt/seedtests}
OUT=/verif/build/seedtests; mkdir -p $OUT
git -C /repo worktree remove --force $WT 2>/dev/null
git -C /repo worktree add -q --detach $WT HEAD || exit 2
remaining=$(ls -d /verif/seeded/C*-* | sort)
g=0
echo "# Test-suite confirmation of the kept seeds" > /verif/seeded/TESTS.md
echo "" >> /verif/seeded/TESTS.md
echo "Patches are applied in groups on a scratch worktree of /repo ($(git -C /repo rev-parse --short HEAD)); the full pinned suite (BASELINE.json command, hook guard off) is run per group and compared with the 917 stable passes." >> /verif/seeded/TESTS.md
while [ -n "$remaining" ] && [ $g -lt 8 ]; do
  g=$((g+1)); applied=""; next=""
  git -C $WT checkout -q -- . 
  for d in $remaining; do
    if git -C $WT apply --check $d/patch.diff 2>/dev/null; then git -C $WT apply $d/patch.diff; applied="$applied $(basename $d)"; else next="$next $d"; fi
  done
  ( cd $WT && env -u ACCELFORGE_VERIF /venv/bin/python -m pytest -ra -q -p no:cacheprovider --timeout=900 --continue-on-collection-errors --junitxml=$OUT/group$g.xml > $OUT/group$g.log 2>&1 )
  res=$(/venv/bin/python - $OUT/group$g.xml <<'PY'
import json, sys, xml.etree.ElementTree as ET
base = set(json.load(open('/root/.vp/BASELINE.json'))['stable_pass'])
passed = set()
for tc in ET.parse(sys.argv[1]).getroot().iter('testcase'):
    if not any(ch.tag in ('failure', 'error', 'skipped') for ch in tc):
        passed.add(f"{tc.get('classname')}::{tc.get('name')}")
missing = sorted(base - passed)
print(f"stable_pass={len(base)} passed_now={len(passed)} missing={len(missing)} {' '.join(missing[:6])}")
PY
)
  echo "" >> /verif/seeded/TESTS.md
  echo "## group $g" >> /verif/seeded/TESTS.md
  echo "seeds:$applied" >> /verif/seeded/TESTS.md
  echo "" >> /verif/seeded/TESTS.md
  echo "result: $res" >> /verif/seeded/TESTS.md
  remaining=$next
done
git -C $WT checkout -q -- .
git -C /repo worktree remove --force $WT
echo "done groups=$g"
