(* C22 model — _setexpressions.py (InvertibleSet algebra, eval_set_expression_dict with the
   Other key) and the named sets built by workload.py:Einsum._eval_expressions.
   Tensors are numbers; a set is a list (membership semantics). *)
From Coq Require Import List Arith Bool Lia.
Import ListNotations.

Fixpoint mem (x : nat) (l : list nat) : bool :=
  match l with [] => false | y :: t => Nat.eqb x y || mem x t end.

(* ---------------------------------------------------------------- InvertibleSet *)
Record iset := mkset { inst : list nat; full : list nat }.

Definition s_and (a b : list nat) := filter (fun x => mem x b) a.
Definition s_sub (a b : list nat) := filter (fun x => negb (mem x b)) a.
Definition s_or (a b : list nat) := a ++ s_sub b a.
Definition s_xor (a b : list nat) := s_sub a b ++ s_sub b a.

(* every operation returns to_my_space(...) of the LEFT operand *)
Definition i_inv (s : iset) : iset := mkset (s_sub (full s) (inst s)) (full s).
Definition i_and (a b : iset) : iset := mkset (s_and (inst a) (inst b)) (full a).
Definition i_or (a b : iset) : iset := mkset (s_or (inst a) (inst b)) (full a).
Definition i_sub (a b : iset) : iset := mkset (s_sub (inst a) (inst b)) (full a).
Definition i_xor (a b : iset) : iset := mkset (s_xor (inst a) (inst b)) (full a).

(* ---------------------------------------------------------------- workloads and named sets *)
Record access := mkacc { tname : nat; is_out : bool; persist : bool }.
Definition einsum := list access.
Definition workload := list einsum.

Definition inputs (e : einsum) : list nat := map tname (filter (fun a => negb (is_out a)) e).
Definition outputs (e : einsum) : list nat := map tname (filter is_out e).
Definition all_of (e : einsum) : list nat := s_or (inputs e) (outputs e).

Definition as_input (w : workload) (t : nat) : list nat :=          (* indices of Einsums reading t *)
  map fst (filter (fun ie => mem t (inputs (snd ie))) (combine (seq 0 (length w)) w)).
Definition as_output (w : workload) (t : nat) : list nat :=
  map fst (filter (fun ie => mem t (outputs (snd ie))) (combine (seq 0 (length w)) w)).

Inductive named := NAll | NInputs | NOutputs | NIntermediates | NShared | NPersistent | NNothing | NTensor (t : nat) | NOther.

Definition named_inst (w : workload) (e : einsum) (n : named) : list nat :=
  let al := all_of e in
  match n with
  | NAll | NOther => al
  | NInputs => inputs e
  | NOutputs => outputs e
  | NIntermediates => filter (fun t => negb (Nat.eqb (length (as_input w t)) 0) && negb (Nat.eqb (length (as_output w t)) 0)) al
  | NShared => filter (fun t => Nat.ltb 1 (length (s_or (as_input w t) (as_output w t)))) al
  | NPersistent => s_and al (map tname (filter persist e))
  | NNothing => []
  | NTensor t => if mem t al then [t] else []
  end.

(* ---------------------------------------------------------------- expressions *)
Inductive sexp := SName (n : named) | SInv (e : sexp) | SAnd (a b : sexp) | SOr (a b : sexp) | SSub (a b : sexp) | SXor (a b : sexp).

(* env gives every name its InvertibleSet; "Other" is a mutable entry of the symbol table *)
Fixpoint impl_eval (env : named -> iset) (e : sexp) : iset :=
  match e with
  | SName n => env n
  | SInv a => i_inv (impl_eval env a)
  | SAnd a b => i_and (impl_eval env a) (impl_eval env b)
  | SOr a b => i_or (impl_eval env a) (impl_eval env b)
  | SSub a b => i_sub (impl_eval env a) (impl_eval env b)
  | SXor a b => i_xor (impl_eval env a) (impl_eval env b)
  end.

Definition env_of (w : workload) (e : einsum) (other : list nat) : named -> iset :=
  fun n => match n with NOther => mkset other (all_of e) | _ => mkset (named_inst w e n) (all_of e) end.

(* reference: set algebra as boolean membership, complement within All *)
Fixpoint denote (al : list nat) (base : named -> nat -> bool) (e : sexp) (x : nat) : bool :=
  match e with
  | SName n => base n x
  | SInv a => mem x al && negb (denote al base a x)
  | SAnd a b => denote al base a x && denote al base b x
  | SOr a b => denote al base a x || denote al base b x
  | SSub a b => denote al base a x && negb (denote al base b x)
  | SXor a b => xorb (denote al base a x) (denote al base b x)
  end.

(* ---------------------------------------------------------------- dictionaries with an Other key *)
Fixpoint mentions_other (e : sexp) : bool :=
  match e with
  | SName NOther => true
  | SName _ => false
  | SInv a => mentions_other a
  | SAnd a b | SOr a b | SSub a b | SXor a b => mentions_other a || mentions_other b
  end.

Fixpoint disjoint_all (parts : list (list nat)) : bool :=
  match parts with
  | [] => true
  | p :: t => forallb (fun q => match s_and p q with [] => true | _ => false end) t && disjoint_all t
  end.

(* keys without Other first (in order), then the key that mentions Other; Other -= every evaluated key *)
Definition dict_eval (w : workload) (e : einsum) (keys : list sexp) : option (list (sexp * list nat)) :=
  let others := filter mentions_other keys in
  if Nat.ltb 1 (length others) then None
  else
    let order := filter (fun k => negb (mentions_other k)) keys ++ others in
    let step := fun (st : list (sexp * list nat) * list nat) k =>
                  let ins := inst (impl_eval (env_of w e (snd st)) k) in
                  (fst st ++ [(k, ins)], s_sub (snd st) ins) in
    let res := fst (fold_left step order ([], all_of e)) in
    if disjoint_all (map snd res) then Some res else None.
