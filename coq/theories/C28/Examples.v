From Coq Require Import ZArith List Bool.
Import ListNotations.
From AF Require Import C28.Model.
Open Scope Z_scope.
(* tokens: 7 = Matmul0, 8 = Matmul1, 9 = MainMemory, 10 = MAC, 11 = T0, 12 = T1, 13 = read, 14 = compute *)
Definition ex : table :=
  [([7%nat; 0%nat; 9%nat; 11%nat; 13%nat], 5); ([7%nat; 0%nat; 10%nat; 5%nat; 14%nat], 2); ([7%nat; 0%nat; 9%nat; 4%nat], 1); ([8%nat; 0%nat; 9%nat; 12%nat; 13%nat], 7); ([8%nat; 0%nat; 10%nat; 5%nat; 14%nat], 3);
   ([7%nat; 2%nat; 9%nat], 4); ([7%nat; 2%nat; 10%nat], 6); ([8%nat; 2%nat; 9%nat], 9); ([8%nat; 2%nat; 10%nat], 1); ([6%nat; 0%nat], 18); ([6%nat; 2%nat], 15);
   ([3%nat; 9%nat; 17%nat; 15%nat], 2); ([3%nat; 9%nat; 17%nat; 16%nat], 5)].
Definition es := [(7, [11; 12]); (8, [12])]%nat.
Example ex_energy : option_map total (energy [false; false; false; false] es ex) = Some 18. Proof. vm_compute. reflexivity. Qed.
Example ex_energy_pc : energy [false; true; false; false] es ex = Some [([9%nat], 13); ([10%nat], 5)]. Proof. vm_compute. reflexivity. Qed.
Example ex_latency : latency false false es ex = Some [([], 15)]. Proof. vm_compute. reflexivity. Qed.
Example ex_usage : resource_usage ex = Some [([9%nat], 5)]. Proof. vm_compute. reflexivity. Qed.
