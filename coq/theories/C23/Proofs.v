(* C23 proofs: printing a structured Einsum and parsing it back. *)
From Coq Require Import List Arith Bool Lia.
Import ListNotations.
Require Import AF.C23.Model.
Local Arguments Nat.eqb : simpl never.
Local Arguments Nat.leb : simpl never.

(* ---------- structured Einsums and their concise rendering (whitespace-free) ---------- *)
Inductive entry := Short (v : list nat) | Keyed (k e : list nat).
Definition tensor := (list nat * list entry)%type.
(* every input carries the separator text printed before it; e_tail is printed after the last input *)
Record einsum := mkE { e_out : tensor; e_ins : list (list nat * tensor); e_tail : list nat }.

Definition pr_entry (en : entry) : list nat := match en with Short v => v | Keyed k e => k ++ COLON :: e end.
Fixpoint join (sep : nat) (l : list (list nat)) : list nat :=
  match l with [] => [] | x :: t => match t with [] => x | _ => x ++ sep :: join sep t end end.
Definition pr_proj (es : list entry) := join COMMA (map pr_entry es).
Definition pr_tensor (t : tensor) := fst t ++ LBR :: pr_proj (snd t) ++ [RBR].
Definition pr_rhs (ins : list (list nat * tensor)) (tail : list nat) :=
  concat (map (fun st => fst st ++ pr_tensor (snd st)) ins) ++ tail.
Definition pr_einsum (e : einsum) := pr_tensor (e_out e) ++ EQ :: pr_rhs (e_ins e) (e_tail e).

(* the verbose form the concise string stands for *)
Definition norm_entry (en : entry) := match en with Short v => (map to_upper v, v) | Keyed k e => (k, e) end.
Definition norm_tensor (out : bool) (t : tensor) := mkta (fst t) (map norm_entry (snd t)) out.
Definition norm (e : einsum) :=
  (fst (e_out e), map (fun st => norm_tensor false (snd st)) (e_ins e) ++ [norm_tensor true (e_out e)]).

(* ---------- well-formedness (decidable) ---------- *)
Definition ident_ok (n : list nat) : bool :=
  match n with c :: t => (is_alpha c || Nat.eqb c 95) && forallb is_word t | [] => false end.
Definition expr_char_ok (c : nat) : bool :=
  negb (Nat.eqb c COMMA) && negb (Nat.eqb c COLON) && negb (Nat.eqb c RBR) && negb (Nat.eqb c EQ).
Definition entry_ok (en : entry) : bool :=
  match en with
  | Short v => match v with
               | c :: t => is_lower c && forallb is_word t && negb (existsb (str_eqb (map to_upper v)) OPERATORS)
               | [] => false end
  | Keyed k e => isl_ident k && match k with c :: _ => negb (is_lower c) | [] => false end && forallb expr_char_ok e
  end.
Definition key_of (en : entry) := fst (norm_entry en).
Fixpoint keys_fresh (seen : list (list nat)) (es : list entry) : bool :=
  match es with
  | [] => true
  | en :: t => negb (existsb (str_eqb (key_of en)) seen) && keys_fresh (seen ++ [key_of en]) t
  end.
Definition tensor_ok (t : tensor) : bool :=
  ident_ok (fst t) && match snd t with [] => false | _ => true end
  && forallb entry_ok (snd t) && keys_fresh [] (snd t).
Definition sep_ok (s : list nat) : bool := forallb (fun c => negb (is_word c) && negb (Nat.eqb c EQ)) s.
Definition einsum_ok (e : einsum) : bool :=
  tensor_ok (e_out e) && match e_ins e with [] => false | _ => true end
  && forallb (fun st => sep_ok (fst st) && tensor_ok (snd st)) (e_ins e) && sep_ok (e_tail e).

(* ---------- character classes ---------- *)
Ltac cc :=
  unfold expr_char_ok, is_word, is_alpha, is_lower, is_upper, is_digit, to_upper, is_ws, LBR, RBR, EQ, COMMA, COLON in *;
  repeat match goal with
         | H : _ && _ = true |- _ => apply andb_true_iff in H; destruct H
         | H : _ || _ = true |- _ => apply orb_true_iff in H
         | H : negb _ = true |- _ => apply negb_true_iff in H
         | H : Nat.leb _ _ = true |- _ => apply Nat.leb_le in H
         | H : Nat.eqb _ _ = true |- _ => apply Nat.eqb_eq in H
         | H : Nat.eqb _ _ = false |- _ => apply Nat.eqb_neq in H
         end.

Definition noc (c : nat) (s : list nat) : bool := forallb (fun x => negb (Nat.eqb x c)) s.

Lemma noc_app c a b : noc c (a ++ b) = noc c a && noc c b.
Proof. apply forallb_app. Qed.

Lemma word_noc c s : is_word c = false -> forallb is_word s = true -> noc c s = true.
Proof.
  intros Hc H. unfold noc. rewrite forallb_forall in *. intros x Hx. specialize (H x Hx).
  apply negb_true_iff, Nat.eqb_neq. intro; subst. congruence.
Qed.

Lemma ident_word n : ident_ok n = true -> forallb is_word n = true.
Proof.
  destruct n as [|c t]; [discriminate|]. simpl. intro H. apply andb_true_iff in H. destruct H as [H1 H2].
  rewrite H2, andb_true_r. unfold is_word. apply orb_true_iff in H1. destruct H1 as [H1|H1]; rewrite H1; [reflexivity|apply orb_true_r].
Qed.

Lemma is_word_upper c : is_word c = true -> is_word (to_upper c) = true.
Proof.
  intro H. unfold to_upper. destruct (is_lower c) eqn:L; [|exact H].
  unfold is_word, is_alpha, is_upper. unfold is_lower in L. apply andb_true_iff in L. destruct L as [L1 L2].
  apply Nat.leb_le in L1, L2.
  replace (Nat.leb 65 (c - 32) && Nat.leb (c - 32) 90) with true; [rewrite orb_true_r; reflexivity|].
  symmetry. apply andb_true_iff. split; apply Nat.leb_le; lia.
Qed.

Lemma lower_to_upper_alpha c : is_lower c = true -> is_alpha (to_upper c) = true.
Proof.
  intro L. unfold to_upper. rewrite L. unfold is_alpha, is_upper. unfold is_lower in L.
  apply andb_true_iff in L. destruct L as [L1 L2]. apply Nat.leb_le in L1, L2.
  replace (Nat.leb 65 (c - 32) && Nat.leb (c - 32) 90) with true; [apply orb_true_r|].
  symmetry. apply andb_true_iff. split; apply Nat.leb_le; lia.
Qed.

Lemma lower_not_upper c : is_lower c = true -> is_upper c = false.
Proof.
  unfold is_lower, is_upper. intro L. apply andb_true_iff in L. destruct L as [L1 L2]. apply Nat.leb_le in L1, L2.
  apply andb_false_iff. right. apply Nat.leb_gt. lia.
Qed.

Lemma lower_word c : is_lower c = true -> is_word c = true.
Proof. intro L. unfold is_word, is_alpha. rewrite L. reflexivity. Qed.

(* ---------- span / match_tensor ---------- *)
Lemma span_app p a c r : forallb p a = true -> p c = false -> span p (a ++ c :: r) = (a, c :: r).
Proof.
  induction a as [|x a IH]; simpl; intros Ha Hc.
  - rewrite Hc. reflexivity.
  - apply andb_true_iff in Ha. destruct Ha as [Hx Ha]. rewrite Hx, (IH Ha Hc). reflexivity.
Qed.

Lemma span_all p a : forallb p a = true -> span p a = (a, []).
Proof.
  induction a as [|x a IH]; simpl; intro Ha; [reflexivity|].
  apply andb_true_iff in Ha. destruct Ha as [Hx Ha]. rewrite Hx, (IH Ha). reflexivity.
Qed.

Lemma span_split p s a b : span p s = (a, b) -> s = a ++ b.
Proof.
  revert a b. induction s as [|c s IH]; simpl; intros a b H.
  - inversion H. reflexivity.
  - destruct (p c).
    + destruct (span p s) as [a' b'] eqn:E. inversion H; subst. simpl. f_equal. apply IH. reflexivity.
    + inversion H. reflexivity.
Qed.

Lemma match_tensor_ok n p rest :
  ident_ok n = true -> noc RBR p = true ->
  match_tensor (n ++ LBR :: p ++ RBR :: rest) = Some (n, p, rest).
Proof.
  intros Hn Hp. pose proof (ident_word _ Hn) as Hw.
  destruct n as [|c t]; [discriminate|]. simpl in Hn. apply andb_true_iff in Hn. destruct Hn as [Hc Ht].
  unfold match_tensor. cbn [app]. rewrite Hc.
  change (c :: t ++ LBR :: p ++ RBR :: rest) with ((c :: t) ++ LBR :: p ++ RBR :: rest).
  rewrite (span_app is_word (c :: t) LBR (p ++ RBR :: rest) Hw eq_refl).
  rewrite Nat.eqb_refl.
  rewrite (span_app (fun x => negb (Nat.eqb x RBR)) p RBR rest Hp).
  - reflexivity.
  - rewrite Nat.eqb_refl. reflexivity.
Qed.

Lemma match_tensor_nonword c s : is_word c = false -> match_tensor (c :: s) = None.
Proof.
  intro H. unfold match_tensor. unfold is_word in H.
  apply orb_false_iff in H. destruct H as [H H95]. apply orb_false_iff in H. destruct H as [Ha _].
  rewrite Ha, H95. reflexivity.
Qed.

Lemma match_tensor_shorter s n p rest : match_tensor s = Some (n, p, rest) -> length rest < length s.
Proof.
  unfold match_tensor. destruct s as [|c s]; [discriminate|].
  destruct (is_alpha c || Nat.eqb c 95); [|discriminate].
  destruct (span is_word (c :: s)) as [nm r1] eqn:E1. apply span_split in E1.
  destruct r1 as [|b r2]; [discriminate|]. destruct (Nat.eqb b LBR); [|discriminate].
  destruct (span (fun x => negb (Nat.eqb x RBR)) r2) as [pp r3] eqn:E2. apply span_split in E2.
  destruct r3 as [|x r4]; [discriminate|]. intro H. inversion H; subst.
  rewrite E1. rewrite !app_length. simpl. rewrite app_length. simpl. lia.
Qed.

(* ---------- findall does not depend on fuel once it covers the string ---------- *)
Lemma findall_fuel : forall fuel s, length s <= fuel -> findall fuel s = findall (length s) s.
Proof.
  intro fuel. induction fuel as [fuel IH] using lt_wf_ind. intros s Hl.
  destruct s as [|c t]; [destruct fuel; reflexivity|].
  destruct fuel as [|f]; [simpl in Hl; lia|].
  cbn [findall length]. destruct (match_tensor (c :: t)) as [[[n p] rest]|] eqn:M.
  - pose proof (match_tensor_shorter _ _ _ _ M) as Hs. simpl in Hs, Hl.
    rewrite (IH f) by lia. rewrite (IH (length t)) by lia. reflexivity.
  - simpl in Hl. rewrite (IH f) by lia. reflexivity.
Qed.

Definition findall' (s : list nat) := findall (length s) s.

Lemma findall'_nil : findall' [] = [].
Proof. reflexivity. Qed.

Lemma findall'_cons c t :
  findall' (c :: t) = match match_tensor (c :: t) with
                      | Some (n, p, rest) => (n, p) :: findall' rest
                      | None => findall' t end.
Proof.
  unfold findall'. cbn [length findall]. destruct (match_tensor (c :: t)) as [[[n p] rest]|] eqn:M.
  - pose proof (match_tensor_shorter _ _ _ _ M) as Hs. simpl in Hs. rewrite findall_fuel by lia. reflexivity.
  - reflexivity.
Qed.

Lemma findall'_skip sep s : forallb (fun c => negb (is_word c)) sep = true -> findall' (sep ++ s) = findall' s.
Proof.
  induction sep as [|c sep IH]; simpl; intro H; [reflexivity|].
  apply andb_true_iff in H. destruct H as [Hc Hs]. apply negb_true_iff in Hc.
  rewrite findall'_cons, (match_tensor_nonword c _ Hc). exact (IH Hs).
Qed.

Lemma findall'_tensor n p rest :
  ident_ok n = true -> noc RBR p = true ->
  findall' (n ++ LBR :: p ++ RBR :: rest) = (n, p) :: findall' rest.
Proof.
  intros Hn Hp. pose proof (match_tensor_ok n p rest Hn Hp) as M.
  destruct n as [|c t]; [discriminate|]. cbn [app] in *. rewrite findall'_cons, M. reflexivity.
Qed.

(* ---------- split_on / join ---------- *)
Lemma split_on_nosep sep x : noc sep x = true -> split_on sep x = [x].
Proof.
  induction x as [|c x IH]; simpl; intro H; [reflexivity|].
  apply andb_true_iff in H. destruct H as [Hc Hx]. apply negb_true_iff in Hc. rewrite Hc, (IH Hx). reflexivity.
Qed.

Lemma split_on_app sep x rest : noc sep x = true -> split_on sep (x ++ sep :: rest) = x :: split_on sep rest.
Proof.
  induction x as [|c x IH]; simpl; intro H.
  - rewrite Nat.eqb_refl. reflexivity.
  - apply andb_true_iff in H. destruct H as [Hc Hx]. apply negb_true_iff in Hc. rewrite Hc, (IH Hx). reflexivity.
Qed.

Lemma split_join sep parts : parts <> [] -> forallb (noc sep) parts = true -> split_on sep (join sep parts) = parts.
Proof.
  induction parts as [|x t IH]; [congruence|]. intros _ H. simpl in H. apply andb_true_iff in H. destruct H as [Hx Ht].
  destruct t as [|y t'].
  - simpl. apply split_on_nosep. exact Hx.
  - change (join sep (x :: y :: t')) with (x ++ sep :: join sep (y :: t')).
    rewrite split_on_app by exact Hx. f_equal. apply IH; [discriminate|exact Ht].
Qed.

(* ---------- entries ---------- *)
Lemma isl_ident_word k : isl_ident k = true -> forallb is_word k = true.
Proof.
  destruct k as [|c t]; [discriminate|]. unfold isl_ident. intro H.
  apply andb_true_iff in H. destruct H as [H _]. apply andb_true_iff in H. destruct H as [Hc Ht].
  simpl. rewrite Ht, andb_true_r. unfold is_word. rewrite Hc. reflexivity.
Qed.

Lemma entry_no c en : entry_ok en = true -> is_word c = false -> negb (Nat.eqb c COLON) = true ->
  (forall x, expr_char_ok x = true -> negb (Nat.eqb x c) = true) -> noc c (pr_entry en) = true.
Proof.
  intros Hok Hw Hcol Hex. destruct en as [v|k e]; cbn [pr_entry entry_ok] in *.
  - destruct v as [|x t]; [discriminate|]. apply andb_true_iff in Hok. destruct Hok as [Hok _].
    apply andb_true_iff in Hok. destruct Hok as [Hl Ht]. apply word_noc; [exact Hw|]. cbn [forallb]. rewrite (lower_word _ Hl), Ht. reflexivity.
  - apply andb_true_iff in Hok. destruct Hok as [Hok He]. apply andb_true_iff in Hok. destruct Hok as [Hk _].
    rewrite noc_app. apply andb_true_iff. split; [apply word_noc; [exact Hw|apply isl_ident_word; exact Hk]|].
    change (COLON :: e) with ([COLON] ++ e). rewrite noc_app. apply andb_true_iff. split.
    + unfold noc. cbn [forallb]. rewrite andb_true_r. apply negb_true_iff, Nat.eqb_neq. apply negb_true_iff, Nat.eqb_neq in Hcol. congruence.
    + unfold noc. rewrite forallb_forall in *. intros x Hx. apply Hex, He, Hx.
Qed.

Lemma entry_no_comma en : entry_ok en = true -> noc COMMA (pr_entry en) = true.
Proof. intro H. apply entry_no; [exact H|reflexivity|reflexivity|]. intros x Hx. cc. apply negb_true_iff, Nat.eqb_neq. assumption. Qed.
Lemma entry_no_rbr en : entry_ok en = true -> noc RBR (pr_entry en) = true.
Proof. intro H. apply entry_no; [exact H|reflexivity|reflexivity|]. intros x Hx. cc. apply negb_true_iff, Nat.eqb_neq. assumption. Qed.
Lemma entry_no_eq en : entry_ok en = true -> noc EQ (pr_entry en) = true.
Proof. intro H. apply entry_no; [exact H|reflexivity|reflexivity|]. intros x Hx. cc. apply negb_true_iff, Nat.eqb_neq. assumption. Qed.

Lemma join_noc c sep parts : negb (Nat.eqb sep c) = true -> forallb (noc c) parts = true -> noc c (join sep parts) = true.
Proof.
  intro Hs. induction parts as [|x t IH]; [reflexivity|]. intro H. simpl in H. apply andb_true_iff in H. destruct H as [Hx Ht].
  destruct t as [|y t']; [exact Hx|].
  change (join sep (x :: y :: t')) with (x ++ sep :: join sep (y :: t')).
  rewrite noc_app, Hx. simpl. rewrite Hs. apply IH. exact Ht.
Qed.

Lemma proj_noc c es : negb (Nat.eqb COMMA c) = true -> (forall en, entry_ok en = true -> noc c (pr_entry en) = true) ->
  forallb entry_ok es = true -> noc c (pr_proj es) = true.
Proof.
  intros Hc Hen Hes. apply join_noc; [exact Hc|]. rewrite forallb_forall in *. intros x Hx.
  apply in_map_iff in Hx. destruct Hx as [en [<- Hin]]. apply Hen, Hes, Hin.
Qed.

Lemma dict_has_keys k d : dict_has k d = existsb (str_eqb k) (map fst d).
Proof. induction d as [|[k' v] d IH]; simpl; [reflexivity|]. rewrite IH. reflexivity. Qed.

Lemma exists_colon_word v : forallb is_word v = true -> existsb (Nat.eqb COLON) v = false.
Proof.
  induction v as [|c v IH]; simpl; intro H; [reflexivity|]. apply andb_true_iff in H. destruct H as [Hc Hv].
  rewrite (IH Hv), orb_false_r. apply Nat.eqb_neq. intro; subst. discriminate.
Qed.

Lemma short_isl c t : is_lower c = true -> forallb is_word t = true ->
  negb (existsb (str_eqb (map to_upper (c :: t))) OPERATORS) = true -> isl_ident (map to_upper (c :: t)) = true.
Proof.
  intros Hl Ht Hop. unfold isl_ident. cbn [map] in *. rewrite (lower_to_upper_alpha _ Hl), Hop.
  replace (forallb is_word (map to_upper t)) with true; [reflexivity|].
  symmetry. rewrite forallb_forall in *. intros x Hx. apply in_map_iff in Hx. destruct Hx as [y [<- Hy]].
  apply is_word_upper, Ht, Hy.
Qed.

Lemma parse_part_ok d en :
  entry_ok en = true -> existsb (str_eqb (key_of en)) (map fst d) = false ->
  parse_part d (pr_entry en) = Some (d ++ [norm_entry en]).
Proof.
  intros Hok Hfresh. unfold parse_part. destruct en as [v|k e]; cbn [pr_entry entry_ok norm_entry] in *.
  - destruct v as [|c t]; [discriminate|]. apply andb_true_iff in Hok. destruct Hok as [Hok Hop].
    apply andb_true_iff in Hok. destruct Hok as [Hl Ht].
    assert (Hw : forallb is_word (c :: t) = true) by (cbn [forallb]; rewrite (lower_word _ Hl), Ht; reflexivity).
    rewrite (exists_colon_word _ Hw). rewrite (lower_not_upper _ Hl).
    change (key_of (Short (c :: t))) with (map to_upper (c :: t)) in Hfresh.
    rewrite dict_has_keys, Hfresh, (short_isl c t Hl Ht Hop). reflexivity.
  - apply andb_true_iff in Hok. destruct Hok as [Hok He]. apply andb_true_iff in Hok. destruct Hok as [Hk Hfirst].
    assert (Hex : existsb (Nat.eqb COLON) (k ++ COLON :: e) = true).
    { rewrite existsb_app. cbn [existsb]. rewrite Nat.eqb_refl, orb_true_r. reflexivity. }
    rewrite Hex.
    assert (Hkc : noc COLON k = true) by (apply word_noc; [reflexivity|apply isl_ident_word; exact Hk]).
    assert (Hec : noc COLON e = true).
    { unfold noc. rewrite forallb_forall in *. intros x Hx. specialize (He x Hx). cc. apply negb_true_iff, Nat.eqb_neq. assumption. }
    rewrite (split_on_app COLON k e Hkc), (split_on_nosep COLON e Hec).
    rewrite Hk. change (key_of (Keyed k e)) with k in Hfresh. rewrite dict_has_keys, Hfresh.
    destruct k as [|c t]; [discriminate|]. rewrite Hfirst. reflexivity.
Qed.

Lemma fold_parts d es :
  forallb entry_ok es = true -> keys_fresh (map fst d) es = true ->
  fold_left (fun acc part => match acc with Some d => parse_part d part | None => None end)
            (map pr_entry es) (Some d) = Some (d ++ map norm_entry es).
Proof.
  revert d. induction es as [|en es IH]; intros d Hok Hf; simpl.
  - rewrite app_nil_r. reflexivity.
  - simpl in Hok, Hf. apply andb_true_iff in Hok. destruct Hok as [H1 H2]. apply andb_true_iff in Hf. destruct Hf as [F1 F2].
    apply negb_true_iff in F1. rewrite (parse_part_ok d en H1 F1).
    rewrite IH; [rewrite <- app_assoc; reflexivity|exact H2|].
    rewrite map_app. exact F2.
Qed.

Lemma pr_entry_nonempty en : entry_ok en = true -> pr_entry en <> [].
Proof. destruct en as [v|k e]; simpl; [destruct v; discriminate|destruct k; discriminate]. Qed.

Lemma join_nonempty sep parts : parts <> [] -> (forall x, In x parts -> x <> []) -> join sep parts <> [].
Proof.
  destruct parts as [|x t]; [congruence|]. intros _ H. destruct t as [|y t'].
  - apply H. left. reflexivity.
  - change (join sep (x :: y :: t')) with (x ++ sep :: join sep (y :: t')). destruct x; discriminate.
Qed.

Lemma parse_projection_ok es :
  es <> [] -> forallb entry_ok es = true -> keys_fresh [] es = true ->
  parse_projection (pr_proj es) = Some (map norm_entry es).
Proof.
  intros Hne Hok Hf. unfold parse_projection.
  assert (Hn : pr_proj es <> []).
  { apply join_nonempty; [destruct es; [congruence|discriminate]|]. intros x Hx. apply in_map_iff in Hx.
    destruct Hx as [en [<- Hin]]. apply pr_entry_nonempty. rewrite forallb_forall in Hok. apply Hok, Hin. }
  destruct (pr_proj es) eqn:E; [congruence|]. rewrite <- E. unfold pr_proj.
  rewrite split_join.
  - apply (fold_parts [] es Hok Hf).
  - destruct es; [congruence|discriminate].
  - rewrite forallb_forall in *. intros x Hx. apply in_map_iff in Hx. destruct Hx as [en [<- Hin]].
    apply entry_no_comma, Hok, Hin.
Qed.

(* ---------- tensors ---------- *)
Lemma tensor_parts t : tensor_ok t = true ->
  ident_ok (fst t) = true /\ snd t <> [] /\ forallb entry_ok (snd t) = true /\ keys_fresh [] (snd t) = true.
Proof.
  unfold tensor_ok. intro H. apply andb_true_iff in H. destruct H as [H H4]. apply andb_true_iff in H. destruct H as [H H3].
  apply andb_true_iff in H. destruct H as [H1 H2]. repeat split; try assumption. destruct (snd t); [discriminate|discriminate].
Qed.

Lemma proj_no_rbr t : tensor_ok t = true -> noc RBR (pr_proj (snd t)) = true.
Proof. intro H. apply tensor_parts in H. destruct H as (_ & _ & H & _). apply proj_noc; [reflexivity|apply entry_no_rbr|exact H]. Qed.

Lemma tensor_no_eq t : tensor_ok t = true -> noc EQ (pr_tensor t) = true.
Proof.
  intro H. apply tensor_parts in H. destruct H as (Hn & _ & Hes & _). unfold pr_tensor.
  rewrite noc_app. apply andb_true_iff. split; [apply word_noc; [reflexivity|apply ident_word; exact Hn]|].
  change (LBR :: pr_proj (snd t) ++ [RBR]) with ([LBR] ++ pr_proj (snd t) ++ [RBR]).
  rewrite !noc_app. rewrite (proj_noc EQ (snd t) eq_refl entry_no_eq Hes). reflexivity.
Qed.

Lemma count_noc c s : noc c s = true -> count_char c s = 0.
Proof.
  unfold count_char. induction s as [|x s IH]; simpl; intro H; [reflexivity|].
  apply andb_true_iff in H. destruct H as [Hx Hs]. apply negb_true_iff in Hx.
  rewrite Nat.eqb_sym in Hx. rewrite Hx. apply IH, Hs.
Qed.

Lemma count_app c a b : count_char c (a ++ b) = count_char c a + count_char c b.
Proof. unfold count_char. rewrite filter_app, app_length. reflexivity. Qed.

Lemma sep_no_eq s : sep_ok s = true -> noc EQ s = true.
Proof.
  unfold sep_ok, noc. rewrite !forallb_forall. intros H x Hx. specialize (H x Hx). apply andb_true_iff in H. apply H.
Qed.
Lemma sep_nonword s : sep_ok s = true -> forallb (fun c => negb (is_word c)) s = true.
Proof.
  unfold sep_ok. rewrite !forallb_forall. intros H x Hx. specialize (H x Hx). apply andb_true_iff in H. apply H.
Qed.

Lemma rhs_no_eq ins tail :
  forallb (fun st => sep_ok (fst st) && tensor_ok (snd st)) ins = true -> sep_ok tail = true ->
  noc EQ (pr_rhs ins tail) = true.
Proof.
  intros Hi Ht. unfold pr_rhs. rewrite noc_app, (sep_no_eq _ Ht), andb_true_r.
  induction ins as [|[sp t] ins IH]; [reflexivity|]. simpl in *. apply andb_true_iff in Hi. destruct Hi as [H1 H2].
  apply andb_true_iff in H1. destruct H1 as [Hs Hk]. rewrite !noc_app, (sep_no_eq _ Hs), (tensor_no_eq _ Hk). simpl. apply IH, H2.
Qed.

Lemma pr_tensor_app t rest : pr_tensor t ++ rest = fst t ++ LBR :: pr_proj (snd t) ++ RBR :: rest.
Proof. unfold pr_tensor. rewrite <- !app_assoc. cbn [app]. rewrite <- app_assoc. reflexivity. Qed.

Lemma findall_rhs ins tail :
  forallb (fun st => sep_ok (fst st) && tensor_ok (snd st)) ins = true -> sep_ok tail = true ->
  findall' (pr_rhs ins tail) = map (fun st => (fst (snd st), pr_proj (snd (snd st)))) ins.
Proof.
  intros Hi Ht. unfold pr_rhs. induction ins as [|[sp t] ins IH].
  - simpl. rewrite <- (app_nil_r tail). rewrite findall'_skip by (apply sep_nonword; exact Ht). reflexivity.
  - simpl in *. apply andb_true_iff in Hi. destruct Hi as [H1 H2]. apply andb_true_iff in H1. destruct H1 as [Hs Hk].
    rewrite <- !app_assoc. rewrite findall'_skip by (apply sep_nonword; exact Hs).
    rewrite pr_tensor_app.
    pose proof (tensor_parts _ Hk) as (Hn & _ & _ & _).
    rewrite findall'_tensor; [|exact Hn|apply proj_no_rbr; exact Hk]. f_equal. apply IH, H2.
Qed.

Lemma parse_all_ok ins out :
  forallb (fun st => sep_ok (fst st) && tensor_ok (snd st)) ins = true ->
  parse_all (map (fun st => (fst (snd st), pr_proj (snd (snd st)))) ins) out
  = Some (map (fun st => norm_tensor out (snd st)) ins).
Proof.
  induction ins as [|[sp t] ins IH]; simpl; intro Hi; [reflexivity|].
  apply andb_true_iff in Hi. destruct Hi as [H1 H2]. apply andb_true_iff in H1. destruct H1 as [_ Hk].
  pose proof (tensor_parts _ Hk) as (_ & Hne & Hes & Hf).
  rewrite (parse_projection_ok _ Hne Hes Hf), (IH H2). reflexivity.
Qed.

(* ---------- main ---------- *)
Lemma roundtrip e s : einsum_ok e = true -> strip_ws s = pr_einsum e -> parse_einsum s = Some (norm e).
Proof.
  intros Hok Hs. unfold parse_einsum. rewrite Hs. clear Hs s.
  unfold einsum_ok in Hok. apply andb_true_iff in Hok. destruct Hok as [Hok Htail].
  apply andb_true_iff in Hok. destruct Hok as [Hok Hins]. apply andb_true_iff in Hok. destruct Hok as [Hout Hne].
  pose proof (tensor_parts _ Hout) as (Hn & Hne' & Hes & Hf).
  assert (Hcount : count_char EQ (pr_einsum e) = 1).
  { unfold pr_einsum. rewrite count_app. rewrite (count_noc _ _ (tensor_no_eq _ Hout)).
    change (EQ :: pr_rhs (e_ins e) (e_tail e)) with ([EQ] ++ pr_rhs (e_ins e) (e_tail e)). rewrite count_app.
    rewrite (count_noc _ _ (rhs_no_eq _ _ Hins Htail)). reflexivity. }
  rewrite Hcount. cbn [Nat.eqb negb].
  unfold pr_einsum. rewrite pr_tensor_app.
  rewrite (match_tensor_ok _ _ _ Hn (proj_no_rbr _ Hout)).
  cbn [EQ]. rewrite Nat.eqb_refl.
  assert (Hrhs : pr_rhs (e_ins e) (e_tail e) <> []).
  { unfold pr_rhs. destruct (e_ins e) as [|[sp t] ins]; [discriminate|]. simpl. unfold pr_tensor.
    destruct sp; simpl; [|discriminate]. destruct (fst t); discriminate. }
  destruct (pr_rhs (e_ins e) (e_tail e)) as [|r0 rr] eqn:E; [congruence|]. rewrite <- E.
  change (findall (length (pr_rhs (e_ins e) (e_tail e))) (pr_rhs (e_ins e) (e_tail e))) with (findall' (pr_rhs (e_ins e) (e_tail e))).
  rewrite (findall_rhs _ _ Hins Htail).
  destruct (e_ins e) as [|i0 ins] eqn:Ei; [discriminate|]. rewrite <- Ei in *.
  assert (Hm : map (fun st => (fst (snd st), pr_proj (snd (snd st)))) (e_ins e) <> []) by (rewrite Ei; discriminate).
  destruct (map (fun st => (fst (snd st), pr_proj (snd (snd st)))) (e_ins e)) eqn:Em; [congruence|]. rewrite <- Em.
  rewrite (parse_all_ok _ false Hins), (parse_projection_ok _ Hne' Hes Hf). reflexivity.
Qed.

(* whitespace anywhere never matters *)
Lemma whitespace_irrelevant s s' : strip_ws s = strip_ws s' -> parse_einsum s = parse_einsum s'.
Proof. unfold parse_einsum. intro H. rewrite H. reflexivity. Qed.

(* ---------- rejections ---------- *)
Lemma fold_none parts : fold_left (fun acc part => match acc with Some d => parse_part d part | None => None end) parts None = None.
Proof. induction parts; simpl; auto. Qed.

Lemma reject_eq_count s : count_char EQ (strip_ws s) <> 1 -> parse_einsum s = None.
Proof. intro H. unfold parse_einsum. apply Nat.eqb_neq in H. rewrite H. reflexivity. Qed.

(* a projection with a bad entry anywhere is rejected *)
Definition bad_entry (d : list (list nat * list nat)) (part : list nat) : Prop := parse_part d part = None.

Lemma reject_bad_entry pre bad post d0 :
  (forall d, parse_part d bad = None) ->
  fold_left (fun acc part => match acc with Some d => parse_part d part | None => None end) (pre ++ bad :: post) d0 = None.
Proof.
  intro Hb. rewrite fold_left_app. simpl.
  destruct (fold_left _ pre d0); [rewrite Hb|]; apply fold_none.
Qed.

Lemma bad_empty d : parse_part d [] = None.
Proof. reflexivity. Qed.
Lemma bad_upper_shorthand d c t : is_upper c = true -> existsb (Nat.eqb COLON) (c :: t) = false -> parse_part d (c :: t) = None.
Proof. intros H1 H2. unfold parse_part. rewrite H2, H1. reflexivity. Qed.
Lemma bad_lower_key d c t v : is_lower c = true -> noc COLON (c :: t) = true -> noc COLON v = true ->
  parse_part d ((c :: t) ++ COLON :: v) = None.
Proof.
  intros H1 H2 H3. unfold parse_part.
  replace (existsb (Nat.eqb COLON) ((c :: t) ++ COLON :: v)) with true by (rewrite existsb_app; simpl; rewrite orb_true_r; reflexivity).
  rewrite (split_on_app COLON _ v H2), (split_on_nosep COLON v H3). rewrite H1. simpl. rewrite andb_false_r. reflexivity.
Qed.
Lemma bad_two_colons d a b c : noc COLON a = true -> noc COLON b = true ->
  parse_part d (a ++ COLON :: b ++ COLON :: c) = None.
Proof.
  intros H1 H2. unfold parse_part.
  replace (existsb (Nat.eqb COLON) (a ++ COLON :: b ++ COLON :: c)) with true by (rewrite existsb_app; simpl; rewrite orb_true_r; reflexivity).
  rewrite (split_on_app COLON a _ H1), (split_on_app COLON b _ H2).
  destruct (split_on COLON c) eqn:E; [|reflexivity].
  destruct c; simpl in E; [discriminate|]. destruct (Nat.eqb n COLON); [discriminate|]. destruct (split_on COLON c); discriminate.
Qed.
Lemma bad_duplicate d en : entry_ok en = true -> existsb (str_eqb (key_of en)) (map fst d) = true ->
  parse_part d (pr_entry en) = None.
Proof.
  intros Hok Hdup. unfold parse_part. destruct en as [v|k e]; cbn [pr_entry entry_ok norm_entry] in *.
  - destruct v as [|c t]; [discriminate|]. apply andb_true_iff in Hok. destruct Hok as [Hok Hop].
    apply andb_true_iff in Hok. destruct Hok as [Hl Ht].
    assert (Hw : forallb is_word (c :: t) = true) by (cbn [forallb]; rewrite (lower_word _ Hl), Ht; reflexivity).
    rewrite (exists_colon_word _ Hw), (lower_not_upper _ Hl).
    change (key_of (Short (c :: t))) with (map to_upper (c :: t)) in Hdup.
    rewrite dict_has_keys, Hdup. rewrite andb_false_r. reflexivity.
  - apply andb_true_iff in Hok. destruct Hok as [Hok He]. apply andb_true_iff in Hok. destruct Hok as [Hk Hfirst].
    replace (existsb (Nat.eqb COLON) (k ++ COLON :: e)) with true
      by (rewrite existsb_app; cbn [existsb]; rewrite Nat.eqb_refl, orb_true_r; reflexivity).
    assert (Hkc : noc COLON k = true) by (apply word_noc; [reflexivity|apply isl_ident_word; exact Hk]).
    assert (Hec : noc COLON e = true).
    { unfold noc. rewrite forallb_forall in *. intros x Hx. specialize (He x Hx). cc. apply negb_true_iff, Nat.eqb_neq. assumption. }
    rewrite (split_on_app COLON k e Hkc), (split_on_nosep COLON e Hec).
    change (key_of (Keyed k e)) with k in Hdup. rewrite dict_has_keys, Hdup. rewrite andb_false_r. reflexivity.
Qed.

(* a duplicated rank (in either spelling) anywhere in a projection rejects the whole projection *)
Definition pstep (acc : option (list (list nat * list nat))) (part : list nat) :=
  match acc with Some d => parse_part d part | None => None end.

Lemma pstep_none parts : fold_left pstep parts None = None.
Proof. induction parts; simpl; auto. Qed.

Lemma fold_entries es : forall d, forallb entry_ok es = true ->
  fold_left pstep (map pr_entry es) (Some d) = None \/
  fold_left pstep (map pr_entry es) (Some d) = Some (d ++ map norm_entry es).
Proof.
  induction es as [|en es IH]; intros d H; cbn [map fold_left].
  - right. rewrite app_nil_r. reflexivity.
  - cbn [forallb] in H. apply andb_true_iff in H. destruct H as [H1 H2].
    destruct (existsb (str_eqb (key_of en)) (map fst d)) eqn:Ex.
    + left. cbn [pstep]. rewrite (bad_duplicate d en H1 Ex). apply pstep_none.
    + cbn [pstep]. rewrite (parse_part_ok d en H1 Ex).
      destruct (IH (d ++ [norm_entry en]) H2) as [->| ->]; [left; reflexivity|].
      right. rewrite <- app_assoc. reflexivity.
Qed.

Lemma str_eqb_eq a : forall b, str_eqb a b = true -> a = b.
Proof.
  induction a as [|x a IHa]; destruct b as [|y b]; simpl; try discriminate; auto.
  intro H. apply andb_true_iff in H. destruct H as [Hx Hab]. apply Nat.eqb_eq in Hx. f_equal; auto.
Qed.
Lemma str_eqb_refl a : str_eqb a a = true.
Proof. induction a; simpl; [reflexivity|rewrite Nat.eqb_refl; assumption]. Qed.

Lemma reject_duplicate es1 en1 es2 en2 es3 :
  forallb entry_ok (es1 ++ en1 :: es2 ++ en2 :: es3) = true -> str_eqb (key_of en1) (key_of en2) = true ->
  parse_projection (pr_proj (es1 ++ en1 :: es2 ++ en2 :: es3)) = None.
Proof.
  intros Hok Hk. unfold parse_projection.
  destruct (pr_proj (es1 ++ en1 :: es2 ++ en2 :: es3)) as [|c0 r0] eqn:E; [reflexivity|]. rewrite <- E. clear E c0 r0.
  unfold pr_proj. rewrite split_join.
  - change (fold_left pstep (map pr_entry (es1 ++ en1 :: es2 ++ en2 :: es3)) (Some []) = None).
    rewrite forallb_app in Hok. cbn [forallb] in Hok. rewrite forallb_app in Hok. cbn [forallb] in Hok.
    apply andb_true_iff in Hok. destruct Hok as [O1 Hok]. apply andb_true_iff in Hok. destruct Hok as [O2 Hok].
    apply andb_true_iff in Hok. destruct Hok as [O3 Hok]. apply andb_true_iff in Hok. destruct Hok as [O4 O5].
    rewrite map_app, fold_left_app. cbn [map fold_left].
    destruct (fold_entries es1 [] O1) as [->| ->]; [apply pstep_none|].
    destruct (existsb (str_eqb (key_of en1)) (map fst ([] ++ map norm_entry es1))) eqn:Ex1.
    { cbn [pstep]. rewrite (bad_duplicate _ en1 O2 Ex1). apply pstep_none. }
    cbn [pstep]. rewrite (parse_part_ok _ en1 O2 Ex1).
    rewrite map_app, fold_left_app. cbn [map fold_left].
    destruct (fold_entries es2 (([] ++ map norm_entry es1) ++ [norm_entry en1]) O3) as [->| ->]; [apply pstep_none|].
    cbn [pstep]. rewrite (bad_duplicate _ en2 O4); [apply pstep_none|].
    rewrite !map_app, !existsb_app. cbn [map existsb].
    apply str_eqb_eq in Hk. unfold key_of in *. rewrite <- Hk, str_eqb_refl. rewrite !orb_true_r. reflexivity.
  - destruct es1; discriminate.
  - rewrite forallb_forall in *. intros x Hx. apply in_map_iff in Hx. destruct Hx as [en [<- Hin]].
    apply entry_no_comma, Hok, Hin.
Qed.
