(* C17 — property theorems only. G = the (energy, latency) vectors of the whole mapspace, scaled to integers. *)
From AF Require Import Base.Tactics Lib.Pareto Lib.Front.
Open Scope Z_scope.

(* the energy optimum and the latency optimum are attained on the energy-latency front *)
Theorem C17_coordinate_optima : forall G g, In g G ->
  (exists f, In f (front G) /\ c0 f <= c0 g) /\ (exists f, In f (front G) /\ c1 f <= c1 g).
Proof. exact front_keeps_coordinate_optima. Qed.
Print Assumptions C17_coordinate_optima.

(* ... and nothing on the front is better than the optimum over the whole space *)
Theorem C17_front_within_space : forall G f, In f (front G) -> In f G.
Proof. exact front_subset. Qed.
Print Assumptions C17_front_within_space.

(* the energy x latency optimum is attained on the front (both objectives non-negative) *)
Theorem C17_edp : forall G g, (forall x, In x G -> 0 <= c0 x /\ 0 <= c1 x) -> In g G ->
  exists f, In f (front G) /\ c0 f * c1 f <= c0 g * c1 g.
Proof. exact front_keeps_product_optimum. Qed.
Print Assumptions C17_edp.
