(* C15 model — compress_pmappings.py: _compress_pmapping_list / decompress_pmappings for one
   Einsum.  A row is represented by its non-joining payload (type A).  Sub-table k gets the
   ids  start_k .. start_k + |T_k| - 1.  decompress_data is a Python dict
   start_index -> sub-table; it is modelled as an association list kept in REVERSE
   insertion order (most recent first), so that reversed(dict.items()) is the list itself;
   assigning an existing key replaces the value in place (empty sub-tables make start
   indices collide). *)
From Coq Require Import List Arith Lia.
Import ListNotations.

Section C15.
Context {A : Type}.

Notation seg := (nat * list A)%type.

Fixpoint dict_replace (k : nat) (v : list A) (D : list seg) : option (list seg) :=
  match D with
  | [] => None
  | (k', v') :: D' =>
      if Nat.eqb k k' then Some ((k, v) :: D')
      else match dict_replace k v D' with Some D'' => Some ((k', v') :: D'') | None => None end
  end.

Definition dict_put (k : nat) (v : list A) (D : list seg) : list seg :=
  match dict_replace k v D with Some D' => D' | None => (k, v) :: D end.

(* decompress_data[start_index] = decompress;  start_index += len(table) *)
Definition build_step (st : list seg * nat) (T : list A) : list seg * nat :=
  (dict_put (snd st) T (fst st), snd st + length T).
Definition build (Ts : list (list A)) : list seg := fst (fold_left build_step Ts ([], 0)).

(* while chosen is None or i < start_index: start_index, chosen = next(iter) *)
Fixpoint adv (i : nat) (cur : option seg) (iter : list seg) {struct iter} : option (seg * list seg) :=
  match cur with
  | Some (s, T) =>
      if Nat.leb s i then Some ((s, T), iter)
      else match iter with [] => None | e :: it => adv i (Some e) it end
  | None => match iter with [] => None | e :: it => adv i (Some e) it end
  end.

(* ids arrive sorted in descending order, without duplicates *)
Fixpoint walk (ids : list nat) (cur : option seg) (iter : list seg) : option (list (nat * A)) :=
  match ids with
  | [] => Some []
  | i :: ids' =>
      match adv i cur iter with
      | None => None                                   (* StopIteration *)
      | Some ((s, T), it) =>
          match nth_error T (i - s) with                (* chosen[chosen.index == i]; assert len == 1 *)
          | None => None
          | Some r =>
              match walk ids' (Some (s, T)) it with
              | Some tbl => Some ((i, r) :: tbl)
              | None => None
              end
          end
      end
  end.

Fixpoint lookup (i : nat) (tbl : list (nat * A)) : option A :=
  match tbl with [] => None | (j, r) :: t => if Nat.eqb i j then Some r else lookup i t end.

(* descending, duplicate-free version of the id column: reversed(sorted(oset(ids))) *)
Fixpoint insert_desc (x : nat) (l : list nat) : list nat :=
  match l with
  | [] => [x]
  | y :: t => if Nat.ltb y x then x :: l else if Nat.eqb x y then l else y :: insert_desc x t
  end.
Definition sort_desc (l : list nat) : list nat := fold_right insert_desc [] l.

(* pd.merge(data, concat(sub_dfs), left_on=id, right_index=True, how="left") *)
Definition decompress (D : list seg) (ids : list nat) : option (list (option A)) :=
  match walk (sort_desc ids) None D with
  | None => None
  | Some tbl => Some (map (fun i => lookup i tbl) ids)
  end.
End C15.
