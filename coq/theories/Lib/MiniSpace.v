(* MiniSpace — the mapspace of a single-Einsum MiniForge spec, its exhaustive enumerator and the reference optimiser.

   A mapping is  [Sto 0 t | t]  ++ body, where the body is a path of the step function below:
     - Sto l t with 1 <= l < n_levels, l not below the level of any earlier holder node (mapper.force_memory_hierarchy_order),
       may_keep l t, (l, t) not placed yet;
     - Loop v tile with tile a proper divisor of the current extent of v;
     - the path may end when every extent is 1 and every keep entry is placed.
   Validity also requires accelforge's own capacity check (C06.Model.accepted: reservation placement as coded). *)
From Coq Require Import ZArith QArith List Bool Lia.
Import ListNotations.
Require Import AF.Lib.MiniForge AF.C06.Model.
Open Scope Z_scope.

Definition node_eq_dec : forall a b : node, {a = b} + {a <> b}.
Proof. decide equality; try apply Nat.eq_dec; apply Z.eq_dec. Defined.

(* ------------------------------------------------------------------ paths of a step function *)
Section Paths.
  Variables (state nd : Type).
  Variable step : state -> nd -> option state.
  Variable final : state -> bool.
  Variable cands : state -> list nd.
  Hypothesis cands_complete : forall st n st', step st n = Some st' -> In n (cands st).

  Fixpoint accepts (st : state) (m : list nd) : bool :=
    match m with
    | [] => final st
    | n :: r => match step st n with Some st' => accepts st' r | None => false end
    end.

  Fixpoint paths (fuel : nat) (st : state) : list (list nd) :=
    (if final st then [[]] else []) ++
    match fuel with
    | O => []
    | S f => flat_map (fun n => match step st n with Some st' => map (cons n) (paths f st') | None => [] end) (cands st)
    end.

  Lemma paths_sound : forall fuel st m, In m (paths fuel st) -> accepts st m = true.
  Proof.
    induction fuel as [|f IH]; intros st m H; cbn [paths] in H; apply in_app_iff in H; destruct H as [H|H].
    - destruct (final st) eqn:F; [|destruct H]. destruct H as [<-|[]]. exact F.
    - destruct H.
    - destruct (final st) eqn:F; [|destruct H]. destruct H as [<-|[]]. exact F.
    - apply in_flat_map in H. destruct H as [n [_ H]]. destruct (step st n) as [st'|] eqn:E; [|destruct H].
      apply in_map_iff in H. destruct H as [r [<- Hr]]. cbn [accepts]. rewrite E. apply IH, Hr.
  Qed.

  Lemma paths_complete : forall fuel st m, (length m <= fuel)%nat -> accepts st m = true -> In m (paths fuel st).
  Proof.
    induction fuel as [|f IH]; intros st m Hl H.
    - destruct m; [|simpl in Hl; lia]. cbn [paths accepts] in *. rewrite H. left. reflexivity.
    - destruct m as [|n r]; cbn [paths accepts] in *.
      + rewrite H. left. reflexivity.
      + apply in_app_iff. right. destruct (step st n) as [st'|] eqn:E; [|discriminate].
        apply in_flat_map. exists n. split; [eapply cands_complete; exact E|]. rewrite E. apply in_map.
        apply IH; [simpl in Hl; lia|exact H].
  Qed.
End Paths.

(* ------------------------------------------------------------------ minimum of a list of rationals *)
Definition qmin_opt (o : option Q) (x : Q) : option Q :=
  match o with None => Some x | Some v => Some (if Qle_bool v x then v else x) end.
Definition qmin_list (l : list Q) : option Q := fold_left qmin_opt l None.

Lemma qmin_fold_spec l : forall o,
  match fold_left qmin_opt l o with
  | None => o = None /\ l = []
  | Some v => (forall x, In x l -> v <= x)%Q /\ (match o with Some w => (v <= w)%Q | None => True end)
              /\ ((exists x, In x l /\ x = v) \/ o = Some v)
  end.
Proof.
  induction l as [|y l IH]; intro o; cbn [fold_left].
  - destruct o as [w|]; [|split; reflexivity]. split; [intros x []|]. split; [apply Qle_refl|right; reflexivity].
  - specialize (IH (qmin_opt o y)). destruct (fold_left qmin_opt l (qmin_opt o y)) as [v|] eqn:E.
    + destruct IH as (A & B & C). destruct o as [w|]; cbn [qmin_opt] in *.
      * destruct (Qle_bool w y) eqn:L.
        -- apply Qle_bool_iff in L. split; [intros x [<-|Hx]; [eapply Qle_trans; eassumption|apply A, Hx]|]. split; [exact B|].
           destruct C as [[x [Hx <-]]|C]; [left; exists x; split; [right; exact Hx|reflexivity]|right; exact C].
        -- assert (Hyw : (y <= w)%Q).
           { destruct (Qlt_le_dec y w) as [H|H]; [apply Qlt_le_weak, H|]. apply Qle_bool_iff in H. congruence. }
           split; [intros x [<-|Hx]; [exact B|apply A, Hx]|]. split; [eapply Qle_trans; eassumption|].
           destruct C as [[x [Hx <-]]|C]; [left; exists x; split; [right; exact Hx|reflexivity]|].
           inversion C; subst. left. exists v. split; [left; reflexivity|reflexivity].
      * split; [intros x [<-|Hx]; [exact B|apply A, Hx]|]. split; [exact I|].
        destruct C as [[x [Hx <-]]|C]; [left; exists x; split; [right; exact Hx|reflexivity]|].
        inversion C; subst. left. exists v. split; [left; reflexivity|reflexivity].
    + destruct IH as [A _]. destruct o; discriminate.
Qed.

Lemma qmin_list_spec l v : qmin_list l = Some v -> (forall x, In x l -> v <= x)%Q /\ exists x, In x l /\ x = v.
Proof.
  unfold qmin_list. intro H. pose proof (qmin_fold_spec l None) as S. rewrite H in S. destruct S as (A & _ & C).
  split; [exact A|]. destruct C as [C|C]; [exact C|discriminate].
Qed.
Lemma qmin_list_none l : qmin_list l = None -> l = [].
Proof. unfold qmin_list. intro H. pose proof (qmin_fold_spec l None) as S. rewrite H in S. apply S. Qed.

(* ------------------------------------------------------------------ the mapspace *)
Record mspec := mkM { m_spec : spec;
                      m_keep : list (list bool);      (* per level, per tensor *)
                      m_may : list (list bool);
                      m_size : list (option Z);       (* bits; None = inf *)
                      m_bpv : list (list Z) }.        (* bits per value per level, per tensor *)

Definition lk (tbl : list (list bool)) (l t : nat) : bool := nth t (nth l tbl []) false.
Definition bpvf (ms : mspec) (l t : nat) : Z := nth t (nth l (m_bpv ms) []) 0.

Record sstate := mkSt { st_shape : shape; st_lvl : nat; st_placed : list (nat * nat) }.

Definition pair_eqb (a b : nat * nat) : bool := Nat.eqb (fst a) (fst b) && Nat.eqb (snd a) (snd b).
Definition placedb (p : nat * nat) (l : list (nat * nat)) : bool := existsb (pair_eqb p) l.

Section Space.
  Variable ms : mspec.
  Let nl := length (s_levels (m_spec ms)).
  Let nt := length (s_tensors (m_spec ms)).
  Let nv := length (s_bounds (m_spec ms)).

  Definition sstep (st : sstate) (n : node) : option sstate :=
    match n with
    | Sto l t =>
        if Nat.leb 1 l && Nat.ltb l nl && Nat.leb (st_lvl st) l && Nat.ltb t nt && lk (m_may ms) l t && negb (placedb (l, t) (st_placed st))
        then Some (mkSt (st_shape st) l ((l, t) :: st_placed st)) else None
    | Loop v tile =>
        let x := nth v (st_shape st) 1 in
        if Nat.ltb v nv && (0 <? tile) && (tile <? x) && (x mod tile =? 0)
        then Some (mkSt (set_nth v tile (st_shape st)) (st_lvl st) (st_placed st)) else None
    end.

  Definition all_pairs : list (nat * nat) := flat_map (fun l => map (fun t => (l, t)) (seq 0 nt)) (seq 1 (nl - 1)).
  Definition sfinal (st : sstate) : bool :=
    forallb (fun x => x =? 1) (st_shape st)
    && forallb (fun p => negb (lk (m_keep ms) (fst p) (snd p)) || placedb p (st_placed st)) all_pairs.

  Definition proper_divisors (x : Z) : list Z :=
    filter (fun d => x mod d =? 0) (map Z.of_nat (seq 1 (Z.to_nat x - 1))).

  Definition scands (st : sstate) : list node :=
    map (fun p => Sto (fst p) (snd p)) all_pairs
    ++ flat_map (fun v => map (Loop v) (proper_divisors (nth v (st_shape st) 1))) (seq 0 nv).

  Lemma proper_divisors_in x d : 0 < d -> d < x -> x mod d = 0 -> In d (proper_divisors x).
  Proof.
    intros H0 H1 H2. unfold proper_divisors. apply filter_In. split; [|apply Z.eqb_eq, H2].
    apply in_map_iff. exists (Z.to_nat d). split; [lia|]. apply in_seq. lia.
  Qed.

  Lemma scands_complete st n st' : sstep st n = Some st' -> In n (scands st).
  Proof.
    unfold sstep, scands. destruct n as [l t|v tile]; intro H; apply in_app_iff.
    - left. destruct (Nat.leb 1 l && Nat.ltb l nl && Nat.leb (st_lvl st) l && Nat.ltb t nt && lk (m_may ms) l t && negb (placedb (l, t) (st_placed st))) eqn:E; [|discriminate].
      rewrite !andb_true_iff in E. destruct E as (((((A & B) & C) & D) & F) & G).
      apply Nat.leb_le in A. apply Nat.ltb_lt in B, D.
      apply in_map_iff. exists (l, t). split; [reflexivity|]. unfold all_pairs. apply in_flat_map. exists l. split.
      + apply in_seq. lia.
      + apply in_map_iff. exists t. split; [reflexivity|]. apply in_seq. lia.
    - right. destruct (Nat.ltb v nv && (0 <? tile) && (tile <? nth v (st_shape st) 1) && (nth v (st_shape st) 1 mod tile =? 0)) eqn:E; [|discriminate].
      rewrite !andb_true_iff in E. destruct E as (((A & B) & C) & D). apply Nat.ltb_lt in A. apply Z.ltb_lt in B, C. apply Z.eqb_eq in D.
      apply in_flat_map. exists v. split; [apply in_seq; lia|]. apply in_map. apply proper_divisors_in; assumption.
  Qed.

  Definition init_state : sstate := mkSt (s_bounds (m_spec ms)) 0%nat [].
  Definition top : list node := map (Sto 0) (seq 0 nt).
  (* no accepted body is longer than this (every loop at least halves an extent, every holder is placed once) *)
  Definition fuel : nat := (nl * nt + Z.to_nat (fold_right Z.add 0%Z (s_bounds (m_spec ms))))%nat.

  Definition in_body (body : list node) : bool := accepts _ _ sstep sfinal init_state body && Nat.leb (length body) fuel.
  Definition bodies : list (list node) := paths _ _ sstep sfinal scands fuel init_state.

  Theorem bodies_complete body : in_body body = true -> In body bodies.
  Proof.
    unfold in_body, bodies. intro H. apply andb_true_iff in H. destruct H as [H1 H2]. apply Nat.leb_le in H2.
    apply paths_complete; [exact scands_complete|exact H2|exact H1].
  Qed.
  Theorem bodies_sound body : In body bodies -> accepts _ _ sstep sfinal init_state body = true.
  Proof. apply paths_sound. Qed.

  (* capacity as accelforge checks it *)
  Definition fits (m : list node) : bool :=
    accepted (s_tensors (m_spec ms)) (bpvf ms) (m_size ms) m (s_bounds (m_spec ms)).

  Definition in_space (m : list node) : bool :=
    match skipn nt m with body => (if list_eq_dec node_eq_dec (firstn nt m) top then true else false) && in_body body && fits m end.

  Definition space : list (list node) := filter fits (map (fun b => top ++ b) bodies).

  (* ---------------------------------------------------------------- objectives and the reference optimum *)
  Inductive metric := MEnergy | MLatency | MEdp.
  Definition objective (mt : metric) (m : list node) : Q :=
    match mt with
    | MEnergy => energy model_counts (m_spec ms) m
    | MLatency => latency model_counts (m_spec ms) m
    | MEdp => energy model_counts (m_spec ms) m * latency model_counts (m_spec ms) m
    end.
  Definition opt (mt : metric) : option Q := qmin_list (map (objective mt) space).
End Space.
