(* C30 — property theorems only (per unit of volume; the code multiplies by the volume). *)
From Coq Require Import List Arith Lia.
Import ListNotations.
From AF Require Import C30.Model C30.Proofs.

(* mesh, shared value: total hops = (n-1)*s; every existing link carries the value once *)
Theorem C30_mesh_multicast : forall n s,
  total_hops (mesh_multicast_routes n s) = fst (impl_mesh_multicast n s) /\
  (0 < (n - 1) * s -> max_load (mesh_links n s) (mesh_multicast_routes n s) = snd (impl_mesh_multicast n s)).
Proof. intros n s. split; [apply mesh_multicast_total|apply mesh_multicast_max]. Qed.
Print Assumptions C30_mesh_multicast.

(* mesh, distinct values on shortest line routes: 2*total = n(n-1)s; the first link carries n-1 values *)
Theorem C30_mesh_unicast : forall n s,
  2 * total_hops (mesh_unicast_routes n s) = fst (impl_mesh_unicast2 n s) /\
  (0 < s -> 2 <= n -> max_load (mesh_links n s) (mesh_unicast_routes n s) = snd (impl_mesh_unicast2 n s)).
Proof. intros n s. split; [apply mesh_unicast_total2|apply mesh_unicast_max]. Qed.
Print Assumptions C30_mesh_unicast.

(* switch: n-1 deliveries of one hop each; multicast loads every link once, unicast loads the uplink n-1 times *)
Theorem C30_switch : forall n, 2 <= n ->
  switch_deliveries n = fst (impl_switch_multicast n) /\ switch_deliveries n = fst (impl_switch_unicast n) /\
  switch_max n (switch_load_multicast n) = snd (impl_switch_multicast n) /\
  switch_max n (switch_load_unicast n) = snd (impl_switch_unicast n).
Proof. intros n Hn. repeat split; [apply switch_max_multicast|apply switch_max_unicast]; exact Hn. Qed.
Print Assumptions C30_switch.

(* degenerate fanout 1 (finding F6): no link exists, route enumeration gives maximum traffic 0,
   the closed form reports 1 x volume *)
Theorem C30_fanout1_refuted : forall s,
  max_load (mesh_links 1 s) (mesh_multicast_routes 1 s) = 0 /\ snd (impl_mesh_multicast 1 s) = 1 /\
  switch_max 1 (switch_load_multicast 1) = 0 /\ snd (impl_switch_multicast 1) = 1.
Proof. intros s. repeat split. Qed.
Print Assumptions C30_fanout1_refuted.
