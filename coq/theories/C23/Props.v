(* C23 — property theorems only. *)
From Coq Require Import List Arith Bool.
Import ListNotations.
From AF Require Import C23.Model C23.Proofs.

(* Round trip: any string that, once its whitespace is removed, is the concise rendering of a
   well-formed Einsum e (any number >= 1 of inputs, any number >= 1 of rank entries per tensor,
   shorthand `m` and `Rank: expression` entries, any non-word separator text between, before and after
   the input tensors) parses to exactly the verbose form of e: same tensor names in the same order,
   same rank -> expression projections, inputs flagged non-output, the left-hand tensor flagged output. *)
Theorem C23_roundtrip : forall e s, einsum_ok e = true -> strip_ws s = pr_einsum e -> parse_einsum s = Some (norm e).
Proof. exact roundtrip. Qed.
Print Assumptions C23_roundtrip.

(* whitespace anywhere (also inside names and expressions) never changes the result *)
Theorem C23_whitespace_irrelevant : forall s s', strip_ws s = strip_ws s' -> parse_einsum s = parse_einsum s'.
Proof. exact whitespace_irrelevant. Qed.
Print Assumptions C23_whitespace_irrelevant.

(* rejections *)
Theorem C23_reject_eq_count : forall s, count_char EQ (strip_ws s) <> 1 -> parse_einsum s = None.
Proof. exact reject_eq_count. Qed.
Print Assumptions C23_reject_eq_count.

Theorem C23_reject_empty_projection : parse_projection [] = None.
Proof. reflexivity. Qed.
Print Assumptions C23_reject_empty_projection.

(* a rank given twice in one tensor, in either spelling (`M: x` / `m`), anywhere in the projection *)
Theorem C23_reject_duplicate_rank : forall es1 en1 es2 en2 es3,
  forallb entry_ok (es1 ++ en1 :: es2 ++ en2 :: es3) = true -> str_eqb (key_of en1) (key_of en2) = true ->
  parse_projection (pr_proj (es1 ++ en1 :: es2 ++ en2 :: es3)) = None.
Proof. exact reject_duplicate. Qed.
Print Assumptions C23_reject_duplicate_rank.

(* an entry that is empty / upper-case shorthand / lower-case rank key / has two colons poisons the projection
   wherever it stands *)
Theorem C23_reject_bad_entry : forall pre bad post d0,
  (forall d, parse_part d bad = None) ->
  fold_left (fun acc part => match acc with Some d => parse_part d part | None => None end) (pre ++ bad :: post) d0 = None.
Proof. exact reject_bad_entry. Qed.
Print Assumptions C23_reject_bad_entry.

Theorem C23_bad_entries : forall d,
  parse_part d [] = None
  /\ (forall c t, is_upper c = true -> existsb (Nat.eqb COLON) (c :: t) = false -> parse_part d (c :: t) = None)
  /\ (forall c t v, is_lower c = true -> noc COLON (c :: t) = true -> noc COLON v = true -> parse_part d ((c :: t) ++ COLON :: v) = None)
  /\ (forall a b c, noc COLON a = true -> noc COLON b = true -> parse_part d (a ++ COLON :: b ++ COLON :: c) = None).
Proof.
  intro d. split; [apply bad_empty|]. split; [apply bad_upper_shorthand|]. split; [apply bad_lower_key|apply bad_two_colons].
Qed.
Print Assumptions C23_bad_entries.
