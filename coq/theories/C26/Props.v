(* C26 — property theorems only. *)
From AF Require Import Base.Tactics Lib.ArchTree C26.Model C26.Proofs.
Open Scope Z_scope.

(* Every component is reported exactly once, and its instance count is its own fanout times
   the fanouts of the non-compute leaves above it on its path (forks that do not contain it
   pruned) — for every tree with distinct names, fanouts on any node. *)
Theorem C26_totals : forall f, NoDup (map ln (leavesF f)) ->
  map fst (impl_totals f) = leavesF f /\
  forall l g, In (l, g) (impl_totals f) -> g = spec_instances l f.
Proof. intros f H. split; [apply totals_complete|intros l g; apply totals_correct, H]. Qed.
Print Assumptions C26_totals.

(* hence total area / leak = per-instance value x instances, and the architecture total is their sum *)
Theorem C26_arch_total : forall (per_instance : leaf -> Z) f, NoDup (map ln (leavesF f)) ->
  fold_right Z.add 0 (map (fun lg => per_instance (fst lg) * snd lg) (impl_totals f)) =
  fold_right Z.add 0 (map (fun lg => per_instance (fst lg) * spec_instances (fst lg) f) (impl_totals f)).
Proof.
  intros pi f H. f_equal. apply map_ext_in. intros [l g] Hin. simpl. rewrite (totals_correct f l g H Hin). reflexivity.
Qed.
Print Assumptions C26_arch_total.

(* the unrepaired traversal (own fanout never multiplied, computes pushed as parents) violates
   the property: MainMemory; Scalar(compute, x4); GlobalBuffer(x3); PEs(container, x5); MAC(compute, x2) *)
Definition f2_arch : forest :=
  FCons (ALeaf (mkleaf KMem 0 1)) (FCons (ALeaf (mkleaf KComp 1 4)) (FCons (ALeaf (mkleaf KMem 2 3))
  (FCons (ALeaf (mkleaf KCont 3 5)) (FCons (ALeaf (mkleaf KComp 4 2)) FNil)))).
Theorem C26_unrepaired_refuted :
  map snd (fst (iterF_old [] f2_arch)) = [1; 1; 4; 12; 60] /\
  map (fun l => spec_instances l f2_arch) (leavesF f2_arch) = [1; 4; 3; 15; 30] /\
  map snd (impl_totals f2_arch) = [1; 4; 3; 15; 30].
Proof. vm_compute. repeat split; reflexivity. Qed.
Print Assumptions C26_unrepaired_refuted.
