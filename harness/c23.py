"""C23 — concise Einsum notation is equivalent to the verbose form."""
import json

import common
import gen_arch
from common import coq_list, coq_nat

TRUSTED = [
    "modelled: _parse_einsum_string, _parse_projection (whitespace removal, single '=', the tensor regex as a left-to-right scan, shorthand m -> M:m, the rejections the code makes); "
    "Python's re engine is replaced by explicit scanning functions, tied by the correspondence on generated and malformed strings",
    "_parse_einsum_entry's attribute merge and pydantic TensorAccess construction are exercised by the correspondence only (not modelled)",
    "ASCII only; whitespace = space, tab, newline",
    "text between tensor terms on the right-hand side is ignored by the code's findall; junk separators are not treated as malformed (observation, DESIGN C23)",
]
LOW = "abcdefghijklmnopqrstuvwxyz"
UP = LOW.upper()


def ident(rng, first, n=3):
    return rng.choice(first) + "".join(rng.choice(LOW + UP + "0123456789_") for _ in range(rng.randint(0, n)))


def gen_einsum(rng):
    """structured Einsum: output + 1-4 inputs; each tensor has 1-4 rank entries: ('s', var) shorthand or ('k', Key, expr)"""
    names = set()

    def tensor():
        while True:
            n = ident(rng, LOW + UP + "_")
            if n not in names and n != "Total":
                names.add(n)
                break
        ranks, used = [], set()
        for _ in range(rng.randint(1, 4)):
            if rng.random() < 0.6:
                v = ident(rng, LOW, 2)
                if v.upper() in used or v.upper() in ("EQ", "NE", "LT", "GT", "LE", "GE", "NG", "NL", "AND", "OR"):
                    continue
                used.add(v.upper())
                ranks.append(("s", v))
            else:
                k = ident(rng, UP, 2)
                if k in used or k in ("EQ", "NE", "LT", "GT", "LE", "GE", "NG", "NL", "AND", "OR"):
                    continue
                used.add(k)
                a, b = ident(rng, LOW, 1), ident(rng, LOW, 1)
                expr = rng.choice([a, f"{a}+{b}", f"2*{a}+{b}", f"{a}*{rng.randint(1, 3)}+{rng.randint(0, 2)}", f"({a}+{b})*2"])
                ranks.append(("k", k, expr))
        if not ranks:
            ranks = [("s", "m")]
        return n, ranks
    out = tensor()
    ins = [tensor() for _ in range(rng.randint(1, 4))]
    if rng.random() < 0.15:
        # in-place update: the output tensor also appears as an input (possibly with another projection)
        k = rng.randrange(len(ins))
        ins[k] = (out[0], out[1] if rng.random() < 0.5 else ins[k][1])
    return {"out": out, "ins": ins}


def ws(rng):
    return rng.choice(["", "", " ", "  ", "\t", "\n "])


SEPS = ["*", "*", "+", "", " ", " * ", "-", " . ", "@", " ** "]


def render(rng, e):
    """returns (string, separators before each input, trailing text) — separators never contain word characters or '='"""
    def ranks(rs):
        parts = []
        for r in rs:
            if r[0] == "s":
                parts.append(ws(rng) + r[1] + ws(rng))
            else:
                # whitespace also inside the expression (it is removed by the parser)
                expr = "".join(c + (" " if rng.random() < 0.2 else "") for c in r[2])
                parts.append(ws(rng) + r[1] + ws(rng) + ":" + ws(rng) + expr + ws(rng))
        return ",".join(parts)

    def tens(t):
        return t[0] + ws(rng) + "[" + ranks(t[1]) + "]"
    seps = [rng.choice(["", "", " ", "+"])] + [ws(rng) + rng.choice(SEPS) + ws(rng) for _ in e["ins"][1:]]
    tail = rng.choice(["", "", " ", " ;", "."])
    rhs = "".join(sp + tens(t) for sp, t in zip(seps, e["ins"]))
    return ws(rng) + tens(e["out"]) + ws(rng) + "=" + ws(rng) + rhs + tail + ws(rng), seps, tail


def coq_einsum(e, seps, tail):
    def codes(s):
        return coq_list([ord(c) for c in s if not c.isspace()], coq_nat)

    def entry(r):
        return f"Short {codes(r[1])}" if r[0] == "s" else f"Keyed {codes(r[1])} {codes(r[2])}"

    def tens(t):
        return f"({codes(t[0])}, {coq_list([entry(r) for r in t[1]])})"
    ins = coq_list([f"({codes(sp)}, {tens(t)})" for sp, t in zip(seps, e["ins"])])
    return f"(mkE {tens(e['out'])} {ins} {codes(tail)})"


def expected(e):
    def proj(rs):
        return {(r[1].upper() if r[0] == "s" else r[1]): (r[1] if r[0] == "s" else r[2]) for r in rs}
    return e["out"][0], [(t[0], proj(t[1]), False) for t in e["ins"]] + [(e["out"][0], proj(e["out"][1]), True)]


def verbose(e):
    def proj(rs):
        if all(r[0] == "s" for r in rs):
            return [r[1] for r in rs]
        return {(r[1].upper() if r[0] == "s" else r[1]): (r[1] if r[0] == "s" else r[2]) for r in rs}
    # a tensor that occurs on both sides (in-place update) is ONE access: the entry keeps the position of its first occurrence
    # and carries the left-hand side's projection and the output flag (the concise entry is merged by tensor name)
    acc = {}
    for t in e["ins"]:
        acc[t[0]] = {"name": t[0], "projection": proj(t[1])}
    acc[e["out"][0]] = {"name": e["out"][0], "projection": proj(e["out"][1]), "output": True}
    return {"name": e["out"][0], "tensor_accesses": list(acc.values())}


MALFORMED = [
    ("no equals", lambda s: s.replace("=", " ", 1)),
    ("two equals", lambda s: s.replace("=", "==", 1)),
    ("lhs without brackets", lambda s: s[s.index("]") + 1:] if False else "Out" + s[s.index("="):]),
    ("no input tensor", lambda s: s[: s.index("=") + 1] + " x + y"),
    ("empty rhs", lambda s: s[: s.index("=") + 1] + "  "),
    ("empty projection", lambda s: s[: s.index("[") + 1] + " " + s[s.index("]"):]),
    ("empty entry", lambda s: s[: s.index("]")] + ", " + s[s.index("]"):]),
    ("uppercase shorthand", lambda s: s[: s.index("[") + 1] + "M, " + s[s.index("[") + 1:]),
    ("lowercase rank key", lambda s: s[: s.index("[") + 1] + "m: x, " + s[s.index("[") + 1:]),
    ("duplicate rank key", lambda s: s[: s.index("[") + 1] + "Zq: x, Zq: y, " + s[s.index("[") + 1:]),
    ("duplicate shorthand", lambda s: s[: s.index("[") + 1] + "zq, zq, " + s[s.index("[") + 1:]),
    ("key then same shorthand", lambda s: s[: s.index("[") + 1] + "ZQ: x, zq, " + s[s.index("[") + 1:]),
    ("two colons", lambda s: s[: s.index("[") + 1] + "Zq: x: y, " + s[s.index("[") + 1:]),
    ("operator word as rank", lambda s: s[: s.index("[") + 1] + "and, " + s[s.index("[") + 1:]),
    ("digit-first shorthand", lambda s: s[: s.index("[") + 1] + "1a, " + s[s.index("[") + 1:]),
    ("empty string", lambda s: "   "),
]


def to_codes(s):
    return coq_list([ord(c) for c in s], coq_nat)


def dec(x):
    return "".join(chr(c) for c in x)


def run(ck):
    af = gen_arch.load()
    from accelforge.frontend.workload import Einsum, _parse_einsum_entry, _parse_einsum_string
    ck.prove()
    rng = ck.rng("einsums")
    strings = []   # (string, expected or None (must be rejected), label)
    for _ in range(ck.n(300, 8000)):
        e = gen_einsum(rng)
        s, seps, tail = render(rng, e)
        strings.append((s, expected(e), "valid", (e, seps, tail)))
        if rng.random() < 0.6:
            lab, f = rng.choice(MALFORMED)
            try:
                strings.append((f(s), None, lab, None))
            except ValueError:
                pass
    dist = {}
    exprs, keys, dom = [], [], []
    for s, exp, lab, tup in strings:
        e = tup[0] if tup else None
        dist[lab] = dist.get(lab, 0) + 1
        try:
            p = _parse_einsum_string(s)
            got = (p["name"], [(t["name"], dict(t["projection"]), bool(t["output"])) for t in p["tensor_accesses"]])
        except ValueError:
            got = None
        except Exception as ex:  # noqa
            got = f"EXC {type(ex).__name__}: {ex}"
        ck.case(s, nontrivial=True, sample={"string": s, "kind": lab} if lab != "valid" or len(s) < 60 else None)
        bad = None
        if exp is None:
            if got is not None and not isinstance(got, str):
                bad = f"malformed string ({lab}) was accepted"
            elif isinstance(got, str):
                bad = f"malformed string ({lab}) raised {got} instead of ValueError"
        else:
            if got != exp:
                bad = "concise string does not parse to the Einsum it was printed from"
            else:
                # through the public entry points: concise entry + extra attributes vs verbose form
                try:
                    extra = {"name": e["ins"][0][0], "persistent": True}
                    vi = [x["name"] for x in verbose(e)["tensor_accesses"]].index(e["ins"][0][0])
                    ec = Einsum(**_parse_einsum_entry({"einsum": s, "tensor_accesses": [extra]}))
                    v = verbose(e)
                    v["tensor_accesses"][vi]["persistent"] = True
                    evb = Einsum(**v)
                    a = [(t.name, dict(t.projection), t.output, t.persistent) for t in ec.tensor_accesses]
                    b = [(t.name, dict(t.projection), t.output, t.persistent) for t in evb.tensor_accesses]
                    if a != b or ec.name != evb.name:
                        bad = f"concise and verbose Einsum objects differ: {a} vs {b}"
                    # extras that contradict what the string fixed (output flag / projection of an input) must be rejected or ignored, never applied
                    tgt = [t for t in e["ins"] if t[0] != e["out"][0]]
                    if not bad and tgt:
                        for conflict in ({"name": tgt[0][0], "output": True}, {"name": tgt[0][0], "projection": {"Zz9": "q"}}):
                            try:
                                e2 = Einsum(**_parse_einsum_entry({"einsum": s, "tensor_accesses": [conflict]}))
                                a2 = [(t.name, dict(t.projection), t.output) for t in e2.tensor_accesses]
                                b2 = [(t.name, dict(t.projection), t.output) for t in evb.tensor_accesses]
                                if a2 != b2:
                                    bad = f"extra attributes {conflict} changed what the string defines: {a2} vs {b2}"
                            except Exception:  # noqa
                                pass
                except Exception as ex:  # noqa
                    bad = f"building the Einsum failed: {type(ex).__name__}: {ex}"
        if bad:
            ck.failing_input({"string": s, "kind": lab, "impl": str(got), "expected": str(exp), "why": bad}, what="einsum notation: " + bad)
        exprs.append(f"(match parse_einsum {to_codes(s)} with Some (n, l) => (true, n, map (fun t => (ta_name t, ta_proj t, ta_out t)) l) | None => (false, [], []) end)")
        keys.append((s, got))
        if exp is not None:
            E = coq_einsum(*tup)
            dom.append(f"(let E := {E} in einsum_ok E && str_eqb (strip_ws {to_codes(s)}) (pr_einsum E) && match parse_einsum {to_codes(s)} with Some r => true | None => false end)")
    B = 20
    vals = [v for b in common.run_coq_eval("C23", ["AF.C23.Model"], ["[" + "; ".join(exprs[k:k + B]) + "]" for k in range(0, len(exprs), B)], chunk=10) for v in b]
    mism = []
    for (s, got), m in zip(keys, vals):
        ok, n, l = m
        mg = (dec(n), [(dec(t[0]), {dec(k): dec(v) for k, v in t[1]}, t[2]) for t in l]) if ok else None
        g = got if not isinstance(got, str) else None
        if mg != g:
            mism.append({"string": s, "impl": str(got), "model": str(mg)})
    # every generated valid case lies in the domain of C23_roundtrip (hypotheses evaluated inside Coq)
    dvals = [v for b in common.run_coq_eval("C23", ["AF.C23.Model", "AF.C23.Proofs"], ["[" + "; ".join(dom[k:k + B]) + "]" for k in range(0, len(dom), B)], chunk=10, tag="dom") for v in b]
    ck.count("valid_cases_in_theorem_domain", sum(1 for v in dvals if v))
    ck.count("valid_cases_outside_theorem_domain", sum(1 for v in dvals if not v))
    ck.count("model_vs_impl_compared", len(keys))
    ck.count("model_vs_impl_mismatches", len(mism))
    if mism and not ck.violations:
        ck.unexplained("broken-correspondence", {"mismatches": mism[:3]}, what="model parse != _parse_einsum_string")
    return ck.finish(
        rule="random Einsums (1-4 inputs, 1-4 rank entries each, shorthand and 'Rank: expression' entries, random whitespace incl. inside expressions, random separators) "
             "printed as concise strings and built verbosely; 60% also mutated into one of 16 malformed classes; non-trivial = every case",
        trusted=TRUSTED,
        extra={"input_distribution": dist,
               "source_fingerprint": [common.fingerprint("accelforge/frontend/workload.py", ["_parse_einsum_string", "_parse_projection", "_parse_einsum_entry", "_projection_factory"])]})


def replay(ck, data):
    gen_arch.load()
    from accelforge.frontend.workload import _parse_einsum_string
    try:
        p = _parse_einsum_string(data["string"])
        got = str((p["name"], [(t["name"], dict(t["projection"]), bool(t["output"])) for t in p["tensor_accesses"]]))
    except ValueError:
        got = "None"
    if got != data["expected"]:
        print("VIOLATION property=C23 replay=<replayed>")
        return 1
    print("replay: property holds on this input now")
    return 0
