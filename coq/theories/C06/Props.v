(* C06 — property theorems only (single-Einsum mappings; the fused case is correspondence-only and listed as partial). *)
From Coq Require Import ZArith QArith List Bool Lia.
Import ListNotations.
From AF Require Import Lib.MiniForge C05.Proofs C06.Model C06.Proofs.
Open Scope Z_scope.

(* when no holder's run of relevant loops is cut by another tensor's holder node, the usage accelforge reports for every
   memory is exactly the execution-time peak of the live tiles *)
Theorem C06_single : forall tensors bpv m s lvl, all_clean tensors m = true ->
  usage_code tensors bpv m s lvl = usage_ref tensors bpv m s lvl.
Proof. intros. unfold usage_code, usage_ref. rewrite clean_resv by assumption. reflexivity. Qed.
Print Assumptions C06_single.

(* in every valid mapping the reported usage is never below the live peak: an accepted mapping really fits *)
Theorem C06_never_under_reports : forall tensors bpv m s lvl,
  (forall l t, 0 <= bpv l t) -> Forall (fun x => 0 < x) s -> valid_loops m s = true ->
  usage_ref tensors bpv m s lvl <= usage_code tensors bpv m s lvl.
Proof. intros. unfold usage_code, usage_ref. apply bits_in_mono; [assumption|]. apply resv_ref_le_code; assumption. Qed.
Print Assumptions C06_never_under_reports.

(* over-subscription is rejected, and only over-subscription *)
Theorem C06_reject : forall tensors bpv sizes m s,
  accepted tensors bpv sizes m s = false <->
  exists lvl sz, (lvl < length sizes)%nat /\ nth lvl sizes None = Some sz /\ sz < usage_code tensors bpv m s lvl.
Proof.
  intros. unfold accepted. split.
  - intro H. apply not_true_iff_false in H. rewrite forallb_forall in H.
    assert (E : exists lvl, In lvl (seq 0 (length sizes)) /\
                 match nth lvl sizes None with None => true | Some sz => usage_code tensors bpv m s lvl <=? sz end = false).
    { revert H. generalize (seq 0 (length sizes)). intro L. induction L as [|x L IH]; intro H; [exfalso; apply H; intros ? []|].
      destruct (match nth x sizes None with None => true | Some sz => usage_code tensors bpv m s x <=? sz end) eqn:E.
      - destruct IH as [l [Hl El]]; [intro G; apply H; intros y [<-|Hy]; [exact E|apply G, Hy]|]. exists l. split; [right; exact Hl|exact El].
      - exists x. split; [left; reflexivity|exact E]. }
    destruct E as [lvl [Hin E]]. apply in_seq in Hin. destruct (nth lvl sizes None) as [sz|] eqn:N; [|discriminate].
    exists lvl, sz. apply Z.leb_gt in E. split; [lia|]. split; [exact N|lia].
  - intros [lvl [sz [Hl [N Hlt]]]]. apply not_true_iff_false. intro H. rewrite forallb_forall in H.
    specialize (H lvl ltac:(apply in_seq; lia)). rewrite N in H. apply Z.leb_le in H. lia.
Qed.
Print Assumptions C06_reject.

(* FINDING F9: the unchanged code's report depends on the order in which two adjacent holder nodes are written, and
   exceeds the live peak: matmul M=4,K=6,N=2, [MainMemory A,B,C; for m(2); GLB A; GLB B; for k(3); ...] reports 15 values,
   the same schedule written [ ...; GLB B; GLB A; ...] reports 18, the live peak is 9 *)
Definition w_ts := [mkT [true; true; false] false; mkT [false; true; true] false; mkT [true; false; true] true].
Definition w_m1 := [Sto 0 0; Sto 0 1; Sto 0 2; Loop 0 2; Sto 1 0; Sto 1 1; Loop 1 3; Loop 2 1; Loop 0 1; Loop 1 1].
Definition w_m2 := [Sto 0 0; Sto 0 1; Sto 0 2; Loop 0 2; Sto 1 1; Sto 1 0; Loop 1 3; Loop 2 1; Loop 0 1; Loop 1 1].
Theorem C06_order_dependent_refuted :
  usage_code w_ts (fun _ _ => 1) w_m1 [4; 6; 2] 1 = 15 /\ usage_code w_ts (fun _ _ => 1) w_m2 [4; 6; 2] 1 = 18
  /\ usage_ref w_ts (fun _ _ => 1) w_m1 [4; 6; 2] 1 = 9 /\ usage_ref w_ts (fun _ _ => 1) w_m2 [4; 6; 2] 1 = 9.
Proof. vm_compute. repeat split; reflexivity. Qed.
Print Assumptions C06_order_dependent_refuted.
