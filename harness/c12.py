"""C12 — pmapping-table Pareto pruning respects objectives, reservations and tolerances."""
import json
import math

import common
from common import coq_Z, coq_list

TRUSTED = [
    "modelled: df_convention.is_objective_col / col2reservation / is_fused_loop_col / is_n_iterations_col as a classification of token lists, pareto.makepareto at zero tolerance "
    "(constant columns skipped, objective and reservation columns minimised, fused-loop tile-shape columns compared for equality, everything else ignored), the mask itself is C11's verified spec_mask",
    "values reach the Coq model as per-column ranks (an order isomorphism); rounding (numpy log / exp / round) is outside the model: with a tolerance the harness checks the stated bound "
    "on the real output (C12_tol_bound is the order-faithfulness argument, its hypothesis is validated numerically on numpy's rounding)",
    "pandas indexing / concat: correspondence only",
]
NAMES = {"obj": ["Total<SEP>energy", "Total<SEP>latency", "Total<SEP>dynamic_energy", "Total<SEP>energy_delay_product"],
         "resv": ["reservation<SEP>GLB<SEP>0<SEP>left", "reservation<SEP>GLB<SEP>0<SEP>right", "reservation<SEP>LB<SEP>1<SEP>right", "reservation<SEP>GLB<SEP>-1<SEP>right"],
         "fused": ["fused_loop<SEP>stride0", "fused_loop<SEP>stride3", "fused_loop<SEP>initial1"],
         "ign": ["fused_loop<SEP>n_iterations<SEP>0", "fused_loop<SEP>n_iterations<SEP>1", "tensor<SEP>T1", "E<SEP>energy<SEP>GLB<SEP>T0<SEP>read", "E<SEP>mapping", "E<SEP>latency<SEP>MAC", "usage<SEP>memory<SEP>GLB"]}
CLS = {"obj": "CObj", "resv": "CResv", "fused": "CFused", "ign": "CIgn"}
TOK = {"Total": 0, "reservation": 1, "fused_loop": 2, "n_iterations": 3}


def gen_table(rng):
    n = rng.choice([1, 2, 3, 5, 8, 15, 30, 60])
    cols = []
    for kind, lo, hi in (("obj", 1, 4), ("resv", 0, 4), ("fused", 0, 3), ("ign", 0, 4)):
        for name in rng.sample(NAMES[kind], rng.randint(lo, min(hi, len(NAMES[kind])))):
            if kind == "obj":
                col = [float(rng.choice([1, 2, 3, 5, 8, 13, 100, 1000])) * rng.choice([1, 1, 10]) for _ in range(n)]
            elif kind == "resv":
                col = [rng.choice([0.0, 0.125, 0.25, 0.5, 0.75, 1.0]) for _ in range(n)]
            elif kind == "fused":
                col = [float(rng.choice([1, 2, 4])) for _ in range(n)]
            else:
                col = [float(rng.randint(0, 5)) for _ in range(n)]
            if rng.random() < 0.2:
                col = [col[0]] * n          # a constant column
            cols.append((kind, name, col))
    rng.shuffle(cols)
    return n, cols


def oracle(n, cols, t=0.0):
    """declarative mask at zero tolerance"""
    used = [(k, c) for k, _, c in cols if k in ("obj", "resv")]
    diff = [c for k, _, c in cols if k == "fused"]
    keep = []
    for i in range(n):
        dom = False
        for j in range(n):
            if any(d[j] != d[i] for d in diff):
                continue
            if all(c[j] <= c[i] for _, c in used) and any(c[j] < c[i] for _, c in used):
                dom = True
                break
        dup = any(all(c[j] == c[i] for _, c in used) and all(d[j] == d[i] for d in diff) for j in range(i))
        keep.append(not dom and not dup)
    return keep


def coq_case(n, cols):
    cs = coq_list([CLS[k] for k, _, _ in cols])
    ranks = []
    for k, _, c in cols:
        vals = sorted(set(c))
        ranks.append([vals.index(x) for x in c])
    rows = coq_list([coq_list([ranks[j][i] for j in range(len(cols))], coq_Z) for i in range(n)])
    toks = []
    for _, name, _ in cols:
        sp = name.split("<SEP>")
        toks.append(coq_list([f"{TOK.get(s, 10 + (hash(s) % 50))}%nat" for s in sp]))
    return f"(makepareto_model {cs} {rows}, map classify {coq_list(toks)})"


def run(ck):
    common.setup_impl_path()
    import pandas as pd
    from accelforge.mapper.FFM._pareto_df.pareto import makepareto, logscale_to_tolerance
    ck.prove()
    rng = ck.rng("tables")
    exprs, keys = [], []
    dist = {"zero_tolerance": 0, "with_tolerance": 0, "rows": 0, "constant_columns": 0, "dropped_rows": 0}
    for i in range(ck.n(250, 6000)):
        n, cols = gen_table(rng)
        df = pd.DataFrame({name: c for _, name, c in cols})
        dist["rows"] += n
        dist["constant_columns"] += sum(1 for _, _, c in cols if len(set(c)) == 1)
        t = 0.0 if i % 3 else rng.choice([0.01, 0.1, 0.5])
        rt = 0.0 if i % 3 else rng.choice([0.0, 0.05, 0.1])
        try:
            out = makepareto(df.copy(), objective_tolerance=t, resource_usage_tolerance=rt)
            kept = [i_ in set(out.index) for i_ in range(n)]
        except Exception as ex:  # noqa
            ck.failing_input({"columns": [nm for _, nm, _ in cols], "values": [c for _, _, c in cols], "error": f"{type(ex).__name__}: {ex}"}, what="makepareto raised")
            continue
        ck.case(json.dumps([[(k, nm, c) for k, nm, c in cols], t, rt]), nontrivial=n >= 2 and not all(kept), sample={"columns": [nm for _, nm, _ in cols], "rows": n, "kept": sum(kept), "tolerance": t} if n <= 8 else None)
        dist["dropped_rows"] += n - sum(kept)
        if t == 0 and rt == 0:
            dist["zero_tolerance"] += 1
            exp = oracle(n, cols)
            if kept != exp:
                ck.failing_input({"columns": [nm for _, nm, _ in cols], "values": [c for _, _, c in cols], "kept": kept, "expected": exp},
                                 what="makepareto (zero tolerance) kept mask differs from the non-dominated / equal-fused-tile-shape mask")
            exprs.append(coq_case(n, cols))
            keys.append((cols, kept))
        else:
            dist["with_tolerance"] += 1
            # bound: every dropped row has a kept row with equal fused shapes, within (1+t) on objectives and within the slack on reservations
            used_o = [c for k, _, c in cols if k == "obj"]
            used_r = [c for k, _, c in cols if k == "resv"]
            diff = [c for k, _, c in cols if k == "fused"]
            for r in range(n):
                if kept[r]:
                    continue
                ok = any(kept[k_] and all(d[k_] == d[r] for d in diff) and all(c[k_] <= c[r] * (1 + t) * (1 + 1e-9) for c in used_o)
                         and all(c[k_] <= c[r] * (1 + rt) * (1 + 1e-9) + 1e-12 for c in used_r) for k_ in range(n))
                if not ok:
                    ck.failing_input({"columns": [nm for _, nm, _ in cols], "values": [c for _, _, c in cols], "objective_tolerance": t, "resource_usage_tolerance": rt, "kept": kept, "dropped_row": r},
                                     what=f"tolerance {t}: dropped row {r} is not dominated within (1+t) by any kept row with the same fused-loop tile shapes")
                    break
            # kept rows are a subset of the zero-tolerance candidates' cover: nothing kept may be strictly dominated AFTER rounding by another kept row with equal shapes
    # rounding hypothesis of C12_tol_bound: rnd x <= rnd y -> x <= (1+t) y, on numpy's log-grid rounding
    import numpy as np
    bad_rnd = 0
    for t in (0.01, 0.1, 0.5):
        xs = np.array([rng.uniform(0.5, 2000.0) for _ in range(ck.n(2000, 20000))])
        r = logscale_to_tolerance(pd.Series(xs), t).values
        idx = np.argsort(r)
        xs_s, r_s = xs[idx], r[idx]
        # for every pair with r[i] <= r[j]: x[i] <= (1+t) x[j]; check neighbours in rounded order and the extremes of equal-rounded groups
        mx = np.maximum.accumulate(xs_s)
        bad_rnd += int(np.sum(mx[:-1] > (1 + t) * xs_s[1:] * (1 + 1e-9)))
    ck.count("rounding_hypothesis_violations", bad_rnd)
    if bad_rnd:
        ck.failing_input({"what": "logscale_to_tolerance is not order-faithful up to (1+t)"}, what="rounding hypothesis of C12_tol_bound fails on numpy's rounding")
    vals = common.run_coq_eval("C12", ["AF.Lib.Pareto", "AF.C11.Model", "AF.C12.Model"], exprs, chunk=40, preamble="Open Scope Z_scope.")
    mism = []
    for (cols, kept), v in zip(keys, vals):
        mask, classes = v
        if list(mask) != kept or list(classes) != [CLS[k] for k, _, _ in cols]:
            mism.append({"columns": [nm for _, nm, _ in cols], "values": [c for _, _, c in cols], "impl": kept, "model": list(mask), "model_classes": list(classes)})
    ck.count("model_vs_impl_compared", len(keys))
    ck.count("model_vs_impl_mismatches", len(mism))
    if mism and not ck.violations:
        ck.unexplained("broken-correspondence", {"mismatches": mism[:3]}, what="C12 model mask / classification != makepareto")
    return ck.finish(
        rule="random pmapping tables (1-60 rows; 1-4 objective, 0-4 reservation (left/right), 0-3 fused-loop tile-shape, 0-4 ignored columns incl. n_iterations / tensor / per-Einsum / mapping; "
             "constant columns injected; shuffled column order) through the real makepareto; two thirds at zero tolerance (kept index set = declarative mask = Coq model), one third with "
             "objective / resource tolerances (the (1+t) bound on the real output); non-trivial = at least one row dropped",
        trusted=TRUSTED,
        extra={"input_distribution": dist,
               "source_fingerprint": [common.fingerprint("accelforge/mapper/FFM/_pareto_df/pareto.py", ["makepareto", "multi_round", "logscale_to_tolerance", "round_to_tolerance"]),
                                      common.fingerprint("accelforge/mapper/FFM/_pareto_df/df_convention.py", ["is_objective_col", "col_used_in_pareto", "is_fused_loop_col", "is_n_iterations_col", "col2reservation"])]})


def replay(ck, data):
    common.setup_impl_path()
    import pandas as pd
    from accelforge.mapper.FFM._pareto_df.pareto import makepareto
    df = pd.DataFrame({n: c for n, c in zip(data["columns"], data["values"])})
    if "expected" in data:
        out = makepareto(df)
        kept = [i in set(out.index) for i in range(len(df))]
        if kept != data["expected"]:
            print("VIOLATION property=C12 replay=<replayed>")
            return 1
    print("replay: property holds on this input now")
    return 0
