(* C13 — property theorems only. *)
From AF Require Import Base.Tactics Lib.Pareto Lib.Front Lib.Join C13.Model.
Open Scope Z_scope.

(* Joining any number of pmapping tables step by step - every table Pareto-pruned inside each compatibility group, the
   partial result pruned again after every step - emits only rows that the exhaustive combination (one row per table,
   keys compatible along the join order, combined vector within capacity) also contains, and covers every such
   combination key by key; hence the two Pareto fronts coincide.  Holds for any key-compatibility function, any
   monotone combination of vectors and any downward-closed capacity test. *)
Theorem C13_staged_is_exhaustive : forall compat comb fits,
  (forall a a' b b', vle a a' = true -> vle b b' = true -> vle (comb a b) (comb a' b') = true) ->
  (forall a b, vle a b = true -> fits b = true -> fits a = true) ->
  forall T1 rest,
    incl (staged compat comb fits T1 rest) (exhaustive compat comb fits T1 rest)
    /\ covers (staged compat comb fits T1 rest) (exhaustive compat comb fits T1 rest)
    /\ forall f, In f (front (map rvec (staged compat comb fits T1 rest))) <-> In f (front (map rvec (exhaustive compat comb fits T1 rest))).
Proof.
  intros compat comb fits Hm Hf T1 rest. destruct (staged_exhaustive compat comb fits Hm Hf T1 rest) as [H1 H2].
  split; [exact H1|]. split; [exact H2|]. apply staged_front; assumption.
Qed.
Print Assumptions C13_staged_is_exhaustive.

(* incompatible pairs contribute nothing, compatible pairs within capacity contribute exactly their combination *)
Theorem C13_pair : forall compat comb fits a b x,
  In x (join compat comb fits [a] [b]) <->
  exists k, compat (key a) (key b) = Some k /\ fits (comb (rvec a) (rvec b)) = true /\ x = mkRow k (comb (rvec a) (rvec b)).
Proof.
  intros compat comb fits a b x. unfold join. cbn [flat_map]. rewrite !app_nil_r. unfold join1.
  destruct (compat (key a) (key b)) as [k|]; [|split; [intros []|intros [k [H _]]; discriminate]].
  destruct (fits _) eqn:F; split.
  - intros [<-|[]]. exists k. tauto.
  - intros [k' [E [_ ->]]]. injection E as <-. left. reflexivity.
  - intros [].
  - intros [k' [_ [H _]]]. discriminate.
Qed.
Print Assumptions C13_pair.

(* the concrete instance (summed objectives, max reservation, capacity) satisfies the two hypotheses, so the equality is
   unconditional for it *)
Theorem C13_instance : forall compat cap T1 rest f,
  In f (front (map rvec (staged compat comb3 (fits3 cap) T1 rest))) <-> In f (front (map rvec (exhaustive compat comb3 (fits3 cap) T1 rest))).
Proof. intros. apply staged_front; [exact comb3_mono|exact (fits3_down cap)]. Qed.
Print Assumptions C13_instance.
