(* C06 proofs. *)
From Coq Require Import ZArith QArith List Bool Lia.
Import ListNotations.
Require Import AF.Lib.MiniForge AF.C05.Proofs AF.C06.Model.
Open Scope Z_scope.

Section P.
  Variable tensors : list tensor.

  Lemma clean_lower t rest : forall s, clean tensors t rest = true -> lower_code tensors t rest s = lower_ref tensors t rest s.
  Proof.
    induction rest as [|nd rest IH]; intros s H; [reflexivity|]. destruct nd as [lvl t'|rv tile]; cbn [clean lower_code lower_ref] in *.
    - rewrite H. reflexivity.
    - destruct (nth rv (t_rel (tn tensors t)) false); [apply IH, H|reflexivity].
  Qed.

  Lemma clean_resv m : forall seen s, all_clean_from tensors seen m = true ->
    resv tensors (lower_code tensors) seen m s = resv tensors (lower_ref tensors) seen m s.
  Proof.
    induction m as [|nd m IH]; intros seen s H; [reflexivity|]. destruct nd as [lvl t|rv tile]; cbn [all_clean_from resv] in *.
    - apply andb_true_iff in H. destruct H as [H1 H2]. rewrite (IH _ _ H2).
      destruct (existsb (Nat.eqb t) seen); [|reflexivity]. cbn in H1. rewrite (clean_lower t m s H1). reflexivity.
    - apply IH, H.
  Qed.

  (* ---- the code never reserves less than the live peak *)
  Definition pos_le (a b : shape) : Prop := Forall2 (fun x y => 0 < x <= y) a b.

  Lemma pos_le_refl s : Forall (fun x => 0 < x) s -> pos_le s s.
  Proof. induction 1; constructor; [lia|assumption]. Qed.
  Lemma pos_le_trans a b c : pos_le a b -> pos_le b c -> pos_le a c.
  Proof.
    intro H. revert c. induction H as [|x y a b Hxy H IH]; intros c Hc; inversion Hc; subst; [constructor|].
    constructor; [lia|apply IH; assumption].
  Qed.
  Lemma set_nth_pos_le rv tile s : Forall (fun x => 0 < x) s -> 0 < tile -> tile <= nth rv s 1 -> pos_le (set_nth rv tile s) s.
  Proof.
    intro H. revert rv. induction H as [|x s Hx H IH]; intros rv Ht Hle; destruct rv; cbn [set_nth nth] in *; constructor; try lia.
    - apply pos_le_refl, H.
    - apply IH; assumption.
  Qed.
  Lemma set_nth_pos rv tile s : Forall (fun x => 0 < x) s -> 0 < tile -> Forall (fun x => 0 < x) (set_nth rv tile s).
  Proof.
    intro H. revert rv. induction H as [|x s Hx H IH]; intros rv Ht; destruct rv; cbn [set_nth]; constructor; auto.
  Qed.

  Lemma occupancy_mono rel : forall a b, pos_le a b -> 0 < occupancy rel a <= occupancy rel b.
  Proof.
    induction rel as [|r rel IH]; intros a b H; [cbn; lia|]. destruct H as [|x y a b Hxy H]; [cbn; lia|].
    cbn [occupancy]. specialize (IH a b H). destruct r; nia.
  Qed.

  Lemma valid_step rv tile rest s : valid_loops (Loop rv tile :: rest) s = true ->
    0 < tile /\ tile <= nth rv s 1 /\ valid_loops rest (set_nth rv tile s) = true.
  Proof.
    cbn [valid_loops]. intro H. apply andb_true_iff in H. destruct H as [H H4]. apply andb_true_iff in H. destruct H as [H _].
    apply andb_true_iff in H. destruct H as [H1 H2]. apply Z.ltb_lt in H1. apply Z.leb_le in H2. auto.
  Qed.

  Lemma lower_ref_le_s t rest : forall s, Forall (fun x => 0 < x) s -> valid_loops rest s = true -> pos_le (lower_ref tensors t rest s) s.
  Proof.
    induction rest as [|nd rest IH]; intros s Hs Hv; [apply pos_le_refl, Hs|]. destruct nd as [lvl t'|rv tile]; cbn [lower_ref].
    - destruct (Nat.eqb t' t); [apply pos_le_refl, Hs|]. apply IH; assumption.
    - destruct (valid_step _ _ _ _ Hv) as (H1 & H2 & H3).
      destruct (nth rv (t_rel (tn tensors t)) false); [|apply pos_le_refl, Hs].
      eapply pos_le_trans; [apply IH; [apply set_nth_pos; assumption|exact H3]|apply set_nth_pos_le; assumption].
  Qed.

  Lemma lower_ref_le_code t rest : forall s, Forall (fun x => 0 < x) s -> valid_loops rest s = true ->
    pos_le (lower_ref tensors t rest s) (lower_code tensors t rest s).
  Proof.
    induction rest as [|nd rest IH]; intros s Hs Hv; [apply pos_le_refl, Hs|]. destruct nd as [lvl t'|rv tile]; cbn [lower_ref lower_code].
    - destruct (Nat.eqb t' t); [apply pos_le_refl, Hs|]. apply lower_ref_le_s; assumption.
    - destruct (valid_step _ _ _ _ Hv) as (H1 & H2 & H3).
      destruct (nth rv (t_rel (tn tensors t)) false); [|apply pos_le_refl, Hs]. apply IH; [apply set_nth_pos; assumption|exact H3].
  Qed.

  (* reservations, holder by holder: same levels and tensors, live values <= reserved values *)
  Lemma resv_ref_le_code m : forall seen s, Forall (fun x => 0 < x) s -> valid_loops m s = true ->
    Forall2 (fun a b => fst a = fst b /\ 0 < snd a <= snd b)
            (resv tensors (lower_ref tensors) seen m s) (resv tensors (lower_code tensors) seen m s).
  Proof.
    induction m as [|nd m IH]; intros seen s Hs Hv; [constructor|]. destruct nd as [lvl t|rv tile]; cbn [resv].
    - cbn [valid_loops] in Hv. constructor; [|apply IH; assumption]. cbn [fst snd]. split; [reflexivity|].
      destruct (existsb (Nat.eqb t) seen); apply occupancy_mono; [apply lower_ref_le_code; assumption|apply pos_le_refl, Hs].
    - destruct (valid_step _ _ _ _ Hv) as (H1 & H2 & H3). apply IH; [apply set_nth_pos; assumption|exact H3].
  Qed.

  Lemma bits_in_mono bpv lvl a b : (forall l t, 0 <= bpv l t) ->
    Forall2 (fun x y : nat * nat * Z => fst x = fst y /\ 0 < snd x <= snd y) a b -> bits_in bpv lvl a <= bits_in bpv lvl b.
  Proof.
    intros Hb H. induction H as [|[[l t] v] [[l' t'] v'] a b [E Hv] H IH]; [cbn; lia|]. cbn [fst snd] in *. inversion E; subst.
    cbn [bits_in fold_right]. fold (bits_in bpv lvl a) (bits_in bpv lvl b). destruct (Nat.eqb l' lvl); [|exact IH].
    specialize (Hb l' t'). nia.
  Qed.
End P.
