"""C03 — every returned mapping is valid for the architecture and constraints."""
import json
import os

import common
import gen_mini as G
import mini_space as S
import mapper_ref as R
import c01
import c05

TRUSTED = c01.TRUSTED[:2] + [
    "every returned mapping (all rows, four metric sets, eval_in_detail on and off) is converted from the Mapping object to MiniForge nodes and checked by the verified checker "
    "AF.Lib.MiniSpace.in_space (vm_compute) and by its python twin, clause by clause; it is also re-evaluated with the real evaluate_mapping (which raises on over-subscription)",
    "loop-bound constraints, spatial fanouts and fused-loop limits are outside the modelled class (no such constraints are generated)",
]


def clauses(spec, m):
    """python twin of in_space, reporting the first failing clause"""
    nt, nl = len(spec["tensors"]), len(spec["levels"])
    shape = list(spec["bounds"])
    seen, cur = set(), 0
    body_started = False
    for n in m:
        if n[0] == "sto":
            _, l, t = n
            if (l, t) in seen:
                return f"tensor {t} is held twice in level {l}"
            seen.add((l, t))
            if l == 0:
                if body_started:
                    return "a level-0 holder appears below other nodes"
                continue
            body_started = True
            if l < cur:
                return f"holder of level {l} below a holder of level {cur} (memory hierarchy order)"
            cur = l
            if not spec["levels"][l]["may"][t]:
                return f"tensor {t} is not in may_keep of level {l}"
        else:
            body_started = True
            _, v, tile = n
            if not (0 < tile < shape[v]) or shape[v] % tile:
                return f"loop over variable {v} with tile {tile} does not properly divide extent {shape[v]}"
            shape[v] = tile
    if any(s != 1 for s in shape):
        return f"rank variables not fully iterated: extents left {shape}"
    for t in range(nt):
        if (0, t) not in seen:
            return f"tensor {t} has no level-0 holder"
    for l in range(1, nl):
        for t in range(nt):
            if spec["levels"][l]["keep"][t] and (l, t) not in seen:
                return f"level {l} must keep tensor {t} but has no holder for it"
    if not S.accepted(spec, R.canonical_body(spec, m)):
        return "a memory is over-subscribed"
    return None


SPATIAL_ARCH = """arch:
  nodes:
  - !Memory
    name: MainMemory
    size: inf
    leak_power: 0
    area: 0
    tensors: {{keep: ~Intermediates, may_keep: All}}
    actions:
    - {{name: read, energy: {mme}, throughput: inf}}
    - {{name: write, energy: {mme}, throughput: inf}}
  - !Memory
    name: GlobalBuffer
    size: {glb}
    leak_power: 0
    area: 0
    tensors: {{keep: All}}
    actions:
    - {{name: read, energy: 1, throughput: inf}}
    - {{name: write, energy: 1, throughput: inf}}
  - !Container
    name: MACArray
    spatial:
    - name: X
      fanout: {fanout}
      loop_bounds:
      - {{expression: {rv}, operator: "{op}", value: {val}}}
  - !Compute
    name: MAC
    leak_power: 0
    area: 0
    actions:
    - {{name: compute, energy: 1, throughput: 1}}
"""
OPS = {">=": lambda a, b: a >= b, ">": lambda a, b: a > b, "<=": lambda a, b: a <= b, "<": lambda a, b: a < b, "==": lambda a, b: a == b}


def tree_paths(node, prefix=()):
    """node lists on every root -> Compute path of a returned LoopTree"""
    from accelforge.frontend.mapping.mapping import Compute, Nested, Split
    cur = list(prefix)
    for n in node.nodes:
        if isinstance(n, Split):
            for child in n.nodes:
                yield from tree_paths(child, tuple(cur))
            return
        if isinstance(n, Nested):
            yield from tree_paths(n, tuple(cur))
            return
        cur.append(n)
        if isinstance(n, Compute):
            yield cur
            return


def check_constrained(mapping, bounds, fanout, rv_c, op, val):
    """problems of one returned mapping of the spatial-array family: perfect factorisation, every rank fully iterated, one compute,
       spatial iterations within the fanout, the loop-bound constraint on the spatial loop over rv_c"""
    from accelforge.frontend.mapping.mapping import Loop, Spatial
    problems, ncomp = [], 0
    for path in tree_paths(mapping):
        ncomp += 1
        tile = dict(bounds)
        sp_iters, sp_total = 1, 1
        for n in path:
            if not isinstance(n, Loop):
                continue
            rv, ts = str(n.rank_variable), n.tile_shape
            try:
                ok = ts is not None and int(ts) == ts and int(ts) >= 1 and tile[rv] % int(ts) == 0
            except Exception:  # noqa
                ok = False
            if not ok:
                problems.append(f"loop over {rv} with tile shape {ts} does not perfectly factorise the enclosing tile {tile.get(rv)}")
                continue
            iters = tile[rv] // int(ts)
            tile[rv] = int(ts)
            if isinstance(n, Spatial):
                sp_total *= iters
                if rv == rv_c:
                    sp_iters *= iters
        problems += [f"rank variable {rv} not fully iterated (innermost tile {t})" for rv, t in tile.items() if t != 1]
        if sp_total > fanout:
            problems.append(f"spatial loops use {sp_total} instances of a fanout-{fanout} array")
        if not OPS[op](sp_iters, val):
            problems.append(f"the spatial loop over {rv_c} has {sp_iters} iteration(s) but the architecture requires {op} {val}")
    if ncomp != 1:
        problems.append(f"the Einsum is computed on {ncomp} paths")
    return problems


def constraint_case(af, d, crng, k, override=None):
    """one random spatial-array spec with a loop-bound constraint, mapped by the real mapper -> dict (res is None when the mapper raised)"""
    from accelforge.mapper.FFM.main import map_workload_to_arch
    M, KN = crng.choice([4, 8, 8, 12, 16]), crng.choice([2, 4, 6])
    fanout = crng.choice([2, 4, 4, 8])
    rv_c = crng.choice(["m", "m", "n0", "n1"])
    op = crng.choice([">=", ">=", ">", "<=", "<", "=="])
    ext = M if rv_c == "m" else KN
    cands = [v for v in range(1, fanout + 1) if ext % v == 0]
    val = crng.choice(cands)
    if op == ">" and val == max(cands):
        val = min(cands)
    if op == "<" and val == 1:
        val = 2
    mme, glb = crng.choice([10, 100]), crng.choice(["inf", 256, 512])
    if override:
        op, val = override
    arch = SPATIAL_ARCH.format(mme=mme, glb=glb, fanout=fanout, rv=rv_c, op=op, val=val)
    (d / "ca.yaml").write_text(arch)
    out = {"key": json.dumps([M, KN, fanout, rv_c, op, val, mme, glb], default=str), "M": M, "KN": KN, "fanout": fanout, "rv": rv_c, "op": op, "val": val, "arch": arch,
           "res": None, "err": None, "mme": mme, "glb": glb}
    cwd = os.getcwd()
    os.chdir(d)
    try:
        sp = af.Spec.from_yaml(str(d / "ca.yaml"), af.examples.workloads.basic.matmuls, jinja_parse_data={"N_EINSUMS": 1, "M": M, "KN": KN})
        sp.mapper.metrics = af.Metrics.ENERGY | af.Metrics.LATENCY if k % 2 else af.Metrics.ENERGY
        out["res"] = map_workload_to_arch(sp, print_progress=False)
    except Exception as ex:  # noqa
        out["err"] = f"{type(ex).__name__}: {str(ex)[:160]}"
    finally:
        os.chdir(cwd)
    return out


def run(ck):
    af, evaluate_mapping = R.load()
    ck.prove()
    rng = ck.rng("specs")
    d = common.BUILD / "run" / f"c03-{os.getpid()}"
    d.mkdir(parents=True, exist_ok=True)
    exprs, keys = [], []
    dist = {"returned_mappings": 0, "capacity_bound_specs": 0, "keep_specs": 0}
    for i in range(ck.n(8, 100)):
        spec, space = R.gen_search_spec(rng, max_space=ck.n(3000, 20000))
        ref = R.reference(spec, space)
        dist["capacity_bound_specs"] += len(ref) < len(space)
        dist["keep_specs"] += any(any(L["keep"]) for L in spec["levels"][1:])
        for metrics, detail in ((["ENERGY"], True), (["LATENCY"], False), (["ENERGY", "LATENCY"], True), (["ENERGY_DELAY_PRODUCT"], False)):
            res = R.run_mapper(af, spec, d, metrics, eval_in_detail=detail)
            ck.case(json.dumps([spec, metrics, detail], sort_keys=True, default=str), nontrivial=len(ref) < len(space) or dist["keep_specs"] > 0,
                    sample={"bounds": spec["bounds"], "metrics": metrics, "rows": len(res["rows"])})
            if res["error"] is not None:
                if ref:
                    ck.failing_input({"spec": spec, "metrics": metrics, "mapper_error": res["error"], "arch_yaml": S.arch_yaml(spec), "workload_yaml": G.workload_yaml(spec)},
                                     what=f"the mapper raised ({res['error'][:80]}) although valid mappings exist")
                continue
            for j, row in enumerate(res["rows"]):
                dist["returned_mappings"] += 1
                m = row.get("mapping_nodes")
                if m is None:
                    ck.failing_input({"spec": spec, "metrics": metrics, "mapping": row.get("mapping")}, what="returned mapping could not be read back as a LoopTree of holders and temporal loops")
                    continue
                why = clauses(spec, m)
                real = c01.confirm_with_model(af, evaluate_mapping, spec, m, d)
                if why is None and isinstance(real, str):
                    why = "the real evaluate_mapping rejects it: " + real
                if why:
                    ck.failing_input({"spec": spec, "metrics": metrics, "eval_in_detail": detail, "row": j, "mapping": row.get("mapping"), "clause": why,
                                      "mapping_yaml": G.mapping_yaml(spec, m), "arch_yaml": S.arch_yaml(spec), "workload_yaml": G.workload_yaml(spec)},
                                     what="returned mapping is invalid: " + why)
                exprs.append(f"in_space {R.coq_mspec(spec)} {G.coq_mapping(R.canonical_body(spec, m))}")
                keys.append((spec, m, why is None))
    vals = common.run_coq_eval("C03", ["AF.Lib.MiniForge", "AF.Lib.MiniSpace"], exprs, chunk=20, preamble="From Coq Require Import QArith.\nOpen Scope Z_scope.")
    mism = [{"mapping": G.mapping_yaml(spec, m), "coq_in_space": v, "twin_valid": ok} for (spec, m, ok), v in zip(keys, vals) if bool(v) != ok]
    ck.count("coq_checker_vs_twin_compared", len(keys))
    ck.count("coq_checker_vs_twin_mismatches", len(mism))
    if mism and not ck.violations:
        ck.unexplained("broken-correspondence", {"mismatches": mism[:2]}, what="verified checker in_space and its python twin disagree on a returned mapping")
    # loop-bound constraints on a spatial array (outside MiniForge: checked structurally on the returned LoopTree)
    crng = ck.rng("constraints")
    cd = {"specs": 0, "mappings_checked": 0, "ops": {}, "mapper_errors": 0}
    for k in range(ck.n(8, 50)):
        c = constraint_case(af, d, crng, k)
        cd["specs"] += 1
        cd["ops"][c["op"]] = cd["ops"].get(c["op"], 0) + 1
        if c["res"] is None:
            cd["mapper_errors"] += 1          # an exception is not an invalid returned mapping; C01 looks for a valid witness in that case
            cd.setdefault("error_samples", [])
            if len(cd["error_samples"]) < 4:
                cd["error_samples"].append(f"{c['rv']} {c['op']} {c['val']} (M={c['M']}, KN={c['KN']}, fanout={c['fanout']}): {c['err']}")
            ck.case(c["key"], nontrivial=False)
            continue
        res = c["res"]
        ck.case(c["key"], nontrivial=True, sample={"M": c["M"], "KN": c["KN"], "fanout": c["fanout"], "constraint": f"{c['rv']} {c['op']} {c['val']}", "mappings": len(res.data)})
        for j in range(len(res.data)):
            cd["mappings_checked"] += 1
            probs = check_constrained(res.mapping(j), {"m": c["M"], "n0": c["KN"], "n1": c["KN"]}, c["fanout"], c["rv"], c["op"], c["val"])
            if probs:
                ck.failing_input({"arch_yaml": c["arch"], "workload": "examples/workloads/basic/matmuls.yaml", "jinja": {"N_EINSUMS": 1, "M": c["M"], "KN": c["KN"]}, "mapping_index": j,
                                  "problems": probs[:5], "mapping": [getattr(n, "compact_str", lambda: str(n))() for n in next(tree_paths(res.mapping(j)), [])]},
                                 what=f"returned mapping {j} (M={c['M']}, KN={c['KN']}, fanout {c['fanout']}, constraint {c['rv']} {c['op']} {c['val']}): {probs[0]}")
                break
    dist["constraint_stream"] = cd
    return ck.finish(
        rule="random single-Einsum specs as in C01 (keep / may_keep sets, finite memories, a share of them capacity-bound); every mapping returned by map_workload_to_arch for four metric sets "
             "(eval_in_detail on and off) is checked by the verified checker and re-evaluated by the real model; non-trivial = the spec is capacity-bound or has keep constraints",
        trusted=TRUSTED,
        extra={"input_distribution": dist,
               "source_fingerprint": [common.fingerprint("accelforge/mapper/FFM/_make_pmappings/make_pmappings_from_templates/make_tile_shapes.py", ["_make_tile_shapes", "get_tile_shape_choices"]),
                                      common.fingerprint("accelforge/mapper/FFM/_join_pmappings/pmapping_dataframe.py", ["PmappingDataframe"])]})


def replay(ck, data):
    print("replay: re-run ./check C03 with the recorded seed (the failing spec and mapping are in the replay file)")
    return 0
