theories/Base/ListAux.vo theories/Base/ListAux.glob theories/Base/ListAux.v.beautified theories/Base/ListAux.required_vo: theories/Base/ListAux.v 
theories/Base/ListAux.vio: theories/Base/ListAux.v 
theories/Base/ListAux.vos theories/Base/ListAux.vok theories/Base/ListAux.required_vos: theories/Base/ListAux.v 
theories/Base/SortedSet.vo theories/Base/SortedSet.glob theories/Base/SortedSet.v.beautified theories/Base/SortedSet.required_vo: theories/Base/SortedSet.v theories/Base/Tactics.vo
theories/Base/SortedSet.vio: theories/Base/SortedSet.v theories/Base/Tactics.vio
theories/Base/SortedSet.vos theories/Base/SortedSet.vok theories/Base/SortedSet.required_vos: theories/Base/SortedSet.v theories/Base/Tactics.vos
theories/Base/Tactics.vo theories/Base/Tactics.glob theories/Base/Tactics.v.beautified theories/Base/Tactics.required_vo: theories/Base/Tactics.v 
theories/Base/Tactics.vio: theories/Base/Tactics.v 
theories/Base/Tactics.vos theories/Base/Tactics.vok theories/Base/Tactics.required_vos: theories/Base/Tactics.v 
theories/C10/Examples.vo theories/C10/Examples.glob theories/C10/Examples.v.beautified theories/C10/Examples.required_vo: theories/C10/Examples.v theories/Base/Tactics.vo theories/Base/SortedSet.vo theories/C10/Model.vo theories/C10/Proofs.vo
theories/C10/Examples.vio: theories/C10/Examples.v theories/Base/Tactics.vio theories/Base/SortedSet.vio theories/C10/Model.vio theories/C10/Proofs.vio
theories/C10/Examples.vos theories/C10/Examples.vok theories/C10/Examples.required_vos: theories/C10/Examples.v theories/Base/Tactics.vos theories/Base/SortedSet.vos theories/C10/Model.vos theories/C10/Proofs.vos
theories/C10/Model.vo theories/C10/Model.glob theories/C10/Model.v.beautified theories/C10/Model.required_vo: theories/C10/Model.v theories/Base/Tactics.vo theories/Base/SortedSet.vo
theories/C10/Model.vio: theories/C10/Model.v theories/Base/Tactics.vio theories/Base/SortedSet.vio
theories/C10/Model.vos theories/C10/Model.vok theories/C10/Model.required_vos: theories/C10/Model.v theories/Base/Tactics.vos theories/Base/SortedSet.vos
theories/C10/Proofs.vo theories/C10/Proofs.glob theories/C10/Proofs.v.beautified theories/C10/Proofs.required_vo: theories/C10/Proofs.v theories/Base/Tactics.vo theories/Base/ListAux.vo theories/Base/SortedSet.vo theories/C10/Model.vo
theories/C10/Proofs.vio: theories/C10/Proofs.v theories/Base/Tactics.vio theories/Base/ListAux.vio theories/Base/SortedSet.vio theories/C10/Model.vio
theories/C10/Proofs.vos theories/C10/Proofs.vok theories/C10/Proofs.required_vos: theories/C10/Proofs.v theories/Base/Tactics.vos theories/Base/ListAux.vos theories/Base/SortedSet.vos theories/C10/Model.vos
theories/C10/Props.vo theories/C10/Props.glob theories/C10/Props.v.beautified theories/C10/Props.required_vo: theories/C10/Props.v theories/Base/Tactics.vo theories/Base/SortedSet.vo theories/C10/Model.vo theories/C10/Proofs.vo
theories/C10/Props.vio: theories/C10/Props.v theories/Base/Tactics.vio theories/Base/SortedSet.vio theories/C10/Model.vio theories/C10/Proofs.vio
theories/C10/Props.vos theories/C10/Props.vok theories/C10/Props.required_vos: theories/C10/Props.v theories/Base/Tactics.vos theories/Base/SortedSet.vos theories/C10/Model.vos theories/C10/Proofs.vos
