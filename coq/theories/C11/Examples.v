From AF Require Import Base.Tactics Lib.Pareto C11.Model.
Open Scope Z_scope.
(* the three matrices on which the unrepaired code failed (DESIGN section 7, F1), rank-encoded *)
Example f1a : impl_mask_sum [GMin; GMin] [[0; 9]; [1; 5]] = [true; true].
Proof. vm_compute. reflexivity. Qed.
Example f1b : impl_mask_sum [GMin; GMin; GMin] [[0; 5; 5]; [9; 2; 2]; [9; 1; 1]] = [true; false; true].
Proof. vm_compute. reflexivity. Qed.
(* a tie of the sort key: constant key function; the later row dominates the earlier one *)
Example tie : impl_mask (fun _ => 0) [GMin; GMin; GMin] [[2; 2; 5]; [1; 1; 5]; [0; 3; 7]; [0;3;7]; [4;0;9]] = [false; true; true; false; true].
Proof. vm_compute. reflexivity. Qed.
Example with_diff_and_max :
  impl_mask_sum [GMin; GDiff; GMax; GMin] [[1;0;5;3]; [1;1;9;0]; [2;0;5;3]; [1;0;6;3]; [1;0;5;3]; [0;0;1;4]; [0;0;1;3]]
  = spec_mask [GMin; GDiff; GMax; GMin] [[1;0;5;3]; [1;1;9;0]; [2;0;5;3]; [1;0;6;3]; [1;0;5;3]; [0;0;1;4]; [0;0;1;3]].
Proof. vm_compute. reflexivity. Qed.
