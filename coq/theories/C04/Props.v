(* C04 — property theorems only.  The model side of "the reported totals equal the model's evaluation" is C05 (the model's
   evaluation IS the execution count, for each Einsum); what the joiner adds is the composition below.  The equality of the
   three computations (joiner totals, re-evaluation of the reconstructed mapping, MiniForge model) is established per
   returned mapping by the correspondence run. *)
From Coq Require Import QArith List Lia.
Import ListNotations.
From AF Require Import C04.Model.
Open Scope Q_scope.

Lemma sumQ_app a b : sumQ (a ++ b) == sumQ a + sumQ b.
Proof. unfold sumQ. induction a as [|x a IH]; simpl; [ring|]. rewrite IH. ring. Qed.

(* totals are additive over any split of the Einsum list (any join order, any grouping) *)
Theorem C04_totals_additive : forall a b,
  total_energy (a ++ b) == total_energy a + total_energy b /\ total_latency (a ++ b) == total_latency a + total_latency b.
Proof. intros a b. unfold total_energy, total_latency. rewrite !map_app. split; apply sumQ_app. Qed.
Print Assumptions C04_totals_additive.

Theorem C04_single : forall e l, total_energy [(e, l)] == e /\ total_latency [(e, l)] == l /\ total_edp [(e, l)] == e * l.
Proof. intros. unfold total_edp, total_energy, total_latency, sumQ. simpl. repeat split; ring. Qed.
Print Assumptions C04_single.

(* the EDP of the whole is the product of the totals, not the sum of the per-Einsum products *)
Theorem C04_edp_is_product_of_totals : forall a b,
  total_edp (a ++ b) == total_edp a + total_edp b + total_energy a * total_latency b + total_energy b * total_latency a.
Proof.
  intros a b. unfold total_edp. destruct (C04_totals_additive a b) as [E L]. rewrite E, L. ring.
Qed.
Print Assumptions C04_edp_is_product_of_totals.
