"""C30 — network transfer costs match route enumeration."""
from fractions import Fraction

import common
from common import coq_nat, coq_list

TRUSTED = [
    "modelled: MeshTopologyModel / AllToAllTopologyModel.per_loop_transfer_cost for a non-distributed source (physical fanout 1); the distributed-source branch and PartiallyRelevant are outside the property",
    "the model counts per unit of volume; linearity in the volume is checked by the correspondence with volumes {1,3,16}",
    "max_hops is not part of the property and is not checked",
]


def impl():
    common.setup_impl_path()
    from accelforge.model._looptree.reuse.symbolic import _network as nw
    from accelforge.frontend._workload_isl._symbolic import Irrelevant, Relevant
    return nw, Irrelevant, Relevant


class Src:  # non-distributed source
    def _get_physical_fanout_along(self, d, default=1):
        return 1

    def _get_physical_stride_along(self, d):
        raise ValueError


def routes_oracle(topo, rel, n, s, v):
    """explicit routing of every value; returns (total hops, max link load)"""
    load = {}
    total = 0
    if topo == "mesh":
        if rel == "multicast":
            for p in range((n - 1) * s):
                load[p] = load.get(p, 0) + v
                total += v
        else:
            for i in range(1, n):
                for p in range(i * s):
                    load[p] = load.get(p, 0) + v
                    total += v
    else:
        for i in range(1, n):
            total += v  # one switch traversal per delivery
            load[("down", i)] = v
        if n >= 2:
            load["up"] = v if rel == "multicast" else (n - 1) * v
    return total, (max(load.values()) if load else 0)


def mk_rel(cls):
    try:
        return cls()
    except TypeError:
        import inspect
        k = len(inspect.signature(cls).parameters)
        return cls(*([None] * k))


def run(ck):
    nw, Irrelevant, Relevant = impl()
    ck.prove()
    models = {"mesh": nw.MeshTopologyModel, "switch": nw.AllToAllTopologyModel}
    rows = []
    for topo in ("mesh", "switch"):
        for rel in ("multicast", "unicast"):
            for n in range(1, 33):
                for s in range(1, 9):
                    for v in (1, 3, 16):
                        r = models[topo]().per_loop_transfer_cost(
                            mk_rel(Irrelevant if rel == "multicast" else Relevant), shape_repeats=n, last_fanout=s, volume=v,
                            src_component=Src(), dim_name="X")
                        got = (Fraction(r.total_cost), Fraction(r.max_traffic))
                        exp = routes_oracle(topo, rel, n, s, v)
                        ck.case((topo, rel, n, s, v), nontrivial=n >= 2)
                        if got != exp:
                            fid = "F6" if (n == 1 and rel == "multicast" and got[0] == exp[0] and got[1] == v and exp[1] == 0) else None
                            ck.failing_input({"topology": topo, "relevancy": rel, "shape_repeats": n, "stride": s, "volume": v,
                                              "impl": [str(got[0]), str(got[1])], "route_enumeration": list(exp)}, finding_id=fid,
                                             what="per_loop_transfer_cost(Irrelevant, shape_repeats=1): max_traffic = volume although no link is traversed"
                                             if fid else "transfer cost differs from route enumeration")
                        rows.append((topo, rel, n, s, v, got))
    ck.samples.append({"topology": "mesh", "relevancy": "unicast", "n": 4, "stride": 2, "volume": 3,
                       "impl(total,max_traffic)": [str(x) for x in [r[5] for r in rows if r[:5] == ("mesh", "unicast", 4, 2, 3)][0]]})
    # model side: closed forms as modelled vs the code (per unit volume, v = 1 rows; linearity for the others)
    ns = list(range(1, 33))
    ss = list(range(1, 9))
    expr = ("map (fun n => map (fun s => map (fun p => [fst p; snd p]) [impl_mesh_multicast n s; impl_mesh_unicast2 n s; impl_switch_multicast n; impl_switch_unicast n]) "
            f"{coq_list(ss, coq_nat)}) {coq_list(ns, coq_nat)}")
    (tab,) = common.run_coq_eval("C30", ["AF.C30.Model"], [expr])
    mism = []
    for topo, rel, n, s, v, got in rows:
        mm, mu2, sm, su = tab[n - 1][s - 1]
        if topo == "mesh":
            mod = (Fraction(mm[0] * v), Fraction(mm[1] * v)) if rel == "multicast" else (Fraction(mu2[0] * v, 2), Fraction(mu2[1] * v))
        else:
            m = sm if rel == "multicast" else su
            mod = (Fraction(m[0] * v), Fraction(m[1] * v))
        if mod != got:
            mism.append({"case": [topo, rel, n, s, v], "impl": [str(x) for x in got], "model": [str(x) for x in mod]})
    ck.count("model_vs_impl_compared", len(rows))
    ck.count("model_vs_impl_mismatches", len(mism))
    if mism and not ck.violations:
        ck.unexplained("broken-correspondence", {"mismatches": mism[:3]}, what="modelled closed forms != per_loop_transfer_cost")
    return ck.finish(
        rule="exhaustive: fanout 1..32 x stride 1..8 x volume {1,3,16} x {relevant, irrelevant} x {mesh, all-to-all}, non-distributed source; "
             "explicit routing of every value is the oracle; non-trivial = fanout >= 2",
        trusted=TRUSTED, exhaustive=True,
        extra={"source_fingerprint": [common.fingerprint("accelforge/model/_looptree/reuse/symbolic/_network.py",
                                                         ["MeshTopologyModel", "AllToAllTopologyModel", "multicast_cost", "unicast_cost", "arithmetic_sum"])]})


def replay(ck, data):
    nw, Irrelevant, Relevant = impl()
    m = {"mesh": nw.MeshTopologyModel, "switch": nw.AllToAllTopologyModel}[data["topology"]]()
    r = m.per_loop_transfer_cost(mk_rel(Irrelevant if data["relevancy"] == "multicast" else Relevant), shape_repeats=data["shape_repeats"],
                                 last_fanout=data["stride"], volume=data["volume"], src_component=Src(), dim_name="X")
    exp = routes_oracle(data["topology"], data["relevancy"], data["shape_repeats"], data["stride"], data["volume"])
    if (Fraction(r.total_cost), Fraction(r.max_traffic)) != exp:
        print("VIOLATION property=C30 replay=<replayed>")
        return 1
    print("replay: property holds on this input now")
    return 0
