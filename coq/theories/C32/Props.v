(* C32 — property theorems only. *)
From Coq Require Import List Arith Lia Permutation.
Import ListNotations.
From AF Require Import C32.Model C32.Proofs.

(* For every completion order of the tagged jobs (hence every worker count and every schedule),
   position i of the returned list holds job i's result. *)
Theorem C32_list : forall (R : Type) (rs : list R) (arrivals : list (nat * R)),
  Permutation arrivals (combine (seq 0 (length rs)) rs) ->
  collect (length rs) arrivals = map Some rs.
Proof. intros R. exact collect_correct. Qed.
Print Assumptions C32_list.

(* dict inputs: each key gets its own job's result, in the key order of the input *)
Theorem C32_dict : forall (R : Type) keys (vals : list R) arrivals,
  NoDup keys -> length keys = length vals ->
  Permutation arrivals (combine keys vals) ->
  collect_dict keys arrivals = combine keys (map Some vals).
Proof. intros R. exact collect_dict_correct. Qed.
Print Assumptions C32_dict.

Theorem C32_sequential_and_empty : forall (J R : Type) (run : J -> R) (jobs : list J),
  sequential run jobs = map run jobs /\ @collect R 0 [] = [].
Proof. intros. split; reflexivity. Qed.
Print Assumptions C32_sequential_and_empty.
