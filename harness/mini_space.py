"""Reference mapspace of a single-Einsum MiniForge spec (python twin of AF.Lib.MiniSpace, used as oracle and for replays).

   A mapping = [level-0 holders of every tensor] ++ body, where the body interleaves
     - holder nodes (lvl, t), 1 <= lvl < n_levels, allowed by may_keep, each at most once, levels non-decreasing along the list
       (spec.mapper.force_memory_hierarchy_order), every keep entry present, and
     - temporal loops (rv, tile) with tile a proper divisor of the current extent,
   until every extent is 1.  Capacity: accelforge's own usage computation (reservation lowering as coded, C06)."""
from fractions import Fraction

import gen_mini as G


def proper_divisors(x):
    return [d for d in range(1, x) if x % d == 0]


def enumerate_space(spec):
    nt, nl = len(spec["tensors"]), len(spec["levels"])
    top = [("sto", 0, t) for t in range(nt)]
    out = []

    def rec(prefix, shape, cur_lvl, placed):
        if all(s == 1 for s in shape) and all((l, t) in placed for l in range(1, nl) for t in range(nt) if spec["levels"][l]["keep"][t]):
            out.append(top + prefix)
        for l in range(max(1, cur_lvl), nl):
            for t in range(nt):
                if (l, t) not in placed and spec["levels"][l]["may"][t]:
                    rec(prefix + [("sto", l, t)], shape, l, placed | {(l, t)})
        for v, x in enumerate(shape):
            for d in proper_divisors(x):
                s2 = list(shape)
                s2[v] = d
                rec(prefix + [("loop", v, d)], s2, cur_lvl, placed)
    rec([], list(spec["bounds"]), 0, frozenset())
    return out


def usage_code(spec, m):
    """bits reserved per level as accelforge computes them (C06 model)"""
    import c06
    bits = {}
    for (_, l, t, v) in c06.ref_resv(spec, m, True):
        bpv = spec["levels"][l]["bpv"].get(spec["tensors"][t]["name"], spec["tensors"][t]["bpv"])
        bits[l] = bits.get(l, 0) + v * bpv
    return bits


def accepted(spec, m):
    bits = usage_code(spec, m)
    return all(spec["levels"][l]["size"] is None or b <= spec["levels"][l]["size"] for l, b in bits.items())


def evaluate(spec, m):
    """(energy, latency) as exact Fractions from the execution count"""
    import c05
    exp = c05.expected_columns(spec, m)
    return exp["Total<SEP>energy"], exp["Total<SEP>latency"]


def front(points):
    pts = sorted(set(points))
    return [p for p in pts if not any(q != p and q[0] <= p[0] and q[1] <= p[1] for q in pts)]


def set_keep(rng, spec):
    """random keep / may_keep per level: level 0 keeps everything"""
    nt = len(spec["tensors"])
    for l, L in enumerate(spec["levels"]):
        if l == 0:
            L["keep"], L["may"] = [True] * nt, [True] * nt
        else:
            r = rng.random()
            if r < 0.4:
                L["keep"], L["may"] = [False] * nt, [True] * nt
            elif r < 0.6:
                L["keep"], L["may"] = [True] * nt, [True] * nt
            else:
                L["may"] = [rng.random() < 0.8 for _ in range(nt)]
                L["keep"] = [mm and rng.random() < 0.3 for mm in L["may"]]
    return spec


def arch_yaml(spec):
    """as gen_mini.arch_yaml but with the keep / may_keep sets"""
    s = G.arch_yaml(spec)
    names = [T["name"] for T in spec["tensors"]]
    out = []
    lvl = -1
    for line in s.split("\n"):
        if line.strip().startswith("- !Memory"):
            lvl += 1
        if line.strip().startswith("tensors:") and lvl >= 0:
            L = spec["levels"][lvl]
            def expr(mask):
                sel = [n for n, b in zip(names, mask) if b]
                return "All" if len(sel) == len(names) else "Nothing" if not sel else " | ".join(sel)
            line = f"    tensors: {{keep: {expr(L['keep'])}, may_keep: {expr(L['may'])}}}"
        out.append(line)
    return "\n".join(out)
