(* C03 — property theorems only: what the validity checker in_space (AF.Lib.MiniSpace) certifies about a mapping. *)
From Coq Require Import ZArith QArith List Bool Lia.
Import ListNotations.
From AF Require Import Lib.MiniForge C05.Proofs C06.Model C06.Props Lib.MiniSpace C01.Proofs C03.Proofs.
Open Scope Z_scope.

(* a mapping accepted by the checker: every loop's tile is positive, divides and does not exceed the enclosing extent
   (perfect factorisation), every rank variable is iterated fully (the trip counts of its loops multiply to its bound),
   every tensor a memory's keep set requires has a holder there, and no memory is over-subscribed *)
Theorem C03_valid : forall ms m, in_space ms m = true ->
  valid_loops m (s_bounds (m_spec ms)) = true
  /\ (forall v, trips v m (s_bounds (m_spec ms)) = nth v (s_bounds (m_spec ms)) 1)
  /\ (forall p, In p (all_pairs ms) -> lk (m_keep ms) (fst p) (snd p) = true -> In (Sto (fst p) (snd p)) m)
  /\ fits ms m = true.
Proof. exact in_space_valid. Qed.
Print Assumptions C03_valid.

(* ... and the Einsum is computed exactly once per point of its iteration space *)
Theorem C03_compute_once : forall ms m, in_space ms m = true ->
  fold_right Z.mul 1 (map (fun v => trips v m (s_bounds (m_spec ms))) (seq 0 (length (s_bounds (m_spec ms))))) = n_computes (m_spec ms).
Proof. exact in_space_computes. Qed.
Print Assumptions C03_compute_once.

(* capacity is the check of C06: fits = no finite memory exceeded *)
Theorem C03_capacity : forall ms m, fits ms m = false <->
  exists lvl sz, (lvl < length (m_size ms))%nat /\ nth lvl (m_size ms) None = Some sz
                 /\ sz < usage_code (s_tensors (m_spec ms)) (bpvf ms) m (s_bounds (m_spec ms)) lvl.
Proof. intros. unfold fits. apply C06_reject. Qed.
Print Assumptions C03_capacity.
