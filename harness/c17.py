"""C17 — optima are consistent across metric combinations."""
import json
import os

import common
import gen_mini as G
import mini_space as S
import mapper_ref as R
import c01

TRUSTED = c01.TRUSTED[:3] + [
    "front theory: AF.Lib.Front (front_keeps_coordinate_optima / front_keeps_product_optimum / front_subset) over integer vectors",
]


def run(ck):
    af, evaluate_mapping = R.load()
    ck.prove()
    rng = ck.rng("specs")
    d = common.BUILD / "run" / f"c17-{os.getpid()}"
    d.mkdir(parents=True, exist_ok=True)
    dist = {"front_rows": [], "edp_not_at_an_extreme": 0}
    for i in range(ck.n(8, 100)):
        spec, space = R.gen_search_spec(rng, max_space=ck.n(3000, 20000))
        ref = R.reference(spec, space)
        if not ref:
            continue
        runs = {k: R.run_mapper(af, spec, d, ms) for k, ms in
                (("E", ["ENERGY"]), ("L", ["LATENCY"]), ("EL", ["ENERGY", "LATENCY"]), ("EDP", ["ENERGY_DELAY_PRODUCT"]))}
        ck.case(json.dumps(spec, sort_keys=True, default=str), nontrivial=True, sample={"bounds": spec["bounds"], "n_front_rows": len(runs["EL"]["rows"])})
        err = {k: v["error"] for k, v in runs.items() if v["error"]}
        if err:
            ck.failing_input({"spec": spec, "errors": err, "arch_yaml": S.arch_yaml(spec), "workload_yaml": G.workload_yaml(spec)}, what=f"mapper raised for metric set(s) {sorted(err)}")
            continue
        el = runs["EL"]["rows"]
        dist["front_rows"].append(len(el))
        bad = []
        e_alone = R.best(runs["E"]["rows"], "Total<SEP>energy")
        l_alone = R.best(runs["L"]["rows"], "Total<SEP>latency")
        edp_alone = R.best(runs["EDP"]["rows"], "Total<SEP>energy_delay_product")
        e_front = min(r["Total<SEP>energy"] for r in el)
        l_front = min(r["Total<SEP>latency"] for r in el)
        p_front = min(r["Total<SEP>energy"] * r["Total<SEP>latency"] for r in el)
        if not R.close(e_front, e_alone):
            bad.append(f"min energy on the energy-latency front {e_front} != energy optimum {e_alone}")
        if not R.close(l_front, l_alone):
            bad.append(f"min latency on the energy-latency front {l_front} != latency optimum {l_alone}")
        if not R.close(p_front, edp_alone):
            bad.append(f"min energy x latency over the front {p_front} != EDP optimum {edp_alone}")
        for k, rr in runs.items():
            for j, r in enumerate(rr["rows"]):
                if "Total<SEP>energy_delay_product" in r and not R.close(r["Total<SEP>energy_delay_product"], r["Total<SEP>energy"] * r["Total<SEP>latency"], 1e-5):
                    bad.append(f"run {k} row {j}: EDP column {r['Total<SEP>energy_delay_product']} != energy x latency {r['Total<SEP>energy'] * r['Total<SEP>latency']}")
        # against the exhaustive reference as well
        re_, rl, rp = min(x[1] for x in ref), min(x[2] for x in ref), min(x[1] * x[2] for x in ref)
        for name, got, want in (("energy", e_alone, re_), ("latency", l_alone, rl), ("EDP", edp_alone, rp)):
            if not R.close(got, want):
                bad.append(f"{name} optimum {got} != optimum of the enumerated mapspace {float(want)}")
        if p_front < min(r["Total<SEP>energy"] * r["Total<SEP>latency"] for r in (min(el, key=lambda r: r["Total<SEP>energy"]), min(el, key=lambda r: r["Total<SEP>latency"]))) * (1 - 1e-9):
            dist["edp_not_at_an_extreme"] += 1
        if bad:
            ck.failing_input({"spec": spec, "problems": bad[:6], "front": [(r["Total<SEP>energy"], r["Total<SEP>latency"]) for r in el],
                              "arch_yaml": S.arch_yaml(spec), "workload_yaml": G.workload_yaml(spec)}, what="metric consistency: " + bad[0])
    dist["front_rows"] = {"max": max(dist["front_rows"] or [0]), "mean": sum(dist["front_rows"]) / max(1, len(dist["front_rows"]))}
    return ck.finish(
        rule="random single-Einsum specs as in C01; four mapper runs per spec (ENERGY, LATENCY, ENERGY|LATENCY, ENERGY_DELAY_PRODUCT); the three equalities of the property, "
             "EDP column = energy x latency on every returned row, and each optimum against the exhaustively enumerated mapspace; non-trivial = every case",
        trusted=TRUSTED,
        extra={"input_distribution": dist,
               "source_fingerprint": [common.fingerprint("accelforge/mapper/FFM/main.py", ["map_workload_to_arch"])]})


def replay(ck, data):
    print("replay: re-run ./check C17 with the recorded seed (the failing spec is in the replay file)")
    return 0
