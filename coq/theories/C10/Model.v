(* C10 model: executable definitions only.
   Mirrors make_tile_shapes.py:_factorize / get_possible_factor_sizes (coarseness = 1)
   and _mathfuncs.py:_divisors / _count_factorizations. *)
From AF Require Import Base.Tactics Base.SortedSet.
Open Scope Z_scope.

Definition cdiv (a b : Z) : Z := (a + b - 1) / b.          (* math.ceil(a / b), a >= 0, b > 0 *)

(* range(1, k+1) *)
Definition range1 (k : nat) : list Z := map Z.of_nat (seq 1 k).

(* math.ceil(n ** 0.5): least s with n <= s*s *)
Definition sqrt_up (n : Z) : Z := Z.sqrt_up n.

(* _factorize(n) *)
Definition factorize (n : Z) : list Z :=
  sort_uniq
    (flat_map (fun i => if n mod i =? 0 then [i; cdiv n i] else [])
              (range1 (Z.to_nat (sqrt_up n)))).

(* get_possible_factor_sizes: the inner closure that tests one candidate, over the state (factors, n_tiles) *)
Definition try_take (outer : Z) (st : list Z * list Z) (n : Z) : list Z * list Z :=
  let '(factors, ntiles) := st in
  if (outer <? n) || memZ n factors then st
  else
    let cur := cdiv outer n in
    if memZ cur ntiles then st
    else (cdiv outer cur :: factors, cur :: ntiles).

Definition factor_sizes (outer : Z) (imperfect : bool) (inner : Z) : list Z :=
  if imperfect then
    (* n = inner, 2*inner, ... while n <= outer *)
    let ns := map (fun j => j * inner) (range1 (Z.to_nat (outer / inner))) in
    let st := fold_left (try_take outer) ns ([], []) in
    sort_uniq (fst (try_take outer st outer))
  else
    let base := map (fun f => f * inner) (factorize (cdiv outer inner)) in
    (* coarseness = 1: every candidate passes f >= prev * 1; n_tiles is still empty *)
    sort_uniq (fst (try_take outer (base, []) outer)).

(* _divisors(n) *)
Definition divisors (n : Z) : list Z :=
  filter (fun d => n mod d =? 0) (range1 (Z.to_nat n)).

Definition zsum (l : list Z) : Z := fold_right Z.add 0 l.

(* _count_factorizations(n, pattern) *)
Fixpoint count_fact (n : Z) (p : list bool) : Z :=
  match p with
  | [] => 1
  | imp :: others =>
      match others with
      | [] => 1
      | _ =>
          if imp then zsum (map (fun s => count_fact (cdiv n s) others) (range1 (Z.to_nat n)))
          else zsum (map (fun d => count_fact (n / d) others) (divisors n))
      end
  end.

(* Reference: explicit enumeration of factorisation chains.  A chain for pattern
   (b :: others), others <> [], picks a step x (a divisor d of n when b = false; any
   1 <= s <= n when b = true) and continues with n/d resp. ceil(n/s). *)
Fixpoint chains (n : Z) (p : list bool) : list (list Z) :=
  match p with
  | [] => [[]]
  | imp :: others =>
      match others with
      | [] => [[]]
      | _ =>
          if imp then flat_map (fun s => map (cons s) (chains (cdiv n s) others)) (range1 (Z.to_nat n))
          else flat_map (fun d => map (cons d) (chains (n / d) others)) (divisors n)
      end
  end.
