(* C02 — property theorems only: what a complete, minimal, duplicate-free front of a finite set of objective vectors is.
   G stands for the objective vectors of the whole mapspace (AF.Lib.MiniSpace.space, scaled to integers). *)
From AF Require Import Base.Tactics Lib.Pareto Lib.Front.
Open Scope Z_scope.

(* every valid mapping's vector is weakly dominated by a front vector *)
Theorem C02_complete : forall G g, In g G -> exists f, In f (front G) /\ vle f g = true.
Proof. exact front_complete. Qed.
Print Assumptions C02_complete.

(* no front vector is strictly dominated by another *)
Theorem C02_minimal : forall G f1 f2, In f1 (front G) -> In f2 (front G) -> dom f1 f2 = false.
Proof. exact front_minimal. Qed.
Print Assumptions C02_minimal.

(* no two front entries are identical, and every entry is achieved by some mapping *)
Theorem C02_distinct : forall G, NoDup (front G) /\ forall f, In f (front G) -> In f G.
Proof. intro G. split; [apply front_nodup|apply front_subset]. Qed.
Print Assumptions C02_distinct.
