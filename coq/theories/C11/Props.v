(* C11 — property theorems only. *)
From AF Require Import Base.Tactics Lib.Pareto C11.Model C11.ProofsSfs C11.ProofsLow C11.ProofsTop.
Open Scope Z_scope.

(* The filter (grouping by diff columns, constant-column elimination, the 0/1/2-column
   special paths, sort-filter-skyline with equal-key re-check, first-occurrence dedup)
   computes exactly the reference mask — for every matrix, every goal vector, and every
   sort key that is monotone w.r.t. dominance (float32 sums of any rounding are). *)
Theorem C11_mask_exact :
  forall (key : list Z -> Z), (forall a b, dom a b = true -> key a <= key b) ->
  forall gs rows, (forall r, In r rows -> length r = length gs) ->
  impl_mask key gs rows = spec_mask gs rows.
Proof. exact mask_exact. Qed.
Print Assumptions C11_mask_exact.

(* the executable instance used by the correspondence run *)
Theorem C11_mask_exact_sum : forall gs rows, (forall r, In r rows -> length r = length gs) ->
  impl_mask_sum gs rows = spec_mask gs rows.
Proof. intros gs rows H. apply mask_exact; [exact vsum_mono|exact H]. Qed.
Print Assumptions C11_mask_exact_sum.

(* the kernels on their own: each keeps exactly the rows of the group that nothing dominates *)
Theorem C11_sfs_kernel :
  forall (key : list Z -> Z), (forall a b, dom a b = true -> key a <= key b) ->
  forall L i, NoDup (map fst L) ->
  (In i (sfs key L) <-> exists v, In (i, v) L /\ forall q, In q L -> dom (snd q) v = false).
Proof. exact sfs_correct. Qed.
Print Assumptions C11_sfs_kernel.

Theorem C11_sweep2_kernel : forall L i, (forall p, In p L -> length (snd p) = 2%nat) ->
  (In i (sweep2 L) <-> exists v, In (i, v) L /\ forall q, In q L -> dom (snd q) v = false).
Proof. exact sweep2_correct. Qed.
Print Assumptions C11_sweep2_kernel.

(* the window-min quick check and the block-min pruning only skip comparisons that
   cannot succeed: if a lower bound of a set of window rows is not <= r, none dominates r *)
Theorem C11_skip_sound : forall (lb r : list Z) (block : list (list Z)),
  (forall w, In w block -> vle lb w = true) -> vle lb r = false ->
  forall w, In w block -> dom w r = false.
Proof.
  intros lb r block Hlb Hr w Hw. destruct (dom w r) eqn:E; [|reflexivity].
  apply dom_iff in E. destruct E as [E _]. rewrite (vle_trans _ _ _ (Hlb w Hw) E) in Hr. discriminate.
Qed.
Print Assumptions C11_skip_sound.

(* dominance is a strict partial order; a dominated row is dominated by a kept row *)
Theorem C11_front_covers : forall (G : list (list Z)) r g, In g G -> dom g r = true ->
  exists g', In g' G /\ dom g' r = true /\ forall x, In x G -> dom x g' = false.
Proof. exact exists_nondominated_dominator. Qed.
Print Assumptions C11_front_covers.
