(* C26 model — structure.py:ArchNode.iterate_hierarchically + the instance count of
   spec.py:Spec.calculate_component_costs, as repaired by the "fix:" commit (own fanout
   included, Compute nodes are not parents). *)
From AF Require Import Base.Tactics Lib.ArchTree.
Open Scope Z_scope.

(* iterate_hierarchically threads one mutable parent list through the traversal;
   a Fork continues on a copy.  The model returns the outputs and the parent list as it
   is after the traversal of the forest.  Output: (leaf, global fanout). *)
Fixpoint iterF (P : list Z) (f : forest) : list (leaf * Z) * list Z :=
  match f with
  | FNil => ([], P)
  | FCons a f' =>
      match a with
      | ALeaf l =>
          let out := (l, lf l * zprodl P) in
          (* the leaf appends itself; calculate_component_costs ignores Compute parents *)
          let P' := if is_comp l then P else P ++ [lf l] in
          let '(r, P2) := iterF P' f' in (out :: r, P2)
      | AHier fork sub =>
          let '(r1, P1) := iterF P sub in
          let Pnext := if fork then P else P1 in
          let '(r2, P2) := iterF Pnext f' in (r1 ++ r2, P2)
      end
  end.

Definition impl_totals (f : forest) : list (leaf * Z) := fst (iterF [] f).

(* ---- the unrepaired behaviour (kept for the record, see C26_unrepaired_refuted) *)
Fixpoint iterF_old (P : list Z) (f : forest) : list (leaf * Z) * list Z :=
  match f with
  | FNil => ([], P)
  | FCons a f' =>
      match a with
      | ALeaf l => let '(r, P2) := iterF_old (P ++ [lf l]) f' in ((l, zprodl P) :: r, P2)
      | AHier fork sub =>
          let '(r1, P1) := iterF_old P sub in
          let '(r2, P2) := iterF_old (if fork then P else P1) f' in (r1 ++ r2, P2)
      end
  end.

(* ---- reference: the leaves above x on x's path (the C25 notion: prune the forks that do
   not contain x, take the leaves before x in document order, drop the computes) *)
Fixpoint before (x : nat) (L : list leaf) : list leaf :=
  match L with [] => [] | l :: L' => if Nat.eqb (ln l) x then [] else l :: before x L' end.

Definition ancestors (x : nat) (f : forest) : list leaf :=
  filter (fun l => negb (is_comp l)) (before x (pleaves x f)).

Definition spec_instances (l : leaf) (f : forest) : Z :=
  lf l * zprodl (map lf (ancestors (ln l) f)).
