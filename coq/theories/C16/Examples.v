From Coq Require Import QArith List.
Import ListNotations.
From AF Require Import Lib.MiniForge C06.Model Lib.MiniSpace.
Open Scope Q_scope.
(* premises satisfiable: kept = [11; 20] covers all = [10; 11; 20; 21] within 1.1, and the bound 11 <= 1.1 * 10 is tight *)
Example ex : qmin_list [10; 11; 20; 21] = Some 10 /\ qmin_list [11; 20] = Some 11 /\ 11 <= (1 + (1 # 10)) * 10.
Proof. split; [vm_compute; reflexivity|]. split; [vm_compute; reflexivity|]. apply Qle_bool_iff. vm_compute. reflexivity. Qed.
