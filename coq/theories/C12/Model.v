(* C12 model — pareto.py:makepareto over a pmapping table, df_convention.py column classification.
   A column name is its list of <SEP>-separated tokens; values are integers (ranks / scaled values). *)
From AF Require Import Base.Tactics Lib.Pareto C11.Model.
Open Scope Z_scope.

(* reserved first tokens *)
Definition T_TOTAL := 0%nat. Definition T_RESERVATION := 1%nat. Definition T_FUSED := 2%nat. Definition T_NITER := 3%nat.

Inductive cls := CObj | CResv | CFused | CIgn.
(* is_objective_col: first token "Total"; col2reservation: "reservation" + 3 more tokens;
   is_fused_loop_col and not is_n_iterations_col: "fused_loop" whose next token is not "n_iterations" *)
Definition classify (c : list nat) : cls :=
  match c with
  | t :: rest =>
      if Nat.eqb t T_TOTAL then CObj
      else if Nat.eqb t T_RESERVATION then (if Nat.eqb (length rest) 3 then CResv else CIgn)
      else if Nat.eqb t T_FUSED then (match rest with n :: _ => if Nat.eqb n T_NITER then CIgn else CFused | [] => CFused end)
      else CIgn
  | [] => CIgn
  end.

Definition goal_of (c : cls) : option goal := match c with CObj | CResv => Some GMin | CFused => Some GDiff | CIgn => None end.

(* keep the positions whose flag is true *)
Fixpoint sel {A} (km : list bool) (l : list A) : list A :=
  match km, l with
  | k :: km', x :: l' => if k then x :: sel km' l' else sel km' l'
  | _, _ => []
  end.

(* column j is constant over the rows *)
Fixpoint const_mask (n : nat) (rows : list (list Z)) : list bool :=
  match n with
  | O => []
  | S k => match rows with
           | [] => true
           | r :: t => forallb (fun r' => match r, r' with x :: _, y :: _ => x =? y | _, _ => true end) t
           end :: const_mask k (map (@tl Z) rows)
  end.

Definition used_mask (cs : list cls) : list bool := map (fun c => match goal_of c with Some _ => true | None => false end) cs.
Definition goals_of (cs : list cls) : list goal := flat_map (fun c => match goal_of c with Some g => [g] | None => [] end) cs.

(* makepareto at zero tolerance: skip constant columns, objective/reservation -> min, fused-loop tile shapes -> diff,
   everything else ignored; nothing left -> the first row only (which is what the mask of empty vectors gives) *)
Definition makepareto_model (cs : list cls) (rows : list (list Z)) : list bool :=
  let um := used_mask cs in
  let rows1 := map (sel um) rows in
  let gs1 := goals_of cs in
  let km := map negb (const_mask (length gs1) rows1) in
  spec_mask (sel km gs1) (map (sel km) rows1).

(* the declarative reading: the mask over ALL classified columns, constant or not *)
Definition pareto_spec (cs : list cls) (rows : list (list Z)) : list bool :=
  spec_mask (goals_of cs) (map (sel (used_mask cs)) rows).
