"""C24 — workload geometry matches enumeration of the iteration space."""
import itertools
import json

import common
import gen_arch
from common import coq_Z, coq_list, coq_nat

TRUSTED = [
    "modelled: get_einsum_operation_space/get_dim_bounds/get_rank_variable_bounds, get_tensor_data_space (writer Einsums if any, else readers; intersection), "
    "_card_box/get_tensor_size/get_operation_space_size, get_stride_and_halo_of_einsum/compute_rank_occupancy — for box iteration spaces 0 <= x < b and affine accesses with non-negative coefficients",
    "ISL (Set construction, apply, dim_min/max, is_box) is not modelled: the model enumerates and projects point by point; the correspondence is what ties ISL's answers to the enumeration",
    "halo is read as the docstring's 'initial delta': the rank expression with the variable at 0 and all other variables at their last index (constant term included)",
    "sympy parsing of projection strings, pydantic construction: correspondence only",
]
VARS = ["a", "b", "c", "d"]


def gen_case(rng):
    """workload: bounds per var; einsums: list of {tensors: [(name, out, access)]}, access = [(coeffs over VARS, const)] per rank"""
    nv = rng.randint(1, 4)
    vs = VARS[:nv]
    bounds = {v: rng.choice([1, 2, 2, 3, 3, 4, 5]) for v in vs}
    ranks_of = {}

    def aff(evars, style):
        co = {v: 0 for v in vs}
        if style == "simple":
            co[rng.choice(evars)] = 1
            return co, 0
        k = rng.randint(1, min(2, len(evars)))
        for v in rng.sample(evars, k):
            co[v] = rng.choice([1, 1, 1, 2, 3])
        return co, rng.choice([0, 0, 0, 1, 2])

    def access(evars, nr, must):
        """nr ranks; the variables in `must` each appear somewhere"""
        style = "simple" if rng.random() < 0.55 else "affine"
        acc = [aff(evars, style) for _ in range(nr)]
        for i, v in enumerate(must):
            co, c = acc[i % nr]
            if co[v] == 0:
                co[v] = 1
        return acc
    einsums = []
    ne = rng.randint(1, 3)
    prev_out = None
    tcount = 0
    for ei in range(ne):
        evars = rng.sample(vs, rng.randint(1, nv))
        tens = []
        nin = rng.randint(1, 2)
        names = []
        if prev_out is not None and rng.random() < 0.7:
            names.append(prev_out)
        if ei > 0 and rng.random() < 0.3:
            # a tensor read by several Einsums and never written
            names.append("S")
        while len(names) < nin:
            names.append(f"T{tcount}")
            tcount += 1
        out = f"T{tcount}"
        tcount += 1
        allt = [(n, False) for n in names] + [(out, True)]
        # every variable of the Einsum must appear in some tensor: spread them
        for j, (n, o) in enumerate(allt):
            nr = ranks_of.setdefault(n, rng.randint(1, 3))
            must = [v for k, v in enumerate(evars) if k % len(allt) == j]
            tens.append((n, o, access(evars, nr, must)))
        einsums.append({"name": f"E{ei}", "tensors": tens})
        prev_out = out
    return {"vars": vs, "bounds": bounds, "einsums": einsums}


def gen_case_rank_sizes(rng):
    """iteration space given by rank sizes (0 <= projection < size for every tensor rank) instead of per-variable bounds: the same
    rank NAME may be indexed by different variables in different tensors, so a variable's bound is the tightest size among the ranks it indexes"""
    nv = rng.randint(2, 4)
    vs = VARS[:nv]
    pool = {f"P{i}": rng.choice([2, 3, 4, 5, 6]) for i in range(4)}
    tensors, used = [], set()
    nt = rng.randint(2, 3)
    for ti in range(nt):
        nr = rng.randint(1, 3)
        names = rng.sample(sorted(pool), nr)
        acc = []
        for _ in range(nr):
            co = {v: 0 for v in vs}
            v = rng.choice(vs)
            co[v] = 1
            used.add(v)
            acc.append((co, 0))
        tensors.append((f"T{ti}", ti == nt - 1, acc, names))
    for v in vs:                      # every variable must index something
        if v not in used:
            n, o, acc, names = tensors[rng.randrange(nt)]
            co = {x: 0 for x in vs}
            co[v] = 1
            free = [p for p in sorted(pool) if p not in names]
            if not free:
                return gen_case_rank_sizes(rng)
            acc.append((co, 0))
            names.append(rng.choice(free))
    bounds = {v: min(pool[nm] for _, _, acc, names in tensors for (co, _), nm in zip(acc, names) if co[v]) for v in vs}
    return {"vars": vs, "bounds": bounds, "rank_sizes": pool, "rank_names": {n: names for n, _, _, names in tensors},
            "einsums": [{"name": "E0", "tensors": [(n, o, acc) for n, o, acc, _ in tensors]}]}


def expr_str(co, c, vs):
    terms = [(f"{co[v]}*{v}" if co[v] != 1 else v) for v in vs if co[v]]
    if c or not terms:
        terms.append(str(c))
    return " + ".join(terms)


def build(case, af):
    from accelforge.frontend.workload import Workload
    es = []
    rn = case.get("rank_names")
    for e in case["einsums"]:
        es.append({"name": e["name"], "tensor_accesses": [
            {"name": n, "projection": {(rn[n][i] if rn else f"R{i}"): expr_str(co, c, case["vars"]) for i, (co, c) in enumerate(acc)}, "output": o}
            for n, o, acc in e["tensors"]]})
    if case.get("rank_sizes"):
        return Workload(einsums=es, rank_sizes=dict(case["rank_sizes"]))
    return Workload(einsums=es, iteration_space_shape={v: f"0 <= {v} < {b}" for v, b in case["bounds"].items()})


def evars_of(case, e):
    """rank variables actually used by the Einsum, in VARS order"""
    return [v for v in case["vars"] if any(co[v] for _, _, acc in e["tensors"] for co, _ in acc)]


def canonical(case, t):
    ws = [e for e in case["einsums"] if any(n == t and o for n, o, _ in e["tensors"])]
    rs = [e for e in case["einsums"] if any(n == t and not o for n, o, _ in e["tensors"])]
    return ws or rs


def oracle(case):
    """brute-force enumeration (python)"""
    res = {"n_computes": {}, "bounds": {}, "size": {}, "sh": {}}
    for e in case["einsums"]:
        ev = evars_of(case, e)
        pts = list(itertools.product(*[range(case["bounds"][v]) for v in ev]))
        res["n_computes"][e["name"]] = len(pts)
        res["bounds"][e["name"]] = {v: max(p[i] for p in pts) - min(p[i] for p in pts) + 1 for i, v in enumerate(ev)}
        for n, o, acc in e["tensors"]:
            for ri, (co, c) in enumerate(acc):
                for v in ev:
                    if co[v]:
                        halo = sum(co[y] * (case["bounds"][y] - 1) for y in ev if y != v) + c
                        res["sh"][(e["name"], n, (case["rank_names"][n][ri] if case.get("rank_names") else f"R{ri}"), v)] = (co[v], halo)
    tensors = sorted({n for e in case["einsums"] for n, _, _ in e["tensors"]})
    for t in tensors:
        img = None
        for e in canonical(case, t):
            ev = evars_of(case, e)
            acc = next(a for n, _, a in e["tensors"] if n == t)
            im = {tuple(sum(co[v] * p[i] for i, v in enumerate(ev)) + c for co, c in acc)
                  for p in itertools.product(*[range(case["bounds"][v]) for v in ev])}
            img = im if img is None else img & im
        nr = len(next(iter(img))) if img else 0
        box = bool(img) and len(img) == __import__("math").prod(max(q[i] for q in img) - min(q[i] for q in img) + 1 for i in range(nr))
        res["size"][t] = (len(img), box)
    return res


def impl(case, af):
    from accelforge.frontend._workload_isl._isl import get_rank_variable_bounds
    from accelforge.frontend._workload_isl._symbolic import get_stride_and_halo_of_einsum
    w = build(case, af)
    res = {"n_computes": {}, "bounds": {}, "size": {}, "sh": {}}
    for e in case["einsums"]:
        res["n_computes"][e["name"]] = int(w.n_computes(e["name"]))
        res["bounds"][e["name"]] = {str(k): int(v) for k, v in get_rank_variable_bounds(w, e["name"]).items()}
        sh = get_stride_and_halo_of_einsum(e["name"], w)
        for t, d in sh.items():
            for (rank, rv), (s, h) in d.items():
                res["sh"][(e["name"], str(t), str(rank), str(rv))] = (int(s), int(h))
    res["n_computes_total"] = int(w.n_computes())
    # dense tile occupancy of every tensor for a few tile shapes: must be the size of the bounding box of the projected tile
    from accelforge.frontend._workload_isl._symbolic import compute_dense_tile_occupancy, get_projection_expr
    import random as _r
    rr = _r.Random(len(case["einsums"]) * 7919 + sum(case["bounds"].values()))
    res["occupancy_bad"] = []
    for e in case["einsums"]:
        ev = evars_of(case, e)
        for n, o, acc in e["tensors"]:
            pe = get_projection_expr(w.einsums[e["name"]], n)
            for _ in range(3):
                tile = {v: rr.randint(1, case["bounds"][v]) for v in ev}
                got = int(compute_dense_tile_occupancy(pe, tile))
                want = 1
                for co, c in acc:
                    # coordinates 0 .. (value of the rank expression at the tile's last index): same reading as the halo ("initial delta",
                    # constant term included; see DESIGN C24, observation on constant offsets)
                    want *= sum(co[v] * (tile[v] - 1) for v in ev) + c + 1
                if got != want:
                    res["occupancy_bad"].append(f"{e['name']}.{n} tile {tile}: dense tile occupancy {got}, the projected tile spans {want} coordinates")
    for t in sorted({n for e in case["einsums"] for n, _, _ in e["tensors"]}):
        try:
            res["size"][t] = int(w.get_tensor_size(t))
        except (RuntimeError, ValueError) as ex:
            res["size"][t] = "ERR"
    # stride/halo must not have mutated the bounds it was given (in-place shape[rank_var] = 1 ... restore)
    for e in case["einsums"]:
        b = {k: v for k, v in get_rank_variable_bounds(w, e["name"]).items()}
        b0 = dict(b)
        get_stride_and_halo_of_einsum(e["name"], w, rank_variable_bounds=b)
        if b != b0:
            res["mutated"] = True
    return res


def coq_case(case):
    """model outputs as one Coq term: (n_computes list, bounds list list, sizes list (option), stride/halo list)"""
    out_nc, out_b, out_sz, out_sh = [], [], [], []
    for e in case["einsums"]:
        ev = evars_of(case, e)
        bs = coq_list([case["bounds"][v] for v in ev], coq_nat)
        out_nc.append(f"n_computes {bs}")
        out_b.append(coq_list([f"rank_variable_bound {i}%nat {bs}" for i in range(len(ev))]))
        for n, o, acc in e["tensors"]:
            for ri, (co, c) in enumerate(acc):
                a = f"({coq_list([co[v] for v in ev], coq_Z)}, {coq_Z(c)})"
                for i, v in enumerate(ev):
                    if co[v]:
                        out_sh.append(f"(stride {a} {i}%nat, halo {a} {i}%nat {bs})")
    for t in sorted({n for e in case["einsums"] for n, _, _ in e["tensors"]}):
        canon = []
        nr = 0
        for e in canonical(case, t):
            ev = evars_of(case, e)
            acc = next(a for n, _, a in e["tensors"] if n == t)
            nr = len(acc)
            canon.append("(" + coq_list([f"({coq_list([co[v] for v in ev], coq_Z)}, {coq_Z(c)})" for co, c in acc]) + ", "
                         + coq_list([case["bounds"][v] for v in ev], coq_nat) + ")")
        out_sz.append(f"(let ds := data_space {coq_list(canon)} in (tensor_size {nr}%nat ds, Z.of_nat (List.length ds)))")
    return f"({coq_list(out_nc)}, {coq_list(out_b)}, {coq_list(out_sz)}, {coq_list(out_sh)})"


def compare(case, got, exp):
    """the property evaluated on the implementation's output; returns list of problems"""
    bad = []
    if got["n_computes"] != exp["n_computes"]:
        bad.append(f"n_computes {got['n_computes']} != enumerated {exp['n_computes']}")
    if got["n_computes_total"] != sum(exp["n_computes"].values()):
        bad.append("total n_computes is not the sum over Einsums")
    if got["bounds"] != exp["bounds"]:
        bad.append(f"rank-variable bounds {got['bounds']} != enumerated {exp['bounds']}")
    for t, (n, box) in exp["size"].items():
        g = got["size"][t]
        if g == "ERR":
            # the property speaks of the projection of ONE iteration space; when the data space is the intersection of several canonical
            # Einsums' images an explicit error is accepted even if the intersection happens to be a box (never a wrong size)
            if box and len(canonical(case, t)) == 1:
                bad.append(f"tensor {t}: image is a box of {n} points but an error was raised")
        elif g != n:
            bad.append(f"tensor {t}: size {g} != {n} projected points (box={box})")
    if got["sh"] != exp["sh"]:
        diff = {k: (got["sh"].get(k), exp["sh"].get(k)) for k in set(got["sh"]) | set(exp["sh"]) if got["sh"].get(k) != exp["sh"].get(k)}
        bad.append(f"stride/halo differ: {diff}")
    bad += got.get("occupancy_bad", [])[:3]
    if got.get("mutated"):
        bad.append("get_stride_and_halo_of_einsum left the caller's rank_variable_bounds modified")
    return bad


def run(ck):
    af = gen_arch.load()
    ck.prove()
    rng = ck.rng("workloads")
    exprs, keys = [], []
    dist = {"einsums": {}, "nonbox_tensors": 0, "box_tensors": 0, "affine_ranks": 0, "const_ranks": 0, "shared_readers": 0}
    for _ in range(ck.n(250, 5000)):
        case = gen_case_rank_sizes(rng) if rng.random() < 0.25 else gen_case(rng)
        dist["rank_sizes_mode"] = dist.get("rank_sizes_mode", 0) + bool(case.get("rank_sizes"))
        try:
            got = impl(case, af)
        except Exception as ex:  # noqa
            got = None
            err = f"{type(ex).__name__}: {ex}"
        exp = oracle(case)
        dist["einsums"][len(case["einsums"])] = dist["einsums"].get(len(case["einsums"]), 0) + 1
        for t, (n, box) in exp["size"].items():
            dist["box_tensors" if box else "nonbox_tensors"] += 1
        for e in case["einsums"]:
            for n, o, acc in e["tensors"]:
                for co, c in acc:
                    dist["affine_ranks"] += sum(1 for v in co.values() if v) > 1 or any(v > 1 for v in co.values())
                    dist["const_ranks"] += c != 0
        dist["shared_readers"] += sum(1 for e in case["einsums"] if any(n == "S" for n, _, _ in e["tensors"])) >= 2
        nontriv = any(not box for _, box in exp["size"].values()) or len(case["einsums"]) > 1
        ck.case(json.dumps(case, sort_keys=True, default=str), nontrivial=nontriv,
                sample={"bounds": case["bounds"], "einsums": [[(n, o, [expr_str(co, c, case["vars"]) for co, c in acc]) for n, o, acc in e["tensors"]] for e in case["einsums"]]})
        if got is None:
            ck.failing_input({"case": case, "error": err}, what="workload geometry raised unexpectedly: " + err)
            continue
        bad = compare(case, got, exp)
        if bad:
            ck.failing_input({"case": case, "impl": {k: str(v) for k, v in got.items()}, "problems": bad}, what="workload geometry: " + bad[0])
        exprs.append(coq_case(case))
        keys.append((case, got))
    vals = common.run_coq_eval("C24", ["AF.C24.Model"], exprs, chunk=60, preamble="Open Scope Z_scope.")
    mism = []
    for (case, got), m in zip(keys, vals):
        nc, bl, sz, sh = m
        g_nc = [got["n_computes"][e["name"]] for e in case["einsums"]]
        g_b = [[got["bounds"][e["name"]].get(v) for v in evars_of(case, e)] for e in case["einsums"]]
        g_sz = [got["size"][t] for t in sorted(got["size"])]
        m_sz = [(s[0][1] if isinstance(s[0], tuple) else "ERR") for s in sz]
        # an explicit error of the implementation is accepted where the data space is an intersection of several Einsums' images (see compare)
        m_sz = ["ERR" if g == "ERR" and len(canonical(case, t)) >= 2 else x for x, g, t in zip(m_sz, g_sz, sorted(got["size"]))]
        g_sh = []
        for e in case["einsums"]:
            ev = evars_of(case, e)
            for n, o, acc in e["tensors"]:
                for ri, (co, c) in enumerate(acc):
                    for v in ev:
                        if co[v]:
                            g_sh.append(got["sh"].get((e["name"], n, (case["rank_names"][n][ri] if case.get("rank_names") else f"R{ri}"), v)))
        if list(nc) != g_nc or [list(x) for x in bl] != g_b or m_sz != g_sz or [tuple(x) for x in sh] != g_sh:
            mism.append({"case": case, "impl": {k: str(v) for k, v in got.items()}, "model": str(m)})
    ck.count("model_vs_impl_compared", len(keys))
    ck.count("model_vs_impl_mismatches", len(mism))
    if mism and not ck.violations:
        ck.unexplained("broken-correspondence", {"mismatches": mism[:3]}, what="model geometry != implementation geometry")
    return ck.finish(
        rule="random workloads: 1-4 rank variables with bounds 1-5, 1-3 Einsums, tensors of 1-3 ranks with simple or affine (coefficients 1-3, constants 0-2) "
             "rank expressions, intermediate tensors (writer decides the data space) and a tensor shared by several readers (intersection); "
             "n_computes, bounds, tensor sizes (value or error), stride/halo of every (rank, variable) compared with enumeration and with the model; non-trivial = has a non-box image or several Einsums",
        trusted=TRUSTED,
        extra={"input_distribution": dist,
               "source_fingerprint": [common.fingerprint("accelforge/frontend/_workload_isl/_isl.py", ["get_tensor_size", "_card_box", "get_tensor_data_space", "get_dim_bounds", "get_operation_space_size"]),
                                      common.fingerprint("accelforge/frontend/_workload_isl/_symbolic.py", ["get_stride_and_halo_of_einsum", "compute_rank_occupancy"])]})


def replay(ck, data):
    af = gen_arch.load()
    case = data["case"]
    for e in case["einsums"]:
        e["tensors"] = [(n, o, [(co, c) for co, c in acc]) for n, o, acc in e["tensors"]]
    bad = compare(case, impl(case, af), oracle(case))
    if bad:
        print("VIOLATION property=C24 replay=<replayed>")
        return 1
    print("replay: property holds on this input now")
    return 0
