(* ParetoLib: dominance over integer vectors and its order theory.
   Values are integers: the harness maps the float entries of each column to their
   ranks (an order isomorphism), so +inf / -inf are simply the largest / smallest rank.
   Dominance, equality of rows and equality of diff columns only depend on the order. *)
From AF Require Import Base.Tactics.
Open Scope Z_scope.

Notation vec := (list Z) (only parsing).

(* a <= b in every coordinate (false when the lengths differ) *)
Fixpoint vle (a b : vec) : bool :=
  match a, b with
  | [], [] => true
  | x :: a', y :: b' => (x <=? y) && vle a' b'
  | _, _ => false
  end.

(* some coordinate strictly smaller — the code's any_less flag *)
Fixpoint vlt_some (a b : vec) : bool :=
  match a, b with
  | x :: a', y :: b' => (x <? y) || vlt_some a' b'
  | _, _ => false
  end.

(* strict dominance: all_leq and any_less *)
Definition dom (a b : vec) : bool := vle a b && vlt_some a b.

Fixpoint veq (a b : vec) : bool :=
  match a, b with
  | [], [] => true
  | x :: a', y :: b' => (x =? y) && veq a' b'
  | _, _ => false
  end.

Definition vsum (a : vec) : Z := fold_right Z.add 0 a.

Lemma veq_eq a : forall b, veq a b = true <-> a = b.
Proof.
  induction a as [|x a IH]; intros [|y b]; simpl; try (split; congruence).
  rewrite andb_true_iff, Z.eqb_eq, IH. split; [intros [-> ->]; reflexivity|intros H; inversion H; tauto].
Qed.

Lemma veq_refl a : veq a a = true.
Proof. apply veq_eq. reflexivity. Qed.

Lemma vle_length a : forall b, vle a b = true -> length a = length b.
Proof.
  induction a as [|x a IH]; intros [|y b]; simpl; try congruence.
  rewrite andb_true_iff. intros [_ H]. f_equal. apply IH, H.
Qed.

Lemma vle_refl a : vle a a = true.
Proof. induction a as [|x a IH]; simpl; [reflexivity|]. rewrite IH. lia. Qed.

Lemma vle_trans a : forall b c, vle a b = true -> vle b c = true -> vle a c = true.
Proof.
  induction a as [|x a IH]; intros [|y b] [|z c]; simpl; try congruence.
  rewrite !andb_true_iff. intros [H1 H2] [H3 H4]. split; [lia|]. eapply IH; eassumption.
Qed.

Lemma vle_antisym a : forall b, vle a b = true -> vle b a = true -> a = b.
Proof.
  induction a as [|x a IH]; intros [|y b]; simpl; try congruence.
  rewrite !andb_true_iff. intros [H1 H2] [H3 H4]. f_equal; [lia|]. apply IH; assumption.
Qed.

(* given a <= b:  any_less  <->  not (b <= a) *)
Lemma vlt_some_iff a : forall b, vle a b = true -> (vlt_some a b = true <-> vle b a = false).
Proof.
  induction a as [|x a IH]; intros [|y b]; simpl; try congruence.
  - intros _. split; congruence.
  - rewrite andb_true_iff. intros [H1 H2]. specialize (IH b H2).
    rewrite orb_true_iff, andb_false_iff, IH. split.
    + intros [H|H]; [left; lia|right; exact H].
    + intros [H|H]; [left; lia|right; exact H].
Qed.

Lemma dom_iff a b : dom a b = true <-> vle a b = true /\ vle b a = false.
Proof.
  unfold dom. rewrite andb_true_iff. split; intros [H1 H2]; (split; [assumption|]); apply vlt_some_iff in H2; assumption.
Qed.

Lemma dom_irrefl a : dom a a = false.
Proof. destruct (dom a a) eqn:E; [|reflexivity]. apply dom_iff in E. rewrite vle_refl in E. destruct E; congruence. Qed.

Lemma dom_trans a b c : dom a b = true -> dom b c = true -> dom a c = true.
Proof.
  rewrite !dom_iff. intros [H1 H2] [H3 H4]. split; [eapply vle_trans; eassumption|].
  destruct (vle c a) eqn:E; [|reflexivity].
  assert (vle b a = true) by (eapply vle_trans; eassumption). congruence.
Qed.

Lemma dom_vle_trans a b c : dom a b = true -> vle b c = true -> dom a c = true.
Proof.
  rewrite !dom_iff. intros [H1 H2] H3. split; [eapply vle_trans; eassumption|].
  destruct (vle c a) eqn:E; [|reflexivity].
  assert (vle b a = true) by (eapply vle_trans; eassumption). congruence.
Qed.

Lemma dom_asym a b : dom a b = true -> dom b a = false.
Proof.
  intros H. destruct (dom b a) eqn:E; [|reflexivity].
  pose proof (dom_trans _ _ _ H E) as F. rewrite dom_irrefl in F. discriminate.
Qed.

(* the plain sum is strictly monotone w.r.t. dominance: termination measure, and the
   simplest admissible sort key *)
Lemma vle_sum a : forall b, vle a b = true -> vsum a <= vsum b.
Proof.
  induction a as [|x a IH]; intros [|y b]; simpl; try congruence; [lia|].
  rewrite andb_true_iff. intros [H1 H2]. specialize (IH b H2). lia.
Qed.

Lemma dom_sum a : forall b, dom a b = true -> vsum a < vsum b.
Proof.
  unfold dom. induction a as [|x a IH]; intros [|y b]; simpl; try (rewrite ?andb_false_r; congruence).
  rewrite !andb_true_iff, orb_true_iff. intros [[H1 H2] [H3|H3]].
  - pose proof (vle_sum a b H2). lia.
  - assert (vsum a < vsum b) by (apply IH; rewrite H2, H3; reflexivity). lia.
Qed.

(* every finite list of integers has a lower bound *)
Lemma list_lower_bound (l : list Z) : exists m, forall x, In x l -> m <= x.
Proof.
  induction l as [|a l [m Hm]]; [exists 0; intros x []|].
  exists (Z.min a m). intros x [->|Hx]; [lia|]. specialize (Hm x Hx). lia.
Qed.

(* In a finite set, whatever is dominated is dominated by a non-dominated member. *)
Lemma exists_nondominated_dominator (G : list vec) (r : vec) :
  forall g, In g G -> dom g r = true ->
  exists g', In g' G /\ dom g' r = true /\ (forall x, In x G -> dom x g' = false).
Proof.
  destruct (list_lower_bound (map vsum G)) as [m Hm].
  assert (Hm' : forall x, In x G -> m <= vsum x) by (intros x Hx; apply Hm, in_map, Hx).
  intros g. remember (Z.to_nat (vsum g - m)) as n eqn:En. revert g En.
  induction n as [n IH] using lt_wf_ind. intros g En Hg Hd.
  destruct (existsb (fun x => dom x g) G) eqn:E.
  - apply existsb_exists in E. destruct E as [x [Hx Hxg]].
    pose proof (dom_sum _ _ Hxg). pose proof (Hm' x Hx). pose proof (Hm' g Hg).
    apply (IH (Z.to_nat (vsum x - m))) with (g := x); [lia|reflexivity|assumption|].
    eapply dom_trans; eassumption.
  - exists g. split; [assumption|]. split; [assumption|]. intros x Hx.
    destruct (dom x g) eqn:F; [|reflexivity].
    assert (existsb (fun x => dom x g) G = true) by (apply existsb_exists; exists x; tauto). congruence.
Qed.

(* column selection by a boolean mask; dropping columns on which two vectors agree
   does not change their comparison *)
Fixpoint select (m : list bool) (v : vec) : vec :=
  match m, v with
  | b :: m', x :: v' => if b then x :: select m' v' else select m' v'
  | _, _ => []
  end.

Fixpoint agree_off (m : list bool) (a b : vec) : Prop :=
  match m, a, b with
  | k :: m', x :: a', y :: b' => (k = false -> x = y) /\ agree_off m' a' b'
  | [], [], [] => True
  | _, _, _ => False
  end.

Lemma vle_select m : forall a b, agree_off m a b -> vle (select m a) (select m b) = vle a b.
Proof.
  induction m as [|k m IH]; intros [|x a] [|y b]; simpl; try tauto.
  intros [H1 H2]. destruct k; simpl; rewrite IH by assumption; [reflexivity|].
  rewrite H1 by reflexivity. rewrite Z.leb_refl. reflexivity.
Qed.

Lemma agree_off_sym m : forall a b, agree_off m a b -> agree_off m b a.
Proof.
  induction m as [|k m IH]; intros [|x a] [|y b]; simpl; try tauto.
  intros [H1 H2]. split; [intro E; symmetry; apply H1, E|apply IH, H2].
Qed.

Lemma dom_select m a b : agree_off m a b -> dom (select m a) (select m b) = dom a b.
Proof.
  intros H. destruct (dom a b) eqn:E.
  - apply dom_iff in E. apply dom_iff. rewrite !vle_select by (first [assumption | apply agree_off_sym; assumption]). assumption.
  - destruct (dom (select m a) (select m b)) eqn:F; [|reflexivity].
    apply dom_iff in F. rewrite !vle_select in F by (first [assumption | apply agree_off_sym; assumption]).
    apply dom_iff in F. congruence.
Qed.
