(* C14 — property theorems only. *)
From AF Require Import Base.Tactics Lib.Pareto Lib.Front Lib.Join C13.Model.
Open Scope Z_scope.

(* Optimality-threshold row filtering: dropping from every table the rows that are already worse on EVERY objective than
   an achievable full solution c leaves the objective front of the join unchanged - for any number of tables, any
   compatibility, any combination under which objectives never decrease. *)
Theorem C14_threshold_filter_exact : forall compat comb fits oproj,
  (forall a b, vle (oproj a) (oproj (comb a b)) = true) -> (forall a b, vle (oproj b) (oproj (comb a b)) = true) ->
  forall c T1 rest, c <> [] -> In c (map (fun r => oproj (rvec r)) (exhaustive compat comb fits T1 rest)) ->
  forall f, In f (front (map (fun r => oproj (rvec r)) (exhaustive compat comb fits (tfilter oproj c T1) (map (tfilter oproj c) rest))))
        <-> In f (front (map (fun r => oproj (rvec r)) (exhaustive compat comb fits T1 rest))).
Proof. intros. apply threshold_filter_exact; assumption. Qed.
Print Assumptions C14_threshold_filter_exact.

(* Dirty joins under a resource tolerance: let V be the valid combinations, R the combinations valid under the relaxed
   capacity (V inside R), and Q what the relaxed join returned.  If Q weakly covers R and every member of Q is in fact
   valid (the check the code makes before returning; otherwise it retries with a smaller tolerance), then Q has exactly
   the front of V. *)
Theorem C14_relaxed_join_exact : forall Q V R : list vec,
  incl Q V -> incl V R -> (forall x, In x R -> exists y, In y Q /\ vle y x = true) ->
  forall f, In f (front Q) <-> In f (front V).
Proof. intros Q V R HQ HV Hc. apply front_cover; [exact HQ|]. intros x Hx. apply Hc, HV, Hx. Qed.
Print Assumptions C14_relaxed_join_exact.

(* the validity check is needed: a relaxed result with an oversubscribed member can hide a valid optimum *)
Theorem C14_retry_needed : exists Q V R : list vec,
  incl V R /\ (forall x, In x R -> exists y, In y Q /\ vle y x = true) /\ exists f, In f (front V) /\ ~ In f (front Q).
Proof.
  exists [[1; 1]], [[2; 2]], [[1; 1]; [2; 2]]. split; [intros x [<-|[]]; right; left; reflexivity|]. split.
  - intros x [<-|[<-|[]]]; exists [1; 1]; (split; [left; reflexivity|reflexivity]).
  - exists [2; 2]. split; [vm_compute; left; reflexivity|vm_compute; intros [H|[]]; discriminate].
Qed.
Print Assumptions C14_retry_needed.

(* untracked memories: a capacity test that is never decisive on the pairs at hand can be skipped *)
Theorem C14_untracked_memory : forall compat comb fits fits' A B,
  (forall a b, In a A -> In b B -> fits (comb (rvec a) (rvec b)) = fits' (comb (rvec a) (rvec b))) ->
  join compat comb fits A B = join compat comb fits' A B.
Proof.
  intros compat comb fits fits' A B H. unfold join. induction A as [|a A IH]; [reflexivity|]. cbn [flat_map]. rewrite IH by (intros; apply H; [right|]; assumption). f_equal.
  assert (forall B', incl B' B -> flat_map (join1 compat comb fits a) B' = flat_map (join1 compat comb fits' a) B') as HB.
  { induction B' as [|b B' IHB]; intro Hi; [reflexivity|]. cbn [flat_map]. rewrite IHB by (intros y Hy; apply Hi; right; exact Hy). f_equal.
    unfold join1. destruct (compat _ _); [|reflexivity]. rewrite (H a b); [reflexivity|left; reflexivity|apply Hi; left; reflexivity]. }
  apply HB. intros y Hy. exact Hy.
Qed.
Print Assumptions C14_untracked_memory.

(* the staged strategy as a whole, for the concrete instance: filtering on an achievable solution, then the pruned
   step-by-step join, returns the objective front of the plain exhaustive combination *)
Theorem C14_instance : forall compat cap c T1 rest, c <> [] ->
  In c (map (fun r => oproj3 (rvec r)) (exhaustive compat comb3 (fits3 cap) T1 rest)) ->
  forall f, In f (front (map (fun r => oproj3 (rvec r)) (exhaustive compat comb3 (fits3 cap) (tfilter oproj3 c T1) (map (tfilter oproj3 c) rest))))
        <-> In f (front (map (fun r => oproj3 (rvec r)) (exhaustive compat comb3 (fits3 cap) T1 rest))).
Proof. intros. apply threshold_filter_exact; [exact oproj3_left|exact oproj3_right|assumption|assumption]. Qed.
Print Assumptions C14_instance.
