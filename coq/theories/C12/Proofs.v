(* C12 proofs: dropping columns that are constant over the table never changes the Pareto mask. *)
From AF Require Import Base.Tactics Lib.Pareto C11.Model C12.Model.
Open Scope Z_scope.

(* a and b have the length of km and agree wherever km drops a position *)
Fixpoint agree (km : list bool) (a b : list Z) : Prop :=
  match km, a, b with
  | k :: km', x :: a', y :: b' => (k = false -> x = y) /\ agree km' a' b'
  | [], [], [] => True
  | _, _, _ => False
  end.

Lemma veq_cons_same x u v : veq (x :: u) (x :: v) = veq u v.
Proof. cbn. rewrite Z.eqb_refl. reflexivity. Qed.
Lemma vle_cons_same x u v : vle (x :: u) (x :: v) = vle u v.
Proof. cbn. rewrite Z.leb_refl. reflexivity. Qed.
Lemma vlt_cons_same x u v : vlt_some (x :: u) (x :: v) = vlt_some u v.
Proof. cbn. rewrite Z.ltb_irrefl. reflexivity. Qed.
Lemma dom_cons_same x u v : dom (x :: u) (x :: v) = dom u v.
Proof. unfold dom. rewrite vle_cons_same, vlt_cons_same. reflexivity. Qed.

Lemma veq_sel km : forall a b, agree km a b -> veq (sel km a) (sel km b) = veq a b.
Proof.
  induction km as [|k km IH]; intros [|x a] [|y b] H; cbn in H; try contradiction; [reflexivity|].
  destruct H as [Hk H]. cbn [sel]. destruct k.
  - cbn [veq]. rewrite (IH a b H). reflexivity.
  - rewrite (Hk eq_refl), veq_cons_same. apply IH, H.
Qed.

(* opt_part / diff_part, one column at a time *)
Lemma opt_part_cons g gs x r : opt_part (g :: gs) (x :: r) = (match g with GMin => [x] | GMax => [- x] | GDiff => [] end) ++ opt_part gs r.
Proof. reflexivity. Qed.
Lemma diff_part_cons g gs x r : diff_part (g :: gs) (x :: r) = (match g with GDiff => [x] | _ => [] end) ++ diff_part gs r.
Proof. reflexivity. Qed.

Lemma parts_sel km : forall gs a b, length gs = length km -> agree km a b ->
  veq (diff_part (sel km gs) (sel km a)) (diff_part (sel km gs) (sel km b)) = veq (diff_part gs a) (diff_part gs b)
  /\ dom (opt_part (sel km gs) (sel km a)) (opt_part (sel km gs) (sel km b)) = dom (opt_part gs a) (opt_part gs b)
  /\ vle (opt_part (sel km gs) (sel km a)) (opt_part (sel km gs) (sel km b)) = vle (opt_part gs a) (opt_part gs b)
  /\ vlt_some (opt_part (sel km gs) (sel km a)) (opt_part (sel km gs) (sel km b)) = vlt_some (opt_part gs a) (opt_part gs b).
Proof.
  induction km as [|k km IH]; intros [|g gs] [|x a] [|y b] Hl H; cbn in Hl, H; try contradiction; try discriminate; [repeat split|].
  destruct H as [Hk H]. injection Hl as Hl. destruct (IH gs a b Hl H) as (D & O & L & S). cbn [sel]. destruct k.
  - rewrite !opt_part_cons, !diff_part_cons. destruct g; cbn [app]; unfold dom in *; cbn [veq vle vlt_some]; rewrite ?D, ?L, ?S; repeat split; reflexivity.
  - rewrite (Hk eq_refl), !opt_part_cons, !diff_part_cons.
    destruct g; cbn [app]; rewrite ?veq_cons_same, ?dom_cons_same, ?vle_cons_same, ?vlt_cons_same; repeat split; assumption.
Qed.

Lemma existsb_map_ext {A B} (f : B -> bool) (g : A -> bool) (h : A -> B) l :
  (forall x, In x l -> f (h x) = g x) -> existsb f (map h l) = existsb g l.
Proof. intro H. induction l as [|x l IH]; [reflexivity|]. cbn. rewrite H by (left; reflexivity). rewrite IH; [reflexivity|]. intros y Hy. apply H. right. exact Hy. Qed.

Section Drop.
  Variable gs : list goal.
  Variable km : list bool.
  Hypothesis Hlen : length gs = length km.

  Lemma dominated_sel all r : (forall s, In s all -> agree km s r) ->
    dominated_in (sel km gs) (map (sel km) all) (sel km r) = dominated_in gs all r.
  Proof.
    intro H. unfold dominated_in. apply existsb_map_ext. intros s Hs. destruct (parts_sel km gs s r Hlen (H s Hs)) as (D & O & _). rewrite D, O. reflexivity.
  Qed.

  Lemma memrow_sel seen r : (forall s, In s seen -> agree km r s) -> memrow (sel km r) (map (sel km) seen) = memrow r seen.
  Proof. intro H. unfold memrow. apply existsb_map_ext. intros s Hs. apply veq_sel, H, Hs. Qed.

  Lemma spec_aux_sel all : forall rest seen,
    (forall a b, In a (all ++ seen ++ rest) -> In b (all ++ seen ++ rest) -> agree km a b) ->
    spec_aux (sel km gs) (map (sel km) all) (map (sel km) seen) (map (sel km) rest) = spec_aux gs all seen rest.
  Proof.
    induction rest as [|r rest IH]; intros seen H; [reflexivity|]. cbn [map spec_aux].
    rewrite dominated_sel, memrow_sel.
    - f_equal. change (sel km r :: map (sel km) seen) with (map (sel km) (r :: seen)). apply IH.
      intros a b Ha Hb. apply H; rewrite !in_app_iff in *; cbn [In] in *; tauto.
    - intros s Hs. apply H; rewrite !in_app_iff; cbn [In]; tauto.
    - intros s Hs. apply H; rewrite !in_app_iff; cbn [In]; tauto.
  Qed.

  Lemma spec_mask_sel rows : (forall a b, In a rows -> In b rows -> agree km a b) ->
    spec_mask (sel km gs) (map (sel km) rows) = spec_mask gs rows.
  Proof.
    intro H. unfold spec_mask. change (@nil (list Z)) with (map (sel km) (@nil (list Z))). apply spec_aux_sel.
    intros a b Ha Hb. cbn [app] in *. rewrite in_app_iff in *. apply H; tauto.
  Qed.
End Drop.

(* the constant-column mask really only drops positions on which all rows agree *)
Lemma const_mask_agree n : forall rows, (forall r, In r rows -> length r = n) ->
  forall a b, In a rows -> In b rows -> agree (map negb (const_mask n rows)) a b.
Proof.
  induction n as [|n IH]; intros rows Hl a b Ha Hb.
  - cbn. pose proof (Hl a Ha). pose proof (Hl b Hb). destruct a, b; try discriminate. exact I.
  - pose proof (Hl a Ha) as La. pose proof (Hl b Hb) as Lb. destruct a as [|x a]; [discriminate|]. destruct b as [|y b]; [discriminate|].
    cbn [const_mask map agree]. split.
    + intro E. apply negb_false_iff in E. destruct rows as [|r0 t]; [destruct Ha|].
      assert (Hh : forall r, In r (r0 :: t) -> match r0, r with x0 :: _, z :: _ => x0 = z | _, _ => True end).
      { intros r [<-|Hr]; [destruct r0; auto|]. rewrite forallb_forall in E. specialize (E r Hr). destruct r0, r; auto. apply Z.eqb_eq, E. }
      pose proof (Hh _ Ha) as A. pose proof (Hh _ Hb) as B. pose proof (Hl r0 (or_introl eq_refl)). destruct r0; [discriminate|]. congruence.
    + apply IH.
      * intros r Hr. apply in_map_iff in Hr. destruct Hr as [r' [<- Hr']]. specialize (Hl r' Hr'). destruct r'; [discriminate|]. cbn. cbn in Hl. lia.
      * change a with (tl (x :: a)). apply in_map, Ha.
      * change b with (tl (y :: b)). apply in_map, Hb.
Qed.

Lemma const_mask_length n : forall rows, length (const_mask n rows) = n.
Proof. induction n; intro rows; cbn; [reflexivity|]. rewrite IHn. reflexivity. Qed.

Lemma sel_used_length cs : forall r : list Z, length r = length cs -> length (sel (used_mask cs) r) = length (goals_of cs).
Proof.
  induction cs as [|c cs IH]; intros [|x r] H; cbn in H; try discriminate; [reflexivity|]. injection H as H.
  cbn [used_mask map sel goals_of flat_map]. destruct (goal_of c); cbn; rewrite ?app_length; cbn; rewrite IH by exact H; reflexivity.
Qed.

Theorem makepareto_is_spec cs rows : (forall r, In r rows -> length r = length cs) -> makepareto_model cs rows = pareto_spec cs rows.
Proof.
  intro Hl. unfold makepareto_model, pareto_spec. apply spec_mask_sel.
  - rewrite map_length, const_mask_length. reflexivity.
  - apply const_mask_agree. intros r Hr. apply in_map_iff in Hr. destruct Hr as [r' [<- Hr']]. apply sel_used_length, Hl, Hr'.
Qed.
