From AF Require Import Base.Tactics Lib.ArchTree C25.Model.

Lemma path_app c L1 L2 :
  path c (L1 ++ L2) =
  let '(r1, f1) := path c L1 in
  if f1 then (r1, true) else let '(r2, f2) := path c L2 in (r1 ++ r2, f2).
Proof.
  induction L1 as [|l L1 IH]; simpl.
  - destruct (path c L2); reflexivity.
  - destruct (target c l); [reflexivity|]. rewrite IH.
    destruct (path c L1) as [r1 f1]. destruct f1; [reflexivity|].
    destruct (path c L2) as [r2 f2]. destruct (is_comp l); reflexivity.
Qed.

Theorem flatten_is_path c f : flattenF c f = spec_path c f.
Proof.
  unfold spec_path. revert f.
  apply (forest_mind
    (fun a => match a with ALeaf _ => True | AHier _ sub => flattenF c sub = path c (pleaves c sub) end)
    (fun f => flattenF c f = path c (pleaves c f))); simpl; auto.
  intros a Ha f IH. destruct a as [l|fork sub].
  - simpl. unfold target. destruct (is_comp l) eqn:Ec; simpl.
    + destruct (Nat.eqb (ln l) c); [reflexivity|]. rewrite IH. destruct (path c (pleaves c f)); reflexivity.
    + rewrite IH. destruct (path c (pleaves c f)); reflexivity.
  - destruct (fork && negb (containsF c sub)) eqn:E; simpl; [exact IH|].
    rewrite path_app, Ha, IH. reflexivity.
Qed.

(* the declarative reading of [path] *)
Fixpoint take_until (c : nat) (L : list leaf) : list leaf :=
  match L with [] => [] | l :: L' => if target c l then [] else l :: take_until c L' end.

Lemma path_declarative c L :
  path c L = (filter (fun l => negb (is_comp l)) (take_until c L)
              ++ match find (target c) L with Some l => [l] | None => [] end,
              existsb (target c) L).
Proof.
  induction L as [|l L IH]; simpl; [reflexivity|].
  destruct (target c l) eqn:E; simpl; [reflexivity|]. rewrite IH.
  destruct (is_comp l); reflexivity.
Qed.

(* consequences stated in the property *)
Lemma path_no_foreign_compute c L r fd : path c L = (r, fd) ->
  forall l, In l r -> is_comp l = true -> target c l = true.
Proof.
  revert r fd. induction L as [|x L IH]; simpl; intros r fd H l Hl Hc.
  - inversion H; subst. destruct Hl.
  - destruct (target c x) eqn:E.
    + inversion H; subst. destruct Hl as [<-|[]]. exact E.
    + destruct (path c L) as [r' fd']. inversion H; subst.
      destruct (is_comp x) eqn:Ex.
      * eapply IH; eauto.
      * destruct Hl as [<-|Hl]; [congruence|]. eapply IH; eauto.
Qed.

Lemma path_last c L r : path c L = (r, true) -> exists r' l, r = r' ++ [l] /\ target c l = true /\
  forall x, In x r' -> is_comp x = false.
Proof.
  revert r. induction L as [|x L IH]; simpl; intros r H; [discriminate|].
  destruct (target c x) eqn:E.
  - inversion H; subst. exists [], x. repeat split; auto. intros ? [].
  - destruct (path c L) as [r' fd'] eqn:P. inversion H; subst.
    destruct (IH r' eq_refl) as [r'' [l [-> [Hl Hr]]]].
    destruct (is_comp x) eqn:Ex.
    + exists r'', l. auto.
    + exists (x :: r''), l. repeat split; auto. intros y [<-|Hy]; auto.
Qed.
