"""C15 — compressing pmapping tables for joining loses no per-row detail."""
import json

import common
from common import coq_list, coq_nat

TRUSTED = [
    "a row is represented in the model by one payload value; the harness checks all non-joining columns of the real tables, the model is compared on the designated payload column",
    "pandas merge(how='left', right_index=True), concat and boolean indexing are runtime behaviour covered by the correspondence only",
    "functions modelled: compress_pmappings._compress / _compress_pmapping_list (id assignment, start-index dict) and decompress_pmappings (descending walk)",
]


def impl():
    common.setup_impl_path()
    import pandas as pd
    from accelforge.mapper.FFM._join_pmappings import compress_pmappings as cp
    from accelforge.mapper.FFM._join_pmappings.compatibility import Compatibility
    from accelforge.mapper.FFM._join_pmappings.pmapping_dataframe import PmappingDataframe
    from accelforge.mapper.FFM._join_pmappings.pmapping_group import PmappingGroup
    from accelforge.util._frozenset import fzs
    return dict(pd=pd, cp=cp, Compatibility=Compatibility, PDF=PmappingDataframe, PG=PmappingGroup, fzs=fzs)


JOIN_COLS = ["Total<SEP>energy", "Total<SEP>latency", "reservation<SEP>GLB<SEP>0<SEP>right", "reservation<SEP>GLB<SEP>1<SEP>left", "tensor<SEP>T0"]


def gen_case(rng):
    n_einsums = rng.randint(1, 3)
    einsums = {}
    for e in range(n_einsums):
        name = f"E{e}"
        ntab = rng.randint(1, 6)
        sizes = [rng.choice([0, 0, 1, 2, 3, 5, 12]) for _ in range(ntab)]
        if sum(sizes) == 0:
            sizes[rng.randrange(ntab)] = rng.randint(1, 4)
        jcols = [c for c in JOIN_COLS if rng.random() < 0.6] or [JOIN_COLS[0]]
        extra = [f"{name}<SEP>action<SEP>GLB<SEP>T{k}<SEP>read" for k in range(rng.randint(0, 3))] + \
                ([f"{name}<SEP>energy<SEP>GLB<SEP>T0<SEP>read"] if rng.random() < 0.5 else []) + \
                ([f"{name}<SEP>mapping"] if rng.random() < 0.5 else [])
        # detail columns that only some groups of the Einsum carry (as <E><SEP>stride2 / n_iterations columns do in real tables)
        gextra = [[f"{name}<SEP>stride{k}" for k in range(3) if rng.random() < 0.4] for _ in range(ntab)]
        einsums[name] = {"sizes": sizes, "jcols": jcols, "extra": extra, "gextra": gextra}
    n_sel = rng.choice([1, 1, 2, 3, 7, 20])  # an empty join result is outside the property (no result rows); decompress raises on it (observation in DESIGN)
    sel = []
    for _ in range(n_sel):
        row = {}
        for name, e in einsums.items():
            row[name] = rng.randrange(sum(e["sizes"]))
        sel.append(row)
    # bias: repeated ids and boundary ids
    if sel and rng.random() < 0.5:
        sel.append(dict(sel[0]))
    if sel and rng.random() < 0.5:
        sel.append({name: sum(e["sizes"]) - 1 for name, e in einsums.items()})
        sel.append({name: 0 for name in einsums})
    return {"einsums": einsums, "sel": sel}


def run_case(I, case):
    pd, cp = I["pd"], I["cp"]
    e2p, payload = {}, {}
    for name, e in case["einsums"].items():
        groups, gid, orig = [], 0, []
        for t, sz in enumerate(e["sizes"]):
            rows = []
            for r in range(sz):
                d = {c: float((gid * 7 + k) % 11) for k, c in enumerate(e["jcols"])}
                d[f"{name}<SEP>payload"] = gid
                for k, c in enumerate(e["extra"]):
                    # values that float32 cannot represent: a cast anywhere in the round trip is visible
                    d[c] = {"id": gid} if c.endswith("mapping") else (float(gid * 100 + k) + 0.1 if k % 2 == 0 else 16777217.0 + gid)
                for k, c in enumerate(e.get("gextra", [[]] * len(e["sizes"]))[t]):
                    d[c] = float(gid) + 0.3
                rows.append(d)
                orig.append(d)
                gid += 1
            cols = e["jcols"] + [f"{name}<SEP>payload"] + e["extra"] + e.get("gextra", [[]] * len(e["sizes"]))[t]
            df = pd.DataFrame(rows, columns=cols)
            df.index = list(range(100, 100 + sz))  # arbitrary pre-existing index, must be reset
            pdf = I["PDF"](df, n_total_pmappings=sz, n_valid_pmappings=sz, ignored_resources=set(),
                           drop_valid_reservations=False, skip_pareto=True, check_above_subset_below=False)
            groups.append(I["PG"](I["Compatibility"](tensors=I["fzs"]()), pdf))
        e2p[name] = groups
        payload[name] = orig
    comp, dd = cp.compress_einsum2pmappings(e2p, print_progress=False)
    out = {"compressed_ok": True, "why": None}
    # compressed tables: joining columns + ids start..start+len-1, nothing else
    for name, e in case["einsums"].items():
        start = 0
        for g, sz in zip(comp[name], e["sizes"]):
            d = g.mappings.data
            idc = f"{name}<SEP>compressed_index"
            if list(d[idc]) != list(range(start, start + sz)) or set(d.columns) != set(e["jcols"]) | {idc}:
                out["compressed_ok"], out["why"] = False, f"{name}: compressed table has ids {list(d[idc])} cols {list(d.columns)}"
            start += sz
    sel = case["sel"]
    joined = pd.DataFrame({f"{name}<SEP>compressed_index": [r[name] for r in sel] for name in case["einsums"]})
    joined["Total<SEP>energy"] = [float(i) for i in range(len(sel))]
    pj = I["PDF"](joined, n_total_pmappings=1, n_valid_pmappings=1, ignored_resources=set(),
                  drop_valid_reservations=False, skip_pareto=True, check_above_subset_below=False)
    res = cp.decompress_pmappings(pj, dd).data
    got = {}
    for name in case["einsums"]:
        col = f"{name}<SEP>payload"
        got[name] = [int(x) for x in res[col]] if len(sel) else []
    # full per-row detail check (the property): every non-joining column equals the source row's
    detail_bad = None
    if len(res) != len(sel):
        detail_bad = f"{len(res)} result rows for {len(sel)} joined rows"
    else:
        for i, r in enumerate(sel):
            for name, e in case["einsums"].items():
                src = payload[name][r[name]]
                for c in [k for k in src if k not in e["jcols"]]:
                    if c not in res.columns:
                        detail_bad = f"column {c} of source row {r[name]} is missing from the result"
                        continue
                    v = res[c].iloc[i]
                    if (v != src[c]) if not isinstance(src[c], float) else (float(v) != src[c]):
                        detail_bad = f"row {i} column {c}: got {v!r}, source row {r[name]} has {src[c]!r}"
            if float(res["Total<SEP>energy"].iloc[i]) != float(i):
                detail_bad = f"row order changed at {i}"
    return got, out, detail_bad


def run(ck):
    I = impl()
    ck.prove()
    rng = ck.rng("cases")
    cases = [gen_case(rng) for _ in range(ck.n(300, 6000))]
    exprs, keys = [], []
    for case in cases:
        try:
            got, comp, bad = run_case(I, case)
        except Exception as e:  # noqa
            got, comp, bad = None, {"compressed_ok": True}, f"exception {type(e).__name__}: {e}"
        nontriv = len(case["sel"]) > 0 and any(0 in e["sizes"] for e in case["einsums"].values())
        ck.case(json.dumps(case, sort_keys=True), nontrivial=len(case["sel"]) > 0,
                sample={"sizes": {n: e["sizes"] for n, e in case["einsums"].items()}, "selected": case["sel"][:4]})
        if nontriv:
            ck.count("cases_with_empty_subtables")
        if bad or not comp["compressed_ok"]:
            ck.failing_input({"case": case, "why": bad or comp["why"]}, what="decompressed row detail differs from the source pmapping row: " + str(bad or comp["why"]))
            continue
        for name, e in case["einsums"].items():
            ids = [r[name] for r in case["sel"]]
            Ts, g = [], 0
            for sz in e["sizes"]:
                Ts.append(list(range(g, g + sz)))
                g += sz
            exprs.append(f"decompress (build {coq_list(Ts, lambda t: coq_list(t, coq_nat))}) {coq_list(ids, coq_nat)}")
            keys.append((case, name, got[name]))
    B = 20
    batched = ["[" + "; ".join(exprs[k:k + B]) + "]" for k in range(0, len(exprs), B)]
    vals = [v for b in common.run_coq_eval("C15", ["AF.C15.Model"], batched, chunk=10) for v in b]
    mism = []
    for (case, name, got), m in zip(keys, vals):
        mv = None if m is None else [x[1] if isinstance(x, tuple) else x for x in m[1]]
        if mv != got:
            mism.append({"case": case, "einsum": name, "impl": got, "model": mv})
    ck.count("model_vs_impl_compared", len(keys))
    ck.count("model_vs_impl_mismatches", len(mism))
    if mism and not ck.violations:
        ck.unexplained("broken-correspondence", {"mismatches": mism[:3]}, what="model decompress != implementation decompress")
    return ck.finish(
        rule="random dicts of 1-3 Einsums x 1-6 PmappingGroups with 0-12 rows (empty sub-tables biased in), random joining/non-joining column sets, "
             "random selected id tuples with repetition and boundary ids; real compress_einsum2pmappings + decompress_pmappings; "
             "every non-joining column of every result row compared with its source row; non-trivial = at least one selected row",
        trusted=TRUSTED,
        extra={"source_fingerprint": [common.fingerprint("accelforge/mapper/FFM/_join_pmappings/compress_pmappings.py", ["_compress", "_compress_pmapping_list", "decompress_pmappings"])]})


def replay(ck, data):
    I = impl()
    try:
        got, comp, bad = run_case(I, data["case"])
    except Exception as e:  # noqa
        bad = str(e)
    if bad:
        print("VIOLATION property=C15 replay=<replayed>")
        return 1
    print("replay: property holds on this input now")
    return 0
