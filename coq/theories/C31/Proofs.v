From Coq Require Import ZArith List Bool Lia.
Import ListNotations.
Require Import AF.Lib.MiniForge AF.C05.Proofs AF.C31.Model.
Open Scope Z_scope.

Section P.
  Variable out skipc : bool.

  (* transparency: a Toll changes nothing that any Memory level or any holder above sees *)
  Lemma toll_transparent c : forall hp, tolls_below_memory c hp ->
    fst (tmodel out skipc c hp) = model out skipc (erase c) hp.
  Proof.
    induction c as [|x c IH]; intros hp H; [reflexivity|]. destruct x as [[n rel|lvl skip tile]|lvl u d]; cbn [tmodel erase flat_map app model tolls_below_memory] in *.
    - fold (erase c). specialize (IH hp H). destruct (tmodel out skipc c hp) as [[uu l] tl]. cbn [fst] in *. rewrite <- IH. reflexivity.
    - fold (erase c). specialize (IH true H). destruct (tmodel out skipc c true) as [[ch l] tl]. cbn [fst] in *. rewrite <- IH. reflexivity.
    - fold (erase c). destruct H as [-> H]. specialize (IH true H). destruct (tmodel out skipc c true) as [[ch l] tl]. cbn [fst] in *. exact IH.
  Qed.

  (* a Toll never writes and never skips writes *)
  Lemma toll_no_writes c : forall hp a, In a (snd (tmodel out skipc c hp)) -> a_w a = 0 /\ a_ws a = 0.
  Proof.
    induction c as [|x c IH]; intros hp a H; [destruct H|]. destruct x as [[n rel|lvl skip tile]|lvl u d]; cbn [tmodel] in H.
    - specialize (IH hp). destruct (tmodel out skipc c hp) as [[uu l] tl]. cbn [snd] in *. apply in_map_iff in H. destruct H as [b [<- Hb]].
      destruct (IH b Hb) as [E1 E2]. unfold rep_acts. cbn [a_w a_ws]. rewrite E1, E2. destruct rel; lia.
    - specialize (IH true). destruct (tmodel out skipc c true) as [[ch l] tl]. cbn [snd] in *. apply IH, H.
    - specialize (IH true). destruct (tmodel out skipc c true) as [[ch l] tl]. cbn [snd] in *. destruct H as [<-|H]; [split; reflexivity|apply IH, H].
  Qed.

  (* the charge of a Toll (at its own position in the nest): the traffic the holder above would exchange with the nest below,
     filtered by the configured direction; by C05_invariant that traffic is the executed fetch / write-back count *)
  Lemma toll_charge lvl u d rest : tolls_below_memory rest true ->
    exists l tl, tmodel out skipc (TToll lvl u d :: rest) true
      = (fst (model out skipc (erase rest) true), l,
         mkA lvl ((if u then uW (fst (model out skipc (erase rest) true)) else 0) + (if d then uR (fst (model out skipc (erase rest) true)) else 0))
                 (if d then uS (fst (model out skipc (erase rest) true)) else 0) 0 0 :: tl).
  Proof.
    intro H. cbn [tmodel]. pose proof (toll_transparent rest true H) as T. destruct (tmodel out skipc rest true) as [[ch l] tl]. cbn [fst] in T.
    rewrite <- T. cbn [fst]. exists l, tl. reflexivity.
  Qed.

  (* outside its direction a Toll charges nothing *)
  Lemma toll_wrong_direction lvl rest hp : exists ch l tl,
    tmodel out skipc (TToll lvl false false :: rest) hp = (ch, l, mkA lvl 0 0 0 0 :: tl).
  Proof. cbn [tmodel]. destruct (tmodel out skipc rest true) as [[ch l] tl]. eexists _, _, _. reflexivity. Qed.
End P.
