From Coq Require Import List Arith Bool Lia.
Import ListNotations.
From AF Require Import C22.Model.

Lemma mem_In x l : mem x l = true <-> In x l.
Proof.
  induction l as [|y l IH]; simpl; [split; [discriminate|tauto]|].
  rewrite orb_true_iff, IH, Nat.eqb_eq. split; intros [H|H]; auto.
Qed.

Lemma mem_filter x f l : mem x (filter f l) = mem x l && f x.
Proof.
  induction l as [|y l IH]; simpl; [reflexivity|].
  destruct (f y) eqn:E; simpl; rewrite IH.
  - destruct (Nat.eqb_spec x y) as [->|]; simpl; [rewrite E; reflexivity|reflexivity].
  - destruct (Nat.eqb_spec x y) as [->|]; simpl; [rewrite E, andb_false_r; reflexivity|reflexivity].
Qed.

Lemma mem_app x a b : mem x (a ++ b) = mem x a || mem x b.
Proof. induction a as [|y a IH]; simpl; [reflexivity|]. rewrite IH, orb_assoc. reflexivity. Qed.

Lemma mem_and x a b : mem x (s_and a b) = mem x a && mem x b.
Proof. apply mem_filter. Qed.
Lemma mem_sub x a b : mem x (s_sub a b) = mem x a && negb (mem x b).
Proof. unfold s_sub. apply mem_filter. Qed.
Lemma mem_or x a b : mem x (s_or a b) = mem x a || mem x b.
Proof. unfold s_or. rewrite mem_app, mem_sub. destruct (mem x a), (mem x b); reflexivity. Qed.
Lemma mem_xor x a b : mem x (s_xor a b) = xorb (mem x a) (mem x b).
Proof. unfold s_xor. rewrite mem_app, !mem_sub. destruct (mem x a), (mem x b); reflexivity. Qed.

(* ---------------------------------------------------------------- the algebra theorem *)
Theorem algebra env al e :
  (forall n, full (env n) = al) ->
  (forall x, mem x (inst (impl_eval env e)) = denote al (fun n y => mem y (inst (env n))) e x) /\
  full (impl_eval env e) = al.
Proof.
  intros Hfull. induction e as [n|a [IHa Fa]|a [IHa Fa] b [IHb Fb]|a [IHa Fa] b [IHb Fb]|a [IHa Fa] b [IHb Fb]|a [IHa Fa] b [IHb Fb]]; simpl.
  - split; [reflexivity|apply Hfull].
  - split; [|exact Fa]. intros x. rewrite mem_sub, Fa, IHa. reflexivity.
  - split; [|exact Fa]. intros x. rewrite mem_and, IHa, IHb. reflexivity.
  - split; [|exact Fa]. intros x. rewrite mem_or, IHa, IHb. reflexivity.
  - split; [|exact Fa]. intros x. rewrite mem_sub, IHa, IHb. reflexivity.
  - split; [|exact Fa]. intros x. rewrite mem_xor, IHa, IHb. reflexivity.
Qed.

(* results stay inside the Einsum's tensors when the named sets do *)
Theorem closed env al e :
  (forall n, full (env n) = al) -> (forall n x, mem x (inst (env n)) = true -> mem x al = true) ->
  forall x, mem x (inst (impl_eval env e)) = true -> mem x al = true.
Proof.
  intros Hfull Hsub. induction e as [n|a IHa|a IHa b IHb|a IHa b IHb|a IHa b IHb|a IHa b IHb]; simpl; intros x.
  - apply Hsub.
  - rewrite mem_sub. destruct (algebra env al a Hfull) as [_ ->]. intros H. apply andb_true_iff in H. tauto.
  - rewrite mem_and. intros H. apply andb_true_iff in H. apply IHa. tauto.
  - rewrite mem_or. intros H. apply orb_true_iff in H. destruct H; [apply IHa|apply IHb]; assumption.
  - rewrite mem_sub. intros H. apply andb_true_iff in H. apply IHa. tauto.
  - rewrite mem_xor. intros H. destruct (mem x (inst (impl_eval env a))) eqn:E; [apply IHa, E|]. simpl in H. apply IHb. destruct (mem x (inst (impl_eval env b))); [reflexivity|discriminate].
Qed.

(* ---------------------------------------------------------------- named sets *)
Lemma named_sub_all w e n x : n <> NOther -> mem x (named_inst w e n) = true -> mem x (all_of e) = true.
Proof.
  intros Hn. destruct n; cbn [named_inst].
  - tauto.
  - unfold all_of. rewrite mem_or. intros ->. reflexivity.
  - unfold all_of. rewrite mem_or. intros ->. apply orb_true_r.
  - rewrite mem_filter. intros H. apply andb_true_iff in H. tauto.
  - rewrite mem_filter. intros H. apply andb_true_iff in H. tauto.
  - rewrite mem_and. intros H. apply andb_true_iff in H. tauto.
  - simpl. discriminate.
  - destruct (mem t (all_of e)) eqn:E; simpl; [|discriminate].
    rewrite orb_false_r. intros H. apply Nat.eqb_eq in H. subst. exact E.
  - congruence.
Qed.

Lemma combine_seq_in (w : workload) : forall k i e, In (i, e) (combine (seq k (length w)) w) <-> (k <= i /\ nth_error w (i - k) = Some e).
Proof.
  induction w as [|e0 w IH]; intros k i e; simpl.
  - split; [tauto|]. intros [_ H]. destruct (i - k); discriminate.
  - rewrite IH. split.
    + intros [H|[H1 H2]]; [inversion H; subst; rewrite Nat.sub_diag; split; [lia|reflexivity]|].
      split; [lia|]. replace (i - k) with (S (i - S k)) by lia. exact H2.
    + intros [H1 H2]. destruct (Nat.eq_dec i k) as [->|Hne].
      * rewrite Nat.sub_diag in H2. simpl in H2. inversion H2. left; reflexivity.
      * right. split; [lia|]. replace (i - k) with (S (i - S k)) in H2 by lia. exact H2.
Qed.

Lemma as_input_spec w t i : In i (as_input w t) <-> exists e, nth_error w i = Some e /\ mem t (inputs e) = true.
Proof.
  unfold as_input. rewrite in_map_iff. split.
  - intros [[j e] [<- H]]. apply filter_In in H. destruct H as [H1 H2]. apply combine_seq_in in H1.
    simpl in *. rewrite Nat.sub_0_r in H1. exists e. tauto.
  - intros [e [H1 H2]]. exists (i, e). split; [reflexivity|]. apply filter_In. split; [|exact H2].
    apply combine_seq_in. rewrite Nat.sub_0_r. split; [lia|exact H1].
Qed.

Lemma as_output_spec w t i : In i (as_output w t) <-> exists e, nth_error w i = Some e /\ mem t (outputs e) = true.
Proof.
  unfold as_output. rewrite in_map_iff. split.
  - intros [[j e] [<- H]]. apply filter_In in H. destruct H as [H1 H2]. apply combine_seq_in in H1.
    simpl in *. rewrite Nat.sub_0_r in H1. exists e. tauto.
  - intros [e [H1 H2]]. exists (i, e). split; [reflexivity|]. apply filter_In. split; [|exact H2].
    apply combine_seq_in. rewrite Nat.sub_0_r. split; [lia|exact H1].
Qed.

(* Intermediates = tensors of this Einsum that some Einsum reads and some Einsum writes *)
Theorem intermediates_spec w e t :
  mem t (named_inst w e NIntermediates) = true <->
  mem t (all_of e) = true /\ (exists i, In i (as_input w t)) /\ (exists j, In j (as_output w t)).
Proof.
  simpl. rewrite mem_filter, !andb_true_iff, !negb_true_iff, !Nat.eqb_neq. split.
  - intros [H1 [H2 H3]]. split; [exact H1|]. split.
    + destruct (as_input w t) as [|i l]; [simpl in H2; lia|exists i; left; reflexivity].
    + destruct (as_output w t) as [|i l]; [simpl in H3; lia|exists i; left; reflexivity].
  - intros [H1 [[i Hi] [j Hj]]]. split; [exact H1|]. split.
    + destruct (as_input w t); [destruct Hi|simpl; lia].
    + destruct (as_output w t); [destruct Hj|simpl; lia].
Qed.

(* ---------------------------------------------------------------- dictionaries with Other *)
Definition dstep (w : workload) (e : einsum) (st : list (sexp * list nat) * list nat) (k : sexp) :=
  let ins := inst (impl_eval (env_of w e (snd st)) k) in (fst st ++ [(k, ins)], s_sub (snd st) ins).

Lemma dict_eval_unfold w e keys :
  dict_eval w e keys =
  let others := filter mentions_other keys in
  if Nat.ltb 1 (length others) then None
  else let res := fst (fold_left (dstep w e) (filter (fun k => negb (mentions_other k)) keys ++ others) ([], all_of e)) in
       if disjoint_all (map snd res) then Some res else None.
Proof. reflexivity. Qed.

(* Other = All minus everything evaluated so far *)
Lemma fold_other w e ks : forall st, exists new,
  fst (fold_left (dstep w e) ks st) = fst st ++ new /\
  forall x, mem x (snd (fold_left (dstep w e) ks st)) = mem x (snd st) && negb (existsb (fun p => mem x p) (map snd new)).
Proof.
  induction ks as [|k ks IH]; intros st; cbn [fold_left].
  - exists []. split; [symmetry; apply app_nil_r|]. intros x. simpl. rewrite andb_true_r. reflexivity.
  - destruct (IH (dstep w e st k)) as [new1 [H1 H2]].
    exists ((k, inst (impl_eval (env_of w e (snd st)) k)) :: new1). split.
    + rewrite H1. unfold dstep. cbn [fst]. rewrite <- app_assoc. reflexivity.
    + intros x. rewrite H2. unfold dstep. cbn [snd map existsb]. rewrite mem_sub, negb_orb, andb_assoc. reflexivity.
Qed.

Lemma disjoint_all_spec parts : disjoint_all parts = true ->
  forall i j p q x, i < j -> nth_error parts i = Some p -> nth_error parts j = Some q -> mem x p = true -> mem x q = false.
Proof.
  induction parts as [|p0 t IH]; simpl; intros H i j p q x Hij Hi Hj Hp; [destruct i; discriminate|].
  apply andb_true_iff in H. destruct H as [H1 H2]. destruct i as [|i].
  - simpl in Hi. inversion Hi; subst p0. destruct j as [|j]; [lia|]. simpl in Hj.
    rewrite forallb_forall in H1. specialize (H1 q (nth_error_In _ _ Hj)).
    destruct (mem x q) eqn:E; [|reflexivity]. exfalso.
    assert (mem x (s_and p q) = true) by (rewrite mem_and, Hp, E; reflexivity).
    destruct (s_and p q); [discriminate|discriminate].
  - destruct j as [|j]; [lia|]. simpl in Hi, Hj. apply (IH H2 i j p q x); auto. lia.
Qed.

(* overlapping keys are rejected; what is returned is pairwise disjoint *)
Theorem dict_disjoint w e keys res : dict_eval w e keys = Some res ->
  forall i j p q x, i < j -> nth_error (map snd res) i = Some p -> nth_error (map snd res) j = Some q ->
  mem x p = true -> mem x q = false.
Proof.
  rewrite dict_eval_unfold. cbv zeta. destruct (Nat.ltb 1 _); [discriminate|].
  destruct (disjoint_all _) eqn:E; [|discriminate]. intros H. inversion H; subst. apply disjoint_all_spec. exact E.
Qed.

(* with a bare Other key every tensor of the Einsum is assigned (and by disjointness exactly once) *)
Theorem other_covers w e keys res : dict_eval w e keys = Some res -> In (SName NOther) keys ->
  forall x, mem x (all_of e) = true -> exists k p, In (k, p) res /\ mem x p = true.
Proof.
  rewrite dict_eval_unfold. cbv zeta.
  destruct (Nat.ltb_spec 1 (length (filter mentions_other keys))) as [|Hlen]; [discriminate|].
  destruct (disjoint_all _) eqn:E; [|discriminate]. intros H Hin x Hx. inversion H; subst res. clear H E.
  assert (Ho : filter mentions_other keys = [SName NOther]).
  { assert (Hf : In (SName NOther) (filter mentions_other keys)) by (apply filter_In; split; [exact Hin|reflexivity]).
    destruct (filter mentions_other keys) as [|a [|b l]]; [destruct Hf| |simpl in Hlen; lia].
    destruct Hf as [->|[]]. reflexivity. }
  rewrite Ho. rewrite fold_left_app. simpl.
  set (A := fold_left (dstep w e) (filter (fun k => negb (mentions_other k)) keys) ([], all_of e)).
  destruct (fold_other w e (filter (fun k => negb (mentions_other k)) keys) ([], all_of e)) as [new [H0 H1]].
  fold A in H0, H1. simpl in H0. specialize (H1 x). simpl in H1. rewrite Hx in H1. simpl in H1. rewrite <- H0 in H1.
  destruct (existsb (fun p => mem x p) (map snd (fst A))) eqn:Ex.
  - apply existsb_exists in Ex. destruct Ex as [p [Hp Hm]]. apply in_map_iff in Hp. destruct Hp as [[k p'] [E Hp]]. simpl in E; subst p'.
    exists k, p. split; [apply in_or_app; left; exact Hp|exact Hm].
  - exists (SName NOther), (snd A). split; [apply in_or_app; right; left; reflexivity|]. rewrite H1. reflexivity.
Qed.
