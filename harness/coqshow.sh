#!/bin/bash
# usage: coqshow.sh file.v LINE  -> compiles the file truncated after LINE with "Show." appended, prints goal
f=$1; n=$2
d=$(dirname $f); b=$(basename $f .v)
head -n $n $f > $d/${b}_tmp.v
echo "Show. Abort." >> $d/${b}_tmp.v
timeout 300 coqc -Q /verif/coq/theories AF $d/${b}_tmp.v 2>&1 | tail -${3:-40}
rm -f $d/${b}_tmp.* $d/.${b}_tmp.aux
