(* C05 proofs: the analytical model (recursion of the code) equals loop-nest execution. *)
From Coq Require Import ZArith QArith List Bool Lia.
Import ListNotations.
Require Import AF.Lib.MiniForge.
Open Scope Z_scope.

Section OneTensor.
  Variable out : bool.
  Variable skipc : bool.

  Definition wf_item (it : item) : Prop := match it with ILoop n _ => 1 <= n | IHold _ _ _ => True end.
  Definition wf (c : list item) : Prop := Forall wf_item c.

  (* ---------------------------------------------------------------- counting *)
  Lemma count_app lvl w a b : count lvl w (a ++ b) = count lvl w a + count lvl w b.
  Proof.
    unfold count. induction a as [|[[l iw] v] a IH]; simpl; [lia|].
    destruct (Nat.eqb l lvl && Bool.eqb iw w); lia.
  Qed.

  Lemma count_cons lvl w l iw v evs :
    count lvl w ((l, iw, v) :: evs) = (if Nat.eqb l lvl && Bool.eqb iw w then v else 0) + count lvl w evs.
  Proof. unfold count. simpl. destruct (Nat.eqb l lvl && Bool.eqb iw w); lia. Qed.

  Fixpoint sum_nat (k : nat) (f : nat -> Z) : Z := match k with O => 0 | S j => sum_nat j f + f j end.

  Lemma sum_nat_ext k f g : (forall j, f j = g j) -> sum_nat k f = sum_nat k g.
  Proof. intro H. induction k as [|k IH]; simpl; [reflexivity|]. rewrite IH, H. reflexivity. Qed.

  Lemma count_iter lvl w k f : count lvl w (iter k f) = sum_nat k (fun j => count lvl w (f j)).
  Proof. induction k as [|k IH]; simpl; [reflexivity|]. rewrite count_app, IH. reflexivity. Qed.

  (* sum of T - [b_j] S over j < k when b_0 = fresh and b_j = fresh && rel for j > 0 *)
  Lemma sum_fresh k T Sk fresh rel : (1 <= k)%nat ->
    sum_nat k (fun j => T - (if fresh && (rel || Nat.eqb j 0) then Sk else 0))
    = Z.of_nat k * T - (if fresh then (if rel then Z.of_nat k else 1) * Sk else 0).
  Proof.
    intro Hk. induction k as [|k IH]; [lia|]. destruct k as [|k'].
    - cbn [sum_nat Nat.eqb]. rewrite orb_true_r, andb_true_r. change (Z.of_nat 1) with 1. destruct fresh, rel; lia.
    - rewrite (Nat2Z.inj_succ (S k')).
      change (sum_nat (S (S k')) (fun j => T - (if fresh && (rel || Nat.eqb j 0) then Sk else 0)))
        with (sum_nat (S k') (fun j => T - (if fresh && (rel || Nat.eqb j 0) then Sk else 0))
              + (T - (if fresh && (rel || Nat.eqb (S k') 0) then Sk else 0))).
      rewrite IH by lia. cbn [Nat.eqb]. rewrite orb_false_r. destruct fresh, rel; cbn [andb]; lia.
  Qed.

  (* ---------------------------------------------------------------- the invariant *)
  (* contribution of the nearest buffet below to the holder above it *)
  Definition ppT (parent : option (nat * bool)) (u : up) (lvl : nat) (w : bool) : Z :=
    match parent with
    | Some (pl, _) => if Nat.eqb pl lvl then (if w then uW u else uR u) else 0
    | None => 0 end.
  Definition ppS (parent : option (nat * bool)) (u : up) (lvl : nat) (w : bool) : Z :=
    match parent with
    | Some (pl, pskip) => if Nat.eqb pl lvl && negb w && pskip then uS u else 0
    | None => 0 end.
  Definition apT (l : list acts) (lvl : nat) (w : bool) : Z :=
    fold_right (fun a acc => if Nat.eqb (a_lvl a) lvl then acc + (if w then a_w a else a_r a) else acc) 0 l.
  Definition apS (l : list acts) (lvl : nat) (w : bool) : Z :=
    fold_right (fun a acc => if Nat.eqb (a_lvl a) lvl then acc + (if w then a_ws a else a_rs a) else acc) 0 l.

  Definition sc (rel : bool) (n : Z) : Z := if rel then n else 1.

  Lemma ppT_rep p u n rel lvl w : ppT p (rep_up n rel u) lvl w = n * ppT p u lvl w.
  Proof. unfold ppT. destruct p as [[pl ps]|]; [|lia]. destruct (Nat.eqb pl lvl); [|lia]. destruct w; reflexivity. Qed.
  Lemma ppS_rep p u n rel lvl w : ppS p (rep_up n rel u) lvl w = sc rel n * ppS p u lvl w.
  Proof.
    unfold ppS, sc. destruct p as [[pl ps]|]; [|destruct rel; lia]. destruct (Nat.eqb pl lvl && negb w && ps); [|destruct rel; lia].
    simpl. destruct rel; lia.
  Qed.
  Lemma apT_rep l n rel lvl w : apT (map (rep_acts n rel) l) lvl w = n * apT l lvl w.
  Proof.
    induction l as [|a l IH]; simpl; [lia|]. destruct (Nat.eqb (a_lvl a) lvl); [|exact IH]. rewrite IH. destruct w; lia.
  Qed.
  Lemma apS_rep l n rel lvl w : apS (map (rep_acts n rel) l) lvl w = sc rel n * apS l lvl w.
  Proof.
    unfold sc. induction l as [|a l IH]; simpl; [destruct rel; lia|]. destruct (Nat.eqb (a_lvl a) lvl); [|exact IH]. rewrite IH.
    destruct w, rel; lia.
  Qed.

  Lemma apT_cons a l lvl w : apT (a :: l) lvl w = (if Nat.eqb (a_lvl a) lvl then (if w then a_w a else a_r a) else 0) + apT l lvl w.
  Proof. unfold apT. simpl. destruct (Nat.eqb (a_lvl a) lvl); lia. Qed.
  Lemma apS_cons a l lvl w : apS (a :: l) lvl w = (if Nat.eqb (a_lvl a) lvl then (if w then a_ws a else a_rs a) else 0) + apS l lvl w.
  Proof. unfold apS. simpl. destruct (Nat.eqb (a_lvl a) lvl); lia. Qed.

  Definition isS {A} (o : option A) : bool := match o with Some _ => true | None => false end.

  Theorem exec_model c : wf c -> forall parent fresh lvl w,
    count lvl w (exec out skipc c parent fresh)
    = (ppT parent (fst (model out skipc c (isS parent))) lvl w + apT (snd (model out skipc c (isS parent))) lvl w)
      - (if fresh then ppS parent (fst (model out skipc c (isS parent))) lvl w + apS (snd (model out skipc c (isS parent))) lvl w else 0).
  Proof.
    induction c as [|it c IH]; intros Hwf parent fresh lvl w.
    - (* compute *)
      cbn [exec model fst snd apT apS fold_right]. destruct parent as [[pl ps]|]; cbn [isS ppT ppS uR uW uS].
      2:{ cbn. destruct fresh; reflexivity. }
      rewrite count_app, count_cons.
      destruct out; [rewrite count_cons|]; cbn [count fold_right andb].
      all: destruct (Nat.eqb pl lvl) eqn:E, w, skipc, ps, fresh; cbn [andb negb Bool.eqb]; lia.
    - inversion Hwf as [|? ? Hit Hc]; subst. destruct it as [n rel|l0 skip tile].
      + (* temporal loop *)
        cbn [exec model]. destruct (model out skipc c (isS parent)) as [u l] eqn:M. cbn [fst snd].
        rewrite count_iter.
        rewrite (sum_nat_ext _ _ (fun j => (ppT parent u lvl w + apT l lvl w)
                   - (if fresh && (rel || Nat.eqb j 0) then ppS parent u lvl w + apS l lvl w else 0))).
        2:{ intros j. rewrite (IH Hc parent _ lvl w), M. reflexivity. }
        simpl in Hit. rewrite sum_fresh by lia. rewrite Z2Nat.id by lia.
        rewrite ppT_rep, ppS_rep, apT_rep, apS_rep. unfold sc. destruct fresh, rel; lia.
      + (* holder *)
        cbn [exec model]. destruct (model out skipc c true) as [ch l] eqn:M.
        specialize (IH Hc (Some (l0, skip)) fresh lvl w). cbn [isS] in IH. rewrite M in IH. cbn [fst snd] in IH.
        rewrite !count_app, IH. cbn [fst snd]. rewrite apT_cons, apS_cons. cbn [a_lvl a_r a_rs a_w a_ws].
        generalize (apT l lvl w) (apS l lvl w). intros AT AS.
        destruct parent as [[pl ps]|]; cbn [isS ppT ppS uR uW uS].
        * destruct out; rewrite ?count_cons; cbn [count fold_right];
          destruct (Nat.eqb l0 lvl) eqn:E0, (Nat.eqb pl lvl) eqn:E1, w, skip, ps, fresh; cbn [andb negb Bool.eqb uR uW uS]; lia.
        * cbn [count fold_right uR uW uS].
          destruct (Nat.eqb l0 lvl) eqn:E0, w, out, skip, fresh; cbn [andb negb]; lia.
  Qed.

  Lemma net_ap l lvl : net l lvl = (apT l lvl false - apS l lvl false, apT l lvl true - apS l lvl true).
  Proof.
    unfold net. induction l as [|a l IH]; [reflexivity|]. cbn [fold_right]. rewrite IH, !apT_cons, !apS_cons.
    destruct (Nat.eqb (a_lvl a) lvl); cbn [fst snd]; f_equal; lia.
  Qed.

  (* execution counts = model counts, per level, reads and writes *)
  Theorem exec_counts_model_counts c lvl : wf c -> exec_counts out skipc c lvl = model_counts out skipc c lvl.
  Proof.
    intro H. unfold exec_counts, model_counts. rewrite net_ap, !(exec_model c H None true). cbn [isS ppT ppS]. f_equal; lia.
  Qed.

  (* closed form: a nest of loops above multiplies every total by the product of all iteration counts and the
     skipped-first parts by the product over the loops relevant to the tensor only *)
  Definition loops_items (Ls : list (Z * bool)) : list item := map (fun nr : Z * bool => ILoop (fst nr) (snd nr)) Ls.
  Definition prod_all (Ls : list (Z * bool)) : Z := fold_right (fun (nr : Z * bool) acc => fst nr * acc) 1 Ls.
  Definition prod_rel (Ls : list (Z * bool)) : Z := fold_right (fun (nr : Z * bool) acc => (if snd nr then fst nr else 1) * acc) 1 Ls.
  Definition scale_up (P Pr : Z) (u : up) := mkUp (P * uR u) (P * uW u) (Pr * uS u).
  Definition scale_acts (P Pr : Z) (a : acts) := mkA (a_lvl a) (P * a_r a) (Pr * a_rs a) (P * a_w a) (Pr * a_ws a).

  Lemma model_loops Ls c hp :
    model out skipc (loops_items Ls ++ c) hp
    = (scale_up (prod_all Ls) (prod_rel Ls) (fst (model out skipc c hp)),
       map (scale_acts (prod_all Ls) (prod_rel Ls)) (snd (model out skipc c hp))).
  Proof.
    induction Ls as [|[n rel] Ls IH]; cbn [loops_items map app model prod_all prod_rel fold_right fst snd].
    - destruct (model out skipc c hp) as [u l]. cbn [fst snd]. f_equal.
      + destruct u as [a b c0]. unfold scale_up. cbn [uR uW uS]. rewrite !Z.mul_1_l. reflexivity.
      + rewrite <- (map_id l) at 1. apply map_ext. intros [a b c0 d e]. unfold scale_acts. cbn [a_lvl a_r a_rs a_w a_ws].
        rewrite !Z.mul_1_l. reflexivity.
    - fold (loops_items Ls). rewrite IH. destruct (model out skipc c hp) as [u l]. cbn [fst snd].
      fold (prod_all Ls) (prod_rel Ls). f_equal.
      + unfold rep_up, scale_up. cbn [uR uW uS]. destruct rel; f_equal; ring.
      + rewrite map_map. apply map_ext. intros [a b c0 d e]. unfold rep_acts, scale_acts. cbn [a_lvl a_r a_rs a_w a_ws].
        destruct rel; f_equal; ring.
  Qed.
End OneTensor.

(* ------------------------------------------------------------------ valid mappings give well-formed chains *)
Fixpoint valid_loops (m : list node) (s : shape) : bool :=
  match m with
  | [] => true
  | Loop rv tile :: rest =>
      (0 <? tile) && (tile <=? nth rv s 1) && (nth rv s 1 mod tile =? 0) && valid_loops rest (set_nth rv tile s)
  | Sto _ _ :: rest => valid_loops rest s
  end.

Lemma valid_chain_wf skipf t tn m : forall s, valid_loops m s = true -> wf (chain_of skipf t tn m s).
Proof.
  induction m as [|nd m IH]; intros s H; cbn [chain_of]; [constructor|].
  destruct nd as [lvl t'|rv tile]; cbn [valid_loops] in H.
  - destruct (Nat.eqb t' t); [constructor; [exact I|]|]; apply IH, H.
  - apply andb_true_iff in H. destruct H as [H H4]. apply andb_true_iff in H. destruct H as [H H3].
    apply andb_true_iff in H. destruct H as [H1 H2]. apply Z.ltb_lt in H1. apply Z.leb_le in H2.
    constructor; [|apply IH, H4]. cbn [wf_item]. pose proof (Z.div_str_pos (nth rv s 1) tile). lia.
Qed.

(* ------------------------------------------------------------------ whole evaluation *)
Section Whole.
  Variable sp : spec.
  Variable m : list node.
  Hypothesis Hvalid : valid_loops m (s_bounds sp) = true.

  Lemma tcounts_eq t lvl : tcounts exec_counts sp m t lvl = tcounts model_counts sp m t lvl.
  Proof. unfold tcounts. apply exec_counts_model_counts. apply valid_chain_wf. exact Hvalid. Qed.

  Lemma actions_eq lvl t : actions exec_counts sp m lvl t = actions model_counts sp m lvl t.
  Proof. unfold actions. rewrite tcounts_eq. reflexivity. Qed.

  Lemma level_latency_eq lvl : level_latency exec_counts sp m lvl = level_latency model_counts sp m lvl.
  Proof.
    unfold level_latency. f_equal; f_equal; f_equal; apply map_ext; intro t; rewrite actions_eq; reflexivity.
  Qed.

  Lemma latency_eq : latency exec_counts sp m = latency model_counts sp m.
  Proof. unfold latency. f_equal. apply map_ext. intro l. apply level_latency_eq. Qed.

  Lemma dyn_energy_eq : dyn_energy exec_counts sp m = dyn_energy model_counts sp m.
  Proof.
    unfold dyn_energy. f_equal. f_equal. apply map_ext. intro l. f_equal. apply map_ext. intro t. rewrite actions_eq. reflexivity.
  Qed.

  Lemma energy_eq : energy exec_counts sp m = energy model_counts sp m.
  Proof. unfold energy, leak_energy. rewrite dyn_energy_eq, latency_eq. reflexivity. Qed.
End Whole.

(* ------------------------------------------------------------------ "fresh" = never visited before *)
(* a visit of a holder is the index vector of the loops above it (outermost first), each tagged with the loop's relevance *)
Definition visit := list (nat * bool).
Definition fresh_of (a : visit) : bool := forallb (fun x => snd x || Nat.eqb (fst x) 0) a.
(* earlier in execution order *)
Fixpoint lexlt (a b : visit) : Prop :=
  match a, b with
  | (j1, _) :: a', (j2, _) :: b' => (j1 < j2)%nat \/ (j1 = j2 /\ lexlt a' b')
  | _, _ => False
  end.
(* same tile of the tensor: same loops, same index in every relevant loop *)
Definition same_tile (a b : visit) : Prop := Forall2 (fun x y => snd x = snd y /\ (snd x = true -> fst x = fst y)) a b.

Lemma fresh_no_earlier a : fresh_of a = true -> forall b, same_tile b a -> ~ lexlt b a.
Proof.
  induction a as [|[j r] a IH]; intros Hf b Hs Hl; [destruct b as [|[? ?] ?]; exact Hl|].
  inversion Hs as [|[j' r'] ? b' ? [Hr Hj] Hs']; subst. cbn in Hf, Hl, Hr, Hj. apply andb_true_iff in Hf. destruct Hf as [H0 Hf].
  destruct Hl as [Hlt|[-> Hl]].
  - subst r'. destruct r; [specialize (Hj eq_refl); lia|]. cbn in H0. apply Nat.eqb_eq in H0. lia.
  - exact (IH Hf b' Hs' Hl).
Qed.

Lemma not_fresh_earlier a : fresh_of a = false -> exists b, same_tile b a /\ lexlt b a.
Proof.
  induction a as [|[j r] a IH]; intro Hf; [discriminate|]. cbn in Hf. apply andb_false_iff in Hf.
  assert (Hrefl : forall v : visit, same_tile v v) by (induction v; constructor; auto).
  destruct Hf as [H0|Hf].
  - apply orb_false_iff in H0. destruct H0 as [-> Hj]. apply Nat.eqb_neq in Hj.
    exists ((0%nat, false) :: a). split; [constructor; [split; [reflexivity|discriminate]|apply Hrefl]|]. cbn. left. lia.
  - destruct (IH Hf) as [b [Hs Hl]]. exists ((j, r) :: b). split; [constructor; [auto|exact Hs]|]. cbn. right. auto.
Qed.

