(* C22 — property theorems only. *)
From Coq Require Import List Arith Bool Lia.
Import ListNotations.
From AF Require Import C22.Model C22.Proofs.

(* every expression tree evaluates to the same expression in set algebra, complement taken
   within the Einsum's tensors; the result lives in that space *)
Theorem C22_algebra : forall env al e, (forall n, full (env n) = al) ->
  (forall x, mem x (inst (impl_eval env e)) = denote al (fun n y => mem y (inst (env n))) e x) /\
  full (impl_eval env e) = al.
Proof. exact algebra. Qed.
Print Assumptions C22_algebra.

Theorem C22_closed : forall env al e, (forall n, full (env n) = al) ->
  (forall n x, mem x (inst (env n)) = true -> mem x al = true) ->
  forall x, mem x (inst (impl_eval env e)) = true -> mem x al = true.
Proof. exact closed. Qed.
Print Assumptions C22_closed.

(* named sets are subsets of the Einsum's tensors; Intermediates is its defining comprehension *)
Theorem C22_named_sets : forall w e,
  (forall n x, n <> NOther -> mem x (named_inst w e n) = true -> mem x (all_of e) = true) /\
  (forall t, mem t (named_inst w e NIntermediates) = true <->
             mem t (all_of e) = true /\ (exists i, In i (as_input w t)) /\ (exists j, In j (as_output w t))).
Proof. intros w e. split; [intros n x; apply named_sub_all|apply intermediates_spec]. Qed.
Print Assumptions C22_named_sets.

(* Other-key dictionaries: pairwise disjoint parts (overlap => rejected), and with a bare
   Other key every tensor is assigned *)
Theorem C22_other_partition : forall w e keys res, dict_eval w e keys = Some res ->
  (forall i j p q x, i < j -> nth_error (map snd res) i = Some p -> nth_error (map snd res) j = Some q ->
                     mem x p = true -> mem x q = false) /\
  (In (SName NOther) keys -> forall x, mem x (all_of e) = true -> exists k p, In (k, p) res /\ mem x p = true).
Proof. intros w e keys res H. split; [apply (dict_disjoint w e keys res H)|apply (other_covers w e keys res H)]. Qed.
Print Assumptions C22_other_partition.
