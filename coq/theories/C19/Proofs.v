(* C19 proofs: scaling every per-action energy and leak power by k scales the energy of every mapping, hence the optimum. *)
From Coq Require Import ZArith QArith List Bool Lia Setoid.
Import ListNotations.
Require Import AF.Lib.MiniForge AF.C06.Model AF.Lib.MiniSpace AF.C01.Proofs.
Open Scope Q_scope.

(* ---- generic: the minimum of a pointwise scaled list *)
Lemma qmin_scaled (k : Q) l l' v v' : 0 < k -> Forall2 (fun a b => b == k * a) l l' ->
  qmin_list l = Some v -> qmin_list l' = Some v' -> v' == k * v.
Proof.
  intros Hk F O O'. apply qmin_list_spec in O, O'. destruct O as [A [x [Hx <-]]]. destruct O' as [A' [y [Hy <-]]].
  apply Qle_antisym.
  - (* y <= k * x : the partner of x in l' *)
    assert (exists b, In b l' /\ b == k * x) as [b [Hb Eb]].
    { clear -F Hx. induction F as [|a b l l' Hab F IH]; [destruct Hx|]. destruct Hx as [->|Hx]; [exists b; split; [left; reflexivity|exact Hab]|].
      destruct (IH Hx) as [b' [H1 H2]]. exists b'. split; [right; exact H1|exact H2]. }
    rewrite <- Eb. apply A', Hb.
  - assert (exists a, In a l /\ y == k * a) as [a [Ha Ea]].
    { clear -F Hy. induction F as [|a b l l' Hab F IH]; [destruct Hy|]. destruct Hy as [->|Hy]; [exists a; split; [left; reflexivity|exact Hab]|].
      destruct (IH Hy) as [a' [H1 H2]]. exists a'. split; [right; exact H1|exact H2]. }
    rewrite Ea. apply Qmult_le_l; [exact Hk|]. apply A, Ha.
Qed.

Lemma qmin_scaled_some (k : Q) l l' v : Forall2 (fun a b => b == k * a) l l' -> qmin_list l = Some v -> exists v', qmin_list l' = Some v'.
Proof.
  intros F O. destruct (qmin_list l') as [v'|] eqn:E; [eauto|]. apply qmin_list_none in E. subst. inversion F; subst.
  apply qmin_list_spec in O. destruct O as [_ [x [[] _]]].
Qed.

(* ---- scaling the energy parameters of a spec *)
Definition scale_level (k : Q) (L : level) : level :=
  mkL (l_skip L) (k * l_re L) (k * l_we L) (l_rthr L) (l_wthr L) (k * l_leak L) (l_rscale L) (l_wscale L).
Definition scale_energy (k : Q) (sp : spec) : spec :=
  mkS (s_bounds sp) (s_tensors sp) (map (scale_level k) (s_levels sp)) (c_skip sp) (k * c_e sp) (c_thr sp) (k * c_leak sp).

Lemma nth_scale k lvl ls : nth lvl (map (scale_level k) ls) dflt_level = scale_level k (nth lvl ls dflt_level) \/ (length ls <= lvl)%nat.
Proof.
  revert lvl. induction ls as [|L ls IH]; intro lvl; [right; simpl; lia|]. destruct lvl; [left; reflexivity|].
  destruct (IH lvl) as [H|H]; [left; exact H|right; simpl; lia].
Qed.

Lemma nth_scale_field {A} (f : level -> A) k lvl ls :
  (forall L, f (scale_level k L) = f L) -> f (nth lvl (map (scale_level k) ls) dflt_level) = f (nth lvl ls dflt_level).
Proof.
  intro H. destruct (nth_scale k lvl ls) as [E|E]; [rewrite E; apply H|].
  rewrite !nth_overflow by (rewrite ?map_length; lia). reflexivity.
Qed.

Section Scale.
  Variable counts : bool -> bool -> list item -> nat -> Z * Z.
  Variable k : Q.
  Variable sp : spec.
  Variable m : list node.

  Lemma tcounts_scale t lvl : tcounts counts (scale_energy k sp) m t lvl = tcounts counts sp m t lvl.
  Proof.
    unfold tcounts. cbn [scale_energy s_tensors c_skip s_bounds]. f_equal.
    assert (E : forall l, skipf_of (scale_energy k sp) l = skipf_of sp l).
    { intro l. unfold skipf_of. cbn [scale_energy s_levels]. apply (nth_scale_field l_skip). reflexivity. }
    generalize (s_bounds sp). generalize (nth t (s_tensors sp) (mkT [] false)). intros tn s. revert s.
    induction m as [|nd r IH]; intro s; [reflexivity|]. destruct nd as [l t'|rv tile]; cbn [chain_of].
    - destruct (Nat.eqb t' t); [rewrite E; f_equal|]; apply IH.
    - f_equal. apply IH.
  Qed.

  Lemma actions_scale lvl t : actions counts (scale_energy k sp) m lvl t = actions counts sp m lvl t.
  Proof.
    unfold actions. rewrite tcounts_scale. cbn [scale_energy s_levels].
    rewrite (nth_scale_field l_rscale k lvl (s_levels sp) (fun _ => eq_refl)), (nth_scale_field l_wscale k lvl (s_levels sp) (fun _ => eq_refl)). reflexivity.
  Qed.

  Lemma level_latency_scale lvl : level_latency counts (scale_energy k sp) m lvl = level_latency counts sp m lvl.
  Proof.
    unfold level_latency. cbn [scale_energy s_levels s_tensors tids].
    rewrite (nth_scale_field l_rthr k lvl (s_levels sp) (fun _ => eq_refl)), (nth_scale_field l_wthr k lvl (s_levels sp) (fun _ => eq_refl)).
    unfold tids. cbn [scale_energy s_tensors]. f_equal; f_equal; f_equal; apply map_ext; intro t; rewrite actions_scale; reflexivity.
  Qed.

  Lemma latency_scale : latency counts (scale_energy k sp) m = latency counts sp m.
  Proof.
    unfold latency, compute_latency, n_computes, lids. cbn [scale_energy s_levels s_bounds c_thr]. rewrite map_length. f_equal.
    apply map_ext. intro l. apply level_latency_scale.
  Qed.

  Lemma sumQ_scale {A} (f g : A -> Q) l : (forall x, g x == k * f x) -> sumQ (map g l) == k * sumQ (map f l).
  Proof. intro H. unfold sumQ. induction l as [|x l IH]; cbn [map fold_right]; [ring|]. rewrite IH, H. ring. Qed.

  Lemma dyn_energy_scale : dyn_energy counts (scale_energy k sp) m == k * dyn_energy counts sp m.
  Proof.
    unfold dyn_energy, lids, tids, n_computes. cbn [scale_energy s_levels s_tensors s_bounds c_e]. rewrite map_length. cbv zeta.
    rewrite (sumQ_scale (fun lvl => sumQ (map (fun t => fst (actions counts sp m lvl t) * l_re (nth lvl (s_levels sp) dflt_level)
                                                         + snd (actions counts sp m lvl t) * l_we (nth lvl (s_levels sp) dflt_level)) (seq 0 (length (s_tensors sp)))))).
    - ring.
    - intro lvl. apply sumQ_scale. intro t. rewrite !actions_scale.
      destruct (nth_scale k lvl (s_levels sp)) as [E|E].
      + rewrite E. cbn [scale_level l_re l_we]. ring.
      + rewrite !nth_overflow by (rewrite ?map_length; lia). cbn [dflt_level l_re l_we]. ring.
  Qed.

  Lemma leak_sum_scale : sumQ (map (fun lvl => l_leak (nth lvl (map (scale_level k) (s_levels sp)) dflt_level)) (seq 0 (length (s_levels sp))))
                         == k * sumQ (map (fun lvl => l_leak (nth lvl (s_levels sp) dflt_level)) (seq 0 (length (s_levels sp)))).
  Proof.
    apply sumQ_scale. intro lvl. destruct (nth_scale k lvl (s_levels sp)) as [E|E].
    - rewrite E. reflexivity.
    - rewrite !nth_overflow by (rewrite ?map_length; lia). cbn. ring.
  Qed.

  Lemma energy_scale : energy counts (scale_energy k sp) m == k * energy counts sp m.
  Proof.
    unfold energy, leak_energy. rewrite dyn_energy_scale, latency_scale. unfold lids. cbn [scale_energy s_levels c_leak]. rewrite map_length.
    rewrite leak_sum_scale. ring.
  Qed.
End Scale.

(* ---- the mapspace does not depend on the energy parameters *)
Lemma paths_ext {state nd} (step step' : state -> nd -> option state) final final' cands cands' :
  (forall st n, step' st n = step st n) -> (forall st, final' st = final st) -> (forall st, cands' st = cands st) ->
  forall fuel st, paths state nd step' final' cands' fuel st = paths state nd step final cands fuel st.
Proof.
  intros Hs Hf Hc. induction fuel as [|f IH]; intro st; cbn [paths]; rewrite Hf; [reflexivity|]. f_equal. rewrite Hc.
  apply flat_map_ext. intro n. rewrite Hs. destruct (step st n); [rewrite IH; reflexivity|reflexivity].
Qed.

Definition scale_mspec (k : Q) (ms : mspec) : mspec := mkM (scale_energy k (m_spec ms)) (m_keep ms) (m_may ms) (m_size ms) (m_bpv ms).

Lemma sstep_scale k ms st n : sstep (scale_mspec k ms) st n = sstep ms st n.
Proof. unfold sstep. cbn [scale_mspec m_spec m_may scale_energy s_levels s_tensors s_bounds]. rewrite map_length. reflexivity. Qed.
Lemma sfinal_scale k ms st : sfinal (scale_mspec k ms) st = sfinal ms st.
Proof. unfold sfinal, all_pairs. cbn [scale_mspec m_spec m_keep scale_energy s_levels s_tensors]. rewrite map_length. reflexivity. Qed.
Lemma scands_scale k ms st : scands (scale_mspec k ms) st = scands ms st.
Proof. unfold scands, all_pairs. cbn [scale_mspec m_spec scale_energy s_levels s_tensors s_bounds]. rewrite map_length. reflexivity. Qed.

Lemma space_scale k ms : space (scale_mspec k ms) = space ms.
Proof.
  unfold space, bodies, fuel, init_state, top, fits, bpvf. cbn [scale_mspec m_spec m_size m_bpv scale_energy s_levels s_tensors s_bounds]. rewrite map_length.
  rewrite (paths_ext (sstep ms) (sstep (scale_mspec k ms)) (sfinal ms) (sfinal (scale_mspec k ms)) (scands ms) (scands (scale_mspec k ms))
             (sstep_scale k ms) (sfinal_scale k ms) (scands_scale k ms)). reflexivity.
Qed.

Lemma opt_energy_scale k ms v : 0 < k -> opt ms MEnergy = Some v ->
  exists v', opt (scale_mspec k ms) MEnergy = Some v' /\ v' == k * v.
Proof.
  intros Hk O. unfold opt in *. rewrite space_scale.
  assert (F : Forall2 (fun a b => b == k * a) (map (objective ms MEnergy) (space ms)) (map (objective (scale_mspec k ms) MEnergy) (space ms))).
  { clear O. induction (space ms) as [|m r IH]; cbn [map]; [constructor|]. constructor; [|exact IH]. unfold objective. cbn [scale_mspec m_spec]. apply energy_scale. }
  destruct (qmin_scaled_some k _ _ v F O) as [v' O']. exists v'. split; [exact O'|]. eapply qmin_scaled; eassumption.
Qed.

(* latency is untouched by the energy parameters, so is the latency optimum *)
Lemma opt_latency_unscaled k ms : opt (scale_mspec k ms) MLatency = opt ms MLatency.
Proof.
  unfold opt. rewrite space_scale. f_equal. apply map_ext. intro m. unfold objective. cbn [scale_mspec m_spec]. apply latency_scale.
Qed.
