"""C20 — mapper results do not depend on scheduling, hashing or caching."""
import json
import os
import shutil
import subprocess

import common
import gen_mini as G
import mini_space as S
import mapper_ref as R

TRUSTED = [
    "Coq: C20_order_independent / C20_split (the final front is a function of the set of candidates; filtering pieces first loses nothing) and C32 (index-tagged collection); "
    "PARTIAL: process pools, pickling through joblib, OS scheduling, PYTHONHASHSEED-dependent iteration and the on-disk pmapping cache are runtime behaviour no Gallina model exhibits - they are covered by the differential runs only",
    "hook H1 (ACCELFORGE_VERIF_SCHEDULE_SEED) permutes submission and arrival order inside util.parallel",
]


def run_cfg(cfg, env_extra, d):
    env = common.impl_env(dict(env_extra, VERIF_REPO=str(common.REPO)))
    p = subprocess.run([common.PY, str(common.ROOT / "harness" / "c20_driver.py")], input=json.dumps(cfg), capture_output=True, text=True, env=env, cwd=d, timeout=3000)
    for line in p.stdout.splitlines():
        if line.startswith("RESULT"):
            return json.loads(line[6:])
    return {"error": "driver failed: " + p.stderr[-500:]}


def run(ck):
    common.setup_impl_path()
    ck.prove()
    rng = ck.rng("specs")
    d = common.BUILD / "run" / f"c20-{os.getpid()}"
    d.mkdir(parents=True, exist_ok=True)
    dist = {"configs_per_spec": 0, "specs": 0, "rows": []}
    specs = []
    for i in range(ck.n(1, 3)):
        spec, _ = R.gen_search_spec(rng, max_space=4000)
        specs.append(("mini", {"arch": S.arch_yaml(spec), "workload": G.workload_yaml(spec)}))
    for i in range(ck.n(1, 3)):
        specs.append(("chain", {"jinja": {"N_EINSUMS": 2 + i % 2, "M": rng.choice([4, 8]), "KN": rng.choice([4, 8]), "GlobalBufferSize": rng.choice([128, 512, 4096])}}))
    for kind, base in specs:
        for metrics in (["ENERGY", "LATENCY"],) if ck.quick() else (["ENERGY"], ["ENERGY", "LATENCY"]):
            cache = d / "cache"
            shutil.rmtree(cache, ignore_errors=True)
            configs = [("1 worker", dict(workers=1), {"PYTHONHASHSEED": "0"}),
                       ("4 workers", dict(workers=4), {"PYTHONHASHSEED": "0"}),
                       ("4 workers, arrival order permuted (seed 1)", dict(workers=4), {"PYTHONHASHSEED": "0", "ACCELFORGE_VERIF_SCHEDULE_SEED": "1"}),
                       ("4 workers, arrival order reversed (seed 3)", dict(workers=4), {"PYTHONHASHSEED": "0", "ACCELFORGE_VERIF_SCHEDULE_SEED": "3"}),
                       ("1 worker, hash seed 12345", dict(workers=1), {"PYTHONHASHSEED": "12345"}),
                       ("1 worker, cold cache", dict(workers=1, cache_dir=str(cache)), {"PYTHONHASHSEED": "0"}),
                       ("1 worker, warm cache", dict(workers=1, cache_dir=str(cache)), {"PYTHONHASHSEED": "0"})]
            if not ck.quick():
                configs += [("16 workers, shuffled (seed 2)", dict(workers=16), {"PYTHONHASHSEED": "1", "ACCELFORGE_VERIF_SCHEDULE_SEED": "2"}),
                            ("4 workers, warm cache, hash seed 1", dict(workers=4, cache_dir=str(cache)), {"PYTHONHASHSEED": "1"})]
            if kind == "chain":
                # a cache directory already used by a run restricted to the first Einsum must not change the full run
                cache2 = d / "cache2"
                shutil.rmtree(cache2, ignore_errors=True)
                run_cfg(dict(base, metrics=metrics, workers=1, cache_dir=str(cache2), einsum_names=["Matmul0"]), {"PYTHONHASHSEED": "0"}, d)
                configs.append(("1 worker, cache shared with an earlier Matmul0-only run", dict(workers=1, cache_dir=str(cache2)), {"PYTHONHASHSEED": "0"}))
            results = []
            for name, extra, env in configs:
                cfg = dict(base, metrics=metrics, **extra)
                results.append((name, run_cfg(cfg, env, d)))
            dist["specs"] += 1
            dist["configs_per_spec"] = len(configs)
            ref_name, ref = results[0]
            dist["rows"].append(len(ref.get("rows", [])))
            ck.case(json.dumps([base, metrics], sort_keys=True), nontrivial=True, sample={"kind": kind, "metrics": metrics, "configs": [c[0] for c in configs], "rows": len(ref.get("rows", []))})
            for name, r in results[1:]:
                if json.dumps(r, sort_keys=True) != json.dumps(ref, sort_keys=True):
                    # objective vectors first, structures second
                    ov = lambda x: sorted(json.dumps(y["objectives"], sort_keys=True) for y in x.get("rows", []))  # noqa
                    what = "objective vectors" if ov(r) != ov(ref) or "error" in r or "error" in ref else "mapping structures"
                    ck.failing_input({"spec": base, "metrics": metrics, "reference_config": ref_name, "config": name, "reference": ref, "result": r},
                                     what=f"the returned front ({what}) differs between '{ref_name}' and '{name}'")
    return ck.finish(
        rule="real map_workload_to_arch in separate processes on single-Einsum specs and 2-3-Einsum matmul chains: 1 / 4 / 16 workers, hook-forced permuted / reversed / shuffled job "
             "arrival orders, PYTHONHASHSEED 0 / 1 / 12345, cold and warm on-disk cache; canonical output = sorted objective vectors + mapping structure strings; non-trivial = every spec",
        trusted=TRUSTED,
        extra={"input_distribution": dist,
               "source_fingerprint": [common.fingerprint("accelforge/util/parallel.py", ["parallel"]), common.fingerprint("accelforge/mapper/FFM/main.py", ["map_workload_to_arch"])]})


def replay(ck, data):
    print("replay: re-run ./check C20 with the recorded seed (the two configurations are in the replay file)")
    return 0
