From AF Require Import Base.Tactics Lib.Pareto C11.Model C12.Model.
Open Scope Z_scope.
(* columns: Total energy | mapping id (ignored) | reservation GLB 0 left | fused_loop tile shape | Total latency (constant) *)
Definition cs := [CObj; CIgn; CResv; CFused; CObj].
Definition rows := [[5; 100; 2; 7; 9]; [4; 101; 3; 7; 9]; [6; 102; 2; 7; 9]; [9; 103; 9; 8; 9]; [5; 104; 2; 7; 9]].
(* row 2 is dominated by row 0 (same tile shape 7); row 3 has another fused tile shape; row 4 repeats row 0 on the compared columns *)
Example ex : makepareto_model cs rows = [true; true; false; true; false]. Proof. vm_compute. reflexivity. Qed.
Example ex_classify : map classify [[0; 9]; [1; 4; 0; 7]; [1; 4]; [2; 3; 1]; [2; 8]; [5; 0; 6]]%nat = [CObj; CResv; CIgn; CIgn; CFused; CIgn].
Proof. vm_compute. reflexivity. Qed.
