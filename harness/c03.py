"""C03 — every returned mapping is valid for the architecture and constraints."""
import json
import os

import common
import gen_mini as G
import mini_space as S
import mapper_ref as R
import c01
import c05

TRUSTED = c01.TRUSTED[:2] + [
    "every returned mapping (all rows, four metric sets, eval_in_detail on and off) is converted from the Mapping object to MiniForge nodes and checked by the verified checker "
    "AF.Lib.MiniSpace.in_space (vm_compute) and by its python twin, clause by clause; it is also re-evaluated with the real evaluate_mapping (which raises on over-subscription)",
    "loop-bound constraints, spatial fanouts and fused-loop limits are outside the modelled class (no such constraints are generated)",
]


def clauses(spec, m):
    """python twin of in_space, reporting the first failing clause"""
    nt, nl = len(spec["tensors"]), len(spec["levels"])
    shape = list(spec["bounds"])
    seen, cur = set(), 0
    body_started = False
    for n in m:
        if n[0] == "sto":
            _, l, t = n
            if (l, t) in seen:
                return f"tensor {t} is held twice in level {l}"
            seen.add((l, t))
            if l == 0:
                if body_started:
                    return "a level-0 holder appears below other nodes"
                continue
            body_started = True
            if l < cur:
                return f"holder of level {l} below a holder of level {cur} (memory hierarchy order)"
            cur = l
            if not spec["levels"][l]["may"][t]:
                return f"tensor {t} is not in may_keep of level {l}"
        else:
            body_started = True
            _, v, tile = n
            if not (0 < tile < shape[v]) or shape[v] % tile:
                return f"loop over variable {v} with tile {tile} does not properly divide extent {shape[v]}"
            shape[v] = tile
    if any(s != 1 for s in shape):
        return f"rank variables not fully iterated: extents left {shape}"
    for t in range(nt):
        if (0, t) not in seen:
            return f"tensor {t} has no level-0 holder"
    for l in range(1, nl):
        for t in range(nt):
            if spec["levels"][l]["keep"][t] and (l, t) not in seen:
                return f"level {l} must keep tensor {t} but has no holder for it"
    if not S.accepted(spec, R.canonical_body(spec, m)):
        return "a memory is over-subscribed"
    return None


def run(ck):
    af, evaluate_mapping = R.load()
    ck.prove()
    rng = ck.rng("specs")
    d = common.BUILD / "run" / f"c03-{os.getpid()}"
    d.mkdir(parents=True, exist_ok=True)
    exprs, keys = [], []
    dist = {"returned_mappings": 0, "capacity_bound_specs": 0, "keep_specs": 0}
    for i in range(ck.n(8, 100)):
        spec, space = R.gen_search_spec(rng, max_space=ck.n(3000, 20000))
        ref = R.reference(spec, space)
        dist["capacity_bound_specs"] += len(ref) < len(space)
        dist["keep_specs"] += any(any(L["keep"]) for L in spec["levels"][1:])
        for metrics, detail in ((["ENERGY"], True), (["LATENCY"], False), (["ENERGY", "LATENCY"], True), (["ENERGY_DELAY_PRODUCT"], False)):
            res = R.run_mapper(af, spec, d, metrics, eval_in_detail=detail)
            ck.case(json.dumps([spec, metrics, detail], sort_keys=True, default=str), nontrivial=len(ref) < len(space) or dist["keep_specs"] > 0,
                    sample={"bounds": spec["bounds"], "metrics": metrics, "rows": len(res["rows"])})
            if res["error"] is not None:
                if ref:
                    ck.failing_input({"spec": spec, "metrics": metrics, "mapper_error": res["error"], "arch_yaml": S.arch_yaml(spec), "workload_yaml": G.workload_yaml(spec)},
                                     what=f"the mapper raised ({res['error'][:80]}) although valid mappings exist")
                continue
            for j, row in enumerate(res["rows"]):
                dist["returned_mappings"] += 1
                m = row.get("mapping_nodes")
                if m is None:
                    ck.failing_input({"spec": spec, "metrics": metrics, "mapping": row.get("mapping")}, what="returned mapping could not be read back as a LoopTree of holders and temporal loops")
                    continue
                why = clauses(spec, m)
                real = c01.confirm_with_model(af, evaluate_mapping, spec, m, d)
                if why is None and isinstance(real, str):
                    why = "the real evaluate_mapping rejects it: " + real
                if why:
                    ck.failing_input({"spec": spec, "metrics": metrics, "eval_in_detail": detail, "row": j, "mapping": row.get("mapping"), "clause": why,
                                      "mapping_yaml": G.mapping_yaml(spec, m), "arch_yaml": S.arch_yaml(spec), "workload_yaml": G.workload_yaml(spec)},
                                     what="returned mapping is invalid: " + why)
                exprs.append(f"in_space {R.coq_mspec(spec)} {G.coq_mapping(R.canonical_body(spec, m))}")
                keys.append((spec, m, why is None))
    vals = common.run_coq_eval("C03", ["AF.Lib.MiniForge", "AF.Lib.MiniSpace"], exprs, chunk=20, preamble="From Coq Require Import QArith.\nOpen Scope Z_scope.")
    mism = [{"mapping": G.mapping_yaml(spec, m), "coq_in_space": v, "twin_valid": ok} for (spec, m, ok), v in zip(keys, vals) if bool(v) != ok]
    ck.count("coq_checker_vs_twin_compared", len(keys))
    ck.count("coq_checker_vs_twin_mismatches", len(mism))
    if mism and not ck.violations:
        ck.unexplained("broken-correspondence", {"mismatches": mism[:2]}, what="verified checker in_space and its python twin disagree on a returned mapping")
    return ck.finish(
        rule="random single-Einsum specs as in C01 (keep / may_keep sets, finite memories, a share of them capacity-bound); every mapping returned by map_workload_to_arch for four metric sets "
             "(eval_in_detail on and off) is checked by the verified checker and re-evaluated by the real model; non-trivial = the spec is capacity-bound or has keep constraints",
        trusted=TRUSTED,
        extra={"input_distribution": dist,
               "source_fingerprint": [common.fingerprint("accelforge/mapper/FFM/_make_pmappings/make_pmappings_from_templates/make_tile_shapes.py", ["_make_tile_shapes", "get_tile_shape_choices"]),
                                      common.fingerprint("accelforge/mapper/FFM/_join_pmappings/pmapping_dataframe.py", ["PmappingDataframe"])]})


def replay(ck, data):
    print("replay: re-run ./check C03 with the recorded seed (the failing spec and mapping are in the replay file)")
    return 0
