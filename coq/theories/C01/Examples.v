From Coq Require Import ZArith QArith List Bool.
Import ListNotations.
From AF Require Import Lib.MiniForge C06.Model Lib.MiniSpace.
Open Scope Z_scope.
(* B[m,k] (output) = f(A[k]), m < 2, k < 4; MainMemory + GlobalBuffer of 16 bits (A: 16 bits/value, B: 8) *)
Definition ex_sp : spec :=
  mkS [2; 4] [mkT [false; true] false; mkT [true; true] true]
      [mkL true 15 10 None None 2 [1#2; 1#2]%Q [2; 2]%Q; mkL true 8 3 (Some 8%Q) None 2 [1; 1#2]%Q [2; 1]%Q] false 4 (Some 1%Q) 0.
Definition ex_ms : mspec := mkM ex_sp [[true; true]; [false; false]] [[true; true]; [true; true]] [None; Some 16] [[16; 16]; [16; 8]].
Example ex_space : (length (bodies ex_ms), length (space ex_ms)) = (125%nat, 37%nat). Proof. vm_compute. reflexivity. Qed.
Example ex_opt : exists v, opt ex_ms MLatency = Some v /\ Qeq v 8. Proof. eexists. split; [vm_compute; reflexivity|reflexivity]. Qed.
