(* C24 model — workload geometry for box-shaped iteration spaces and affine accesses.
   _isl.py: get_einsum_operation_space / get_dim_bounds / get_tensor_data_space / _card_box / get_tensor_size /
            get_operation_space_size;  _symbolic.py: get_stride_and_halo_of_einsum, compute_rank_occupancy.
   ISL is not modelled: the model enumerates the iteration space and projects it point by point. *)
From Coq Require Import ZArith List Bool Lia.
Import ListNotations.
Open Scope Z_scope.

Definition point := list Z.
(* an access: one affine expression (coefficients per rank variable, constant) per rank *)
Definition aff := (list Z * Z)%type.
Definition access := list aff.

(* the enumerated iteration space  [0,b1) x ... x [0,bn),  first variable outermost *)
Fixpoint points (bs : list nat) : list point :=
  match bs with
  | [] => [[]]
  | b :: t => flat_map (fun x => map (cons (Z.of_nat x)) (points t)) (seq 0 b)
  end.

Fixpoint dot (a : list Z) (p : point) : Z :=
  match a, p with x :: a', y :: p' => x * y + dot a' p' | _, _ => 0 end.
Definition proj1 (a : aff) (p : point) : Z := dot (fst a) p + snd a.
Definition proj (acc : access) (p : point) : point := map (fun a => proj1 a p) acc.

Definition pt_eqb (p q : point) : bool := if list_eq_dec Z.eq_dec p q then true else false.
Definition image (acc : access) (bs : list nat) : list point :=
  nodup (list_eq_dec Z.eq_dec) (map (proj acc) (points bs)).

(* data space of a tensor: intersection of the images under its canonical Einsums *)
Fixpoint data_space (canon : list (access * list nat)) : list point :=
  match canon with
  | [] => []
  | [(acc, bs)] => image acc bs
  | (acc, bs) :: rest => filter (fun p => existsb (pt_eqb p) (data_space rest)) (image acc bs)
  end.

Definition zmin_list (d : Z) (l : list Z) := fold_left Z.min l d.
Definition zmax_list (d : Z) (l : list Z) := fold_left Z.max l d.
Definition column (i : nat) (pts : list point) : list Z := map (fun p => nth i p 0) pts.
Definition dim_min (i : nat) (pts : list point) := match column i pts with [] => 0 | x :: l => zmin_list x l end.
Definition dim_max (i : nat) (pts : list point) := match column i pts with [] => 0 | x :: l => zmax_list x l end.
Definition extent (i : nat) (pts : list point) : Z := dim_max i pts - dim_min i pts + 1.

Fixpoint zrange (lo : Z) (n : nat) : list Z := match n with O => [] | S k => lo :: zrange (lo + 1) k end.
(* bounding box of a point set of dimension n *)
Fixpoint box_from (ranges : list (list Z)) : list point :=
  match ranges with
  | [] => [[]]
  | r :: t => flat_map (fun x => map (cons x) (box_from t)) r
  end.
Definition ranges_of (n : nat) (pts : list point) : list (list Z) :=
  map (fun i => zrange (dim_min i pts) (Z.to_nat (extent i pts))) (seq 0 n).
Definition bbox (n : nat) (pts : list point) : list point := box_from (ranges_of n pts).
Definition is_box (n : nat) (pts : list point) : bool :=
  match pts with [] => false | _ => forallb (fun q => existsb (pt_eqb q) pts) (bbox n pts) end.

(* get_tensor_size: product of (max - min + 1) when the data space is a box, an error otherwise *)
Definition tensor_size (n : nat) (pts : list point) : option Z :=
  if is_box n pts then Some (fold_right Z.mul 1 (map (fun i => extent i pts) (seq 0 n))) else None.

(* n_computes and rank-variable bounds of a box iteration space *)
Definition n_computes (bs : list nat) : Z := fold_right Z.mul 1 (map Z.of_nat bs).
Definition rank_variable_bound (i : nat) (bs : list nat) : Z := extent i (points bs).

(* stride and halo of (rank expression a, rank variable i): coefficient; value of the expression with
   variable i at 0 and every other variable at its last index *)
Definition stride (a : aff) (i : nat) : Z := nth i (fst a) 0.
Definition last_point (bs : list nat) : point := map (fun b => Z.of_nat b - 1) bs.
Fixpoint set_nth (i : nat) (v : Z) (p : point) : point :=
  match p, i with
  | [], _ => []
  | _ :: t, O => v :: t
  | x :: t, S k => x :: set_nth k v t
  end.
Definition halo (a : aff) (i : nat) (bs : list nat) : Z := proj1 a (set_nth i 0 (last_point bs)).
