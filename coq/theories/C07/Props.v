(* C07 — property theorems only. *)
From Coq Require Import ZArith QArith List Bool Lia.
Import ListNotations.
From AF Require Import Lib.MiniForge C05.Proofs C07.Model C07.Proofs.
Open Scope Z_scope.

(* A pmapping template is a mapping whose loop tile shapes are expressions over symbols.  The symbolic evaluator builds
   one formula per tensor, level and direction; substituting ANY assignment of integers for the symbols gives exactly
   the counts the concrete model computes for the mapping with those tile shapes plugged in - for every template (any
   nest depth, any holders, any skip flags), every tensor and level, every assignment. *)
Theorem C07_symbolic_is_concrete : forall sigma sp tp t lvl,
  den2 sigma (stcounts sp tp t lvl) = tcounts model_counts sp (instantiate sigma tp) t lvl.
Proof. exact den_stcounts. Qed.
Print Assumptions C07_symbolic_is_concrete.

(* ... and therefore, on every perfect assignment, the counts of really executing the instantiated nest (C05) *)
Theorem C07_symbolic_is_execution : forall sigma sp tp t lvl,
  valid_loops (instantiate sigma tp) (s_bounds sp) = true ->
  den2 sigma (stcounts sp tp t lvl) = tcounts exec_counts sp (instantiate sigma tp) t lvl.
Proof. intros sigma sp tp t lvl H. rewrite den_stcounts. symmetry. apply tcounts_eq, H. Qed.
Print Assumptions C07_symbolic_is_execution.

(* the symbolic occupancy of every holder (what the usage / reservation formulas are built from) denotes the
   occupancy of the instantiated mapping *)
Theorem C07_symbolic_occupancy : forall sigma sp tp,
  map (fun h => (fst h, denote sigma (snd h))) (sholds sp tp (map EConst (s_bounds sp))) = holds sp (instantiate sigma tp) (s_bounds sp).
Proof. intros. rewrite den_sholds, den_map_const. reflexivity. Qed.
Print Assumptions C07_symbolic_occupancy.
