(* C18 — property theorems only. *)
From Coq Require Import ZArith QArith List Bool Lia.
Import ListNotations.
From AF Require Import Lib.MiniForge C06.Model Lib.MiniSpace C01.Proofs C18.Proofs.
Open Scope Z_scope.

(* any enlargement of the mapspace that leaves the cost of every old mapping unchanged cannot raise the optimum *)
Theorem C18_monotone : forall ms ms' mt v v',
  (forall m, in_space ms m = true -> in_space ms' m = true /\ (objective ms' mt m == objective ms mt m)%Q) ->
  opt ms mt = Some v -> opt ms' mt = Some v' -> (v' <= v)%Q.
Proof. exact opt_monotone. Qed.
Print Assumptions C18_monotone.

(* larger memories, a larger may_keep set, a smaller keep set (same cost parameters): every old mapping stays valid with the
   same cost; so the optimum cannot get worse, and a feasible spec stays feasible *)
Theorem C18_relaxations : forall ms ms' mt,
  same_model ms ms' -> tbl_le (m_may ms) (m_may ms') -> tbl_le (m_keep ms') (m_keep ms) ->
  length (m_size ms) = length (m_size ms') -> Forall2 size_le (m_size ms) (m_size ms') ->
  (forall m, in_space ms m = true -> in_space ms' m = true /\ objective ms' mt m = objective ms mt m)
  /\ (forall v, opt ms mt = Some v -> exists v', opt ms' mt = Some v' /\ (v' <= v)%Q).
Proof.
  intros ms ms' mt H1 H2 H3 H4 H5.
  assert (R : forall m, in_space ms m = true -> in_space ms' m = true /\ objective ms' mt m = objective ms mt m).
  { intros m Hm. split; [eapply in_space_relax; eassumption|apply objective_relax; assumption]. }
  split; [exact R|]. intros v O.
  destruct (opt_feasible_stays ms ms' mt v (fun m Hm => proj1 (R m Hm)) O) as [v' O']. exists v'. split; [exact O'|].
  apply (opt_monotone ms ms' mt v v'); [|exact O|exact O']. intros m Hm. destruct (R m Hm) as [A B]. split; [exact A|rewrite B; reflexivity].
Qed.
Print Assumptions C18_relaxations.
