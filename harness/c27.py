"""C27 — recomputing component costs on a costed spec changes nothing."""
import json
from fractions import Fraction

import common
import gen_arch

TRUSTED = [
    "modelled: the scale application of Component.calculate_area / calculate_leak_power / calculate_action_energy / calculate_action_throughput on explicitly valued components, and the 'already calculated' marking of the repaired code",
    "hwcomponents is bypassed (explicit values); values are integers and dyadic scale factors so that float arithmetic is exact and compared exactly with the model's rationals",
]
SCALES = [1, 1, 2, 0.5, 3, 0.25]


def gen_values(rng, lv):
    vals = {}
    for l in lv:
        acts = {n: (rng.randint(1, 9), rng.choice(SCALES), rng.choice([1, 2, 4, 8]), rng.choice(SCALES)) for n in ("read", "write", "compute")}
        vals[l[2]] = dict(area=rng.randint(0, 9), area_scale=rng.choice(SCALES), leak=rng.randint(0, 5), leak_scale=rng.choice(SCALES),
                          npar=rng.choice([1, 1, 2, 4]), energy_scale=rng.choice(SCALES), thr_scale=rng.choice(SCALES), actions=acts)
    return vals


def observe(spec, lv):
    out = {}
    for l in lv:
        if l[1] == "KCont":
            continue
        c = spec.arch.find(f"N{l[2]}")
        row = [c.area, c.leak_power]
        for a in c.actions:
            row += [a.energy, a.throughput]
        out[l[2]] = [Fraction(x).limit_denominator(1 << 40) if x is not None else None for x in row]
    return out


def q(x):
    f = Fraction(x)
    return f"({f.numerator} # {f.denominator})%Q"


def coq_compo(l, v):
    names = {"KMem": ["read", "write"], "KToll": ["read"], "KComp": ["compute"]}[l[1]]
    acts = "[" + "; ".join(f"mka {q(v['actions'][n][0])} {q(v['actions'][n][1])} {q(v['actions'][n][2])} {q(v['actions'][n][3])}" for n in names) + "]"
    return (f"(mkc {q(v['area'])} {q(v['area_scale'])} {q(v['leak'])} {q(v['leak_scale'])} {q(v['npar'])} "
            f"{q(v['energy_scale'])} {q(v['thr_scale'])} {acts})")


def run(ck):
    af = gen_arch.load()
    ck.prove()
    rng = ck.rng("specs")
    exprs, keys = [], []
    for _ in range(ck.n(60, 1500)):
        t = gen_arch.random_tree(rng, max_leaves=6)
        lv = gen_arch.leaves(t)
        vals = gen_values(rng, lv)
        hist = []
        for _k in range(rng.randint(1, 3)):
            hist.append((True, True, True, True) if rng.random() < 0.6 else tuple(rng.random() < 0.6 for _ in range(4)))
        arch = gen_arch.to_arch(t, af, vals)
        spec = af["Spec"](arch=arch, workload=gen_arch.simple_workload(af))
        obs, bad = [], None
        try:
            for (a, e, th, lk) in hist:
                spec = spec.calculate_component_costs(area=a, energy=e, throughput=th, leak=lk)
                obs.append(observe(spec, lv))
        except Exception as ex:  # noqa
            bad = f"exception {type(ex).__name__}: {ex}"
        # oracle (the property): once a quantity has been computed by some call, later calls leave it unchanged
        if not bad:
            done = set()
            for k, (a, e, th, lk) in enumerate(hist):
                for cid, row in obs[k].items():
                    for j, x in enumerate(row):
                        kind = "area" if j == 0 else "leak" if j == 1 else ("energy" if j % 2 == 0 else "throughput")
                        if (cid, j) in done and x != obs[k - 1][cid][j]:
                            bad = f"component N{cid} {kind} changed from {obs[k-1][cid][j]} to {x} on call {k+1} (history {hist})"
                    if True:
                        pass
                for cid, row in obs[k].items():
                    for j in range(len(row)):
                        kind = "area" if j == 0 else "leak" if j == 1 else ("energy" if j % 2 == 0 else "throughput")
                        if {"area": a, "leak": lk, "energy": e, "throughput": th}[kind]:
                            done.add((cid, j))
        ck.case(json.dumps([t, {k: str(v) for k, v in vals.items()}, hist], default=str), nontrivial=len(hist) >= 2,
                sample={"history": hist, "first_component": {k: str(v) for k, v in list(vals.items())[:1]}})
        if bad:
            ck.failing_input({"tree": t, "values": {str(k): v for k, v in vals.items()}, "history": hist, "why": bad},
                             what="recomputing component costs changed a value: " + bad)
            continue
        hl = "[" + "; ".join("(%s, %s, %s, %s)" % tuple("true" if b else "false" for b in h) for h in hist) + "]"
        for l in lv:
            if l[1] == "KCont":
                continue
            exprs.append(f"observe {hl} {coq_compo(l, vals[l[2]])}")
            keys.append((t, l[2], hist, obs[-1][l[2]]))
    B = 20
    res = [v for b in common.run_coq_eval("C27", ["Coq.QArith.QArith", "AF.C27.Model"],
                                          ["[" + "; ".join(exprs[k:k + B]) + "]" for k in range(0, len(exprs), B)], chunk=10) for v in b]
    mism = []
    for (t, cid, hist, got), m in zip(keys, res):
        model = [Fraction(a, b) for a, b in m]
        if model != got:
            mism.append({"tree": t, "component": cid, "history": hist, "impl": [str(x) for x in got], "model": [str(x) for x in model]})
    ck.count("model_vs_impl_compared", len(keys))
    ck.count("model_vs_impl_mismatches", len(mism))
    if mism and not ck.violations:
        ck.unexplained("broken-correspondence", {"mismatches": mism[:3]}, what="model values != implementation values after the call history")
    return ck.finish(
        rule="random architectures (<=6 leaves) with random integer area/leak/energy/throughput, scale factors in {1,2,0.5,3,0.25}, n_parallel_instances in {1,2,4}; "
             "call histories of length 1-3 with all-true or random area/energy/throughput/leak flags; every component's area, leak, per-action energy and throughput "
             "observed after each call; non-trivial = history length >= 2",
        trusted=TRUSTED,
        extra={"source_fingerprint": [common.fingerprint("accelforge/frontend/arch/components.py", ["Component"]),
                                      common.fingerprint("accelforge/frontend/spec.py", ["Spec"])]})


def replay(ck, data):
    print("replay: re-run ./check C27 with the recorded seed (history-dependent case)")
    return 0
