"""C07 — the symbolic cost formulas of a pmapping template agree with concrete evaluation at every perfect tile-shape assignment."""
import json
import os
from fractions import Fraction

import common
import gen_mini as G
import mini_space as S
import mapper_ref as R
import tile_capture as T
import c05

TRUSTED = [
    "Coq (C07/Model.v, Proofs.v): a symbolic evaluator over an expression language (+, -, *, integer division, symbols) that mirrors MiniForge's analytical model node for node; "
    "its formulas are proved to denote, under EVERY assignment, the concrete model's counts for the instantiated mapping (and, with C05, the counts of really executing it)",
    "the formulas of the real code are captured from run_model inside a real map_workload_to_arch run (monkeypatched in the harness process only, no change to /repo) and evaluated two ways: "
    "exact substitution and the code's own compile_dict / lambdify path",
    "concrete side: the python twin of MiniForge (brute-force execution count, tied to evaluate_mapping by C05) at every perfect assignment of every captured template, plus the real "
    "evaluate_mapping on the instantiated mapping for a sample; the Coq symbolic evaluator is run on the same templates and assignments (vm_compute) and compared with the code's action formulas",
    "sympy / symengine arithmetic and lambdify are oracles; float comparison at relative 1e-6",
]


def close(x, q, tol=1e-6):
    q = float(q)
    return abs(float(x) - q) <= tol * max(1.0, abs(q))


def expected_for(spec, m):
    exp = c05.expected_columns(spec, m)
    nt = len(spec["tensors"])
    out = {k: exp[k] for k in ("Total<SEP>latency", "Total<SEP>energy", "Total<SEP>dynamic_energy", "Total<SEP>leak_energy")}
    for l, L in enumerate(spec["levels"]):
        for act in ("read", "write"):
            out[f"action<SEP>{L['name']}<SEP>{act}"] = sum((exp.get(f"E<SEP>action<SEP>{L['name']}<SEP>{spec['tensors'][t]['name']}<SEP>{act}", Fraction(0)) for t in range(nt)), Fraction(0))
    out["action<SEP>MAC<SEP>compute"] = exp["E<SEP>action<SEP>MAC<SEP>None<SEP>compute"]
    bits = S.usage_code(spec, m)
    for l, L in enumerate(spec["levels"]):
        if L["size"] is not None:
            out[f"usage<SEP>memory<SEP>{L['name']}"] = Fraction(bits.get(l, 0), L["size"])
    return out


SPATIAL3 = """arch:
  nodes:
  - !Memory
    name: MainMemory
    size: inf
    leak_power: 0
    area: 0
    tensors: {{keep: ~Intermediates, may_keep: All}}
    actions:
    - {{name: read, energy: 8, throughput: {mthr}}}
    - {{name: write, energy: 8, throughput: {mthr}}}
{outer}  - !Memory
    name: GlobalBuffer
    size: {glb}
    leak_power: 0
    area: 0
    tensors: {{keep: All}}
    actions:
    - {{name: read, energy: 2, throughput: {gthr}}}
    - {{name: write, energy: 2, throughput: {gthr}}}
{macarray}{regs}  - !Compute
    name: MAC
    leak_power: 0
    area: 0
{cspatial}    actions:
    - {{name: compute, energy: 1, throughput: {cthr}}}
"""
OUTER = """  - !Container
    name: BufferArray
    spatial:
    - name: X
      fanout: {fx}
    - name: Y
      fanout: {fy}
"""
REGS = """  - !Memory
    name: Registers
    size: inf
    leak_power: 0
    area: 0
    tensors: {keep: All}
    actions:
    - {name: read, energy: 1, throughput: inf}
    - {name: write, energy: 1, throughput: inf}
"""


def spatial_stream(ck, af, evaluate_mapping, d, dist):
    """architectures with spatial fanouts (outside MiniForge): the numbers the mapper derives from the compiled formulas for every returned
       mapping against the STANDALONE concrete evaluation of that very mapping by the real model"""
    import copy
    from accelforge.mapper.FFM.main import map_workload_to_arch
    rng = ck.rng("spatial")
    sd = {"specs": 0, "rows_compared": 0, "mapper_errors": 0, "max_loops_in_a_mapping": 0}
    for k in range(ck.n(6, 40)):
        three = k % 2 == 0
        on_compute = k % 3 == 1          # the fanout sits on the Compute node itself
        fz = rng.choice([2, 4])
        macarray = "" if on_compute else f"  - !Container\n    name: MACArray\n    spatial:\n    - name: Z\n      fanout: {fz}\n"
        cspatial = f"    spatial:\n    - name: X\n      fanout: {fz}\n" if on_compute else ""
        arch = SPATIAL3.format(mthr="inf" if on_compute else rng.choice(["inf", 2, 3]), glb=rng.choice(["inf", 512, 2048]), gthr="inf" if on_compute else rng.choice(["inf", 4, 6]),
                               macarray=macarray, cspatial=cspatial,
                               cthr=rng.choice([3, 5, 6]) if on_compute else rng.choice([1, 2, 3, 5]), outer=OUTER.format(fx=rng.choice([2, 3]), fy=2) if three else "",
                               regs=REGS if three else "")
        jinja = {"N_EINSUMS": 1, "M": rng.choice([4, 6, 8, 12]), "KN": rng.choice([4, 6, 8])}
        (d / "sa.yaml").write_text(arch)
        sd["specs"] += 1
        key = json.dumps([arch, jinja], sort_keys=True)
        cwd = os.getcwd()
        os.chdir(d)
        try:
            sp = af.Spec.from_yaml(str(d / "sa.yaml"), af.examples.workloads.basic.matmuls, jinja_parse_data=jinja)
            sp.mapper.metrics = [af.Metrics.ENERGY | af.Metrics.LATENCY, af.Metrics.ENERGY | af.Metrics.LATENCY | af.Metrics.RESOURCE_USAGE][k % 2]
            fast = map_workload_to_arch(sp, eval_in_detail=False, print_progress=False)
        except Exception as ex:  # noqa
            sd["mapper_errors"] += 1
            os.chdir(cwd)
            continue
        finally:
            os.chdir(cwd)
        ck.case("spatial:" + key, nontrivial=True, sample={"jinja": jinja, "three_level": three, "rows": len(fast.data)})
        for j in range(min(len(fast.data), ck.n(6, 20))):
            row = fast.data.iloc[j]
            try:
                local = copy.deepcopy(sp)
                local.model.metrics = local.mapper.info_metrics
                local.mapping = row["Total<SEP>mapping"](_for_model=True)
                sd["max_loops_in_a_mapping"] = max(sd["max_loops_in_a_mapping"], sum(1 for n in local.mapping.nodes if hasattr(n, "tile_shape")))
                os.chdir(d)
                try:
                    alone = evaluate_mapping(local)
                finally:
                    os.chdir(cwd)
                e2, l2 = float(alone.energy()), float(alone.latency())
            except Exception as ex:  # noqa
                ck.failing_input({"arch_yaml": arch, "jinja": jinja, "row": j, "error": f"{type(ex).__name__}: {str(ex)[:300]}"},
                                 what="the concrete model rejects a mapping whose formula values the mapper reported")
                continue
            sd["rows_compared"] += 1
            bad = [f"Total {nm}: value of the compiled formula {float(row[c])} vs concrete evaluation {v}" for nm, c, v in (("energy", "Total<SEP>energy", e2), ("latency", "Total<SEP>latency", l2))
                   if c in fast.data.columns and not close(float(row[c]), v, 2e-5)]
            if bad:
                ck.failing_input({"arch_yaml": arch, "workload": "examples/workloads/basic/matmuls.yaml", "jinja": jinja, "row": j, "problems": bad,
                                  "mapping": [getattr(n, "compact_str", lambda: str(n))() for n in local.mapping.nodes]},
                                 what="symbolic formula vs concrete evaluation on a spatial-array architecture: " + bad[0])
                break
    dist["spatial_stream"] = sd


def run(ck):
    af, evaluate_mapping = R.load()
    import numpy as np
    import sympy as sp
    from accelforge.mapper.FFM._make_pmappings.make_pmappings_from_templates import make_tile_shapes as M
    ck.prove()
    rng = ck.rng("specs")
    d = common.BUILD / "run" / f"c07-{os.getpid()}"
    d.mkdir(parents=True, exist_ok=True)
    dist = {"specs": 0, "templates": 0, "templates_with_symbols": 0, "assignments": 0, "formulas_compared": 0, "compiled_compared": 0, "real_model_compared": 0,
            "unmodelled_columns": {}, "symbols_per_template": {}, "outside_class_templates": 0, "mapper_errors": 0}
    exprs, keys = [], []
    templates_done = 0
    for i in range(ck.n(30, 200)):
        if templates_done >= ck.n(90, 700):
            break
        pool = rng.choice([(4, 4, 6, 8), (2, 4, 6, 12), (3, 4, 8, 9)])
        spec, space = R.gen_search_spec(rng, max_space=ck.n(20000, 60000), fancy=(i % 2 == 0), pool=pool, enumerate_space=False)
        caps, err = T.capture_run(af, spec, d, ["ENERGY", "LATENCY"])
        dist["specs"] += 1
        if err is not None:
            dist["mapper_errors"] += 1
        real_budget = 2
        if ck.quick() and len(caps) > 15:
            caps = rng.sample(caps, 15)       # quick tier: at most 15 templates of one spec, so that the amount of work does not hinge on one spec
        for ent in caps:
            templates_done += 1
            dist["templates"] += 1
            tpl = ent["tpl"]
            if tpl is None:
                dist["outside_class_templates"] += 1
                continue
            ns = len(ent["symbols"])
            dist["symbols_per_template"][str(ns)] = dist["symbols_per_template"].get(str(ns), 0) + 1
            dist["templates_with_symbols"] += ns > 0
            sigmas = T.assignments(spec, tpl, cap=ck.n(60, 400))
            if not sigmas:
                continue
            forms = {}
            for grp in ("sdf", "pmu", "adf", "udf"):
                for k, v in ent[grp].items():
                    forms[k] = sp.sympify(v)
            symlist = []
            for name in ent["symbols"]:
                cands = [s for f in forms.values() for s in getattr(f, "free_symbols", ()) if s.name == name]
                symlist.append(cands[0] if cands else sp.Symbol(name))
            for f in forms.values():
                for s in getattr(f, "free_symbols", ()):
                    if s.name in ent["symbols"]:
                        f_ = symlist[ent["symbols"].index(s.name)]
                        assert f_.name == s.name
            compiled = {}
            try:
                norm = {k: (f.xreplace({s: symlist[ent["symbols"].index(s.name)] for s in f.free_symbols if s.name in ent["symbols"]}) if hasattr(f, "free_symbols") else f)
                        for k, f in forms.items()}
                compiled = M.compile_dict(symlist, norm) if symlist else {}
            except Exception as ex:  # noqa
                dist["unmodelled_columns"]["compile_failed:" + type(ex).__name__] = dist["unmodelled_columns"].get("compile_failed:" + type(ex).__name__, 0) + 1
                norm = forms
            ck.case(json.dumps([spec, tpl], sort_keys=True, default=str), nontrivial=ns > 0 and len(sigmas) > 1,
                    sample={"bounds": spec["bounds"], "template": [list(n) for n in tpl], "assignments": len(sigmas),
                            "latency_formula": str(forms.get("Total<SEP>latency"))[:120]} if ns > 0 else None)
            first_bad = None
            for sg in sigmas:
                dist["assignments"] += 1
                m = T.instantiate(tpl, sg)
                exp = expected_for(spec, m)
                sub = {s: sg[s.name] for s in symlist if s.name in sg}
                for k, f in norm.items():
                    if k not in exp:
                        dist["unmodelled_columns"][k.split("<SEP>")[0]] = dist["unmodelled_columns"].get(k.split("<SEP>")[0], 0) + 1
                        continue
                    val = float(f.xreplace(sub)) if hasattr(f, "xreplace") else float(f)
                    dist["formulas_compared"] += 1
                    if not close(val, exp[k]) and first_bad is None:
                        first_bad = (k, str(f), sg, val, float(exp[k]), "substitution", m)
                    if k in compiled:
                        args = [np.array([float(sg[s])], dtype=np.float32) for s in ent["symbols"]]
                        cv = np.asarray(compiled[k](*args), dtype=np.float64).reshape(-1)[0]
                        dist["compiled_compared"] += 1
                        if not close(cv, exp[k], 1e-5) and first_bad is None:
                            first_bad = (k, str(f), sg, float(cv), float(exp[k]), "compiled (compile_dict)", m)
                if real_budget > 0 and ns > 0 and sg is sigmas[len(sigmas) // 2]:
                    real_budget -= 1
                    try:
                        got = c05.run_impl(af, evaluate_mapping, spec, m, d)
                    except Exception as ex:  # noqa
                        got = None
                    if got is not None:
                        dist["real_model_compared"] += 1
                        sub_all = {k: float(f.xreplace(sub)) if hasattr(f, "xreplace") else float(f) for k, f in norm.items()}
                        tot = sub_all.get("Total<SEP>energy", sub_all.get("Total<SEP>dynamic_energy", 0) + sub_all.get("Total<SEP>leak_energy", 0))
                        for k, v in (("Total<SEP>latency", sub_all.get("Total<SEP>latency")), ("Total<SEP>energy", tot)):
                            if v is not None and k in got and not close(v, got[k], 1e-5) and first_bad is None:
                                first_bad = (k, str(norm.get(k)), sg, v, got[k], "evaluate_mapping on the instantiated mapping", m)
            # the rows the tile-shape exploration really emits for this template (after conversion, compilation in float32 and energy recombination)
            for row in (ent.get("table") or [])[:ck.n(40, 400)]:
                if not all(s in row for s in ent["symbols"]):
                    break
                sg = {s: int(round(row[s])) for s in ent["symbols"]}
                m = T.instantiate(tpl, sg)
                exp = expected_for(spec, m)
                for k in ("Total<SEP>latency", "Total<SEP>energy"):
                    if k in row:
                        dist["table_cells_compared"] = dist.get("table_cells_compared", 0) + 1
                        if not close(row[k], exp[k], 1e-4) and first_bad is None:
                            first_bad = (k, str(norm.get(k)), sg, row[k], float(exp[k]), "row of the table _make_tile_shapes returned", m)
            if first_bad is not None:
                k, f, sg, val, ex_, how, m = first_bad
                ck.failing_input({"spec": spec, "template": [list(n) for n in tpl], "column": k, "formula": f, "assignment": sg, "symbolic_value": val, "concrete_value": ex_,
                                  "compared_with": how, "arch_yaml": S.arch_yaml(spec), "workload_yaml": G.workload_yaml(spec), "mapping_yaml": G.mapping_yaml(spec, m)},
                                 what=f"formula for {k} = {f[:100]} gives {val} at {sg} but the instantiated mapping evaluates to {ex_} ({how})")
            # Coq symbolic evaluator on the same template, a few assignments, against the code's action formulas
            if ns > 0 and len(exprs) < ck.n(40, 300):
                nt, nl = len(spec["tensors"]), len(spec["levels"])
                for sg in sigmas[:3]:
                    cells = "; ".join(f"den2 sg (stcounts sp tp {t}%nat {l}%nat)" for l in range(nl) for t in range(nt))
                    exprs.append(f"(let sp := {G.coq_spec(spec)} in let tp := {T.coq_template(tpl, ent['symbols'])} in let sg := {T.coq_sigma(ent['symbols'], sg)} in [{cells}])")
                    sub = {s: sg[s.name] for s in symlist if s.name in sg}
                    keys.append((spec, tpl, sg, {k: float(f.xreplace(sub)) if hasattr(f, "xreplace") else float(f) for k, f in norm.items() if k.startswith("action<SEP>")}))
    spatial_stream(ck, af, evaluate_mapping, d, dist)
    vals = common.run_coq_eval("C07", ["AF.Lib.MiniForge", "AF.C07.Model"], exprs, chunk=20, preamble="From Coq Require Import QArith.\nOpen Scope Z_scope.")
    mism = []
    for (spec, tpl, sg, acts), v in zip(keys, vals):
        nt, nl = len(spec["tensors"]), len(spec["levels"])
        for l in range(nl):
            for j, act in enumerate(("read", "write")):
                tot = sum((Fraction(int(v[l * nt + t][j])) * G.q_scale(spec, l, t, act) for t in range(nt)), Fraction(0))
                k = f"action<SEP>{spec['levels'][l]['name']}<SEP>{act}"
                if k in acts and not close(acts[k], tot):
                    mism.append({"template": [list(n) for n in tpl], "assignment": sg, "column": k, "code_formula_value": acts[k], "coq_symbolic_value": float(tot), "bounds": spec["bounds"]})
    ck.count("coq_symbolic_vs_code_formulas_compared", len(keys))
    ck.count("coq_symbolic_vs_code_formulas_mismatches", len(mism))
    if mism and not ck.violations:
        ck.unexplained("broken-correspondence", {"mismatches": mism[:3]}, what="Coq symbolic evaluator and the code's action formulas disagree")
    return ck.finish(
        rule="random single-Einsum specs (2-3 memory levels, bounds from {2..12}); every pmapping template the real mapper builds is captured with the formulas run_model returns; "
             "every perfect assignment of its symbols (each tile a divisor of the extent it tiles; capped per template) is substituted and compared with the instantiated mapping's "
             "concrete evaluation: totals (latency, dynamic / leak energy), per-component actions, per-memory usage; non-trivial = the template has a symbol with >= 2 assignments",
        trusted=TRUSTED,
        extra={"input_distribution": dist,
               "source_fingerprint": [common.fingerprint("accelforge/mapper/FFM/_make_pmappings/make_pmappings_from_templates/make_tile_shapes.py", ["compile_dict", "_make_tile_shapes"]),
                                      common.fingerprint("accelforge/model/run_model.py", ["run_model"])]})


def replay(ck, data):
    print("replay: the spec, template, assignment and formula are in the replay file; re-run ./check C07 with the recorded seed")
    return 0
