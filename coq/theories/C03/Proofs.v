(* C03 proofs: what membership in the mapspace (the validity checker in_space) guarantees. *)
From Coq Require Import ZArith QArith List Bool Lia.
Import ListNotations.
Require Import AF.Lib.MiniForge AF.C05.Proofs AF.C06.Model AF.Lib.MiniSpace AF.C01.Proofs.
Open Scope Z_scope.

(* extents left after the loops of m *)
Fixpoint end_shape (m : list node) (s : shape) : shape :=
  match m with
  | [] => s
  | Loop v tile :: r => end_shape r (set_nth v tile s)
  | Sto _ _ :: r => end_shape r s
  end.
(* product of the trip counts of the loops over rank variable v *)
Fixpoint trips (v : nat) (m : list node) (s : shape) : Z :=
  match m with
  | [] => 1
  | Loop v' tile :: r => (if Nat.eqb v' v then nth v' s 1 / tile else 1) * trips v r (set_nth v' tile s)
  | Sto _ _ :: r => trips v r s
  end.

Lemma nth_set_nth_same v x s : (v < length s)%nat -> nth v (set_nth v x s) 1 = x.
Proof. revert v. induction s as [|y s IH]; intros v H; [simpl in H; lia|]. destruct v; simpl; [reflexivity|apply IH; simpl in H; lia]. Qed.
Lemma nth_set_nth_other v v' x s : v' <> v -> nth v (set_nth v' x s) 1 = nth v s 1.
Proof.
  revert v v'. induction s as [|y s IH]; intros v v' H; [destruct v'; reflexivity|].
  destruct v', v; simpl; try reflexivity; [congruence|apply IH; congruence].
Qed.
Lemma set_nth_length v x s : length (set_nth v x s) = length s.
Proof. revert v. induction s as [|y s IH]; intro v; [destruct v; reflexivity|]. destruct v; simpl; [reflexivity|rewrite IH; reflexivity]. Qed.

Lemma valid_step_parts v tile rest s : valid_loops (Loop v tile :: rest) s = true ->
  0 < tile /\ tile <= nth v s 1 /\ nth v s 1 mod tile = 0 /\ valid_loops rest (set_nth v tile s) = true.
Proof.
  cbn [valid_loops]. intro H. rewrite !andb_true_iff in H. destruct H as (((A & B) & C) & D).
  apply Z.ltb_lt in A. apply Z.leb_le in B. apply Z.eqb_eq in C. auto.
Qed.

Section S.
  Variable ms : mspec.
  Let nv := length (s_bounds (m_spec ms)).

  Lemma accepts_valid m : forall st, accepts _ _ (sstep ms) (sfinal ms) st m = true -> valid_loops m (st_shape st) = true.
  Proof.
    induction m as [|n m IH]; intros st H; [reflexivity|]. cbn [accepts] in H. destruct (sstep ms st n) as [st'|] eqn:E; [|discriminate].
    destruct n as [l t|v tile]; cbn [sstep valid_loops] in *.
    - destruct (_ && _) in E; [|discriminate]. inversion E; subst. apply (IH _ H).
    - destruct (Nat.ltb v _ && (0 <? tile) && (tile <? nth v (st_shape st) 1) && (nth v (st_shape st) 1 mod tile =? 0)) eqn:C; [|discriminate].
      inversion E; subst. rewrite !andb_true_iff in C. destruct C as (((A & B) & C) & D).
      specialize (IH _ H). cbn [st_shape] in IH. rewrite IH, B, D. apply Z.ltb_lt in C. replace (tile <=? nth v (st_shape st) 1) with true by (symmetry; apply Z.leb_le; lia). reflexivity.
  Qed.

  Lemma accepts_end_shape m : forall st, accepts _ _ (sstep ms) (sfinal ms) st m = true ->
    forallb (fun x => x =? 1) (end_shape m (st_shape st)) = true.
  Proof.
    induction m as [|n m IH]; intros st H; cbn [accepts end_shape] in *.
    - unfold sfinal in H. apply andb_true_iff in H. apply H.
    - destruct (sstep ms st n) as [st'|] eqn:E; [|discriminate]. destruct n as [l t|v tile]; cbn [sstep] in E.
      + destruct (_ && _) in E; [|discriminate]. inversion E; subst. apply (IH _ H).
      + destruct (_ && _) in E; [|discriminate]. inversion E; subst. apply (IH _ H).
  Qed.

  (* extent at entry = product of the trip counts x extent left *)
  Lemma trips_shape v m : forall s, valid_loops m s = true -> nth v s 1 = trips v m s * nth v (end_shape m s) 1.
  Proof.
    induction m as [|n m IH]; intros s H; cbn [trips end_shape]; [lia|]. destruct n as [l t|v' tile].
    - apply IH, H.
    - destruct (valid_step_parts v' tile m s H) as (H1 & H2 & H3 & H4). rewrite <- Z.mul_assoc, <- (IH _ H4).
      destruct (Nat.eqb v' v) eqn:E.
      + apply Nat.eqb_eq in E. subst v'. destruct (Nat.lt_ge_cases v (length s)) as [L|L].
        * rewrite nth_set_nth_same by exact L. apply Z.mod_divide in H3; [|lia]. destruct H3 as [q Hq]. rewrite Hq, Z.div_mul by lia. reflexivity.
        * rewrite !nth_overflow in * by (rewrite ?set_nth_length; lia). assert (tile = 1) by lia. subst. reflexivity.
      + apply Nat.eqb_neq in E. rewrite nth_set_nth_other by exact E. lia.
  Qed.

  Lemma pair_eqb_eq p q : pair_eqb p q = true -> p = q.
  Proof. destruct p, q. unfold pair_eqb. cbn. intro H. apply andb_true_iff in H. destruct H as [A B]. apply Nat.eqb_eq in A, B. subst. reflexivity. Qed.

  Lemma accepts_keeps m : forall st, accepts _ _ (sstep ms) (sfinal ms) st m = true ->
    forall p, In p (all_pairs ms) -> lk (m_keep ms) (fst p) (snd p) = true ->
    placedb p (st_placed st) = true \/ In (Sto (fst p) (snd p)) m.
  Proof.
    induction m as [|n m IH]; intros st H p Hp Hk; cbn [accepts] in H.
    - left. unfold sfinal in H. apply andb_true_iff in H. destruct H as [_ H]. rewrite forallb_forall in H. specialize (H p Hp).
      rewrite Hk in H. exact H.
    - destruct (sstep ms st n) as [st'|] eqn:E; [|discriminate]. destruct (IH _ H p Hp Hk) as [P|P]; [|right; right; exact P].
      destruct n as [l t|v tile]; cbn [sstep] in E.
      + destruct (_ && _) in E; [|discriminate]. inversion E; subst. cbn [st_placed] in P. unfold placedb in P. cbn [existsb] in P.
        apply orb_true_iff in P. destruct P as [P|P]; [|left; exact P]. apply pair_eqb_eq in P. subst p. right. left. reflexivity.
      + destruct (_ && _) in E; [|discriminate]. inversion E; subst. left. exact P.
  Qed.

  Lemma valid_top_app l body s : valid_loops (map (Sto 0) l ++ body) s = valid_loops body s.
  Proof. induction l; cbn; auto. Qed.
  Lemma trips_top_app v l body s : trips v (map (Sto 0) l ++ body) s = trips v body s.
  Proof. induction l; cbn; auto. Qed.
  Lemma end_shape_top_app l body s : end_shape (map (Sto 0) l ++ body) s = end_shape body s.
  Proof. induction l; cbn; auto. Qed.

  Lemma forallb_ones_nth s v : forallb (fun x => x =? 1) s = true -> nth v s 1 = 1.
  Proof.
    revert v. induction s as [|x s IH]; intros v H; [destruct v; reflexivity|]. cbn in H. apply andb_true_iff in H. destruct H as [A B].
    apply Z.eqb_eq in A. destruct v; cbn; [exact A|apply IH, B].
  Qed.

  Theorem in_space_valid m : in_space ms m = true ->
    valid_loops m (s_bounds (m_spec ms)) = true
    /\ (forall v, trips v m (s_bounds (m_spec ms)) = nth v (s_bounds (m_spec ms)) 1)
    /\ (forall p, In p (all_pairs ms) -> lk (m_keep ms) (fst p) (snd p) = true -> In (Sto (fst p) (snd p)) m)
    /\ fits ms m = true.
  Proof.
    intro H. destruct (in_space_split ms m H) as (E & B & F). unfold in_body in B. apply andb_true_iff in B. destruct B as [B _].
    pose proof (accepts_valid _ _ B) as V. cbn [init_state st_shape] in V.
    split; [rewrite E; unfold top; rewrite valid_top_app; exact V|]. split.
    - intro v. rewrite E. unfold top. rewrite trips_top_app. rewrite (trips_shape v _ _ V).
      pose proof (accepts_end_shape _ _ B) as O. cbn [init_state st_shape] in O. rewrite (forallb_ones_nth _ v O). lia.
    - split; [|exact F]. intros p Hp Hk. destruct (accepts_keeps _ _ B p Hp Hk) as [P|P]; [discriminate|]. rewrite E. apply in_or_app. right. exact P.
  Qed.

  Lemma map_nth_seq (l : list Z) : map (fun v => nth v l 1) (seq 0 (length l)) = l.
  Proof.
    induction l as [|x l IH]; [reflexivity|]. cbn [length seq map nth]. f_equal. rewrite <- seq_shift, map_map. exact IH.
  Qed.

  (* the compute node is reached once per point of the iteration space *)
  Theorem in_space_computes m : in_space ms m = true ->
    fold_right Z.mul 1 (map (fun v => trips v m (s_bounds (m_spec ms))) (seq 0 nv)) = n_computes (m_spec ms).
  Proof.
    intro H. destruct (in_space_valid m H) as (_ & T & _). unfold n_computes, nv. rewrite <- (map_nth_seq (s_bounds (m_spec ms))) at 2.
    f_equal. apply map_ext. intro v. apply T.
  Qed.
End S.
