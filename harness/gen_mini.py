"""MiniForge instances shared by C05/C06/C07/C31 and the search-level checks:
   random single-Einsum specs + concrete mappings  <->  accelforge YAML  <->  Coq literals (AF.Lib.MiniForge)."""
from fractions import Fraction

from common import coq_Z, coq_list, coq_nat

RV = ["m", "k", "n", "p"]
LEVELS = ["MainMemory", "GlobalBuffer", "LocalBuffer", "RegFile"]


def coq_Q(q):
    q = Fraction(q)
    return f"({q.numerator} # {q.denominator})" if q.numerator >= 0 else f"(({q.numerator}) # {q.denominator})"


def coq_optQ(q):
    return "None" if q is None else f"(Some {coq_Q(q)})"


def divisors(n):
    return [d for d in range(1, n + 1) if n % d == 0]


def gen_spec(rng, max_levels=3, bounds_pool=(2, 3, 4, 6, 8), fancy=True, min_levels=2):
    nv = rng.choice([2, 3, 3])
    bounds = [rng.choice(bounds_pool) for _ in range(nv)]
    # tensors: matmul-like by default, sometimes random relevance
    if nv == 3 and rng.random() < 0.6:
        rels = [[True, True, False], [False, True, True], [True, False, True]]
    else:
        nt = rng.choice([2, 3])
        while True:
            rels = [[rng.random() < 0.6 for _ in range(nv)] for _ in range(nt)]
            if all(any(r) for r in rels) and all(any(r[v] for r in rels) for v in range(nv)):
                break
    tensors = [{"name": "ABCD"[i], "rel": r, "out": i == len(rels) - 1, "bpv": rng.choice([8, 8, 4, 16]) if fancy else 8} for i, r in enumerate(rels)]
    nl = rng.randint(min(min_levels, max_levels), max_levels)
    levels = []
    for l in range(nl):
        lv = {"name": LEVELS[l], "skip": rng.random() < 0.8 if fancy else True,
              "re": rng.randint(1, 32), "we": rng.randint(1, 32),
              "rthr": rng.choice([None, None, 1, 2, 4, 8]), "wthr": rng.choice([None, None, 1, 2, 4, 8]),
              "leak": rng.choice([0, 0, 1, 2]) if fancy else 0,
              "bpa_r": rng.choice([8, 8, 16, 32]) if fancy else 8, "bpa_w": rng.choice([8, 8, 16]) if fancy else 8,
              "bpv": {}, "vpa_c": {}, "vpa_r": {}, "size": None, "ascale": (rng.choice([1, 1, 1, 2, 3]) if fancy else 1)}
        if fancy:
            for t in tensors:
                r = rng.random()
                if r < 0.15:
                    lv["bpv"][t["name"]] = rng.choice([4, 8, 16])
                elif r < 0.25:
                    lv["vpa_c"][t["name"]] = rng.choice([1, 2, 4])
                elif r < 0.32:
                    lv["vpa_r"][t["name"]] = rng.choice([1, 2, 8])
        levels.append(lv)
    comp = {"skip": rng.random() < 0.8 if fancy else True, "e": rng.randint(1, 8), "thr": rng.choice([1, 1, 2, 4]), "leak": rng.choice([0, 0, 1]) if fancy else 0}
    return {"bounds": bounds, "tensors": tensors, "levels": levels, "compute": comp}


def gen_mapping(rng, spec, allow_unit_loops=True):
    """list of ('sto', lvl, t) / ('loop', rv, tile); level 0 holds every tensor on top"""
    nv, nt, nl = len(spec["bounds"]), len(spec["tensors"]), len(spec["levels"])
    m = [("sto", 0, t) for t in range(nt)]
    # loops: a divisor chain per rank variable
    loops = []
    for v, b in enumerate(spec["bounds"]):
        cur = b
        for _ in range(rng.randint(0, 3)):
            ds = [d for d in divisors(cur) if d < cur or (allow_unit_loops and rng.random() < 0.1)]
            if not ds:
                break
            tile = rng.choice(ds)
            loops.append((v, tile))
            cur = tile
        if cur != 1:
            loops.append((v, 1))
    # random interleaving that keeps each variable's chain in order
    per = {v: [l for l in loops if l[0] == v] for v in range(nv)}
    seq = []
    while any(per.values()):
        v = rng.choice([v for v in per if per[v]])
        seq.append(("loop",) + per[v].pop(0))
    # lower-level holders: for each tensor an increasing subsequence of levels, inserted at non-decreasing positions
    holders = []
    for t in range(nt):
        pos = 0
        for l in range(1, nl):
            if rng.random() < 0.6:
                pos = rng.randint(pos, len(seq))
                holders.append((pos, l, t))
    # insert: stable by position; among holders at the same position outer levels first
    out = list(m)
    for i in range(len(seq) + 1):
        for (p, l, t) in sorted([h for h in holders if h[0] == i], key=lambda h: (h[1], h[2])):
            out.append(("sto", l, t))
        if i < len(seq):
            out.append(seq[i])
    return out


def q_scale(spec, lvl, t, action):
    """actions per value = 1 / values_per_action with the documented precedence:
       action.values_per_action[t] > component.values_per_action[t] > action.bits_per_action / (component.bits_per_value[t] > workload bpv)"""
    L, T = spec["levels"][lvl], spec["tensors"][t]
    name = T["name"]
    asc = L.get("ascale", 1)          # component-level actions_scale multiplies every action count of the component
    if action == "read" and name in L["vpa_r"]:
        return Fraction(asc, L["vpa_r"][name])
    if name in L["vpa_c"]:
        return Fraction(asc, L["vpa_c"][name])
    bpv = L["bpv"].get(name, T["bpv"])
    bpa = L["bpa_r"] if action == "read" else L["bpa_w"]
    return Fraction(bpv * asc, bpa)


def arch_yaml(spec, keep_all=True):
    s = "arch:\n  nodes:\n"
    for i, L in enumerate(spec["levels"]):
        thr = lambda x: "inf" if x is None else x  # noqa
        extra = ""
        if L["bpv"]:
            extra += "    bits_per_value: {" + ", ".join(f"{k}: {v}" for k, v in L["bpv"].items()) + "}\n"
        if L["vpa_c"]:
            extra += "    values_per_action: {" + ", ".join(f"{k}: {v}" for k, v in L["vpa_c"].items()) + "}\n"
        if L.get("ascale", 1) != 1:
            extra += f"    actions_scale: {L['ascale']}\n"
        vr = ", values_per_action: {" + ", ".join(f"{k}: {v}" for k, v in L["vpa_r"].items()) + "}" if L["vpa_r"] else ""
        if L.get("toll"):
            dirs = "{" + ", ".join(f"{k}: {v}" for k, v in L["dir"].items()) + "}"
            s += (f"  - !Toll\n    name: {L['name']}\n    direction: {dirs}\n    leak_power: {L['leak']}\n    area: 0\n"
                  f"    tensors: {{keep: Nothing, may_keep: All}}\n{extra}"
                  f"    actions:\n    - {{name: read, energy: {L['re']}, throughput: {thr(L['rthr'])}, bits_per_action: {L['bpa_r']}{vr}}}\n")
            continue
        s += (f"  - !Memory\n    name: {L['name']}\n    size: {'inf' if L['size'] is None else L['size']}\n    leak_power: {L['leak']}\n    area: 0\n"
              f"    skip_initial_output_write: {str(L['skip'])}\n"
              f"    tensors: {{keep: {'All' if i == 0 else 'Nothing'}, may_keep: All}}\n{extra}"
              f"    actions:\n    - {{name: read, energy: {L['re']}, throughput: {thr(L['rthr'])}, bits_per_action: {L['bpa_r']}{vr}}}\n"
              f"    - {{name: write, energy: {L['we']}, throughput: {thr(L['wthr'])}, bits_per_action: {L['bpa_w']}}}\n")
    c = spec["compute"]
    s += (f"  - !Compute\n    name: MAC\n    leak_power: {c['leak']}\n    area: 0\n    skip_initial_output_write: {str(c['skip'])}\n"
          f"    actions:\n    - {{name: compute, energy: {c['e']}, throughput: {c['thr']}}}\n")
    return s


def workload_yaml(spec):
    nv = len(spec["bounds"])
    s = "workload:\n  iteration_space_shape:\n"
    for v in range(nv):
        s += f"    {RV[v]}: 0 <= {RV[v]} < {spec['bounds'][v]}\n"
    s += "  einsums:\n  - name: E\n    tensor_accesses:\n"
    for T in spec["tensors"]:
        proj = "[" + ", ".join(RV[v] for v in range(nv) if T["rel"][v]) + "]"
        s += f"    - {{name: {T['name']}, projection: {proj}, bits_per_value: {T['bpv']}" + (", output: True" if T["out"] else "") + "}\n"
    return s


def mapping_yaml(spec, m):
    s = "mapping:\n  nodes:\n"
    for n in m:
        if n[0] == "sto":
            kind = "Toll" if spec["levels"][n[1]].get("toll") else "Storage"
            s += f"  - !{kind} {{tensors: [{spec['tensors'][n[2]]['name']}], component: {spec['levels'][n[1]]['name']}}}\n"
        else:
            s += f"  - !Temporal {{rank_variable: {RV[n[1]]}, tile_shape: {n[2]}}}\n"
    s += "  - !Compute {einsum: E, component: MAC}\n"
    return s


def coq_spec(spec):
    nt = len(spec["tensors"])
    ts = coq_list([f"(mkT {coq_list([str(b).lower() for b in T['rel']])} {str(T['out']).lower()})" for T in spec["tensors"]])
    ls = []
    for i, L in enumerate(spec["levels"]):
        rs = coq_list([coq_Q(q_scale(spec, i, t, "read")) for t in range(nt)])
        ws = coq_list([coq_Q(q_scale(spec, i, t, "write")) for t in range(nt)])
        ls.append(f"(mkL {str(L['skip']).lower()} {coq_Q(L['re'])} {coq_Q(L['we'])} {coq_optQ(L['rthr'])} {coq_optQ(L['wthr'])} {coq_Q(L['leak'])} {rs} {ws})")
    c = spec["compute"]
    return (f"(mkS {coq_list(spec['bounds'], coq_Z)} {ts} {coq_list(ls)} {str(c['skip']).lower()} {coq_Q(c['e'])} {coq_optQ(c['thr'])} {coq_Q(c['leak'])})")


def coq_mapping(m):
    return coq_list([f"(Sto {n[1]}%nat {n[2]}%nat)" if n[0] == "sto" else f"(Loop {n[1]}%nat {coq_Z(n[2])})" for n in m])


def add_toll(rng, spec):
    """insert a Toll level somewhere below level 0"""
    pos = rng.randint(1, len(spec["levels"]))
    dirs = {T["name"]: rng.choice(["up", "down", "up_and_down", "up_and_down"]) for T in spec["tensors"]}
    toll = {"name": f"Toll{pos}", "toll": True, "dir": dirs, "skip": True, "re": rng.randint(1, 100), "we": 0,
            "rthr": rng.choice([None, None, 2, 4]), "wthr": None, "leak": 0, "bpa_r": rng.choice([8, 8, 16]), "bpa_w": 8,
            "bpv": {}, "vpa_c": {}, "vpa_r": {}, "size": None}
    spec["levels"].insert(pos, toll)
    return spec


def coq_tollf(spec):
    nt = len(spec["tensors"])
    rows = []
    for L in spec["levels"]:
        if L.get("toll"):
            rows.append(coq_list([f"(Some ({str(L['dir'][T['name']] != 'down').lower()}, {str(L['dir'][T['name']] != 'up').lower()}))" for T in spec["tensors"]]))
        else:
            rows.append(coq_list(["None"] * nt))
    return f"(fun l t => nth t (nth l {coq_list(rows)} []) None)"


def py_model(spec, m):
    """python re-implementation of the execution count (brute-force iteration), used as the oracle:
       returns {(lvl, t): [reads, writes]} in values.  Tolls forward every fetch / write-back between the holder below
       and the Memory above and count one read per value crossing in their configured direction."""
    nt = len(spec["tensors"])
    res = {}
    for t in range(nt):
        T = spec["tensors"][t]
        shape = list(spec["bounds"])
        chain = []
        for n in m:
            if n[0] == "loop":
                chain.append(("L", shape[n[1]] // n[2], T["rel"][n[1]]))
                shape[n[1]] = n[2]
            elif n[2] == t:
                L = spec["levels"][n[1]]
                if L.get("toll"):
                    d = L["dir"][T["name"]]
                    chain.append(("T", n[1], d != "down", d != "up"))
                    continue
                occ = 1
                for v, r in enumerate(T["rel"]):
                    if r:
                        occ *= shape[v]
                chain.append(("H", n[1], L["skip"], occ))
        cnt = {}

        def add(l, w, v):
            cnt.setdefault(l, [0, 0])[1 if w else 0] += v

        def fetch(path, mem, v, elide_child):
            for (tl, up, down) in path:
                cnt.setdefault(tl, [0, 0])
                if down:
                    add(tl, False, 0 if elide_child else v)
            add(mem[0], False, 0 if (elide_child and mem[1]) else v)

        def writeback(path, mem, v):
            for (tl, up, down) in path:
                cnt.setdefault(tl, [0, 0])
                if up:
                    add(tl, False, v)
            add(mem[0], True, v)

        def ex(i, path, mem, fresh):
            if i == len(chain):
                if mem is not None:
                    fetch(path, mem, 1, T["out"] and spec["compute"]["skip"] and fresh)
                    if T["out"]:
                        writeback(path, mem, 1)
                return
            it = chain[i]
            if it[0] == "L":
                for j in range(it[1]):
                    ex(i + 1, path, mem, fresh and (it[2] or j == 0))
            elif it[0] == "T":
                ex(i + 1, path + [(it[1], it[2], it[3])], mem, fresh)
            else:
                _, lvl, skip, tile = it
                if mem is not None:
                    el = T["out"] and skip and fresh
                    fetch(path, mem, tile, el)
                    add(lvl, True, 0 if el else tile)
                ex(i + 1, [], (lvl, skip), fresh)
                if mem is not None and T["out"]:
                    add(lvl, False, tile)
                    writeback(path, mem, tile)
        ex(0, [], None, True)
        for l, rw in cnt.items():
            res[(l, t)] = rw
    return res
