"""C21 — spec expressions evaluate in dependency order with correct scoping."""
import itertools
import json

import common
import gen_arch
from common import coq_Z, coq_list, coq_nat

TRUSTED = [
    "modelled: _get_parsable_field_order (whole-word dependency detection is modelled as 'the name occurs as a variable of the expression'), "
    "_eval_expressions_final's field-by-field symbol-table update, eval_expression on integer arithmetic (+ - * // % min max); Python's eval itself is trusted",
    "scoping reading (see DESIGN C21): a field's reference to its OWN name resolves to the enclosing scope (the idiom `tech_node: tech_node` of the shipped examples); "
    "a cycle is a dependency cycle through >= 2 fields of one object, or a self-reference with no enclosing binding",
    "names are v<i>/v<i>x so that some names are prefixes of others (word-boundary regex); the harness renders expressions with explicit parentheses",
]
OPS = {"OAdd": "+", "OSub": "-", "OMul": "*", "ODiv": "//", "OMod": "%"}


def name(i):
    return f"v{i // 2}" + ("x" if i % 2 else "")


def render(e):
    if e[0] == "num":
        return str(e[1]) if e[1] >= 0 else f"({e[1]})"
    if e[0] == "var":
        return name(e[1])
    if e[1] in ("OMin", "OMax"):
        return f"{'min' if e[1] == 'OMin' else 'max'}({render(e[2])}, {render(e[3])})"
    return f"({render(e[2])} {OPS[e[1]]} {render(e[3])})"


def coq_exp(e):
    if e[0] == "num":
        return f"(Num {coq_Z(e[1])})"
    if e[0] == "var":
        return f"(Var {coq_nat(e[1])})"
    return f"(Bin {e[1]} {coq_exp(e[2])} {coq_exp(e[3])})"


def evars(e):
    return [] if e[0] == "num" else [e[1]] if e[0] == "var" else evars(e[2]) + evars(e[3])


def gen_exp(rng, pool, depth=0):
    r = rng.random()
    if depth >= 3 or r < 0.3 or not pool:
        if pool and rng.random() < 0.7:
            return ("var", rng.choice(pool))
        return ("num", rng.randint(-3, 9))
    op = rng.choice(["OAdd", "OAdd", "OAdd", "OSub", "OSub", "OMul", "OMul", "ODiv", "OMod", "OMin", "OMax", "OMax"])
    return ("bin", op, gen_exp(rng, pool, depth + 1), gen_exp(rng, pool, depth + 1))


def gen_object(rng, ids, outer_ids, cyc):
    """a DAG over ids (plus references to outer names, plus optional self references), optionally with an injected cycle"""
    order = list(ids)
    rng.shuffle(order)  # topological order of the DAG
    d = {}
    for k, x in enumerate(order):
        pool = order[:k][-3:] + [y for y in outer_ids if rng.random() < 0.3]
        if x in outer_ids and rng.random() < 0.5:
            pool = pool + [x]  # self reference resolving to the enclosing scope
        d[x] = gen_exp(rng, pool)
    if cyc and len(order) >= 1:
        L = min(len(order), rng.randint(1, 4))
        ring = rng.sample(order, L)
        for a, b in zip(ring, ring[1:] + ring[:1]):
            d[a] = ("bin", "OAdd", d[a], ("var", b))
    keys = list(ids)
    rng.shuffle(keys)  # key order as written
    return [(x, d[x]) for x in keys]


# ------------------------------------------------------------------ oracle: the property's semantics
class Cycle(Exception):
    pass


class EvalErr(Exception):
    pass


def oracle_object(outer, obj):
    d = dict(obj)
    memo, stack = {}, []

    def val(x):
        if x in memo:
            return memo[x]
        if x in stack:
            raise Cycle()
        stack.append(x)
        v = ev(d[x], x)
        stack.pop()
        memo[x] = v
        return v

    def ev(e, self_):
        if e[0] == "num":
            return e[1]
        if e[0] == "var":
            y = e[1]
            if y in d and y != self_:
                return val(y)
            if y in outer:
                return outer[y]
            raise EvalErr()
        a, b = ev(e[2], self_), ev(e[3], self_)
        op = e[1]
        if op in ("ODiv", "OMod") and b == 0:
            raise EvalErr()
        return {"OAdd": a + b, "OSub": a - b, "OMul": a * b, "ODiv": a // b if b else 0, "OMod": a % b if b else 0,
                "OMin": min(a, b), "OMax": max(a, b)}[op]

    # cycle detection over the whole object first (the code orders all fields before evaluating any)
    def has_cycle():
        color = {}

        def dfs(x):
            color[x] = 1
            for y in evars(d[x]):
                if y in d and y != x:
                    if color.get(y) == 1 or (color.get(y) is None and dfs(y)):
                        return True
            color[x] = 2
            return False
        return any(color.get(x) is None and dfs(x) for x in d)
    if has_cycle():
        raise Cycle()
    out = dict(outer)
    res = {}
    for x in d:
        res[x] = val(x)
    out.update(res)
    return out, res


def oracle(levels):
    outer, per = {}, []
    for obj in levels:
        try:
            outer, res = oracle_object(outer, obj)
        except Cycle:
            return per, "cycle"
        except EvalErr:
            return per, "eval"
        per.append(res)
    return per, None


# ------------------------------------------------------------------ implementation
def run_impl(af, levels):
    import accelforge.frontend.arch as A
    from accelforge.util._eval_expressions import EvaluationError
    spec_vars = {name(x): render(e) for x, e in levels[0]}
    arch_vars = {name(x): render(e) for x, e in levels[1]}
    attrs = {name(x): render(e) for x, e in levels[2]}
    arch = A.Arch(variables=arch_vars, nodes=[
        A.Memory(name="Mem", size=1000, actions=[{"name": "read", "energy": 1, "throughput": 1}, {"name": "write", "energy": 1, "throughput": 1}],
                 area=1, leak_power=0, extra_attributes_for_component_model=attrs),
        A.Compute(name="MAC", actions=[{"name": "compute", "energy": 1, "throughput": 1}], area=1, leak_power=0)])
    spec = af["Spec"](arch=arch, workload=gen_arch.simple_workload(af), variables=spec_vars)
    try:
        ev = spec._spec_eval_expressions(einsum_name="Matmul")
    except EvaluationError as e:
        msg = str(e)
        where = "spec" if "Spec().variables" in msg else "attrs" if "extra_attributes" in msg else "arch"
        return None, ("cycle" if "Circular dependency" in msg else "eval"), where
    except Exception as e:  # noqa
        return None, f"other:{type(e).__name__}", "?"
    got = [dict(ev.variables.shallow_model_dump()), dict(ev.arch.variables.shallow_model_dump()),
           dict(ev.arch.find("Mem").extra_attributes_for_component_model.shallow_model_dump())]
    return got, None, None


def run(ck):
    af = gen_arch.load()
    ck.prove()
    rng = ck.rng("dags")
    cases = []
    # all key orders of small objects
    for _ in range(ck.n(6, 60)):
        ids = list(range(rng.randint(2, 4)))
        obj = gen_object(rng, ids, [], cyc=False)
        for perm in itertools.permutations(obj):
            cases.append([list(perm), [], []])
    for _ in range(ck.n(250, 6000)):
        n1, n2, n3 = rng.randint(0, 6), rng.randint(0, 4), rng.randint(0, 4)
        pool = list(range(14))
        rng.shuffle(pool)
        ids1 = pool[:n1]
        ids2 = rng.sample(pool, n2)          # may shadow level-1 names
        ids3 = rng.sample(pool, n3)
        cyc = rng.random() < 0.25
        which = rng.randrange(3) if cyc else -1
        l1 = gen_object(rng, ids1, [], which == 0)
        l2 = gen_object(rng, ids2, ids1, which == 1)
        l3 = gen_object(rng, ids3, list(set(ids1) | set(ids2)), which == 2)
        cases.append([l1, l2, l3])
    exprs, keys = [], []
    dist = {"ok": 0, "cycle": 0, "eval": 0}
    for levels in cases:
        exp_per, exp_err = oracle(levels)
        got, err, where = run_impl(af, levels)
        dist[exp_err or "ok"] += 1
        ck.case(json.dumps(levels), nontrivial=sum(len(l) for l in levels) >= 3,
                sample={"spec_variables": {name(x): render(e) for x, e in levels[0]}, "arch_variables": {name(x): render(e) for x, e in levels[1]},
                        "component_attributes": {name(x): render(e) for x, e in levels[2]}, "expected_error": exp_err})
        bad = None
        if exp_err == "cycle":
            if err is None:
                bad = "a dependency cycle produced values instead of an EvaluationError"
            elif err.startswith("other"):
                bad = f"a dependency cycle raised {err} instead of EvaluationError"
        elif exp_err == "eval":
            if err is None:
                bad = "an expression that cannot be evaluated produced a value"
        else:
            if err is not None:
                bad = f"acyclic definitions raised {err} in {where}"
            else:
                for lvl, (e_res, g_res) in enumerate(zip(exp_per, got)):
                    for x, v in e_res.items():
                        if g_res.get(name(x)) != v:
                            bad = f"level {lvl} name {name(x)}: got {g_res.get(name(x))!r}, expected {v}"
        if bad:
            ck.failing_input({"levels": levels, "rendered": [{name(x): render(e) for x, e in l} for l in levels], "why": bad, "impl_error": err},
                             what="spec expression evaluation: " + bad)
        lv = coq_list(levels, lambda l: coq_list(l, lambda xe: f"({coq_nat(xe[0])}, {coq_exp(xe[1])})"))
        allnames = coq_list(sorted({x for l in levels for x, _ in l}), coq_nat)
        exprs.append(f"(match eval_scopes [] {lv} with OK st => (0%nat, observe st {allnames}) | ErrCycle => (1%nat, []) | ErrEval => (2%nat, []) end)")
        final = None
        if got is not None:
            final = {}
            for g in got:
                final.update(g)
        keys.append((levels, err, final))
    B = 20
    vals = [v for b in common.run_coq_eval("C21", ["AF.C21.Model"], ["[" + "; ".join(exprs[k:k + B]) + "]" for k in range(0, len(exprs), B)], chunk=10) for v in b]
    mism = []
    for (levels, err, final), m in zip(keys, vals):
        code, obs = m
        merr = [None, "cycle", "eval"][code]
        if (merr or None) != (err if err in ("cycle", "eval") else None):
            mism.append({"levels": levels, "impl_error": err, "model_error": merr})
            continue
        if merr is None:
            allnames = sorted({x for l in levels for x, _ in l})
            mv = {name(x): (o[1] if isinstance(o, tuple) else o) for x, o in zip(allnames, obs)}
            if any(final.get(k) != v for k, v in mv.items()):
                mism.append({"levels": levels, "impl": {k: final.get(k) for k in mv}, "model": mv})
    ck.count("model_vs_impl_compared", len(keys))
    ck.count("model_vs_impl_mismatches", len(mism))
    if mism and not ck.violations:
        ck.unexplained("broken-correspondence", {"mismatches": mism[:3]}, what="model evaluation != implementation evaluation")
    return ck.finish(
        rule="random DAGs of <=6+4+4 integer definitions placed in Spec.variables, arch.variables and a component's attributes with shadowing across levels, "
             "references to enclosing scopes, self references, prefix-related names, random key orders (all permutations for 2-4 definitions), "
             "25% with an injected cycle of length 1-4; non-trivial = >=3 definitions",
        trusted=TRUSTED,
        extra={"input_distribution": dist,
               "source_fingerprint": [common.fingerprint("accelforge/util/_basetypes.py", ["_get_parsable_field_order", "Evalable"]),
                                      common.fingerprint("accelforge/util/_eval_expressions.py", ["eval_expression"])]})


def replay(ck, data):
    af = gen_arch.load()
    levels = [[(x, tuple_exp(e)) for x, e in l] for l in data["levels"]]
    exp_per, exp_err = oracle(levels)
    got, err, _ = run_impl(af, levels)
    bad = (exp_err == "cycle" and err is None) or (exp_err is None and (err is not None or any(
        g.get(name(x)) != v for e_res, g in zip(exp_per, got) for x, v in e_res.items())))
    if bad:
        print("VIOLATION property=C21 replay=<replayed>")
        return 1
    print("replay: property holds on this input now")
    return 0


def tuple_exp(e):
    return tuple(tuple_exp(x) if isinstance(x, list) else x for x in e)
