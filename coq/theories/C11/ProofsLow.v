(* C11 proofs, part 2: the one- and two-column paths. *)
From AF Require Import Base.Tactics Base.ListAux Lib.Pareto C11.Model C11.ProofsSfs.
Open Scope Z_scope.

Lemma fold_min_le (l : list Z) (z : Z) : fold_right Z.min z l <= z /\ forall x, In x l -> fold_right Z.min z l <= x.
Proof.
  induction l as [|a l [IH1 IH2]]; simpl; [split; [lia|intros x []]|].
  split; [lia|]. intros x [->|Hx]; [lia|]. specialize (IH2 x Hx). lia.
Qed.

Lemma fold_min_in (l : list Z) (z : Z) : fold_right Z.min z l = z \/ In (fold_right Z.min z l) l.
Proof.
  induction l as [|a l IH]; simpl; [left; reflexivity|].
  destruct (Z.min_spec a (fold_right Z.min z l)) as [[_ ->]|[_ ->]]; [right; left; reflexivity|].
  destruct IH as [IH|IH]; [left; exact IH|right; right; exact IH].
Qed.

Lemma len1 (v : vec) : length v = 1%nat -> v = [nth 0 v 0].
Proof. destruct v as [|x [|y v]]; simpl; try discriminate. reflexivity. Qed.

Lemma len2 (v : vec) : length v = 2%nat -> v = [nth 0 v 0; nth 1 v 0].
Proof. destruct v as [|x [|y [|z v]]]; simpl; try discriminate. reflexivity. Qed.

Lemma dom1 x y : dom [y] [x] = true <-> y < x.
Proof. unfold dom. simpl. lia. Qed.

Lemma dom2 a y a' y' : dom [a'; y'] [a; y] = true <-> a' <= a /\ y' <= y /\ (a' < a \/ y' < y).
Proof. unfold dom. simpl. lia. Qed.

(* ---------------------------------------------------------------- one varying column *)
Theorem min_path_correct L i :
  (forall p, In p L -> length (snd p) = 1%nat) ->
  (In i (min_path L) <-> exists v, In (i, v) L /\ nondom_in L v).
Proof.
  intros Hlen. unfold min_path. destruct L as [|p0 L']; [simpl; split; [intros []|intros [v [[] _]]]|].
  set (L := p0 :: L') in *. set (mn := fold_right Z.min (c0 p0) (map c0 L)).
  assert (Hle : forall q, In q L -> mn <= c0 q).
  { intros q Hq. apply (proj2 (fold_min_le (map c0 L) (c0 p0))). apply in_map, Hq. }
  assert (Hin : exists q, In q L /\ c0 q = mn).
  { destruct (fold_min_in (map c0 L) (c0 p0)) as [H|H].
    - exists p0. split; [left; reflexivity|symmetry; exact H].
    - apply in_map_iff in H. destruct H as [q [H1 H2]]. exists q. tauto. }
  rewrite in_map_iff. split.
  - intros [[j v] [Hj Hf]]. simpl in Hj. subst j. apply filter_In in Hf. destruct Hf as [Hv Hc].
    exists v. split; [exact Hv|]. intros q Hq.
    rewrite (len1 _ (Hlen _ Hq)), (len1 v (Hlen _ Hv)).
    destruct (dom [nth 0 (snd q) 0] [nth 0 v 0]) eqn:E; [|reflexivity]. apply dom1 in E.
    specialize (Hle q Hq). unfold c0 in *. simpl in *. lia.
  - intros [v [Hv Hn]]. exists (i, v). split; [reflexivity|]. apply filter_In. split; [exact Hv|].
    destruct Hin as [q [Hq Hqm]]. specialize (Hn q Hq).
    rewrite (len1 _ (Hlen _ Hq)), (len1 v (Hlen _ Hv)) in Hn.
    destruct (c0 (i, v) <=? mn) eqn:E; [reflexivity|]. exfalso.
    assert (dom [nth 0 (snd q) 0] [nth 0 v 0] = true) by (apply dom1; unfold c0 in *; simpl in *; lia).
    congruence.
Qed.

(* ---------------------------------------------------------------- two varying columns *)
Definition best_is (best : option Z) (Pre : list lrow) : Prop :=
  match best with
  | None => Pre = []
  | Some b => (exists x, In x Pre /\ c1 x = b) /\ forall x, In x Pre -> b <= c1 x
  end.

Lemma run_min_spec run : run <> [] ->
  (forall x, In x run -> run_min run <= c1 x) /\ exists x, In x run /\ c1 x = run_min run.
Proof.
  destruct run as [|p t]; [congruence|]. intros _. unfold run_min.
  destruct (fold_min_le (map c1 t) (c1 p)) as [H1 H2]. split.
  - intros x [<-|Hx]; [exact H1|apply H2, in_map, Hx].
  - destruct (fold_min_in (map c1 t) (c1 p)) as [H|H].
    + exists p. split; [left; reflexivity|symmetry; exact H].
    + apply in_map_iff in H. destruct H as [x [Hx1 Hx2]]. exists x. split; [right; exact Hx2|exact Hx1].
Qed.

Lemma better_spec g best Pre : best_is best Pre ->
  (better g best = true <-> forall x, In x Pre -> g < c1 x).
Proof.
  destruct best as [b|]; simpl.
  - intros [[x [Hx Hb]] Hmin]. rewrite Z.ltb_lt. split.
    + intros Hg y Hy. specialize (Hmin y Hy). lia.
    + intros H. specialize (H x Hx). lia.
  - intros ->. split; [intros _ x []|reflexivity].
Qed.

Lemma flush_spec run best Pre a i :
  run <> [] ->
  (forall p, In p (Pre ++ run) -> length (snd p) = 2%nat) ->
  (forall x, In x run -> c0 x = a) -> (forall x, In x Pre -> c0 x < a) ->
  best_is best Pre ->
  (In i (flush run best) <-> exists v, In (i, v) run /\ nondom_in (Pre ++ run) v).
Proof.
  intros Hne Hlen Hrun Hpre Hbest.
  destruct (run_min_spec run Hne) as [Hmin [m [Hm Hmv]]].
  pose proof (better_spec (run_min run) best Pre Hbest) as Hb.
  assert (Hdom : forall q p, In q (Pre ++ run) -> In p run ->
            (dom (snd q) (snd p) = true <-> c0 q <= c0 p /\ c1 q <= c1 p /\ (c0 q < c0 p \/ c1 q < c1 p))).
  { intros q p Hq Hp. rewrite (len2 _ (Hlen q Hq)) at 1.
    rewrite (len2 (snd p)) at 1 by (apply Hlen, in_or_app; right; exact Hp). apply dom2. }
  unfold flush. destruct run as [|r0 rt] eqn:Erun; [congruence|]. rewrite <- Erun in *.
  split.
  - destruct (better (run_min run) best) eqn:Eb; [|intros []].
    rewrite in_map_iff. intros [[j v] [Hj Hf]]. simpl in Hj; subst j. apply filter_In in Hf. destruct Hf as [Hv Hc].
    apply Z.eqb_eq in Hc. exists v. split; [exact Hv|]. intros q Hq.
    destruct (dom (snd q) v) eqn:E; [|reflexivity]. exfalso.
    apply (Hdom q (i, v) Hq Hv) in E. apply in_app_or in Hq. destruct Hq as [Hq|Hq].
    + pose proof (proj1 Hb eq_refl q Hq). lia.
    + pose proof (Hmin q Hq). pose proof (Hrun q Hq). pose proof (Hrun _ Hv). lia.
  - intros [v [Hv Hn]].
    assert (Hc : c1 (i, v) = run_min run).
    { pose proof (Hmin _ Hv). destruct (Z.eq_dec (c1 (i, v)) (run_min run)) as [E|E]; [exact E|]. exfalso.
      assert (dom (snd m) (snd (i, v)) = true).
      { apply Hdom; [apply in_or_app; right; exact Hm|exact Hv|]. pose proof (Hrun m Hm). pose proof (Hrun _ Hv). lia. }
      simpl in H0. rewrite (Hn m) in H0; [discriminate|apply in_or_app; right; exact Hm]. }
    assert (Eb : better (run_min run) best = true).
    { apply Hb. intros x Hx. destruct (Z_lt_ge_dec (run_min run) (c1 x)) as [Hl|Hg]; [exact Hl|]. exfalso.
      assert (dom (snd x) (snd (i, v)) = true).
      { apply Hdom; [apply in_or_app; left; exact Hx|exact Hv|]. pose proof (Hpre x Hx). pose proof (Hrun _ Hv). lia. }
      simpl in H. rewrite (Hn x) in H; [discriminate|apply in_or_app; left; exact Hx]. }
    rewrite Eb. apply in_map_iff. exists (i, v). split; [reflexivity|]. apply filter_In. split; [exact Hv|].
    apply Z.eqb_eq. exact Hc.
Qed.

Lemma new_best_is run best Pre a :
  run <> [] ->
  (forall x, In x run -> c0 x = a) ->
  best_is best Pre -> best_is (new_best run best) (Pre ++ run).
Proof.
  intros Hne Hrun Hbest. destruct (run_min_spec run Hne) as [Hmin [m [Hm Hmv]]].
  pose proof (better_spec (run_min run) best Pre Hbest) as Hb.
  unfold new_best. destruct run as [|r0 rt] eqn:Erun; [congruence|]. rewrite <- Erun in *.
  destruct (better (run_min run) best) eqn:Eb.
  - simpl. split; [exists m; split; [apply in_or_app; right; exact Hm|exact Hmv]|].
    intros x Hx. apply in_app_or in Hx. destruct Hx as [Hx|Hx]; [pose proof (proj1 Hb eq_refl x Hx); lia|apply Hmin, Hx].
  - destruct best as [b|]; [|simpl in Eb; discriminate].
    simpl in *. destruct Hbest as [[x [Hx Hxb]] Hall]. split; [exists x; split; [apply in_or_app; left; exact Hx|exact Hxb]|].
    intros y Hy. apply in_app_or in Hy. destruct Hy as [Hy|Hy]; [apply Hall, Hy|].
    apply Z.ltb_ge in Eb. pose proof (Hmin y Hy). lia.
Qed.

Lemma sweep_acc_spec S : forall run best Pre,
  (forall p, In p (Pre ++ run ++ S) -> length (snd p) = 2%nat) ->
  (forall x y, In x Pre -> In y (run ++ S) -> c0 x < c0 y) ->
  (forall x y, In x run -> In y run -> c0 x = c0 y) ->
  (forall x y, In x run -> In y S -> c0 x <= c0 y) ->
  ksorted c0 S ->
  best_is best Pre ->
  forall i, In i (sweep_acc S run best) <-> exists v, In (i, v) (run ++ S) /\ nondom_in (Pre ++ run ++ S) v.
Proof.
  induction S as [|p S IH]; intros run best Pre Hlen Hpre Hrun HrS Hs Hbest i.
  - simpl. rewrite app_nil_r in *. destruct run as [|r0 rt] eqn:Erun.
    + simpl. split; [intros []|intros [v [[] _]]].
    + rewrite <- Erun in *. apply (flush_spec run best Pre (c0 r0)); try assumption.
      * rewrite Erun; discriminate.
      * intros x Hx. apply Hrun; [exact Hx|rewrite Erun; left; reflexivity].
      * intros x Hx. apply Hpre; [exact Hx|rewrite Erun; left; reflexivity].
  - simpl. inversion Hs as [|? ? Hp Hs']; subst.
    destruct run as [|q rt] eqn:Erun.
    + (* start a run *)
      rewrite (IH [p] best Pre); simpl in *; try assumption.
      * reflexivity.
      * intros x y [<-|[]] [<-|[]]. reflexivity.
      * intros x y [<-|[]] Hy. apply Hp, Hy.
    + rewrite <- Erun in *.
      destruct (c0 p =? c0 q) eqn:E.
      * (* extend the run *)
        apply Z.eqb_eq in E.
        assert (EQ : (run ++ [p]) ++ S = run ++ p :: S) by (rewrite <- app_assoc; reflexivity).
        rewrite (IH (run ++ [p]) best Pre); rewrite ?EQ; try assumption.
        -- reflexivity.
        -- intros x y Hx Hy. assert (Hq : In q run) by (rewrite Erun; left; reflexivity).
           apply in_app_or in Hx. apply in_app_or in Hy.
           destruct Hx as [Hx|[<-|[]]], Hy as [Hy|[<-|[]]]; try reflexivity.
           ++ apply Hrun; assumption.
           ++ rewrite E. apply Hrun; assumption.
           ++ rewrite E. apply Hrun; assumption.
        -- intros x y Hx Hy. apply in_app_or in Hx. destruct Hx as [Hx|[<-|[]]]; [apply HrS; [exact Hx|right; exact Hy]|apply Hp, Hy].
      * (* close the run: every remaining row has a strictly larger column 0 *)
        apply Z.eqb_neq in E.
        assert (Hq : In q run) by (rewrite Erun; left; reflexivity).
        assert (Hne : run <> []) by (rewrite Erun; discriminate).
        assert (Hgt : forall x y, In x run -> In y (p :: S) -> c0 x < c0 y).
        { intros x y Hx Hy. pose proof (HrS q p Hq (or_introl eq_refl)). pose proof (Hrun x q Hx Hq).
          destruct Hy as [<-|Hy]; [lia|]. pose proof (Hp y Hy). lia. }
        rewrite in_app_iff.
        rewrite (flush_spec run best Pre (c0 q)); try assumption;
          [|intros x Hx; apply Hlen; apply in_app_or in Hx; apply in_or_app; destruct Hx as [Hx|Hx]; [left; exact Hx|right; apply in_or_app; left; exact Hx]
           |intros x Hx; apply Hrun; assumption
           |intros x Hx; apply Hpre; [exact Hx|apply in_or_app; left; exact Hq]].
        assert (EQ : (Pre ++ run) ++ [p] ++ S = Pre ++ run ++ p :: S) by (rewrite <- app_assoc; reflexivity).
        rewrite (IH [p] (new_best run best) (Pre ++ run)); rewrite ?EQ; try assumption.
        -- split.
           ++ intros [[v [Hv Hn]]|[v [Hv Hn]]].
              ** exists v. split; [apply in_or_app; left; exact Hv|].
                 intros x Hx. rewrite app_assoc in Hx. apply in_app_or in Hx. destruct Hx as [Hx|Hx]; [apply Hn, Hx|].
                 (* later rows have a larger column 0: they cannot dominate *)
                 destruct (dom (snd x) v) eqn:F; [|reflexivity]. exfalso.
                 rewrite (len2 (snd x)) in F by (apply Hlen; apply in_or_app; right; apply in_or_app; right; exact Hx).
                 rewrite (len2 v) in F by (apply (Hlen (i, v)); apply in_or_app; right; apply in_or_app; left; exact Hv).
                 apply dom2 in F. pose proof (Hgt (i, v) x Hv Hx). unfold c0 in *. simpl in *. lia.
              ** exists v. split; [apply in_or_app; right; exact Hv|exact Hn].
           ++ intros [v [Hv Hn]]. apply in_app_or in Hv. destruct Hv as [Hv|Hv].
              ** left. exists v. split; [exact Hv|]. intros x Hx. apply Hn. rewrite app_assoc. apply in_or_app. left; exact Hx.
              ** right. exists v. split; [exact Hv|exact Hn].
        -- intros x y Hx Hy. apply in_app_or in Hx. destruct Hx as [Hx|Hx].
           ++ apply Hpre; [exact Hx|apply in_or_app; right; exact Hy].
           ++ apply Hgt; assumption.
        -- intros x y [<-|[]] [<-|[]]. reflexivity.
        -- intros x y [<-|[]] Hy. apply Hp, Hy.
        -- apply (new_best_is run best Pre (c0 q)); try assumption. intros x Hx. apply Hrun; assumption.
Qed.

Theorem sweep2_correct L i :
  (forall p, In p L -> length (snd p) = 2%nat) ->
  (In i (sweep2 L) <-> exists v, In (i, v) L /\ nondom_in L v).
Proof.
  intros Hlen. unfold sweep2.
  assert (HP : Permutation L (sort_by c0 L)) by apply sort_by_perm.
  rewrite (sweep_acc_spec (sort_by c0 L) [] None []); simpl.
  - split; intros [v [Hv Hn]]; exists v.
    + split; [apply (Permutation_in _ (Permutation_sym HP)), Hv|]. intros q Hq. apply Hn, (Permutation_in _ HP), Hq.
    + split; [apply (Permutation_in _ HP), Hv|]. intros q Hq. apply Hn, (Permutation_in _ (Permutation_sym HP)), Hq.
  - intros p Hp. apply Hlen, (Permutation_in _ (Permutation_sym HP)), Hp.
  - intros x y [].
  - intros x y [].
  - intros x y [].
  - apply sort_by_sorted.
  - reflexivity.
Qed.
