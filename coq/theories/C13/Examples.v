From AF Require Import Base.Tactics Lib.Pareto Lib.Front Lib.Join C13.Model.
Open Scope Z_scope.
(* keys: 0 = unfused, 1 = fused on a shared loop; fused rows only join fused rows *)
Definition ex_compat (a b : nat) : option nat := if Nat.eqb a b then Some a else None.
Definition ex_A := [mkRow 0 [10; 4; 2]; mkRow 0 [12; 5; 2]; mkRow 1 [6; 6; 5]; mkRow 1 [7; 3; 9]].
Definition ex_B := [mkRow 0 [8; 4; 3]; mkRow 1 [5; 5; 4]; mkRow 1 [4; 9; 8]; mkRow 1 [5; 6; 4]].
Definition ex_C := [mkRow 0 [1; 1; 1]; mkRow 1 [2; 1; 6]].
(* pruning really removes rows and capacity really drops combinations *)
Example ex_counts : (length (exhaustive ex_compat comb3 (fits3 8) ex_A [ex_B; ex_C]), length (staged ex_compat comb3 (fits3 8) ex_A [ex_B; ex_C])) = (5%nat, 3%nat).
Proof. vm_compute. reflexivity. Qed.
Example ex_front : front (map rvec (staged ex_compat comb3 (fits3 8) ex_A [ex_B; ex_C])) = front (map rvec (exhaustive ex_compat comb3 (fits3 8) ex_A [ex_B; ex_C])).
Proof. vm_compute. reflexivity. Qed.
