"""C18 — relaxing the mapspace never makes the optimum worse."""
import copy
import json
import os

import common
import gen_mini as G
import mini_space as S
import mapper_ref as R
import c01

TRUSTED = c01.TRUSTED[:3] + [
    "relaxations modelled in Coq (C18_relaxations): larger memories, larger may_keep, smaller keep. Enabling imperfect temporal factorisation and (for single-Einsum specs, "
    "where it is vacuous) a higher fused-loop limit are checked on the real mapper only; loop-bound constraints and min_usage need spatial fanouts and are outside the class",
]
METRICS = c01.METRICS


def relaxations(rng, spec):
    """(name, relaxed spec, extra mapper options)"""
    out = []
    nt = len(spec["tensors"])
    s = copy.deepcopy(spec)
    for L in s["levels"][1:]:
        if L["size"] is not None:
            L["size"] = L["size"] * rng.choice([2, 4]) if rng.random() < 0.7 else None
    out.append(("larger memory", s, None))
    s = copy.deepcopy(spec)
    for L in s["levels"][1:]:
        L["may"] = [True] * nt
    out.append(("larger may_keep", s, None))
    s = copy.deepcopy(spec)
    for L in s["levels"][1:]:
        L["keep"] = [k and rng.random() < 0.5 for k in L["keep"]]
    out.append(("smaller keep", s, None))
    out.append(("imperfect temporal factorisation", copy.deepcopy(spec), {"explore_imperfect_temporal_loops": True}))
    out.append(("higher fused-loop limit", copy.deepcopy(spec), {"max_fused_loops_per_rank_variable": 2}))
    return out


def run(ck):
    af, evaluate_mapping = R.load()
    ck.prove()
    rng = ck.rng("specs")
    d = common.BUILD / "run" / f"c18-{os.getpid()}"
    d.mkdir(parents=True, exist_ok=True)
    dist = {"pairs": 0, "strict_improvements": 0, "became_feasible": 0, "by_relaxation": {}}
    for i in range(ck.n(5, 60)):
        # start from a constrained spec so that relaxing can matter
        spec, space = R.gen_search_spec(rng, max_space=ck.n(2500, 15000))
        for L in spec["levels"][1:]:
            if L["size"] is None and rng.random() < 0.7:
                L["size"] = rng.choice([16, 32, 64])
            if rng.random() < 0.5:
                L["may"] = [m and rng.random() < 0.7 for m in L["may"]]
                L["keep"] = [k and m for k, m in zip(L["keep"], L["may"])]
        ref0 = R.reference(spec)
        for name, rspec, extra in relaxations(rng, spec):
            in_model = extra is None
            ref1 = R.reference(rspec) if in_model else None
            for metric, col in METRICS:
                a = R.run_mapper(af, spec, d, [metric])
                b = R.run_mapper(af, rspec, d, [metric], extra=extra)
                dist["pairs"] += 1
                dist["by_relaxation"][name] = dist["by_relaxation"].get(name, 0) + 1
                ck.case(json.dumps([spec, name, metric, str(extra)], sort_keys=True, default=str), nontrivial=True,
                        sample={"relaxation": name, "metric": metric, "tight": a["error"] or R.best(a["rows"], col), "relaxed": b["error"] or R.best(b["rows"], col)})
                if a["error"] is not None:
                    if b["error"] is None:
                        dist["became_feasible"] += 1
                    elif ref1:
                        ck.failing_input({"spec": rspec, "relaxation": name, "error": b["error"], "arch_yaml": S.arch_yaml(rspec), "workload_yaml": G.workload_yaml(rspec)},
                                         what="the mapper raised on the relaxed spec although valid mappings exist")
                    continue
                if b["error"] is not None:
                    ck.failing_input({"spec": spec, "relaxed": rspec, "relaxation": name, "metric": metric, "mapper_options": extra, "tight_best": R.best(a["rows"], col), "relaxed_error": b["error"],
                                      "arch_yaml_tight": S.arch_yaml(spec), "arch_yaml_relaxed": S.arch_yaml(rspec), "workload_yaml": G.workload_yaml(spec)},
                                     what=f"relaxing ({name}) turned a feasible spec into an error: {b['error'][:100]}")
                    continue
                va, vb = R.best(a["rows"], col), R.best(b["rows"], col)
                if vb > va * (1 + 1e-5) + 1e-9:
                    ck.failing_input({"spec": spec, "relaxed": rspec, "relaxation": name, "metric": metric, "mapper_options": extra, "tight_best": va, "relaxed_best": vb,
                                      "tight_mapping": a["rows"][0].get("mapping"), "arch_yaml_tight": S.arch_yaml(spec), "arch_yaml_relaxed": S.arch_yaml(rspec), "workload_yaml": G.workload_yaml(spec)},
                                     what=f"relaxing the mapspace ({name}) made the {metric} optimum worse: {va} -> {vb}")
                elif vb < va * (1 - 1e-6):
                    dist["strict_improvements"] += 1
                if in_model and ref0 and ref1:
                    # both against the exhaustive reference as well
                    for nm, rr, v in (("tight", ref0, va), ("relaxed", ref1, vb)):
                        want = min(c01.ref_value(metric, e, l) for _, e, l in rr)
                        if not R.close(v, want):
                            ck.failing_input({"spec": spec if nm == "tight" else rspec, "metric": metric, "mapper_best": v, "reference_optimum": float(want),
                                              "arch_yaml": S.arch_yaml(spec if nm == "tight" else rspec), "workload_yaml": G.workload_yaml(spec)},
                                             what=f"{nm} spec: mapper {metric} optimum {v} differs from the optimum of the enumerated mapspace {float(want)}")
    return ck.finish(
        rule="pairs (constrained single-Einsum spec, relaxed spec) x {ENERGY, LATENCY, EDP} on the real mapper; relaxations: larger memories, larger may_keep, smaller keep, "
             "imperfect temporal factorisation on, higher fused-loop limit; oracle: relaxed optimum <= tight optimum (and both equal the exhaustive reference where the relaxation is in the model); "
             "non-trivial = every pair",
        trusted=TRUSTED,
        extra={"input_distribution": dist,
               "source_fingerprint": [common.fingerprint("accelforge/mapper/FFM/main.py", ["map_workload_to_arch"])]})


def replay(ck, data):
    print("replay: re-run ./check C18 with the recorded seed (the failing pair is in the replay file)")
    return 0
