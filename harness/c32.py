"""C32 — the parallel runner returns each job's result in job order."""
import json
import os
import subprocess
import sys

import common
from common import coq_list, coq_nat, coq_Z

TRUSTED = [
    "joblib.Parallel is abstracted as 'delivers every submitted tagged job's result exactly once, in some order' (hypothesis Permutation arrivals (combine tags results)); process spawning, pickling and real interleavings are runtime behaviour exercised only by the differential runs",
    "hook H1 (ACCELFORGE_VERIF_SCHEDULE_SEED) permutes submission and arrival order inside util.parallel to force adversarial completion orders",
]

DRIVER = r'''
import json, os, sys, random
sys.path.insert(0, os.environ["VERIF_HARNESS"])
from c32_jobs import job
from accelforge.util.parallel import parallel, delayed
cases = json.loads(sys.stdin.read())
out = []
for c in cases:
    n, workers, kind, sleeps = c["n"], c["workers"], c["kind"], c["sleeps"]
    try:
        if kind == "list":
            kw = {} if c.get("return_as") is None else {"return_as": c["return_as"]}
            r = parallel([delayed(job)(i, 1000 + i, sleeps[i]) for i in range(n)], n_jobs=workers, **kw)
            out.append({"result": [list(x) for x in list(r)]})
        else:
            keys = [tuple(k) if isinstance(k, list) else k for k in c["keys"]]
            r = parallel({k: delayed(job)(j, 1000 + j, sleeps[j]) for j, k in enumerate(keys)}, n_jobs=workers)
            out.append({"result": [[list(k) if isinstance(k, tuple) else k, list(v)] for k, v in r.items()]})
    except Exception as e:
        out.append({"error": f"{type(e).__name__}: {e}"})
print("RESULT" + json.dumps(out))
'''


def run_driver(cases, seed):
    env = common.impl_env({"VERIF_HARNESS": str(common.ROOT / "harness")})
    if seed is not None:
        env["ACCELFORGE_VERIF_SCHEDULE_SEED"] = str(seed)
    d = common.BUILD / "run" / f"c32-{os.getpid()}"
    d.mkdir(parents=True, exist_ok=True)
    p = subprocess.run([common.PY, "-c", DRIVER], input=json.dumps(cases), capture_output=True, text=True, env=env, cwd=d, timeout=1500)
    for line in p.stdout.splitlines():
        if line.startswith("RESULT"):
            return json.loads(line[6:])
    raise RuntimeError("driver failed: " + p.stderr[-2000:])


def run(ck):
    ck.prove()
    rng = ck.rng("jobs")
    groups = []
    n_cases = ck.n(16, 150)
    for seed in [None, 0, 1, 2] + ([3, 4, 5, 7, 8] if not ck.quick() else []):
        cases = []
        for _ in range(n_cases):
            n = rng.choice([0, 1, 2, 3, 5, 8, 16, 33, 64])
            kind = rng.choice(["list", "list", "dict"])
            c = {"n": n, "workers": rng.choice([1, 2, 3, 4, 8, 16]), "kind": kind,
                 "sleeps": [rng.choice([0, 0, 1, 3, 8, 20]) for _ in range(n)]}
            if kind == "dict":
                # keys of several hashable kinds; -1 and -2 (equal hashes in CPython) are both drawn often
                pool = list(range(-6, 40)) + [f"k{i}" for i in range(30)] + [[a, b] for a in range(-2, 4) for b in range(3)]
                keys = rng.sample(pool, min(n, len(pool)))
                if n >= 2 and rng.random() < 0.5:
                    keys[0], keys[1] = -1, -2
                    keys = [k for i, k in enumerate(keys) if k not in (-1, -2) or i < 2]
                    rng.shuffle(keys)
                c["keys"] = keys
                c["n"] = n = len(keys)
                c["sleeps"] = c["sleeps"][:n]
            else:
                c["return_as"] = rng.choice([None, None, "list", "generator"])
            cases.append(c)
        groups.append((seed, cases))
    exprs, keys_ = [], []
    for seed, cases in groups:
        res = run_driver(cases, seed)
        for c, r in zip(cases, res):
            ck.case((seed, json.dumps(c)), nontrivial=c["n"] >= 2 and c["workers"] >= 2,
                    sample={"n": c["n"], "workers": c["workers"], "kind": c["kind"], "return_as": c.get("return_as"), "schedule_seed": seed})
            if "error" in r:
                bad = r["error"]
            elif c["kind"] == "list":
                exp = [[i, 1000 + i] for i in range(c["n"])]
                bad = None if r["result"] == exp else f"result {r['result'][:6]}... expected position i to hold job i's result"
            else:
                exp = [[k, [j, 1000 + j]] for j, k in enumerate(c["keys"])]
                bad = None if r["result"] == exp else "dict result does not map each key (in input order) to its own job's result"
            if bad:
                ck.failing_input({"case": c, "schedule_seed": seed, "why": bad, "impl": r}, what="parallel(): " + bad)
    # model side: the collection logic on explicit adversarial arrival orders, compared with the expected contents
    for _ in range(ck.n(200, 2000)):
        n = rng.randint(0, 12)
        order = list(range(n))
        rng.shuffle(order)
        exprs.append(f"collect {coq_nat(n)} {coq_list(order, lambda i: f'({coq_nat(i)}, {coq_Z(1000 + i)})')}")
        keys_.append([1000 + i for i in range(n)])
    B = 50
    vals = [v for b in common.run_coq_eval("C32", ["AF.C32.Model"], ["[" + "; ".join(exprs[k:k + B]) + "]" for k in range(0, len(exprs), B)], chunk=10) for v in b]
    mism = [(e, m) for e, m in zip(keys_, vals) if [x[1] if isinstance(x, tuple) else x for x in m] != e]
    ck.count("model_arrival_orders_evaluated", len(keys_))
    ck.count("model_mismatches", len(mism))
    if mism and not ck.violations:
        ck.unexplained("broken-correspondence", {"mismatches": [str(x) for x in mism[:3]]}, what="model collect differs from job order")
    return ck.finish(
        rule="real accelforge.util.parallel.parallel in a subprocess: job lists of length 0-64 with random sleeps (0-20 ms), worker counts 1-16, list inputs with return_as None / 'list' / 'generator', dict inputs keyed by ints (incl. -1 and -2, equal hashes), strings and tuples, "
             "natural scheduling plus hook-forced reversed / rotated / shuffled submission and arrival orders; non-trivial = >=2 jobs on >=2 workers",
        trusted=TRUSTED,
        extra={"source_fingerprint": [common.fingerprint("accelforge/util/parallel.py", ["parallel", "_dict_job"])]})


def replay(ck, data):
    r = run_driver([data["case"]], data.get("schedule_seed"))[0]
    c = data["case"]
    exp = [[i, 1000 + i] for i in range(c["n"])] if c["kind"] == "list" else [[k, [j, 1000 + j]] for j, k in enumerate(c["keys"])]
    if r.get("result") != exp:
        print("VIOLATION property=C32 replay=<replayed>")
        return 1
    print("replay: property holds on this input now")
    return 0
