From Coq Require Import List Arith Bool Lia.
Import ListNotations.
From AF Require Import C22.Model C29.Model.

Lemma lookup_app n a b : lookup_ren n (a ++ b) = match lookup_ren n a with Some r => Some r | None => lookup_ren n b end.
Proof. induction a as [|r a IH]; simpl; [reflexivity|]. destruct (Nat.eqb n (rn r)); [reflexivity|exact IH]. Qed.

Lemma append_missing_lookup n extra : forall cur,
  lookup_ren n (append_missing cur extra) = match lookup_ren n cur with Some r => Some r | None => lookup_ren n extra end.
Proof.
  unfold append_missing. induction extra as [|r extra IH]; intros cur; simpl.
  - destruct (lookup_ren n cur); reflexivity.
  - rewrite IH. unfold has_ren. destruct (lookup_ren (rn r) cur) eqn:E.
    + destruct (lookup_ren n cur) eqn:F; [reflexivity|].
      destruct (Nat.eqb_spec n (rn r)) as [->|]; [congruence|reflexivity].
    + rewrite lookup_app. destruct (lookup_ren n cur); [reflexivity|]. simpl.
      destruct (Nat.eqb n (rn r)); reflexivity.
Qed.

Theorem merged_priority n local top_e top_default :
  lookup_ren n (merged local top_e top_default) = first_defined n local top_e top_default.
Proof. unfold merged, renames_for, first_defined. rewrite !append_missing_lookup. reflexivity. Qed.

Theorem resolve_spec w e local top_e top_default n s :
  resolve w e local top_e top_default n = Val s ->
  exists r, first_defined n local top_e top_default = Some r /\ eval_rename w e r = Some s.
Proof.
  unfold resolve. destruct (forallb _ _); [|discriminate]. rewrite merged_priority.
  destruct (first_defined n local top_e top_default) as [r|]; [|discriminate].
  destruct (eval_rename w e r) eqn:E; [|discriminate]. intros H. inversion H; subst. exists r. tauto.
Qed.

Theorem count_mismatch_rejected w e local top_e top_default r k :
  In r (merged local top_e top_default) -> cnt r = Some k ->
  length (dedup (inst (impl_eval (env_of w e []) (src r)))) <> k ->
  forall n, resolve w e local top_e top_default n = Bad.
Proof.
  intros Hin Hc Hne n. unfold resolve.
  destruct (forallb _ (merged local top_e top_default)) eqn:E; [|reflexivity]. exfalso.
  rewrite forallb_forall in E. specialize (E r Hin). unfold eval_rename in E. rewrite Hc in E.
  destruct (Nat.eqb_spec (length (dedup (inst (impl_eval (env_of w e []) (src r))))) k); [contradiction|discriminate].
Qed.
