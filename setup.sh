#!/bin/bash
# Builds the whole Coq development from clean-or-incremental state (full .vo build, never -vos).
set -e -o pipefail
cd "$(dirname "$0")/coq"
{ echo "-Q theories AF"; echo "-arg -w -arg -deprecated-hint-without-locality,-deprecated-instance-without-locality,-notation-overridden"; find theories -name '*.v' | LC_ALL=C sort; } > _CoqProject.new
if ! cmp -s _CoqProject.new _CoqProject || [ ! -f Makefile ]; then
  mv _CoqProject.new _CoqProject
  coq_makefile -f _CoqProject -o Makefile > /dev/null
else
  rm -f _CoqProject.new
fi
# (the exit status must be make's: a grep that filters every line away exits 1)
mkdir -p ../build
set +e
timeout ${VERIF_COQ_TIMEOUT:-3000} make -j16 > ../build/coq_make.log 2>&1
rc=$?
grep -v '^COQDEP\|^COQC\|^CAML' ../build/coq_make.log | tail -40
exit $rc
