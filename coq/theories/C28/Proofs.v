(* C28 proofs: regrouping a breakdown never changes its total; grouped values are the sums of their members;
   latency / usage aggregates are maxima of their members. *)
From Coq Require Import ZArith List Bool Lia.
Import ListNotations.
Require Import AF.C28.Model.
Open Scope Z_scope.

Lemma key_eqb_eq a : forall b, key_eqb a b = true <-> a = b.
Proof.
  induction a as [|x a IH]; destruct b as [|y b]; simpl; try (split; [discriminate|congruence]); [tauto|].
  rewrite andb_true_iff, Nat.eqb_eq, IH. split; [intros [-> ->]; reflexivity|intro H; inversion H; auto].
Qed.
Lemma key_eqb_refl a : key_eqb a a = true.
Proof. apply key_eqb_eq. reflexivity. Qed.

Definition sum_where (p : key -> bool) (d : list (key * Z)) : Z :=
  fold_right Z.add 0 (map snd (filter (fun kv => p (fst kv)) d)).
Definition lookup (k : key) (d : list (key * Z)) : option Z := option_map snd (find (fun kv => key_eqb k (fst kv)) d).
Definition keys (d : list (key * Z)) := map fst d.

Lemma total_dict_add k v d : total (dict_add k v d) = total d + v.
Proof.
  unfold total. induction d as [|[k' v'] d IH]; simpl; [lia|]. destruct (key_eqb k k'); simpl; [lia|]. rewrite IH. lia.
Qed.

Lemma group_total_gen idx d acc :
  total (fold_left (fun acc kv => dict_add (select idx (fst kv)) (snd kv) acc) d acc) = total acc + total d.
Proof.
  revert acc. induction d as [|[k v] d IH]; intro acc; simpl; [unfold total; simpl; lia|].
  rewrite IH, total_dict_add. unfold total. simpl. lia.
Qed.
Lemma group_total idx d : total (group idx d) = total d.
Proof. unfold group. rewrite group_total_gen. unfold total. simpl. lia. Qed.

Lemma lookup_dict_add k k' v d :
  lookup k (dict_add k' v d) =
  if key_eqb k k' then Some (match lookup k d with Some x => x + v | None => v end) else lookup k d.
Proof.
  unfold lookup. induction d as [|[k2 v2] d IH]; simpl.
  - destruct (key_eqb k k') eqn:E; simpl; rewrite ?E; reflexivity.
  - destruct (key_eqb k' k2) eqn:E2; simpl.
    + apply key_eqb_eq in E2. subst k2. destruct (key_eqb k k') eqn:E; reflexivity.
    + destruct (key_eqb k k2) eqn:E3; simpl.
      * destruct (key_eqb k k') eqn:E; [|reflexivity]. apply key_eqb_eq in E, E3. subst. rewrite key_eqb_refl in E2. discriminate.
      * exact IH.
Qed.

Lemma keys_dict_add_nodup k v d : NoDup (keys d) -> NoDup (keys (dict_add k v d)).
Proof.
  unfold keys. induction d as [|[k' v'] d IH]; simpl; intro H; [constructor; [intros []|constructor]|].
  inversion H; subst. destruct (key_eqb k k') eqn:E; simpl; [constructor; assumption|].
  constructor; [|apply IH; assumption]. intro Hin.
  assert (G : forall x, In x (map fst (dict_add k v d)) -> x = k \/ In x (map fst d)).
  { clear. induction d as [|[k2 v2] d IH]; simpl; [intros x [<-|[]]; auto|].
    destruct (key_eqb k k2); simpl; intros x [<-|Hx]; auto. destruct (IH x Hx); auto. }
  destruct (G _ Hin) as [->|Hd]; [rewrite key_eqb_refl in E; discriminate|contradiction].
Qed.

Lemma group_nodup_gen idx d acc : NoDup (keys acc) ->
  NoDup (keys (fold_left (fun acc kv => dict_add (select idx (fst kv)) (snd kv) acc) d acc)).
Proof. revert acc. induction d as [|[k v] d IH]; intros acc H; simpl; [exact H|]. apply IH, keys_dict_add_nodup, H. Qed.
Lemma group_nodup idx d : NoDup (keys (group idx d)).
Proof. apply group_nodup_gen. constructor. Qed.

Definition oz (o : option Z) := match o with Some x => x | None => 0 end.

Lemma group_value_gen idx k' d acc :
  oz (lookup k' (fold_left (fun acc kv => dict_add (select idx (fst kv)) (snd kv) acc) d acc))
  = oz (lookup k' acc) + sum_where (fun k => key_eqb k' (select idx k)) d.
Proof.
  revert acc. induction d as [|[k v] d IH]; intro acc; simpl; [unfold sum_where; simpl; lia|].
  rewrite IH, lookup_dict_add. unfold sum_where. simpl.
  destruct (key_eqb k' (select idx k)); simpl; [destruct (lookup k' acc); simpl; lia|lia].
Qed.
(* the value reported under a regrouped key is the sum of the entries that project onto it *)
Lemma group_value idx k' d : oz (lookup k' (group idx d)) = sum_where (fun k => key_eqb k' (select idx k)) d.
Proof. unfold group. rewrite group_value_gen. reflexivity. Qed.

(* ---- maxima *)
Lemma lookup_dict_max k k' v d :
  lookup k (dict_max k' v d) =
  if key_eqb k k' then Some (match lookup k d with Some x => Z.max x v | None => v end) else lookup k d.
Proof.
  unfold lookup. induction d as [|[k2 v2] d IH]; simpl.
  - destruct (key_eqb k k') eqn:E; simpl; rewrite ?E; reflexivity.
  - destruct (key_eqb k' k2) eqn:E2; simpl.
    + apply key_eqb_eq in E2. subst k2. destruct (key_eqb k k') eqn:E; reflexivity.
    + destruct (key_eqb k k2) eqn:E3; simpl.
      * destruct (key_eqb k k') eqn:E; [|reflexivity]. apply key_eqb_eq in E, E3. subst. rewrite key_eqb_refl in E2. discriminate.
      * exact IH.
Qed.

Definition is_max_of (m : Z) (l : list Z) : Prop := In m l /\ forall x, In x l -> x <= m.
Definition members (p : key -> bool) (d : list (key * Z)) : list Z := map snd (filter (fun kv => p (fst kv)) d).

Lemma max_fold_gen (f : key -> key) k' d acc :
  match lookup k' (fold_left (fun acc kv => dict_max (f (fst kv)) (snd kv) acc) d acc) with
  | Some m => match lookup k' acc with
              | Some a => is_max_of m (a :: members (fun k => key_eqb k' (f k)) d)
              | None => is_max_of m (members (fun k => key_eqb k' (f k)) d) end
  | None => lookup k' acc = None /\ members (fun k => key_eqb k' (f k)) d = []
  end.
Proof.
  revert acc. induction d as [|[k v] d IH]; intro acc; simpl.
  - unfold members. simpl. destruct (lookup k' acc) as [a|]; [|auto]. split; [left; reflexivity|intros x [<-|[]]; lia].
  - specialize (IH (dict_max (f k) v acc)). rewrite lookup_dict_max in IH. unfold members in *. simpl.
    destruct (key_eqb k' (f k)) eqn:E; simpl.
    + destruct (lookup k' (fold_left _ d _)) as [m|]; [|destruct IH; discriminate].
      destruct (lookup k' acc) as [a|]; destruct IH as [I1 I2]; split.
      * destruct I1 as [I1|I1]; [|right; right; exact I1]. destruct (Z.max_spec a v) as [[_ Hm]|[_ Hm]]; rewrite Hm in I1; [right; left|left]; exact I1.
      * intros x [<-|[<-|Hx]]; [pose proof (I2 (Z.max a v) (or_introl eq_refl)); lia|pose proof (I2 (Z.max a v) (or_introl eq_refl)); lia|apply I2; right; exact Hx].
      * exact I1.
      * exact I2.
    + exact IH.
Qed.

(* per-Einsum latency = the maximum of that Einsum's component latencies *)
Lemma per_einsum_is_max d e m : lookup [e] (per_einsum_latency d) = Some m ->
  is_max_of m (members (fun k => key_eqb [e] (select [0%nat] k)) d).
Proof.
  intro H. pose proof (max_fold_gen (select [0%nat]) [e] d []) as G. unfold per_einsum_latency in H. rewrite H in G. exact G.
Qed.
Lemma per_einsum_none d e : lookup [e] (per_einsum_latency d) = None -> members (fun k => key_eqb [e] (select [0%nat] k)) d = [].
Proof.
  intro H. pose proof (max_fold_gen (select [0%nat]) [e] d []) as G. unfold per_einsum_latency in H. rewrite H in G. apply G.
Qed.
