"""Regenerates the seeded-changes table in DESIGN.md (between the SEED-TABLE markers) and seeded/README.md from seeded/*/meta.json."""
import json
import re
from pathlib import Path

ROOT = Path(__file__).resolve().parent.parent


def first_line(notes: str) -> str:
    for l in notes.splitlines():
        l = l.strip().lstrip("#").strip()
        if l and not l.lower().startswith(("c0", "c1", "c2", "c3", "seed")) or "(" in l:
            if l:
                return l[:150]
    return ""


def main():
    rows = []
    for d in sorted((ROOT / "seeded").iterdir()):
        f = d / "meta.json"
        if not f.exists():
            continue
        m = json.loads(f.read_text())
        res = m.get("result", {})
        by = [c for c, r in res.items() if r.get("rc") == 1 and any(l.startswith("VIOLATION") for l in r.get("lines", []))]
        missed = [c for c in res if c not in by]
        patch = (d / "patch.diff").read_text()
        files = sorted(set(re.findall(r"^\+\+\+ b/(\S+)", patch, flags=re.M)))
        what = first_line(m.get("needs_to_manifest", ""))
        rows.append((d.name, ", ".join(x.split("/")[-1] for x in files), ", ".join(by) or "-", ", ".join(missed) or "-", what))
    lines = ["| seed | file(s) changed | caught by | also run, silent | change |", "|---|---|---|---|---|"]
    for r in rows:
        lines.append("| " + " | ".join(x.replace("|", "/") for x in r) + " |")
    table = "\n".join(lines)
    p = ROOT / "DESIGN.md"
    s = p.read_text()
    a, b = s.index("<!-- SEED-TABLE-BEGIN -->"), s.index("<!-- SEED-TABLE-END -->")
    s = s[:a] + "<!-- SEED-TABLE-BEGIN -->\n" + table + "\n" + s[b:]
    p.write_text(s)
    (ROOT / "seeded" / "README.md").write_text("# Seeded changes\n\nOne directory per kept seed: patch.diff, demo.py (exit 0 clean / 1 patched), notes.md, meta.json.\n\n" + table + "\n")
    print(f"{len(rows)} seeds; undetected: {[r[0] for r in rows if r[2] == '-']}")


if __name__ == "__main__":
    main()
