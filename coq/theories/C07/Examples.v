From Coq Require Import ZArith QArith List Bool.
Import ListNotations.
From AF Require Import Lib.MiniForge C05.Proofs C05.Examples C07.Model C07.Proofs.
Open Scope Z_scope.
(* the C05 example as a template: the two outer tile shapes are the symbols x0 (of m) and x1 (of k) *)
Definition ex_tp : list tnode :=
  [TSto 0 0; TSto 0 1; TSto 0 2; TLoop 0 (EVar 0); TSto 1 0; TLoop 1 (EVar 1); TSto 1 1; TSto 1 2; TLoop 2 (EConst 1); TLoop 0 (EConst 1); TLoop 1 (EConst 1)].
Definition ex_sigma (i : nat) : Z := match i with O => 2 | _ => 3 end.
Example ex_inst : instantiate ex_sigma ex_tp = ex_m. Proof. reflexivity. Qed.
Example ex_premise : valid_loops (instantiate ex_sigma ex_tp) (s_bounds ex_sp) = true. Proof. vm_compute. reflexivity. Qed.
(* the formulas are not constants: C's GlobalBuffer counts at (2,3), (4,6), (1,1) *)
Example ex_formula_values :
  map (fun s => den2 (fun i => match i with O => fst s | _ => snd s end) (stcounts ex_sp ex_tp 2 1)) [(2, 3); (4, 6); (1, 1)]
  = [(56, 56); (48, 48); (88, 88)].
Proof. vm_compute. reflexivity. Qed.
