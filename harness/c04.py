"""C04 — mapper-reported metrics equal the model's evaluation of the returned mapping."""
import json
import os
from fractions import Fraction

import common
import gen_mini as G
import mini_space as S
import mapper_ref as R
import c01
import c05

TRUSTED = c01.TRUSTED[:2] + [
    "three computations are compared per returned mapping: (a) the joiner's columns (map_workload_to_arch, eval_in_detail=False), (b) the real model on the reconstructed mapping "
    "(evaluate_mapping / eval_in_detail=True), (c) for single-Einsum specs the MiniForge model evaluated in Coq; the Coq theorems are C05 (model = execution) and the additive composition of C04/Props.v",
    "multi-Einsum results (matmul chains on the example architecture, fused and unfused) are compared (a) vs (b) only: fused mappings are outside MiniForge",
]


def numeric_cols(row):
    return {c: v for c, v in row.items() if isinstance(v, float)}


def compare_rows(a, b, tol=2e-5):
    """columns present in both must agree; returns list of problems"""
    bad = []
    for c in sorted(set(a) & set(b)):
        if "mapping" in c:
            continue
        x, y = a[c], b[c]
        if abs(x - y) > tol * max(1.0, abs(x), abs(y)):
            bad.append(f"{c}: joiner {x} vs model {y}")
    return bad


def run(ck):
    af, evaluate_mapping = R.load()
    from accelforge.mapper.FFM.main import map_workload_to_arch
    ck.prove()
    rng = ck.rng("specs")
    d = common.BUILD / "run" / f"c04-{os.getpid()}"
    d.mkdir(parents=True, exist_ok=True)
    exprs, keys = [], []
    dist = {"single_einsum_rows": 0, "multi_einsum_rows": 0, "columns_compared": 0}
    # ---- single-Einsum specs: joiner vs real model vs Coq model
    for i in range(ck.n(8, 100)):
        spec, space = R.gen_search_spec(rng, max_space=ck.n(3000, 20000))
        for metrics in (["ENERGY", "LATENCY"], ["ENERGY_DELAY_PRODUCT"]) + ((["ENERGY", "RESOURCE_USAGE"],) if i % 2 == 0 else ()):
            fast = R.run_mapper(af, spec, d, metrics, eval_in_detail=False)
            slow = R.run_mapper(af, spec, d, metrics, eval_in_detail=True)
            ck.case(json.dumps([spec, metrics], sort_keys=True, default=str), nontrivial=True, sample={"bounds": spec["bounds"], "metrics": metrics, "rows": len(fast["rows"])})
            if fast["error"] or slow["error"]:
                if R.reference(spec, space):
                    ck.failing_input({"spec": spec, "metrics": metrics, "errors": [fast["error"], slow["error"]], "arch_yaml": S.arch_yaml(spec), "workload_yaml": G.workload_yaml(spec)},
                                     what="the mapper raised although valid mappings exist")
                continue
            if len(fast["rows"]) != len(slow["rows"]):
                ck.failing_input({"spec": spec, "metrics": metrics, "rows": [len(fast["rows"]), len(slow["rows"])]}, what="eval_in_detail changes the number of returned mappings")
                continue
            for j, (ra, rb) in enumerate(zip(fast["rows"], slow["rows"])):
                dist["single_einsum_rows"] += 1
                bad = compare_rows(numeric_cols(ra), numeric_cols(rb))
                dist["columns_compared"] += len(set(numeric_cols(ra)) & set(numeric_cols(rb)))
                m = ra.get("mapping_nodes")
                if m is not None:
                    real = c01.confirm_with_model(af, evaluate_mapping, spec, m, d)
                    if isinstance(real, str):
                        bad.append("the reconstructed mapping is rejected by the model: " + real)
                    else:
                        for name, x, y in (("energy", ra.get("Total<SEP>energy"), real[0]), ("latency", ra.get("Total<SEP>latency"), real[1]),
                                           ("energy_delay_product", ra.get("Total<SEP>energy_delay_product"), real[0] * real[1])):
                            if x is not None and not R.close(x, y, 2e-5):
                                bad.append(f"Total {name}: joiner {x} vs standalone evaluation of the reconstructed mapping {y}")
                    q = lambda e: f"(let q := Qred ({e}) in (Qnum q, Z.pos (Qden q)))"  # noqa
                    exprs.append(f"(let sp := {G.coq_spec(spec)} in let mp := {G.coq_mapping(m)} in ({q('energy model_counts sp mp')}, {q('latency model_counts sp mp')}))")
                    keys.append((spec, m, ra))
                if "Total<SEP>energy_delay_product" in ra and "Total<SEP>energy" in ra and not R.close(ra["Total<SEP>energy_delay_product"], ra["Total<SEP>energy"] * ra["Total<SEP>latency"], 2e-5):
                    bad.append("EDP column is not energy x latency")
                if bad:
                    ck.failing_input({"spec": spec, "metrics": metrics, "row": j, "problems": bad[:8], "mapping": ra.get("mapping"),
                                      "arch_yaml": S.arch_yaml(spec), "workload_yaml": G.workload_yaml(spec)}, what="reported metrics differ from the model's evaluation: " + bad[0])
    # ---- multi-Einsum matmul chains: joiner vs real model
    for k in range(ck.n(4, 24)):
        n = 2 + (k // 2) % 2
        kw = {"N_EINSUMS": n, "M": rng.choice([2, 4, 8]), "KN": rng.choice([2, 4, 8]), "GlobalBufferSize": rng.choice([64, 256, 1024, 8192])}
        for metrics in ([af.Metrics.ENERGY | af.Metrics.RESOURCE_USAGE, af.Metrics.ENERGY | af.Metrics.LATENCY, af.Metrics.ENERGY,
                         af.Metrics.ENERGY | af.Metrics.LATENCY | af.Metrics.RESOURCE_USAGE][k % 4],):
            spec = af.Spec.from_yaml(af.examples.arches.simple, af.examples.workloads.basic.matmuls, jinja_parse_data=kw)
            spec.mapper.metrics = metrics
            try:
                fast = map_workload_to_arch(spec, eval_in_detail=False)
                spec2 = af.Spec.from_yaml(af.examples.arches.simple, af.examples.workloads.basic.matmuls, jinja_parse_data=kw)
                spec2.mapper.metrics = metrics
                slow = map_workload_to_arch(spec2, eval_in_detail=True)
            except Exception as ex:  # noqa
                ck.failing_input({"jinja": kw, "error": f"{type(ex).__name__}: {str(ex)[:300]}"}, what="the mapper raised on a matmul chain")
                continue
            ck.case(("chain", json.dumps(kw), str(metrics)), nontrivial=True, sample={"matmul_chain": kw, "rows": len(fast)})
            if len(fast) != len(slow):
                ck.failing_input({"jinja": kw, "rows": [len(fast), len(slow)]}, what="eval_in_detail changes the number of returned mappings")
                continue
            for j in range(len(fast)):
                dist["multi_einsum_rows"] += 1
                ra = {c: float(fast.data[c].iloc[j]) for c in fast.columns if "mapping" not in c}
                rb = {c: float(slow.data[c].iloc[j]) for c in slow.columns if "mapping" not in c}
                bad = compare_rows(ra, rb)
                dist["columns_compared"] += len(set(ra) & set(rb))
                # per-Einsum breakdown sums to the totals
                es = sum(v for c, v in rb.items() if c.split("<SEP>")[1:2] == ["energy"] and not c.startswith("Total<SEP>"))
                if not R.close(es, rb["Total<SEP>energy"], 2e-5):
                    bad.append(f"per-Einsum energy columns sum to {es}, Total energy is {rb['Total<SEP>energy']}")
                if bad:
                    ck.failing_input({"jinja": kw, "row": j, "problems": bad[:8]}, what="reported metrics differ from the model's evaluation (matmul chain): " + bad[0])
    # ---- chains on generated architectures with an Einsum-dependent attribute: joiner numbers vs STANDALONE evaluate_mapping
    # (spec.mapping set, no flattened architectures handed over) of the very mapping each row denotes
    import copy
    import join_ref as JR
    jrng = ck.rng("chains")
    dist["standalone_rows"] = 0
    for k in range(ck.n(5, 30)):
        p = JR.gen_spec(jrng, allow_three=False)
        if k % 2 == 0:
            p["gbpv"] = jrng.choice(["weight: 16", "input: 4", "output: 16"])
        metrics = [af.Metrics.ENERGY | af.Metrics.LATENCY, af.Metrics.ENERGY | af.Metrics.RESOURCE_USAGE, af.Metrics.ENERGY][k % 3]
        try:
            cwd = os.getcwd()
            os.chdir(d)
            try:
                sp = JR.load_spec(af, p, d, metrics)
                fast = map_workload_to_arch(sp, eval_in_detail=False, print_progress=False)
            finally:
                os.chdir(cwd)
        except Exception as ex:  # noqa
            dist["chain_mapper_errors"] = dist.get("chain_mapper_errors", 0) + 1
            continue
        ck.case(("gen-chain", json.dumps(p, sort_keys=True, default=str), str(metrics)), nontrivial=True,
                sample={"params": {q: p[q] for q in ("n", "M", "ns", "glb", "gbpv")}, "rows": len(fast.data)})
        for j in range(min(len(fast.data), 4)):
            row = fast.data.iloc[j]
            try:
                local = copy.deepcopy(sp)
                local.model.metrics = local.mapper.info_metrics
                local.mapping = row["Total<SEP>mapping"](_for_model=True)
                cwd = os.getcwd()
                os.chdir(d)
                try:
                    alone = evaluate_mapping(local)
                finally:
                    os.chdir(cwd)
                e2, l2 = float(alone.energy()), float(alone.latency())
            except Exception as ex:  # noqa
                ck.failing_input({"params": p, "row": j, "error": f"{type(ex).__name__}: {str(ex)[:300]}", "arch_yaml": JR.yaml_text(p)[0], "workload_yaml": JR.yaml_text(p)[1]},
                                 what="standalone evaluate_mapping rejects a mapping the mapper returned")
                continue
            dist["standalone_rows"] += 1
            bad = [f"Total {nm}: joiner {float(row[c])} vs standalone evaluation {v}" for nm, c, v in (("energy", "Total<SEP>energy", e2), ("latency", "Total<SEP>latency", l2))
                   if c in fast.data.columns and not R.close(float(row[c]), v, 2e-5)]
            if bad:
                ck.failing_input({"params": p, "row": j, "problems": bad, "arch_yaml": JR.yaml_text(p)[0], "workload_yaml": JR.yaml_text(p)[1]},
                                 what="reported metrics differ from the standalone evaluation of the returned mapping (generated chain): " + bad[0])
    vals = common.run_coq_eval("C04", ["AF.Lib.MiniForge"], exprs, chunk=20, preamble="From Coq Require Import QArith.\nOpen Scope Z_scope.")
    mism = []
    for (spec, m, ra), v in zip(keys, vals):
        e, l = Fraction(v[0], v[1]), Fraction(*v[2])   # Coq prints ((a, b), (c, d)) as (a, b, (c, d))
        probs = [n for n, x, y in (("energy", ra.get("Total<SEP>energy"), e), ("latency", ra.get("Total<SEP>latency"), l), ("edp", ra.get("Total<SEP>energy_delay_product"), e * l))
                 if x is not None and not R.close(x, y, 2e-5)]
        if probs:
            mism.append({"mapping": G.mapping_yaml(spec, m), "differs": probs, "joiner": {k: v for k, v in ra.items() if k.startswith("Total")}, "coq_model": [float(e), float(l)]})
    ck.count("coq_model_vs_joiner_compared", len(keys))
    ck.count("coq_model_vs_joiner_mismatches", len(mism))
    if mism and not ck.violations:
        ck.unexplained("broken-correspondence", {"mismatches": mism[:2]}, what="MiniForge model disagrees with the joiner's totals on a returned mapping")
    return ck.finish(
        rule="every mapping returned for random single-Einsum specs (as in C01; ENERGY|LATENCY and EDP) and for 2-3-Einsum matmul chains on the example architecture (several buffer sizes): "
             "joiner columns vs eval_in_detail re-evaluation vs standalone evaluate_mapping of the reconstructed mapping vs (single Einsum) the Coq model; non-trivial = every row",
        trusted=TRUSTED,
        extra={"input_distribution": dist,
               "source_fingerprint": [common.fingerprint("accelforge/mapper/FFM/main.py", ["map_workload_to_arch"]),
                                      common.fingerprint("accelforge/mapper/FFM/_join_pmappings/pmapping_dataframe.py", ["PmappingDataframe"])]})


def replay(ck, data):
    print("replay: re-run ./check C04 with the recorded seed (the failing spec is in the replay file)")
    return 0
