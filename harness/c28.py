"""C28 — result breakdowns aggregate consistently to the reported totals."""
import itertools
import json

import common
import gen_arch
from common import coq_Z, coq_list, coq_nat

TRUSTED = [
    "modelled: Mappings._get_cols / access (first-occurrence index, position removal, error on repeated key or varying index), the (einsum, component, tensor, action) "
    "dictionaries of energy()/actions() (dict assignment semantics), flag-driven regrouping, latency() (max over components per Einsum, sums), resource_usage() (max per resource)",
    "pandas Series arithmetic, _series2list and float formatting are exercised by the correspondence only; values are integers so float sums are exact",
    "Total<SEP>... columns are produced by run_model / the joiner (C04): on synthetic tables the harness sets them to the sums the property names, on real results they are read from the table",
]
RES = ["energy", "action", "latency", "reservation", "leak", "None", "Total"]


class Names:
    def __init__(self):
        self.ids = {n: i for i, n in enumerate(RES)}

    def id(self, n):
        n = str(n)
        if n not in self.ids:
            self.ids[n] = len(self.ids)
        return self.ids[n]


def synth(rng, af, cache={}):
    """a synthetic result table over a real matmul-chain workload; returns (Mappings, info)"""
    import pandas as pd
    from accelforge.mapper.FFM.mappings import Mappings
    n = rng.randint(1, 3)
    if n not in cache:
        cache[n] = af["af"].Spec.from_yaml(af["af"].examples.arches.simple, af["af"].examples.workloads.basic.matmuls,
                                          jinja_parse_data={"N_EINSUMS": n, "M": 4, "KN": 4, "GlobalBufferSize": 1024})
    spec = cache[n]
    einsums = [str(e.name) for e in spec.workload.einsums]
    tensors = {e: [str(t) for t in spec.workload.einsums[e].tensor_names] for e in einsums}
    comps = ["MainMemory", "GlobalBuffer", "MAC"] + (["Reg"] if rng.random() < 0.4 else [])
    adversarial = None
    r = rng.random()
    # (a component named like a tensor is not generated: component names and tensor names share the namespace of
    #  set expressions -- `keep: ~MainMemory` -- so no legitimate spec produces such a result table; see DESIGN C28)
    if r < 0.08:
        adversarial = "component named like an action"
        comps.append("read")
    nrows = rng.randint(1, 3)
    cols = {}

    def val():
        return [rng.choice([0, 0, 1, 2, 3, 5, 8, 13, 64, 100]) for _ in range(nrows)]
    for e in einsums:
        for c in comps:
            if c == "MAC":
                cols[f"{e}<SEP>energy<SEP>{c}<SEP>None<SEP>compute"] = val()
                cols[f"{e}<SEP>action<SEP>{c}<SEP>None<SEP>compute"] = val()
            else:
                for t in tensors[e]:
                    if rng.random() < 0.75:
                        for a in ("read", "write"):
                            if rng.random() < 0.9:
                                cols[f"{e}<SEP>energy<SEP>{c}<SEP>{t}<SEP>{a}"] = val()
                            cols[f"{e}<SEP>action<SEP>{c}<SEP>{t}<SEP>{a}"] = val()
                        cols[f"{e}<SEP>usage<SEP>memory<SEP>{c}<SEP>{t}"] = val()
            if rng.random() < 0.8:
                cols[f"{e}<SEP>energy<SEP>{c}<SEP>leak"] = val()
            if rng.random() < 0.85:
                cols[f"{e}<SEP>latency<SEP>{c}"] = val()
        if not any(k.startswith(f"{e}<SEP>latency<SEP>") for k in cols):
            cols[f"{e}<SEP>latency<SEP>MAC"] = val()
        cols[f"{e}<SEP>mapping"] = [None] * nrows
    for c in comps[:2]:
        for idx in rng.sample(["-1", "0", "1"], rng.randint(1, 3)):
            for side in ("left", "right"):
                if rng.random() < 0.7:
                    cols[f"reservation<SEP>{c}<SEP>{idx}<SEP>{side}"] = val()
    if not any(k.startswith("reservation") for k in cols):
        cols["reservation<SEP>MainMemory<SEP>-1<SEP>right"] = val()
    tot_e = [sum(v[i] for k, v in cols.items() if k.split("<SEP>")[1:2] == ["energy"]) for i in range(nrows)]
    tot_l = [sum(max([v[i] for k, v in cols.items() if k.split("<SEP>")[:2] == [e, "latency"]] or [0]) for e in einsums) for i in range(nrows)]
    cols["Total<SEP>energy"] = tot_e
    cols["Total<SEP>latency"] = tot_l
    cols["Total<SEP>leak_energy"] = [sum(v[i] for k, v in cols.items() if k.endswith("<SEP>leak")) for i in range(nrows)]
    cols["Total<SEP>mapping"] = [None] * nrows
    keys = list(cols)
    rng.shuffle(keys)
    df = pd.DataFrame({k: cols[k] for k in keys})
    m = Mappings(spec, einsums, df, 1, 1, {}, {})
    return m, {"einsums": einsums, "tensors": tensors, "adversarial": adversarial, "nrows": nrows}


def real(rng, af, k):
    from accelforge.mapper.FFM.main import map_workload_to_arch
    a = af["af"]
    a.set_n_parallel_jobs(1)
    n = 1 + k % 3
    spec = a.Spec.from_yaml(a.examples.arches.simple, a.examples.workloads.basic.matmuls,
                            jinja_parse_data={"N_EINSUMS": n, "M": rng.choice([2, 4, 6]), "KN": rng.choice([2, 4, 6]), "GlobalBufferSize": rng.choice([64, 256, 4096])})
    if k % 2:
        spec.mapper.metrics = a.Metrics.ENERGY | a.Metrics.LATENCY
    # instance counts: workload-level and per-Einsum multipliers scale every summable column
    spec.workload.n_instances = rng.choice([1, 2])
    for e in spec.workload.einsums:
        e.n_instances = rng.choice([1, 1, 3, 5])
    m = map_workload_to_arch(spec)
    einsums = [str(e) for e in m.einsum_names]
    return m, {"einsums": einsums, "tensors": {e: [str(t) for t in spec.workload.einsums[e].tensor_names] for e in einsums}, "adversarial": None, "nrows": len(m)}


def as_list(v, n):
    if isinstance(v, (list, tuple)):
        return [float(x) for x in v]
    try:
        return [float(x) for x in list(v)]
    except TypeError:
        return [float(v)] * 1 if n == 1 else [float(v)] * n


def run_impl(m, n):
    """every accessor, every flag combination, twice (mutation check)"""
    out = {}
    snap = m.data.select_dtypes("number").copy()
    for rnd in range(2):
        for fl in itertools.product([False, True], repeat=4):
            out[("energy", fl, rnd)] = m.energy(*fl, list_if_one_mapping=True)
        for fl in itertools.product([False, True], repeat=3):
            out[("actions", fl, rnd)] = m.actions(*fl, list_if_one_mapping=True)
        for fl in itertools.product([False, True], repeat=2):
            out[("latency", fl, rnd)] = m.latency(*fl, list_if_one_mapping=True)
        out[("usage", (), rnd)] = m.resource_usage(list_if_one_mapping=True)
    out["mutated"] = not snap.equals(m.data.select_dtypes("number"))
    return out


def norm(v, n, row):
    """accessor result -> {key tuple: value at row}"""
    if isinstance(v, dict):
        return {(k if isinstance(k, tuple) else (k,)): float(x[row]) for k, x in v.items()}
    return {(): float(v[row])}


def check_property(m, info, out):
    """the property evaluated on the implementation's own outputs; returns list of problems"""
    bad = []
    n = info["nrows"]
    df = m.data
    for row in range(n):
        tot_e = float(df["Total<SEP>energy"].iloc[row])
        tot_l = float(df["Total<SEP>latency"].iloc[row])
        act_cols = [c for c in df.columns if c.split("<SEP>")[1:2] == ["action"]]
        tot_a = float(sum(df[c].iloc[row] for c in act_cols))
        for fl in itertools.product([False, True], repeat=4):
            s = sum(norm(out[("energy", fl, 0)], n, row).values())
            if abs(s - tot_e) > 1e-6 * max(1, abs(tot_e)):
                bad.append(f"row {row}: energy{fl} sums to {s}, Total energy column is {tot_e}")
        for fl in itertools.product([False, True], repeat=3):
            s = sum(norm(out[("actions", fl, 0)], n, row).values())
            if abs(s - tot_a) > 1e-6 * max(1, abs(tot_a)):
                bad.append(f"row {row}: actions{fl} sums to {s}, action columns sum to {tot_a}")
        lat = {fl: norm(out[("latency", fl, 0)], n, row) for fl in itertools.product([False, True], repeat=2)}
        if abs(lat[(False, False)][()] - tot_l) > 1e-6 * max(1, abs(tot_l)):
            bad.append(f"row {row}: latency() = {lat[(False, False)][()]}, Total latency column is {tot_l}")
        pe, pec = lat[(True, False)], lat[(True, True)]
        if abs(sum(pe.values()) - tot_l) > 1e-6 * max(1, abs(tot_l)):
            bad.append(f"row {row}: per-Einsum latencies sum to {sum(pe.values())}, Total latency is {tot_l}")
        for (e,), v in pe.items():
            mx = max([x for (e2, c), x in pec.items() if e2 == e] or [0])
            if abs(v - mx) > 1e-9:
                bad.append(f"row {row}: latency of {e} = {v} but max component latency = {mx}")
        pc = lat[(False, True)]
        for (c,), v in pc.items():
            sm = sum(x for (e2, c2), x in pec.items() if c2 == c)
            if abs(v - sm) > 1e-9:
                bad.append(f"row {row}: per-component latency of {c} = {v}, sum over Einsums = {sm}")
        use = norm(out[("usage", (), 0)], n, row)
        for c in df.columns:
            sp = c.split("<SEP>")
            if sp[0] == "reservation" and len(sp) == 4:
                pass
        res = {}
        for c in df.columns:
            sp = c.split("<SEP>")
            if sp[0] == "reservation" and len(sp) == 4:
                res[sp[1]] = max(res.get(sp[1], 0.0), float(df[c].iloc[row]))
        if {k[0]: v for k, v in use.items()} != res:
            bad.append(f"row {row}: resource_usage {use} != max reservation per memory {res}")
    for k, v in out.items():
        if isinstance(k, tuple) and k[2] == 1:
            a, b = out[(k[0], k[1], 0)], v
            cz = lambda x: sorted((str(kk), str(vv)) for kk, vv in x.items()) if isinstance(x, dict) else str(x)  # noqa
            if cz(a) != cz(b):
                bad.append(f"{k[0]}{k[1]} returns a different answer on the second call")
    if out.get("mutated"):
        bad.append("an accessor modified the result table in place")
    return bad[:6]


def coq_table(m, row, names):
    rows = []
    for c in m.data.columns:
        v = m.data[c].iloc[row]
        try:
            iv = int(v)
            if float(v) != iv:
                return None
        except (TypeError, ValueError):
            continue
        rows.append(f"({coq_list([names.id(t) for t in c.split('<SEP>')], coq_nat)}, {coq_Z(iv)})")
    return coq_list(rows)


def run(ck):
    af = gen_arch.load()
    import accelforge
    af["af"] = accelforge
    ck.prove()
    rng = ck.rng("tables")
    cases = []
    dist = {"synthetic": 0, "real": 0, "adversarial": {}, "rows": 0}
    for k in range(ck.n(3, 12)):
        cases.append(("real",) + real(rng, af, k))
    for _ in range(ck.n(150, 3000)):
        cases.append(("synthetic",) + synth(rng, af))
    exprs, keys = [], []
    for kind, m, info in cases:
        dist[kind] += 1
        dist["rows"] += info["nrows"]
        if info["adversarial"]:
            dist["adversarial"][info["adversarial"]] = dist["adversarial"].get(info["adversarial"], 0) + 1
        try:
            out = run_impl(m, info["nrows"])
        except Exception as ex:  # noqa
            ck.case(str(list(m.data.columns)), sample=None)
            ck.failing_input({"columns": list(m.data.columns), "values": m.data.select_dtypes("number").to_dict(orient="list"), "kind": kind,
                              "error": f"{type(ex).__name__}: {ex}", "adversarial": info["adversarial"]},
                             what=f"accessor raised {type(ex).__name__} on a {kind} result table")
            continue
        bad = check_property(m, info, out)
        ck.case(json.dumps(m.data.select_dtypes("number").to_dict(orient="list"), sort_keys=True), nontrivial=len(info["einsums"]) > 1 or kind == "real",
                sample={"kind": kind, "columns": list(m.data.columns)[:12], "energy()": out[("energy", (False,) * 4, 0)]})
        if bad:
            ck.failing_input({"columns": list(m.data.columns), "values": m.data.select_dtypes("number").to_dict(orient="list"), "kind": kind,
                              "einsums": info["einsums"], "tensors": info["tensors"], "problems": bad, "adversarial": info["adversarial"]},
                             what="result breakdowns: " + bad[0])
        names = Names()
        for e in info["einsums"]:
            names.id(e)
        es = coq_list([f"({names.id(e)}%nat, {coq_list([names.id(t) for t in info['tensors'][e]], coq_nat)})" for e in info["einsums"]])
        for row in range(info["nrows"]):
            t = coq_table(m, row, names)
            if t is None:
                ck.count("rows_with_non_integer_values_skipped_in_model_comparison")
                continue
            fl4 = coq_list([coq_list([str(b).lower() for b in fl]) for fl in itertools.product([False, True], repeat=4)])
            fl3 = coq_list([coq_list([str(b).lower() for b in fl]) for fl in itertools.product([False, True], repeat=3)])
            exprs.append(f"(let t := {t} in let es := {es} in (map (fun f => energy f es t) {fl4}, map (fun f => actions f es t) {fl3}, "
                         f"[latency false false es t; latency false true es t; latency true false es t; latency true true es t], resource_usage t))")
            keys.append((m, info, out, row, names))
    vals = common.run_coq_eval("C28", ["AF.C28.Model"], exprs, chunk=40, preamble="Open Scope Z_scope.")
    mism = []
    for (m, info, out, row, names), v in zip(keys, vals):
        inv = {i: n for n, i in names.ids.items()}
        n = info["nrows"]

        def model_dict(d):
            if d is None:
                return None
            d = d[1] if isinstance(d, tuple) and d[0] == "Some" else d
            return {tuple(inv[i] for i in k): float(x) for k, x in d}

        def impl_dict(x):
            r = norm(x, n, row)
            o = {}
            for k, v in r.items():   # python None (leak) and the string "None" (compute) are the same token in the model
                kk = tuple("None" if t is None else str(t) for t in k)
                o[kk] = o.get(kk, 0.0) + v
            return o
        en, ac, la, us = v
        pairs = []
        for fl, d in zip(itertools.product([False, True], repeat=4), en):
            pairs.append((("energy", fl), model_dict(d), impl_dict(out[("energy", fl, 0)])))
        for fl, d in zip(itertools.product([False, True], repeat=3), ac):
            pairs.append((("actions", fl), model_dict(d), impl_dict(out[("actions", fl, 0)])))
        for fl, d in zip(itertools.product([False, True], repeat=2), la):
            pairs.append((("latency", fl), model_dict(d), impl_dict(out[("latency", fl, 0)])))
        pairs.append((("usage", ()), model_dict(us), impl_dict(out[("usage", (), 0)])))
        for name, a, b in pairs:
            if a is None:
                mism.append({"accessor": str(name), "model": "error", "impl": str(b)[:300]})
                break
            a = {k: x for k, x in a.items()}
            if len(a) == 0 and b == {(): 0.0}:
                continue
            if a != b:
                mism.append({"accessor": str(name), "model": str(a)[:400], "impl": str(b)[:400], "columns": list(m.data.columns)})
                break
    ck.count("model_vs_impl_rows_compared", len(keys))
    ck.count("model_vs_impl_mismatches", len(mism))
    if mism and not ck.violations:
        ck.unexplained("broken-correspondence", {"mismatches": mism[:3]}, what="model accessors != Mappings accessors")
    return ck.finish(
        rule="result tables: real mapper results on 1-3-Einsum matmul chains plus synthetic tables over the same workloads (random integer energy/action/latency/leak/"
             "reservation columns, shared component names across Einsums, missing columns, shuffled column order, 1-3 rows, sometimes a component named like a tensor or an action); "
             "all 16 energy(), 8 actions(), 4 latency() flag combinations and resource_usage(), each called twice; non-trivial = several Einsums or a real result",
        trusted=TRUSTED,
        extra={"input_distribution": dist,
               "source_fingerprint": [common.fingerprint("accelforge/mapper/FFM/mappings.py", ["Mappings"])]})


def replay(ck, data):
    af = gen_arch.load()
    import accelforge
    import pandas as pd
    from accelforge.mapper.FFM.mappings import Mappings
    n = len(data["einsums"])
    spec = accelforge.Spec.from_yaml(accelforge.examples.arches.simple, accelforge.examples.workloads.basic.matmuls,
                                     jinja_parse_data={"N_EINSUMS": n, "M": 4, "KN": 4, "GlobalBufferSize": 1024})
    vals = data["values"]
    df = pd.DataFrame({c: vals[c] for c in data["columns"] if c in vals})
    m = Mappings(spec, data["einsums"], df, 1, 1, {}, {})
    info = {"einsums": data["einsums"], "tensors": data["tensors"], "nrows": len(df), "adversarial": data.get("adversarial")}
    try:
        bad = check_property(m, info, run_impl(m, len(df)))
    except Exception as ex:  # noqa
        bad = [str(ex)]
    if bad:
        print("VIOLATION property=C28 replay=<replayed>")
        return 1
    print("replay: property holds on this input now")
    return 0
